"""Symbolic byte strings as chunk lists (see DESIGN 2.4).

chunk kinds
  ('lit', bytes)                       concrete bytes
  ('byte', term)                       one symbolic byte, z3 Int constrained to 0..255 by its creator
  ('blob', f, off, length)             bytes f(off) .. f(off+length-1), f : Int -> Int uninterpreted;
                                       every application that is materialised gets a 0..255 fact
  ('view', base SBytes, start, length) unaligned slice of another SBytes (fallback)
Lengths / offsets are Python ints or z3 Int terms.
"""
import z3
from .values import *


class SBytes(object):
  __slots__ = ("chunks", "is_str")

  def __init__(self, chunks, is_str=False):
    self.chunks = _normalize(chunks)
    self.is_str = is_str

  @staticmethod
  def lit(b, is_str=False):
    return SBytes([("lit", bytes(b))], is_str)

  def concrete(self):
    """python bytes if fully concrete else None"""
    if not self.chunks:
      return b""
    if len(self.chunks) == 1 and self.chunks[0][0] == "lit":
      return self.chunks[0][1]
    return None

  def length(self):
    tot = 0
    for c in self.chunks:
      tot = _add(tot, chunk_len(c))
    return tot

  def fixed_length(self):
    l = self.length()
    return l if isinstance(l, int) else None

  def __repr__(self):
    out = []
    for c in self.chunks:
      if c[0] == "lit":
        out.append(repr(c[1]))
      elif c[0] == "byte":
        out.append("<%s>" % c[1])
      elif c[0] == "blob":
        out.append("<%s[%s:+%s]>" % (c[1].name(), c[2], c[3]))
      else:
        out.append("<view %r[%s:+%s]>" % (c[1], c[2], c[3]))
    return ("S" if self.is_str else "B") + "{" + " ".join(out) + "}"


def _add(a, b):
  if isinstance(a, int) and isinstance(b, int):
    return a + b
  if isinstance(a, int) and a == 0:
    return b
  if isinstance(b, int) and b == 0:
    return a
  return concretize(zint(a) + zint(b))


def _sub(a, b):
  if isinstance(a, int) and isinstance(b, int):
    return a - b
  if isinstance(b, int) and b == 0:
    return a
  return concretize(zint(a) - zint(b))


def chunk_len(c):
  if c[0] == "lit":
    return len(c[1])
  if c[0] == "byte":
    return 1
  return c[3]


def _normalize(chunks):
  out = []
  for c in chunks:
    if c[0] == "lit":
      if len(c[1]) == 0:
        continue
      if out and out[-1][0] == "lit":
        out[-1] = ("lit", out[-1][1] + c[1])
        continue
    elif c[0] in ("blob", "view"):
      l = c[3]
      if isinstance(l, int) and l == 0:
        continue
      # adjacent pieces of the same blob
      if c[0] == "blob" and out and out[-1][0] == "blob" and out[-1][1].eq(c[1]):
        p = out[-1]
        if _term_eq(_add(p[2], p[3]), c[2]):
          out[-1] = ("blob", p[1], p[2], _add(p[3], c[3]))
          continue
    out.append(c)
  return out


def _term_eq(a, b):
  if isinstance(a, int) and isinstance(b, int):
    return a == b
  d = concretize(zint(a) - zint(b))
  return isinstance(d, int) and d == 0


def new_blob(name, length):
  f = z3.Function(fresh_name(name), I, I)
  return SBytes([("blob", f, 0, length)])


def concat(a, b):
  return SBytes(list(a.chunks) + list(b.chunks), a.is_str)


def byte_at(sb, i, st):
  """value of byte i (int or term), assuming 0 <= i < len"""
  if isinstance(i, int):
    pos = 0
    for c in sb.chunks:
      l = chunk_len(c)
      if isinstance(pos, int) and isinstance(l, int):
        if i < pos + l:
          return _chunk_at(c, i - pos, st)
        pos += l
      else:
        break
    else:
      raise IndexError("byte_at beyond fixed length")
  # symbolic walk
  it = zint(i)
  pos = 0
  res = None
  conds = []
  for c in sb.chunks:
    l = chunk_len(c)
    end = _add(pos, l)
    v = zint(_chunk_at(c, _sub(i, pos), st, guard_sym=True))
    conds.append((it < zint(end), v))
    pos = end
  if not conds:
    return z3.IntVal(0)
  res = conds[-1][1]
  for cnd, v in reversed(conds[:-1]):
    res = z3.If(cnd, v, res)
  return concretize(res)


def _chunk_at(c, j, st, guard_sym=False):
  if c[0] == "lit":
    if isinstance(j, int):
      if 0 <= j < len(c[1]):
        return c[1][j]
      return 0
    data = c[1]
    if len(data) == 1:
      return data[0]
    # lookup table
    jt = zint(j)
    res = z3.IntVal(data[-1])
    for k in range(len(data) - 2, -1, -1):
      res = z3.If(jt == k, z3.IntVal(data[k]), res)
    return res
  if c[0] == "byte":
    return c[1]
  if c[0] == "blob":
    t = c[1](zint(_add(c[2], j)))
    st.add_range_fact(t)
    return t
  if c[0] == "view":
    return byte_at(c[1], _add(c[2], j), st)
  raise AssertionError(c)


def slice_bytes(sb, start, stop, st):
  """sb[start:stop] with 0 <= start <= stop <= len guaranteed by the caller"""
  if isinstance(start, int) and isinstance(stop, int) and start == stop:
    return SBytes([], sb.is_str)
  out = []
  pos = 0
  started = False
  done = False
  chunks = sb.chunks
  for idx, c in enumerate(chunks):
    l = chunk_len(c)
    end = _add(pos, l)
    if not started:
      # does the slice start inside/at this chunk?
      if st.entails_le(end, start) and not (idx == len(chunks) - 1):
        pos = end
        continue
      if st.entails_le(end, start) and idx == len(chunks) - 1:
        # start == len: empty
        return SBytes([], sb.is_str)
      if not st.entails_le(pos, start):
        return SBytes([("view", sb, start, _sub(stop, start))], sb.is_str)
      # pos <= start < end  (or undecided: check)
      if not st.entails_lt(start, end):
        return SBytes([("view", sb, start, _sub(stop, start))], sb.is_str)
      started = True
      lo = _sub(start, pos)
    else:
      lo = 0
    # now take from this chunk starting at lo; where does it stop?
    if st.entails_le(stop, end):
      hi = _sub(stop, pos)
      out.append(_subchunk(c, lo, hi, st))
      done = True
      break
    if st.entails_le(end, stop):
      out.append(_subchunk(c, lo, l, st))
      pos = end
      continue
    return SBytes([("view", sb, start, _sub(stop, start))], sb.is_str)
  if not done:
    if not started:
      return SBytes([], sb.is_str)
    # consumed everything: stop == len
  return SBytes([x for x in out if x is not None], sb.is_str)


def _subchunk(c, lo, hi, st):
  n = _sub(hi, lo)
  if isinstance(n, int) and n == 0:
    return None
  if c[0] == "lit":
    if isinstance(lo, int) and isinstance(hi, int):
      return ("lit", c[1][lo:hi])
    return ("view", SBytes([c]), lo, n)
  if c[0] == "byte":
    return c
  if c[0] == "blob":
    return ("blob", c[1], _add(c[2], lo), n)
  if c[0] == "view":
    return ("view", c[1], _add(c[2], lo), n)
  raise AssertionError(c)


def all_fixed(sb):
  return isinstance(sb.length(), int)


def bytes_eq(a, b, st):
  """formula / bool for a == b"""
  la, lb = a.length(), b.length()
  if isinstance(la, int) and isinstance(lb, int):
    if la != lb:
      return False
    if la <= 4096:
      cs = []
      for i in range(la):
        x = byte_at(a, i, st)
        y = byte_at(b, i, st)
        if isinstance(x, int) and isinstance(y, int):
          if x != y:
            return False
          continue
        if is_sym(x) and is_sym(y) and x.eq(y):
          continue
        cs.append(zint(x) == zint(y))
      return concretize(zand(*cs)) if cs else True
  if _struct_same(a, b):
    return True
  # general: fresh definitional Bool with both directions axiomatised
  e = fresh_bool("beq")
  i = fresh_int("bi")
  k = fresh_int("bk")
  leq = zint(la) == zint(lb)
  body = z3.Implies(z3.And(i >= 0, i < zint(la)), zint(byte_at(a, i, st)) == zint(byte_at(b, i, st)))
  st.add(z3.Implies(e, z3.And(leq, z3.ForAll([i], body))))
  st.add(z3.Implies(z3.Not(e),
                    z3.Or(z3.Not(leq),
                          z3.And(k >= 0, k < zint(la),
                                 zint(byte_at(a, k, st)) != zint(byte_at(b, k, st))))))
  return e


def _struct_same(a, b):
  if len(a.chunks) != len(b.chunks):
    return False
  for x, y in zip(a.chunks, b.chunks):
    if x[0] != y[0]:
      return False
    if x[0] == "lit":
      if x[1] != y[1]:
        return False
    elif x[0] == "byte":
      if not (x[1].eq(y[1])):
        return False
    elif x[0] == "blob":
      if not (x[1].eq(y[1]) and _term_eq(x[2], y[2]) and _term_eq(x[3], y[3])):
        return False
    else:
      if not (_struct_same(x[1], y[1]) and _term_eq(x[2], y[2]) and _term_eq(x[3], y[3])):
        return False
  return True


def be_int(sb, st):
  """big-endian integer value of a fixed-length SBytes"""
  n = sb.fixed_length()
  assert n is not None
  vals = [byte_at(sb, k, st) for k in range(n)]
  if all(isinstance(v, int) for v in vals):
    tot = 0
    for v in vals:
      tot = tot * 256 + v
    return tot
  tot = z3.IntVal(0)
  for k, v in enumerate(vals):
    tot = tot + zint(v) * (256 ** (n - 1 - k))
  t = z3.simplify(tot)
  if is_sym(t) and not z3.is_int_value(t):
    st.register_decomp(t, list(reversed(vals)))
    _register_bits_from_bytes(t, list(reversed(vals)), st)
    return t
  return concretize(t)


def _register_bits_from_bytes(t, bytes_le, st):
  bits = []
  for b in bytes_le:
    bb = st.bits_of(b)
    if bb is None:
      return
    if len(bb) > 8:
      return
    bits.extend(list(bb) + [0] * (8 - len(bb)))
  st.register_bits(t, bits)


def le_int(sb, st):
  n = sb.fixed_length()
  vals = [byte_at(sb, k, st) for k in range(n)]
  if all(isinstance(v, int) for v in vals):
    return int.from_bytes(bytes(vals), "little")
  tot = z3.IntVal(0)
  for k, v in enumerate(vals):
    tot = tot + zint(v) * (256 ** k)
  t = z3.simplify(tot)
  if is_sym(t) and not z3.is_int_value(t):
    st.register_decomp(t, list(vals))
    _register_bits_from_bytes(t, list(vals), st)
    return t
  return concretize(t)


def int_to_bytes(v, n, st, big=True, signed=False):
  """n bytes of integer v (already known to be in range)"""
  if isinstance(v, bool):
    v = int(v)
  if isinstance(v, int):
    return SBytes.lit(v.to_bytes(n, "big" if big else "little", signed=signed))
  zv = zint(v)
  if signed and zv.get_id() in st.unsigned_of and st.unsigned_of[zv.get_id()][2] == 8 * n:
    u = st.unsigned_of[zv.get_id()][1]
    bs = st.decompose(u, n, assume_range=True)
  elif signed:
    # two's complement image u = v mod 256^n
    u = fresh_int("u")
    st.add(u == z3.If(zv < 0, zv + 256 ** n, zv))
    st.add(z3.And(u >= 0, u < 256 ** n))
    bs = st.decompose(u, n, assume_range=True)
  else:
    bs = st.decompose(zv, n, assume_range=True)
  order = list(reversed(bs)) if big else list(bs)
  chunks = []
  for b in order:
    if isinstance(b, int):
      chunks.append(("lit", bytes([b])))
    else:
      chunks.append(("byte", b))
  return SBytes(chunks)
