"""Evaluation state (one symbolic path, possibly merged) and the solver front end."""
import time
import z3
from .values import *

_oid = [1000]


def new_oid():
  _oid[0] += 1
  return _oid[0]


class SolverStats(object):
  def __init__(self):
    self.queries = 0
    self.time = 0.0
    self.unknown = 0
    self.max_time = 0.0
    self.max_what = None


STATS = SolverStats()
DEFAULT_TIMEOUT_MS = 10000


def solve(assertions, timeout_ms=None, what=None, want_model=False):
  """returns ('sat'|'unsat'|'unknown', model-or-None)"""
  s = z3.Solver()
  s.set("timeout", timeout_ms or DEFAULT_TIMEOUT_MS)
  for a in assertions:
    if a is True:
      continue
    if a is False:
      return ("unsat", None)
    s.add(a)
  t0 = time.time()
  r = s.check()
  dt = time.time() - t0
  STATS.queries += 1
  STATS.time += dt
  if dt > STATS.max_time:
    STATS.max_time = dt
    STATS.max_what = what
  if r == z3.sat:
    return ("sat", s.model() if want_model else None)
  if r == z3.unsat:
    return ("unsat", None)
  STATS.unknown += 1
  return ("unknown", None)


class State(object):
  def __init__(self):
    self.pc = []
    self.heap = {}
    self.frames = {}
    self.ghost = {}
    self.ranged = set()
    self.trace = []      # notes (debugging / evidence)
    self._feas_cache = {}
    self.decomp = {}     # term id -> (term, [byte terms little endian])
    self.norange = set() # (term id, n) known not to be provably in [0, 256^n)
    self.unsigned_of = {}  # id of a two's-complement signed term -> (term, unsigned term, bits)

  def copy(self):
    s = State.__new__(State)
    s.pc = list(self.pc)
    s.heap = dict((k, v.copy()) for k, v in self.heap.items())
    s.frames = dict((k, dict(v)) for k, v in self.frames.items())
    s.ghost = dict(self.ghost)
    s.ranged = set(self.ranged)
    s.trace = list(self.trace)
    s._feas_cache = {}
    s.decomp = dict(self.decomp)
    s.norange = set(self.norange)
    s.unsigned_of = dict(self.unsigned_of)
    return s

  # ---- base-256 decomposition of bounded non-negative integers (keeps byte arithmetic linear)
  def register_decomp(self, term, bytes_le):
    self.decomp[term.get_id()] = (term, list(bytes_le))

  def decompose(self, term, n, assume_range=False):
    """little-endian byte terms b_0..b_{n-1} with term == sum b_i 256^i, or None when
    0 <= term < 256^n is not entailed by the path condition"""
    tid = term.get_id()
    ent = self.decomp.get(tid)
    if ent is not None:
      bs = ent[1]
      if len(bs) == n:
        return bs
      if len(bs) < n:
        return bs + [0] * (n - len(bs))
      # longer decomposition known: usable only if the high bytes are provably zero
      if all(self.entails(zint(b) == 0) for b in bs[n:]):
        return bs[:n]
      return None
    if not assume_range:
      if (tid, n) in self.norange:
        return None
      if not self.entails(z3.And(term >= 0, term < 256 ** n), "byte-range"):
        self.norange.add((tid, n))
        return None
    bs = [fresh_int("d") for _ in range(n)]
    tot = z3.IntVal(0)
    for i, b in enumerate(bs):
      self.pc.append(z3.And(b >= 0, b <= 255))
      tot = tot + b * (256 ** i)
    self.pc.append(term == tot)
    self.decomp[tid] = (term, bs)
    return bs

  def decompose_any(self, term, sizes=(1, 2, 4, 6, 8, 16)):
    tid = term.get_id()
    ent = self.decomp.get(tid)
    if ent is not None:
      return ent[1]
    for n in sizes:
      bs = self.decompose(term, n)
      if bs is not None:
        return bs
    return None

  # ---- facts
  def add(self, fact):
    if fact is True:
      return
    if is_sym(fact) and z3.is_true(fact):
      return
    self.pc.append(fact if is_sym(fact) else z3.BoolVal(bool(fact)))

  def add_range_fact(self, t):
    i = t.get_id()
    if i in self.ranged:
      return
    self.ranged.add(i)
    self.pc.append(z3.And(t >= 0, t <= 255))

  # ---- heap
  def alloc(self, kind, cls, data):
    oid = new_oid()
    self.heap[oid] = HObj(kind, cls, data)
    return Ref(oid)

  def obj(self, ref):
    return self.heap[ref.oid]

  # ---- solver queries under the path condition
  def check(self, extra, what=None, want_model=False, timeout_ms=None):
    return solve(self.pc + list(extra), what=what, want_model=want_model, timeout_ms=timeout_ms)

  def feasible(self, cond, what=None):
    """can cond hold under pc?  unknown counts as feasible"""
    cond = concretize(cond) if is_sym(cond) else cond
    if cond is True:
      return True
    if cond is False:
      return False
    r, _ = self.check([cond], what=what)
    return r != "unsat"

  def entails(self, cond, what=None):
    cond = concretize(cond) if is_sym(cond) else cond
    if cond is True:
      return True
    if cond is False:
      return False
    r, _ = self.check([z3.Not(cond)], what=what)
    return r == "unsat"

  def entails_le(self, a, b):
    if isinstance(a, int) and isinstance(b, int):
      return a <= b
    return self.entails(zint(a) <= zint(b))

  def entails_lt(self, a, b):
    if isinstance(a, int) and isinstance(b, int):
      return a < b
    return self.entails(zint(a) < zint(b))
