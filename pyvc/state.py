"""Evaluation state (one symbolic path, possibly merged) and the solver front end."""
import time
import os as _os
import sys as _sys
import z3
from .values import *

_oid = [1000]


def new_oid():
  _oid[0] += 1
  return _oid[0]


class SolverStats(object):
  def __init__(self):
    self.queries = 0
    self.time = 0.0
    self.unknown = 0
    self.max_time = 0.0
    self.max_what = None


STATS = SolverStats()
DEFAULT_TIMEOUT_MS = 10000
_TACTIC = z3.Then('simplify', 'solve-eqs', 'smt')
INCREMENTAL = _os.environ.get('PYVC_INCREMENTAL', '0') == '1'


def solve(assertions, timeout_ms=None, what=None, want_model=False):
  """returns ('sat'|'unsat'|'unknown', model-or-None)"""
  s = _TACTIC.solver()
  s.set("timeout", timeout_ms or DEFAULT_TIMEOUT_MS)
  for a in assertions:
    if a is True:
      continue
    if a is False:
      return ("unsat", None)
    s.add(a)
  t0 = time.time()
  r = s.check()
  if r == z3.unknown:
    # the plain SMT core gave up: let z3 pick its own strategy
    s = z3.Solver()
    s.set("timeout", timeout_ms or DEFAULT_TIMEOUT_MS)
    for a in assertions:
      if a is not True:
        s.add(a)
    r = s.check()
  dt = time.time() - t0
  STATS.queries += 1
  STATS.time += dt
  if _os.environ.get("PYVC_QLOG"):
    _sys.stderr.write("Q %.3f %s %s n=%d\n" % (dt, r, what, len(assertions)))
  if r == z3.unknown and _os.environ.get("PYVC_DEBUG") and not _os.path.exists("/tmp/pyvc_unkq.smt2"):
    open("/tmp/pyvc_unkq.smt2", "w").write(s.to_smt2())
  if dt > 0.5 and _os.environ.get("PYVC_DEBUG") and not _os.path.exists("/tmp/pyvc_slowq.smt2"):
    open("/tmp/pyvc_slowq.smt2", "w").write(s.to_smt2())
    _sys.stderr.write("SLOWQ %.2f %s %s\n" % (dt, r, what))
  if dt > STATS.max_time:
    STATS.max_time = dt
    STATS.max_what = what
  if r == z3.sat:
    return ("sat", s.model() if want_model else None)
  if r == z3.unsat:
    return ("unsat", None)
  STATS.unknown += 1
  return ("unknown", None)


class State(object):
  def __init__(self):
    self.pc = []
    self.heap = {}
    self.frames = {}
    self.ghost = {}
    self.ranged = set()
    self.trace = []      # notes (debugging / evidence)
    self._feas_cache = {}
    self.decomp = {}     # term id -> (term, [byte terms little endian])
    self.norange = set() # (term id, n) known not to be provably in [0, 256^n)
    self.unsigned_of = {}  # id of a two's-complement signed term -> (term, unsigned term, bits)
    self._solver = None
    self._solver_n = 0
    self.bitdecomp = {}   # term id -> (term, [bit terms little endian, each 0/1 int or z3 Int in {0,1}])
    self.has_quant = False

  def copy(self):
    s = State.__new__(State)
    s.pc = list(self.pc)
    s.heap = dict((k, v.copy()) for k, v in self.heap.items())
    s.frames = dict((k, dict(v)) for k, v in self.frames.items())
    s.ghost = dict(self.ghost)
    s.ranged = set(self.ranged)
    s.trace = list(self.trace)
    s._feas_cache = {}
    s.decomp = dict(self.decomp)
    s.norange = set(self.norange)
    s.unsigned_of = dict(self.unsigned_of)
    s._solver = None
    s._solver_n = 0
    s.bitdecomp = dict(self.bitdecomp)
    s.has_quant = self.has_quant
    s._model = getattr(self, "_model", None)
    s._model_n = getattr(self, "_model_n", 0)
    return s

  # ---- bit decomposition of small non-negative integers (flag words): keeps mask arithmetic linear
  def register_bits(self, term, bits):
    self.bitdecomp[term.get_id()] = (term, list(bits))

  def bits_of(self, v):
    """little-endian bit list of v if known without a solver query"""
    if isinstance(v, bool):
      return None
    if isinstance(v, int):
      if v < 0:
        return None
      out = []
      while v:
        out.append(v & 1)
        v >>= 1
      return out
    if not is_symint(v):
      return None
    ent = self.bitdecomp.get(v.get_id())
    return ent[1] if ent is not None else None

  def demand_bits(self, v):
    """bit list of a value that has a base-256 decomposition: fresh Boolean bits per symbolic byte, on demand"""
    got = self.bits_of(v)
    if got is not None or not is_symint(v):
      return got
    ent = self.decomp.get(v.get_id())
    if ent is None:
      if v.get_id() in self.ranged:
        bytes_le = [v]
      else:
        return None
    else:
      bytes_le = ent[1]
    if len(bytes_le) > 8:
      return None
    bits = []
    for b in bytes_le:
      bb = self.bits_of(b)
      if bb is None:
        xs = [fresh_bool("bit") for _ in range(8)]
        bb = [z3.If(x, z3.IntVal(1), z3.IntVal(0)) for x in xs]
        tot = z3.IntVal(0)
        for j, t in enumerate(bb):
          tot = tot + t * (1 << j)
        self.pc.append(zint(b) == tot)
        if is_sym(b):
          self.register_bits(b, bb)
      bits.extend(list(bb) + [0] * (8 - len(bb)))
    self.register_bits(v, bits)
    return bits

  def compose_bits(self, bits):
    """term for a bit list (registered), or int when all bits are concrete"""
    bits = list(bits)
    while bits and isinstance(bits[-1], int) and bits[-1] == 0:
      bits.pop()
    if all(isinstance(x, int) for x in bits):
      return sum(x << i for i, x in enumerate(bits))
    tot = z3.IntVal(0)
    for i, x in enumerate(bits):
      if isinstance(x, int):
        if x:
          tot = tot + (1 << i)
      else:
        tot = tot + x * (1 << i)
    t = z3.simplify(tot)
    if z3.is_int_value(t):
      return t.as_long()
    self.register_bits(t, bits)
    return t

  # ---- base-256 decomposition of bounded non-negative integers (keeps byte arithmetic linear)
  def register_decomp(self, term, bytes_le):
    self.decomp[term.get_id()] = (term, list(bytes_le))

  def decompose(self, term, n, assume_range=False):
    """little-endian byte terms b_0..b_{n-1} with term == sum b_i 256^i, or None when
    0 <= term < 256^n is not entailed by the path condition"""
    tid = term.get_id()
    ent = self.decomp.get(tid)
    if ent is not None:
      bs = ent[1]
      if len(bs) == n:
        return bs
      if len(bs) < n:
        return bs + [0] * (n - len(bs))
      # longer decomposition known: usable only if the high bytes are provably zero
      if all(self.entails(zint(b) == 0) for b in bs[n:]):
        return bs[:n]
      return None
    bent = self.bitdecomp.get(tid)
    if bent is not None and len(bent[1]) <= 8 * n:
      bits = list(bent[1]) + [0] * (8 * n - len(bent[1]))
      bs = []
      for j in range(n):
        bt = self.compose_bits(bits[8 * j:8 * j + 8])
        bs.append(bt)
      self.decomp[tid] = (term, bs)
      return bs
    if not assume_range:
      if (tid, n) in self.norange:
        return None
      if not self.entails(z3.And(term >= 0, term < 256 ** n), "byte-range",
                          timeout_ms=(500 if self.has_quant else None)):
        self.norange.add((tid, n))
        return None
    bs = [fresh_int("d") for _ in range(n)]
    tot = z3.IntVal(0)
    for i, b in enumerate(bs):
      self.pc.append(z3.And(b >= 0, b <= 255))
      tot = tot + b * (256 ** i)
    self.pc.append(term == tot)
    self.decomp[tid] = (term, bs)
    return bs

  def decompose_any(self, term, sizes=(1, 2, 4, 6, 8, 16)):
    tid = term.get_id()
    ent = self.decomp.get(tid)
    if ent is not None:
      return ent[1]
    for n in sizes:
      bs = self.decompose(term, n)
      if bs is not None:
        return bs
    return None

  # ---- facts
  def add(self, fact):
    if fact is True:
      return
    if is_sym(fact) and z3.is_true(fact):
      return
    if is_sym(fact) and not self.has_quant:
      stack = [(fact, 0)]
      while stack:
        e, d = stack.pop()
        if z3.is_quantifier(e):
          self.has_quant = True
          break
        if d < 3:
          stack.extend((c, d + 1) for c in e.children())
    self.pc.append(fact if is_sym(fact) else z3.BoolVal(bool(fact)))

  def add_range_fact(self, t):
    i = t.get_id()
    if i in self.ranged:
      return
    self.ranged.add(i)
    self.pc.append(z3.And(t >= 0, t <= 255))

  # ---- heap
  def alloc(self, kind, cls, data):
    oid = new_oid()
    self.heap[oid] = HObj(kind, cls, data)
    return Ref(oid)

  def obj(self, ref):
    return self.heap[ref.oid]

  # ---- solver queries under the path condition
  def check(self, extra, what=None, want_model=False, timeout_ms=None):
    """incremental: the path condition stays asserted in a per-state solver; extras are pushed/popped"""
    if not INCREMENTAL:
      return solve(self.pc + list(extra), what=what, want_model=want_model, timeout_ms=timeout_ms)
    sv = self._solver
    if sv is None or self._solver_n > len(self.pc):
      sv = z3.Solver()
      self._solver = sv
      self._solver_n = 0
    while self._solver_n < len(self.pc):
      a = self.pc[self._solver_n]
      self._solver_n += 1
      if a is True:
        continue
      sv.add(a if is_sym(a) else z3.BoolVal(bool(a)))
    sv.set("timeout", timeout_ms or DEFAULT_TIMEOUT_MS)
    extra = [e for e in extra if e is not True]
    if any(e is False for e in extra):
      return ("unsat", None)
    t0 = time.time()
    if extra:
      sv.push()
      for e in extra:
        sv.add(e)
    r = sv.check()
    m = None
    if r == z3.sat and want_model:
      m = sv.model()
    if extra:
      sv.pop()
    dt = time.time() - t0
    STATS.queries += 1
    STATS.time += dt
    if dt > 1.0 and _os.environ.get("PYVC_DEBUG"):
      _sys.stderr.write("SLOW %.1fs %s %s extra=%s\n" % (dt, r, what, [str(e)[:200] for e in extra][:2]))
      if dt > 5 and not _os.path.exists("/tmp/pyvc_slow.txt"):
        with open("/tmp/pyvc_slow.txt", "w") as f_:
          for a_ in self.pc:
            f_.write(str(a_)[:1500] + "\n----\n")
          f_.write("EXTRA " + str(extra)[:3000])
    if dt > STATS.max_time:
      STATS.max_time = dt
      STATS.max_what = what
    if r == z3.sat:
      return ("sat", m)
    if r == z3.unsat:
      return ("unsat", None)
    STATS.unknown += 1
    return ("unknown", None)

  def _model_ok(self):
    """is the cached model still a model of the (possibly grown) path condition?"""
    m = getattr(self, "_model", None)
    if m is None:
      return None
    n = self._model_n
    if n > len(self.pc):
      self._model = None
      return None
    while n < len(self.pc):
      a = self.pc[n]
      try:
        v = m.eval(a, model_completion=True)
      except Exception:
        self._model = None
        return None
      if not z3.is_true(v):
        self._model = None
        return None
      n += 1
    self._model_n = n
    return m

  def feasible(self, cond, what=None):
    """can cond hold under pc?  unknown counts as feasible"""
    cond = concretize(cond) if is_sym(cond) else cond
    if cond is True:
      return True
    if cond is False:
      return False
    m = self._model_ok()
    if m is not None:
      try:
        if z3.is_true(m.eval(cond, model_completion=True)):
          return True
      except Exception:
        pass
    r, m2 = self.check([cond], what=what, want_model=True)
    if r == "sat" and m2 is not None:
      self._model = m2
      self._model_n = len(self.pc)
    return r != "unsat"

  def entails(self, cond, what=None, timeout_ms=None):
    cond = concretize(cond) if is_sym(cond) else cond
    if cond is True:
      return True
    if cond is False:
      return False
    r, _ = self.check([z3.Not(cond)], what=what, timeout_ms=timeout_ms)
    return r == "unsat"

  def entails_le(self, a, b):
    if isinstance(a, int) and isinstance(b, int):
      return a <= b
    return self.entails(zint(a) <= zint(b))

  def entails_lt(self, a, b):
    if isinstance(a, int) and isinstance(b, int):
      return a < b
    return self.entails(zint(a) < zint(b))
