"""runs contracts/self_engine.py and compares every verdict with the expected one (see that file)"""
from . import driver


def run():
  """returns a list of problems (empty: the engine behaves as expected)"""
  problems = []
  units = driver.load_units("SELF")
  import contracts.self_engine as se
  if not units:
    return ["no self-test units found"]
  seen = 0
  for u in units:
    r = driver.run_unit_symbolic("SELF", u.name, 10000)
    if r.get("status") != "ok":
      problems.append("%s: status %s (%s)" % (u.name, r.get("status"), r.get("error")))
      continue
    for ob in r.get("obligations", []):
      nm = ob["name"]
      if nm.startswith("post.ok_") or nm.startswith("post.bad_"):
        want = "proved" if nm.startswith("post.ok_") else "refuted"
        seen += 1
        if ob["status"] != want:
          problems.append("%s/%s: %s, expected %s" % (u.name, nm, ob["status"], want))
      if nm.startswith("loop.preserve:ok_") or nm.startswith("loop.preserve:bad_"):
        seen += 1
        if nm.startswith("loop.preserve:ok_") and ob["status"] != "proved":
          problems.append("%s/%s: %s, expected proved" % (u.name, nm, ob["status"]))
        if nm.startswith("loop.preserve:bad_") and ob["status"] == "proved":
          problems.append("%s/%s: proved, expected refuted or unknown (ghost state must be arbitrary at a loop cut)" % (u.name, nm))
        continue
      if nm.startswith("exc."):
        want_ref = se.EXPECTED_REFUTED_EXC.get(u.name)
        if want_ref and nm.startswith(want_ref):
          seen += 1
          if ob["status"] != "refuted":
            problems.append("%s/%s: %s, expected refuted" % (u.name, nm, ob["status"]))
        elif ob["status"] != "proved":
          problems.append("%s/%s: %s, expected proved" % (u.name, nm, ob["status"]))
  if seen < 15:
    problems.append("only %d self-test verdicts seen" % seen)
  return problems
