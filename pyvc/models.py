"""Semantics of operators, attribute access, containers and the axiomatised builtins (DESIGN 2.3 AXIOM)."""
import ast
import sys
import types
import struct as _struct
import builtins
import z3

from .values import *
from .sbytes import SBytes
from . import sbytes as sb
from .interp import (SliceVal, LiveList, ObjDict, _ABSENT, _MISSING, REPO, Ctx)

# ----------------------------------------------------------------------
# helpers
# ----------------------------------------------------------------------


def as_sbytes(v):
  if isinstance(v, SBytes):
    return v
  if isinstance(v, (bytes, bytearray)):
    return SBytes.lit(bytes(v))
  if isinstance(v, str):
    return SBytes.lit(v.encode("latin-1"), True)
  raise TypeError("not bytes-like: %r" % (v,))


def norm_bytes(s):
  """SBytes -> python bytes/str when fully concrete"""
  if isinstance(s, SBytes):
    c = s.concrete()
    if c is not None:
      return c.decode("latin-1") if s.is_str else c
  return s


def is_byteslike(v):
  return isinstance(v, (bytes, bytearray)) or (isinstance(v, SBytes) and not v.is_str)


def is_strlike(v):
  return isinstance(v, str) or (isinstance(v, SBytes) and v.is_str)


def fully_concrete(v):
  if is_sym(v) or isinstance(v, (Ref, SBytes, Union, Closure, BoundMethod, BuiltinMethod, ExcVal, SuperProxy,
                                 ObjDict, LiveList)):
    return False
  if isinstance(v, (tuple, list)):
    return all(fully_concrete(x) for x in v)
  if isinstance(v, dict):
    return all(fully_concrete(x) and fully_concrete(y) for x, y in v.items())
  return True


def hashkey(v):
  if isinstance(v, Ref):
    return ("$ref", v.oid)
  if isinstance(v, tuple):
    return tuple(hashkey(x) for x in v)
  if is_sym(v) or isinstance(v, (SBytes, Union)):
    raise Unsupported("symbolic container key %r" % (v,))
  try:
    hash(v)
  except TypeError:
    raise Unsupported("unhashable key %r" % (v,))
  return v


def symkey(v):
  """container key of a set element: symbolic ints get a syntactic key; set_locate keeps the elements of a set
  pairwise distinct under the path condition, so the syntactic key never names the same value twice"""
  if is_sym(v) and not isinstance(v, (SBytes, Union)):
    return ("$sym", v.get_id())
  return hashkey(v)


def _is_symkey(hk):
  return isinstance(hk, tuple) and len(hk) == 2 and hk[0] == "$sym"


def set_locate(I_, ref, x, st, ctx, k_found, k_absent, node=None):
  """find x in the set object ref: k_found(st, key) / k_absent(st).  Case split on every equality with a present
  element that the path condition leaves open (int elements only; objects are located by identity)."""
  data = st.obj(ref).data
  if isinstance(x, Union):
    return I_.split(x, st, lambda st2, y: set_locate(I_, ref, y, st2, ctx, k_found, k_absent, node))
  if not (is_sym(x) or any(_is_symkey(hk) for hk in data)):
    hk = hashkey(x)
    return k_found(st, hk) if hk in data else k_absent(st)
  if isinstance(x, SBytes):
    raise Unsupported("symbolic bytes as set element")
  keys = list(data.keys())
  def step(st2, i):
    if i == len(keys):
      return k_absent(st2)
    hk = keys[i]
    e = st2.obj(ref).data[hk]
    if not (is_numlike(e) and is_numlike(x)):
      if isinstance(e, Ref) and isinstance(x, Ref) and e.oid == x.oid:
        return k_found(st2, hk)
      return step(st2, i + 1)
    c = int_eq(x, e, st2)
    return I_.branch(c, st2, lambda s_: k_found(s_, hk), lambda s_: step(s_, i + 1), "set-element")
  return step(st, 0)


def set_insert_all(I_, ref, items, st, ctx, k, node=None):
  """ref |= items, one element at a time (each may fork)"""
  items = list(items)
  def step(st2, i):
    if i == len(items):
      return k(st2)
    v = items[i]
    def absent(st3):
      st3.obj(ref).data[symkey(v)] = v
      return step(st3, i + 1)
    return set_locate(I_, ref, v, st2, ctx, lambda st3, hk: step(st3, i + 1), absent, node)
  return step(st, 0)


def set_remove_all(I_, ref, items, st, ctx, k, node=None):
  items = list(items)
  def step(st2, i):
    if i == len(items):
      return k(st2)
    def found(st3, hk):
      del st3.obj(ref).data[hk]
      return step(st3, i + 1)
    return set_locate(I_, ref, items[i], st2, ctx, found, lambda st3: step(st3, i + 1), node)
  return step(st, 0)


def new_set(I_, items, st, ctx, k, node=None):
  ref = st.alloc("set", set, {})
  return set_insert_all(I_, ref, items, st, ctx, lambda st2: k(st2, ref), node)


def gobj(st, v):
  """a concrete container that belongs to the program's global state (a class attribute, a module-level table) and has been
  MUTATED on this path lives in a per-path overlay on the heap (2026-09-25: such mutations used to be out of reach; a
  class-level default turned into a shared mutable set - seeded change C05_11 - could therefore not be judged).  Every consumer
  of container values asks here first."""
  if isinstance(v, (list, dict, set)) and not isinstance(v, Ref):
    r = st.ghost.get(("$gobj", id(v)))
    if r is not None:
      return r
  return v


def gobj_mutable(I_, st, v, ctx, k, node=None):
  """the heap copy of the concrete global container v on this path (created on first mutation) -> k(st, ref)"""
  r = st.ghost.get(("$gobj", id(v)))
  if r is not None:
    return k(st, r)
  def keep(st2, ref):
    st2.ghost[("$gobj", id(v))] = ref
    st2.ghost[("$gobj.keepalive", id(v))] = v
    return k(st2, ref)
  if isinstance(v, set):
    return new_set(I_, list(v), st, ctx, keep, node)
  if isinstance(v, dict):
    return keep(st, st.alloc("dict", dict, dict((hashkey(kk), (kk, vv)) for kk, vv in v.items())))
  return keep(st, st.alloc("list", list, list(v)))


def is_value_key(I_, key, st):
  """an object used as a dict key whose class defines __eq__ in Python source (EthAddr, IPAddr ...): located by value"""
  if not isinstance(key, Ref):
    return False
  o = st.obj(key)
  return o.kind == "obj" and isinstance(I_.class_lookup(o.cls, "__eq__"), types.FunctionType)


def dict_locate(I_, ref, key, st, ctx, k_found, k_absent, node=None):
  """look an object key up by value: identity first, then the class's interpreted __eq__ against every key of the same
  class (forking where the path condition leaves the answer open).  ASSUMES __hash__ is consistent with __eq__.
  k_found(st, hashkey) / k_absent(st)"""
  data = st.obj(ref).data
  hk = hashkey(key)
  if hk in data:
    return k_found(st, hk)
  cls = st.obj(key).cls
  cands = [h for h, kv in data.items() if isinstance(kv[0], Ref) and st.obj(kv[0]).kind == "obj" and st.obj(kv[0]).cls is cls]
  def step(st2, i):
    if i == len(cands):
      return k_absent(st2)
    kk = st2.obj(ref).data[cands[i]][0]
    def decided(st4, t):
      if t is True:
        return k_found(st4, cands[i])
      if t is False:
        return step(st4, i + 1)
      return I_.branch(t, st4, lambda s_: k_found(s_, cands[i]), lambda s_: step(s_, i + 1), "dict-key")
    return compare(I_, ast.Eq(), key, kk, st2, ctx,
                   lambda st3, r: I_.truth(r, st3, ctx, decided, node), node)
  return step(st, 0)


def type_of(I_, v, st):
  """the Python type of a value (concrete class)"""
  if isinstance(v, bool) or is_symbool(v):
    return bool
  if isinstance(v, int) or is_symint(v):
    return int
  if is_symreal(v):
    return float
  if isinstance(v, SBytes):
    return str if v.is_str else bytes
  if isinstance(v, Ref):
    o = st.obj(v)
    return o.cls
  if isinstance(v, (Closure,)):
    return types.FunctionType
  if isinstance(v, BoundMethod):
    return types.MethodType
  if isinstance(v, BuiltinMethod):
    return types.BuiltinMethodType
  if isinstance(v, ExcVal):
    return v.cls
  if isinstance(v, Union):
    raise Unsupported("type() of union")
  return type(v)


# ----------------------------------------------------------------------
# arithmetic
# ----------------------------------------------------------------------

def _pow2(n):
  return 1 << n


def _mask_runs(m):
  """non-negative int -> list of (shift, width) of its contiguous runs of ones"""
  runs = []
  i = 0
  while m >> i:
    if (m >> i) & 1:
      j = i
      while (m >> j) & 1:
        j += 1
      runs.append((i, j - i))
      i = j
    else:
      i += 1
  return runs


def _from_bytes_le(bs, lo_byte, nbytes):
  tot = z3.IntVal(0)
  for i in range(nbytes):
    j = lo_byte + i
    if j < len(bs):
      tot = tot + zint(bs[j]) * (256 ** i)
  return tot


def _extract_bits(bs, s_, w_):
  """value of bits [s_, s_+w_) of the number with little-endian bytes bs (w_ None = all higher bits)"""
  tot = z3.IntVal(0)
  top = 8 * len(bs) if w_ is None else s_ + w_
  for i, b in enumerate(bs):
    lo = max(s_, 8 * i)
    hi = min(top, 8 * i + 8)
    if lo >= hi:
      continue
    zb = zint(b)
    part = zb
    if lo > 8 * i:
      part = part / _pow2(lo - 8 * i)
    if hi < 8 * i + 8:
      part = part % _pow2(hi - lo)
    tot = tot + part * _pow2(lo - s_)
  return tot


def _extract_term(bs, s_, w_, st):
  """bits [s_, s_+w_) of the number with bytes bs as a term; byte-aligned extractions are composed from
  the same byte terms (and registered), so no new base-256 representation is introduced"""
  if s_ % 8 == 0 and (w_ is None or w_ % 8 == 0):
    lo = s_ // 8
    hi = len(bs) if w_ is None else min(len(bs), lo + w_ // 8)
    return _compose(list(bs[lo:hi]), st)
  return _extract_bits(bs, s_, w_)


def _pow2_exp(n):
  if isinstance(n, int) and not isinstance(n, bool) and n > 0 and (n & (n - 1)) == 0:
    return n.bit_length() - 1
  return None


def bitand_const(x, m, st=None):
  """x & m for symbolic int x and python int m (any sign); exact for all ints"""
  if m >= 0 and st is not None:
    runs = _mask_runs(m)
    if len(runs) == 1 and runs[0][0] == 0:
      w0 = runs[0][1]
      ent = st.unsigned_of.get(x.get_id())
      if ent is not None and ent[2] == w0:
        return ent[1]
      if w0 >= 8 and st.decomp.get(x.get_id()) is None and \
         st.entails(z3.And(x >= -_pow2(w0), x < 0), "mask-neg-range"):
        return x + _pow2(w0)
    if runs and all(s_ % 8 == 0 and w_ % 8 == 0 for s_, w_ in runs):
      bs = st.decompose_any(x)
      if bs is not None:
        tot = z3.IntVal(0)
        for s_, w_ in runs:
          tot = tot + _from_bytes_le(bs, s_ // 8, w_ // 8) * _pow2(s_)
        return tot
  if m >= 0:
    tot = z3.IntVal(0)
    for s, w in _mask_runs(m):
      tot = tot + ((x / _pow2(s)) % _pow2(w)) * _pow2(s)
    return tot
  # m negative: m = ~n with n >= 0 ; x & ~n = x - (x & n)
  n = ~m
  return x - bitand_const(x, n, st)


BITW = 64


def bitop_sym(I_, opname, a, b, st, ctx, node):
  """& | ^ between two symbolic ints: via bit-vectors of width BITW, both operands must be in [0, 2^BITW)"""
  za, zb = zint(a), zint(b)
  lim = _pow2(BITW)
  ba = z3.Int2BV(za, BITW)
  bb = z3.Int2BV(zb, BITW)
  if opname == "and":
    r = ba & bb
  elif opname == "or":
    r = ba | bb
  else:
    r = ba ^ bb
  res = fresh_int("bit")
  st.add(res == z3.BV2Int(r, False))
  st.add(z3.And(res >= 0, res < lim))
  return res, z3.And(za >= 0, za < lim, zb >= 0, zb < lim)


def _cheap_decomp(v, st):
  """little-endian byte list of v if known without a solver query"""
  if isinstance(v, bool):
    return None
  if isinstance(v, int):
    if v < 0:
      return None
    out = []
    while v:
      out.append(v & 0xff)
      v >>= 8
    return out
  if not is_symint(v):
    return None
  ent = st.decomp.get(v.get_id())
  if ent is not None:
    return ent[1]
  if v.get_id() in st.ranged:
    return [v]
  return None


def _is_zero_byte(b):
  return isinstance(b, int) and b == 0


def _compose(bs, st):
  """term for a byte list (little endian) and registration of its decomposition"""
  while bs and _is_zero_byte(bs[-1]):
    bs = bs[:-1]
  if all(isinstance(b, int) for b in bs):
    return sum(b << (8 * i) for i, b in enumerate(bs))
  tot = z3.IntVal(0)
  for i, b in enumerate(bs):
    if not _is_zero_byte(b):
      tot = tot + zint(b) * (256 ** i)
  t = z3.simplify(tot)
  if is_sym(t) and not z3.is_int_value(t):
    st.register_decomp(t, list(bs))
    return t
  return concretize(t)


def _structural_bytes_op(op, a, b, st):
  """byte-level shortcuts that need no solver: shifts by whole bytes, and | ^ + of operands whose
  non-zero bytes do not overlap.  Returns None when not applicable."""
  if isinstance(op, (ast.LShift, ast.Mult)) and isinstance(b, int) and not isinstance(b, bool):
    nbytes = None
    if isinstance(op, ast.LShift) and b >= 0 and b % 8 == 0:
      nbytes = b // 8
    elif isinstance(op, ast.Mult) and b > 0 and (b & (b - 1)) == 0 and (b.bit_length() - 1) % 8 == 0:
      nbytes = (b.bit_length() - 1) // 8
    if nbytes is not None:
      da = _cheap_decomp(a, st)
      if da is not None:
        return _compose([0] * nbytes + list(da), st)
    return None
  if isinstance(op, (ast.BitOr, ast.BitXor, ast.Add)):
    da = _cheap_decomp(a, st)
    db = _cheap_decomp(b, st)
    if da is None or db is None:
      return None
    n = max(len(da), len(db))
    da = list(da) + [0] * (n - len(da))
    db = list(db) + [0] * (n - len(db))
    out = []
    for x, y in zip(da, db):
      if _is_zero_byte(x):
        out.append(y)
      elif _is_zero_byte(y):
        out.append(x)
      else:
        return None
    return _compose(out, st)
  return None


def _structural_bits_op(op, a, b, st, demand=False):
  """& | ^ << >> on operands with a registered bit decomposition (flag words): computed bit by bit"""
  if not isinstance(op, (ast.BitAnd, ast.BitOr, ast.BitXor, ast.LShift, ast.RShift)):
    return None
  if isinstance(op, (ast.LShift, ast.RShift)):
    if not isinstance(b, int) or isinstance(b, bool) or b < 0 or not is_symint(a):
      return None
    ba = st.bits_of(a)
    if ba is None and b % 8 != 0 and isinstance(op, ast.RShift) and a.get_id() in st.decomp \
       and len(st.decomp[a.get_id()][1]) <= 2:
      ba = st.demand_bits(a)       # a shift inside a 16-bit field: split its bytes into bits once
    if ba is None:
      return None
    if isinstance(op, ast.LShift):
      return st.compose_bits([0] * b + list(ba))
    return st.compose_bits(list(ba[b:]))
  sa = is_symint(a) and st.bits_of(a) is not None
  sb_ = is_symint(b) and st.bits_of(b) is not None
  if demand and not (sa and sb_):
    # two symbolic operands, at least one without known bits: bits on demand from the known bytes
    for x_, other in ((a, b), (b, a)):
      if is_symint(x_) and st.bits_of(x_) is None and is_symint(other):
        st.demand_bits(x_)
    sa = is_symint(a) and st.bits_of(a) is not None
    sb_ = is_symint(b) and st.bits_of(b) is not None
    if not (sa and sb_):
      return None
  if not (sa or sb_):
    return None
  x, y = (a, b) if sa else (b, a)
  bx = list(st.bits_of(x))
  if isinstance(y, int) and not isinstance(y, bool):
    if y < 0:
      # y = ~n, n >= 0 : only the low len(bx) bits of x can be set
      n = ~y
      if isinstance(op, ast.BitAnd):
        return st.compose_bits([0 if (n >> i) & 1 else bx[i] for i in range(len(bx))])
      return None
    width = max(len(bx), y.bit_length())
    bx = bx + [0] * (width - len(bx))
    out = []
    for i in range(width):
      m = (y >> i) & 1
      if isinstance(op, ast.BitAnd):
        out.append(bx[i] if m else 0)
      elif isinstance(op, ast.BitOr):
        out.append(1 if m else bx[i])
      else:
        out.append((1 - bx[i]) if m and isinstance(bx[i], int) else (z3.IntVal(1) - bx[i] if m else bx[i]))
    return st.compose_bits(out)
  by = st.bits_of(y)
  if by is None:
    return None
  by = list(by)
  width = max(len(bx), len(by))
  bx = bx + [0] * (width - len(bx))
  by = by + [0] * (width - len(by))
  out = []
  for p_, q_ in zip(bx, by):
    if isinstance(p_, int) and isinstance(q_, int):
      out.append({ast.BitAnd: p_ & q_, ast.BitOr: p_ | q_, ast.BitXor: p_ ^ q_}[type(op)])
      continue
    if isinstance(op, ast.BitAnd):
      if isinstance(p_, int):
        out.append(q_ if p_ else 0)
      elif isinstance(q_, int):
        out.append(p_ if q_ else 0)
      else:
        out.append(z3.If(zint(p_) + zint(q_) == 2, z3.IntVal(1), z3.IntVal(0)))
    elif isinstance(op, ast.BitOr):
      if isinstance(p_, int):
        out.append(1 if p_ else q_)
      elif isinstance(q_, int):
        out.append(1 if q_ else p_)
      else:
        out.append(z3.If(zint(p_) + zint(q_) >= 1, z3.IntVal(1), z3.IntVal(0)))
    else:
      if isinstance(p_, int):
        out.append((z3.IntVal(1) - zint(q_)) if p_ else q_)
      elif isinstance(q_, int):
        out.append((z3.IntVal(1) - zint(p_)) if q_ else p_)
      else:
        out.append(z3.If(zint(p_) + zint(q_) == 1, z3.IntVal(1), z3.IntVal(0)))
  return st.compose_bits(out)


def num_binop(I_, op, a, b, st, ctx, k, node):
  """a, b int-like / real-like, at least one symbolic"""
  if is_symint(a) or is_symint(b):
    r_ = _structural_bits_op(op, a, b, st)
    if r_ is not None:
      return k(st, r_)
    r_ = _structural_bytes_op(op, a, b, st)
    if r_ is not None:
      return k(st, r_)
    if is_symint(a) and is_symint(b) and isinstance(op, (ast.BitAnd, ast.BitOr, ast.BitXor)):
      r_ = _structural_bits_op(op, a, b, st, demand=True)
      if r_ is not None:
        return k(st, r_)
  real = is_symreal(a) or is_symreal(b) or isinstance(a, float) or isinstance(b, float)
  if real:
    x, y = zreal(a), zreal(b)
    if isinstance(op, ast.Add):
      return k(st, x + y)
    if isinstance(op, ast.Sub):
      return k(st, x - y)
    if isinstance(op, ast.Mult):
      return k(st, x * y)
    if isinstance(op, ast.Div):
      site = "safe.div@" + I_.where(ctx, node)
      return I_.safety(st, y != 0, site, ExcVal(ZeroDivisionError, (), I_.where(ctx, node)), ctx,
                       lambda st2: k(st2, x / y))
    raise Unsupported("real op %s" % type(op).__name__)
  x, y = zint(a), zint(b)
  if isinstance(op, ast.Add):
    return k(st, concretize(x + y))
  if isinstance(op, ast.Sub):
    return k(st, concretize(x - y))
  if isinstance(op, ast.Mult):
    return k(st, concretize(x * y))
  if isinstance(op, (ast.FloorDiv, ast.Mod)):
    site = "safe.div@" + I_.where(ctx, node)
    def ok(st2):
      # python floor semantics: z3 div/mod are euclidean (remainder >= 0); they agree for y > 0
      e_ = _pow2_exp(b)
      if e_ is not None and e_ > 0:
        bs_ = st2.decompose_any(x)
        if bs_ is not None:
          if isinstance(op, ast.FloorDiv):
            return k(st2, concretize_(_extract_term(bs_, e_, None, st2)))
          return k(st2, concretize_(_extract_term(bs_, 0, e_, st2)))
      if isinstance(b, int) and b > 0:
        return k(st2, concretize(x / y if isinstance(op, ast.FloorDiv) else x % y))
      q = fresh_int("q")
      r = fresh_int("r")
      st2.add(x == q * y + r)
      st2.add(z3.If(y > 0, z3.And(r >= 0, r < y), z3.And(r <= 0, r > y)))
      return k(st2, q if isinstance(op, ast.FloorDiv) else r)
    return I_.safety(st, y != 0, site, ExcVal(ZeroDivisionError, (), I_.where(ctx, node)), ctx, ok)
  if isinstance(op, ast.Div):
    site = "safe.div@" + I_.where(ctx, node)
    return I_.safety(st, y != 0, site, ExcVal(ZeroDivisionError, (), I_.where(ctx, node)), ctx,
                     lambda st2: k(st2, z3.ToReal(x) / z3.ToReal(y)))
  if isinstance(op, ast.LShift):
    if isinstance(b, int):
      if b < 0:
        return I_.raise_exc(st, ctx, ValueError, "negative shift count", node)
      return k(st, concretize(x * _pow2(b)))
    return shift_sym(I_, op, a, b, st, ctx, k, node)
  if isinstance(op, ast.RShift):
    if isinstance(b, int):
      if b < 0:
        return I_.raise_exc(st, ctx, ValueError, "negative shift count", node)
      if b > 0:
        bs = st.decompose_any(x)
        if bs is not None:
          return k(st, concretize_(_extract_term(bs, b, None, st)))
      return k(st, concretize(x / _pow2(b)))
    return shift_sym(I_, op, a, b, st, ctx, k, node)
  if isinstance(op, ast.Pow):
    if isinstance(b, int) and 0 <= b <= 8:
      r = z3.IntVal(1)
      for _ in range(b):
        r = r * x
      return k(st, concretize(r))
    if isinstance(a, int) and a == 2:
      return shift_sym(I_, ast.LShift(), 1, b, st, ctx, k, node)
    raise Unsupported("symbolic power")
  if isinstance(op, (ast.BitAnd, ast.BitOr, ast.BitXor)):
    if isinstance(a, bool) or is_symbool(a):
      if isinstance(b, bool) or is_symbool(b):
        fa, fb = zbool(a), zbool(b)
        if isinstance(op, ast.BitAnd):
          return k(st, concretize(z3.And(fa, fb)))
        if isinstance(op, ast.BitOr):
          return k(st, concretize(z3.Or(fa, fb)))
        return k(st, concretize(z3.Xor(fa, fb)))
    ca = a if isinstance(a, int) else None
    cb = b if isinstance(b, int) else None
    if ca is not None or cb is not None:
      m = ca if ca is not None else cb
      xs = y if ca is not None else x
      import os as _os
      if _os.environ.get("PYVC_DEBUG") and "wildcards" in str(xs)[:4000]:
        sys.stderr.write("BITFALLBACK at %s op=%s m=%s registered=%s\n  term=%s\n" % (
          I_.where(ctx, node), type(op).__name__, m, xs.get_id() in st.bitdecomp, str(xs)[:300].replace("\n", " ")))
      andv = bitand_const(xs, int(m), st)
      if isinstance(op, ast.BitAnd):
        return k(st, concretize(andv))
      if isinstance(op, ast.BitOr):
        return k(st, concretize(xs + int(m) - andv))
      return k(st, concretize(xs + int(m) - 2 * andv))
    # (t << k) | small  ==  sum, when the operands occupy disjoint bit ranges
    if isinstance(op, (ast.BitOr, ast.BitXor)):
      for (p_, q_) in ((x, y), (y, x)):
        for kk in (8, 16, 32, 48, 1, 2, 4, 24, 64):
          if st.entails(z3.And(q_ >= 0, q_ < _pow2(kk), p_ % _pow2(kk) == 0), "bitor-disjoint"):
            return k(st, concretize(p_ + q_))
    # x & negative  ==  x - (x & ~negative)
    if isinstance(op, ast.BitAnd):
      for (p_, q_) in ((x, y), (y, x)):
        if st.entails(q_ < 0, "bitand-neg"):
          def got(st2, r):
            return k(st2, concretize(p_ - zint(r)))
          return num_binop(I_, ast.BitAnd(), concretize(p_), concretize(-q_ - 1), st, ctx, got, node)
    opname = {ast.BitAnd: "and", ast.BitOr: "or", ast.BitXor: "xor"}[type(op)]
    res, pre = bitop_sym(I_, opname, a, b, st, ctx, node)
    if not st.entails(pre, "bitop-range"):
      import os as _os
      if _os.environ.get("PYVC_DEBUG"): sys.stderr.write("BITOP a=%s\n b=%s\n" % (str(a)[:600], str(b)[:600]))
      raise Unsupported("bit operation on operands not known to be in [0,2^%d) at %s" % (BITW, I_.where(ctx, node)))
    return k(st, res)
  raise Unsupported("int op %s" % type(op).__name__)


def small_range_split(I_, v, st, lo, hi, k):
  """fork the path on every feasible value of the int term v in [lo, hi]: k(st', concrete).
  Values are enumerated from solver models (one query per value)."""
  zv = zint(v)
  feas = []
  excl = [zv >= lo, zv <= hi]
  while True:
    r, m = st.check(excl, what="enum", want_model=True)
    if r == "unsat":
      break
    if r != "sat":
      raise Unsupported("cannot enumerate the values of a symbolic shift amount")
    n = m.eval(zv, model_completion=True).as_long()
    feas.append(n)
    excl.append(zv != n)
    if len(feas) > hi - lo + 1:
      raise Unsupported("enumeration overflow")
  feas.sort()
  for j, n in enumerate(feas):
    s2 = st.copy() if j < len(feas) - 1 else st
    s2.add(zv == n)
    I_.fork_count += 1
    k(s2, n)


def shift_sym(I_, op, a, b, st, ctx, k, node):
  """shift by a symbolic amount: the amount must be provably small; the path forks on its value"""
  zb = zint(b)
  if st.feasible(zb < 0):
    s2 = st.copy()
    s2.add(zb < 0)
    I_.raise_exc(s2, ctx, ValueError, "negative shift count", node)
    st.add(zb >= 0)
    if not st.feasible(True):
      return
  if not st.entails(zb <= 256, "shift-range"):
    raise Unsupported("unbounded symbolic shift at %s" % I_.where(ctx, node))
  def cont(st2, n):
    x = zint(a)
    v = x * _pow2(n) if isinstance(op, ast.LShift) else x / _pow2(n)
    return k(st2, concretize(v))
  return small_range_split(I_, b, st, 0, 256, cont)


def count_format_specs(fmt):
  """number of values a %-format consumes, or None if it uses mapping keys / is malformed; also spec chars"""
  i = 0
  n = 0
  specs = []
  while i < len(fmt):
    if fmt[i] == "%":
      i += 1
      if i >= len(fmt):
        return None, None
      if fmt[i] == "%":
        i += 1
        continue
      if fmt[i] == "(":
        return None, None
      while i < len(fmt) and fmt[i] in "#0- +":
        i += 1
      if i < len(fmt) and fmt[i] == "*":
        n += 1
        i += 1
      while i < len(fmt) and fmt[i].isdigit():
        i += 1
      if i < len(fmt) and fmt[i] == ".":
        i += 1
        if i < len(fmt) and fmt[i] == "*":
          n += 1
          i += 1
        while i < len(fmt) and fmt[i].isdigit():
          i += 1
      while i < len(fmt) and fmt[i] in "hlL":
        i += 1
      if i >= len(fmt):
        return None, None
      specs.append(fmt[i])
      n += 1
      i += 1
    else:
      i += 1
  return n, specs


def opaque_str(st, base="str"):
  n = fresh_int(base + "len")
  st.add(n >= 0)
  s = sb.new_blob(base, n)
  s.is_str = True
  return s


def opaque_bytes(st, base="bytes", length=None):
  if length is None:
    length = fresh_int(base + "len")
    st.add(length >= 0)
  return sb.new_blob(base, length)


def format_percent(I_, fmt, arg, st, ctx, k, node):
  """'fmt' % arg with symbolic pieces: result is an opaque string; arity/type errors are modelled"""
  if isinstance(fmt, (str, bytes)):
    f = fmt if isinstance(fmt, str) else fmt.decode("latin-1")
    n, specs = count_format_specs(f)
    if n is not None:
      if isinstance(arg, tuple):
        vals = list(arg)
      else:
        vals = [arg]
        if isinstance(arg, Ref) and st.obj(arg).kind == "dict":
          vals = [arg]
      if len(vals) != n and not (isinstance(arg, Ref) and st.obj(arg).kind == "dict" and n == 0):
        msg = "not all arguments converted during string formatting" if len(vals) > n \
          else "not enough arguments for format string"
        return I_.raise_exc(st, ctx, TypeError, msg, node)
      for sp, v in zip(specs, vals):
        if sp in "diouxXeEfFgGc":
          num_ok = is_numlike(v) or (sp == "c" and (is_strlike(v)))
          if isinstance(v, Union):
            num_ok = all(is_numlike(a) for _, a in v.alts)
          if not num_ok:
            # objects with __int__/__index__ are not used this way in the code base
            if v is None or is_strlike(v) or is_byteslike(v) or isinstance(v, (Ref, tuple)):
              return I_.raise_exc(st, ctx, TypeError, "%%%s format: a number is required" % sp, node)
  r = opaque_str(st, "fmt")
  if is_byteslike(fmt):
    r.is_str = False
  return k(st, r)


def binop(I_, op, a, b, st, ctx, k, node):
  if isinstance(a, Union):
    return I_.split(a, st, lambda st2, x: binop(I_, op, x, b, st2, ctx, k, node))
  if isinstance(b, Union):
    return I_.split(b, st, lambda st2, y: binop(I_, op, a, y, st2, ctx, k, node))
  # string formatting
  if isinstance(op, ast.Mod) and (is_strlike(a) or is_byteslike(a)):
    if fully_concrete(a) and fully_concrete(b):
      try:
        return k(st, a % b)
      except Exception as e:
        return I_.raise_exc(st, ctx, type(e), str(e), node)
    return format_percent(I_, a, b, st, ctx, k, node)
  if fully_concrete(a) and fully_concrete(b) and not I_.is_modelled_instance(a) and not I_.is_modelled_instance(b):
    try:
      r = _native_binop(op, a, b)
    except Exception as e:
      return I_.raise_exc(st, ctx, type(e), str(e), node)
    return k(st, r)
  if is_numlike(a) and is_numlike(b):
    return num_binop(I_, op, a, b, st, ctx, k, node)
  # bytes / str
  if (is_byteslike(a) or is_strlike(a)) and (is_byteslike(b) or is_strlike(b)):
    if isinstance(op, ast.Add):
      if is_strlike(a) != is_strlike(b):
        return I_.raise_exc(st, ctx, TypeError, "can't concat str to bytes", node)
      return k(st, norm_bytes(sb.concat(as_sbytes(a), as_sbytes(b))))
    return I_.raise_exc(st, ctx, TypeError, "unsupported operand type(s)", node)
  if (is_byteslike(a) or is_strlike(a)) and is_intlike(b) and isinstance(op, ast.Mult):
    if isinstance(b, int):
      r = SBytes([], is_strlike(a))
      for _ in range(max(0, b)):
        r = sb.concat(r, as_sbytes(a))
      r.is_str = is_strlike(a)
      return k(st, norm_bytes(r))
    # symbolic repeat count of a constant single byte: blob of that value
    ca = as_sbytes(a).concrete()
    if ca is not None and len(ca) == 1:
      n = zint(b)
      blob = sb.new_blob("rep", z3.If(n > 0, n, 0))
      i = fresh_int("ri")
      f = blob.chunks[0][1] if blob.chunks else None
      if f is not None:
        st.add(z3.ForAll([i], f(i) == ca[0]))
      blob.is_str = is_strlike(a)
      return k(st, blob)
    raise Unsupported("symbolic bytes repetition")
  if isinstance(a, tuple) and isinstance(b, tuple) and isinstance(op, ast.Add):
    return k(st, a + b)
  if isinstance(a, Ref) and st.obj(a).kind == "list":
    if isinstance(op, ast.Add) and isinstance(b, Ref) and st.obj(b).kind == "list":
      return k(st, st.alloc("list", list, list(st.obj(a).data) + list(st.obj(b).data)))
    if isinstance(op, ast.Add) and isinstance(b, list):
      return k(st, st.alloc("list", list, list(st.obj(a).data) + list(b)))
    if isinstance(op, ast.Mult) and isinstance(b, int):
      return k(st, st.alloc("list", list, list(st.obj(a).data) * b))
  if isinstance(a, list) and isinstance(b, Ref) and st.obj(b).kind == "list" and isinstance(op, ast.Add):
    return k(st, st.alloc("list", list, list(a) + list(st.obj(b).data)))
  # set algebra on modelled sets: a - b, a | b, a & b, a ^ b (a fresh set; elements located as by `in`)
  if isinstance(a, Ref) and isinstance(b, Ref) and st.obj(a).kind == "set" and st.obj(b).kind == "set" \
      and isinstance(op, (ast.Sub, ast.BitOr, ast.BitAnd, ast.BitXor)):
    ea, eb = list(st.obj(a).data.values()), list(st.obj(b).data.values())
    def build(st2, r):
      if isinstance(op, ast.BitOr):
        return set_insert_all(I_, r, eb, st2, ctx, lambda st3: k(st3, r), node)
      if isinstance(op, ast.Sub):
        return set_remove_all(I_, r, eb, st2, ctx, lambda st3: k(st3, r), node)
      if isinstance(op, ast.BitAnd):
        # a & b = a - (a - b)
        return new_set(I_, ea, st2, ctx, lambda st3, d: set_remove_all(I_, d, eb, st3, ctx, lambda st4: set_remove_all(
          I_, r, list(st4.obj(d).data.values()), st4, ctx, lambda st5: k(st5, r), node), node), node)
      # a ^ b = (a - b) | (b - a)
      return set_remove_all(I_, r, eb, st2, ctx, lambda st3: new_set(I_, eb, st3, ctx, lambda st4, d: set_remove_all(
        I_, d, ea, st4, ctx, lambda st5: set_insert_all(I_, r, list(st5.obj(d).data.values()), st5, ctx,
                                                        lambda st6: k(st6, r), node), node), node), node)
    return new_set(I_, ea, st, ctx, build, node)
  # user-defined operators
  dn = _DUNDER.get(type(op))
  if dn:
    for (x, y, name) in ((a, b, "__%s__" % dn), (b, a, "__r%s__" % dn)):
      cls = _class_of_instance(I_, x, st)
      if cls is not None:
        f = I_.class_lookup(cls, name)
        if f is not _MISSING and isinstance(f, (types.FunctionType, Closure)):
          return I_.call_value(I_.bind(f, x, cls), [y], {}, st, ctx, k, node)
  # type errors that Python raises - only where CPython itself says so for operands of these two built-in types; an operator
  # the evaluator merely does not model is Unsupported (UNDECIDED), never the program's TypeError (2026-09-25: set - set fell
  # through to here and was reported as a violation of the code under contract)
  ta, tb = _tname(I_, a, st), _tname(I_, b, st)
  try:
    tya, tyb = type_of(I_, a, st), type_of(I_, b, st)
  except Exception:
    tya = tyb = None
  if tya in _SAMPLES and tyb in _SAMPLES:
    try:
      _native_binop(op, _SAMPLES[tya], _SAMPLES[tyb])
    except TypeError:
      return I_.raise_exc(st, ctx, TypeError, "unsupported operand type(s) for %s: '%s' and '%s'"
                          % (type(op).__name__, ta, tb), node)
    except Exception:
      pass
    raise Unsupported("operator %s on '%s' and '%s' is not modelled by the evaluator" % (type(op).__name__, ta, tb))
  if (tya in _SAMPLES or _class_of_instance(I_, a, st) is not None) and (tyb in _SAMPLES or _class_of_instance(I_, b, st) is not None):
    # an instance of a class without the operator method (looked up above) and a built-in / another such instance
    return I_.raise_exc(st, ctx, TypeError, "unsupported operand type(s) for %s: '%s' and '%s'"
                        % (type(op).__name__, ta, tb), node)
  raise Unsupported("operator %s on '%s' and '%s' is not modelled by the evaluator" % (type(op).__name__, ta, tb))


_SAMPLES = {int: 1, bool: True, float: 1.5, str: "a", bytes: b"a", bytearray: bytearray(b"a"), list: [1], tuple: (1,),
            dict: {1: 1}, set: set([1]), frozenset: frozenset([1]), type(None): None}


_DUNDER = {ast.Add: "add", ast.Sub: "sub", ast.Mult: "mul", ast.BitAnd: "and", ast.BitOr: "or",
           ast.BitXor: "xor", ast.FloorDiv: "floordiv", ast.Mod: "mod", ast.LShift: "lshift",
           ast.RShift: "rshift", ast.Div: "truediv"}


def _tname(I_, v, st):
  try:
    return type_of(I_, v, st).__name__
  except Exception:
    return "?"


def _class_of_instance(I_, v, st):
  if isinstance(v, Ref) and st.obj(v).kind == "obj":
    return st.obj(v).cls
  if I_.is_modelled_instance(v):
    return type(v)
  return None


def _native_binop(op, a, b):
  import operator
  table = {ast.Add: operator.add, ast.Sub: operator.sub, ast.Mult: operator.mul, ast.Div: operator.truediv,
           ast.FloorDiv: operator.floordiv, ast.Mod: operator.mod, ast.Pow: operator.pow,
           ast.LShift: operator.lshift, ast.RShift: operator.rshift, ast.BitAnd: operator.and_,
           ast.BitOr: operator.or_, ast.BitXor: operator.xor}
  return table[type(op)](a, b)


# ----------------------------------------------------------------------
# comparison
# ----------------------------------------------------------------------

def values_eq(I_, a, b, st, ctx, k, node):
  """k(st, bool-or-formula) for a == b"""
  if isinstance(a, Union) or isinstance(b, Union):
    la = a.alts if isinstance(a, Union) else [(True, a)]
    lb = b.alts if isinstance(b, Union) else [(True, b)]
    parts = []
    impure = []
    for ga, xa in la:
      for gb, xb in lb:
        g = zand(ga, gb)
        if g is False:
          continue
        try:
          parts.append(zand(g, pure_eq(I_, xa, xb, st)))
        except _NotPure:
          impure.append((g, xa, xb))
    if not impure:
      return k(st, concretize_(zor(*parts)) if parts else False)
    # pairs that need interpreted code: evaluate each under its guard, combine into one formula
    def step(j, st2, acc):
      if j >= len(impure):
        return k(st2, concretize_(zor(*acc)) if acc else False)
      g, xa, xb = impure[j]
      if not st2.feasible(g):
        return step(j + 1, st2, acc)
      def got(st3, r):
        return I_.truth(r, st3, ctx, lambda st4, t: step(j + 1, st4, acc + [zand(g, t)]), node)
      return values_eq(I_, xa, xb, st2, ctx, got, node)
    return step(0, st, list(parts))
  try:
    return k(st, pure_eq(I_, a, b, st))
  except _NotPure:
    pass
  # user-defined __eq__
  for (x, y) in ((a, b), (b, a)):
    cls = _class_of_instance(I_, x, st)
    if cls is not None:
      f = I_.class_lookup(cls, "__eq__")
      if f is not _MISSING and isinstance(f, (types.FunctionType, Closure)):
        def got(st2, r, x=x, y=y):
          if r is NotImplemented:
            return k(st2, x is y)
          return I_.truth(r, st2, ctx, k, node)
        return I_.call_value(I_.bind(f, x, cls), [y], {}, st, ctx, got, node)
  if isinstance(a, Ref) or isinstance(b, Ref):
    if isinstance(a, Ref) and isinstance(b, Ref):
      oa, ob = st.obj(a), st.obj(b)
      if oa.kind == "list" and ob.kind == "list":
        return seq_eq(I_, list(oa.data), list(ob.data), st, ctx, k, node)
      if oa.kind == "dict" and ob.kind == "dict":
        if set(oa.data.keys()) != set(ob.data.keys()):
          return k(st, False)
        ks = list(oa.data.keys())
        return seq_eq(I_, [oa.data[q][1] for q in ks], [ob.data[q][1] for q in ks], st, ctx, k, node)
      if oa.kind == "set" and ob.kind == "set":
        if any(_is_symkey(hk) for hk in list(oa.data) + list(ob.data)):
          raise Unsupported("equality of sets with symbolic elements")
        return k(st, set(oa.data.keys()) == set(ob.data.keys()))
      return k(st, a == b)
    r, o = (a, b) if isinstance(a, Ref) else (b, a)
    if st.obj(r).kind == "list" and isinstance(o, list):
      return seq_eq(I_, list(st.obj(r).data), list(o), st, ctx, k, node)
    return k(st, False)
  if isinstance(a, tuple) and isinstance(b, tuple):
    if len(a) != len(b):
      return k(st, False)
    return seq_eq(I_, list(a), list(b), st, ctx, k, node)
  if isinstance(a, ExcVal) or isinstance(b, ExcVal):
    return k(st, a is b)
  try:
    return k(st, bool(a == b))
  except Exception as e:
    raise Unsupported("== on %r, %r: %s" % (a, b, e))


class _NotPure(Exception):
  pass


def concretize_(x):
  return concretize(x) if is_sym(x) else x


def pure_eq(I_, a, b, st):
  """equality that needs no interpretation of user code; raises _NotPure otherwise"""
  if a is None or b is None:
    if a is None and b is None:
      return True
    o = b if a is None else a
    if isinstance(o, Ref) and st.obj(o).kind == "obj":
      cls = st.obj(o).cls
      f = I_.class_lookup(cls, "__eq__")
      if f is not _MISSING and isinstance(f, types.FunctionType):
        raise _NotPure()
    elif I_.is_modelled_instance(o):
      f = I_.class_lookup(type(o), "__eq__")
      if f is not _MISSING and isinstance(f, types.FunctionType):
        raise _NotPure()
    return False
  if is_numlike(a) and is_numlike(b):
    if is_sym(a) or is_sym(b):
      if is_symreal(a) or is_symreal(b) or isinstance(a, float) or isinstance(b, float):
        return concretize(zreal(a) == zreal(b))
      return int_eq(a, b, st)
    return a == b
  if (is_byteslike(a) and is_byteslike(b)) or (is_strlike(a) and is_strlike(b)):
    if not isinstance(a, SBytes) and not isinstance(b, SBytes):
      return a == b
    return sb.bytes_eq(as_sbytes(a), as_sbytes(b), st)
  if (is_byteslike(a) or is_strlike(a)) and (is_byteslike(b) or is_strlike(b)):
    return False  # str vs bytes
  if (is_numlike(a) and (is_byteslike(b) or is_strlike(b))) or (is_numlike(b) and (is_byteslike(a) or is_strlike(a))):
    return False
  if isinstance(a, type) and isinstance(b, type):
    return a is b
  if isinstance(a, BoundMethod) or isinstance(b, BoundMethod):
    # bound methods are equal iff they bind the same function to the same object (each attribute access makes a new one)
    if not (isinstance(a, BoundMethod) and isinstance(b, BoundMethod)):
      return False
    if a.func is not b.func:
      return False
    sa, sb_ = a.self, b.self
    if isinstance(sa, Ref) and isinstance(sb_, Ref):
      return sa.oid == sb_.oid
    return sa is sb_
  if isinstance(a, tuple) and isinstance(b, tuple):
    if len(a) != len(b):
      return False
    return concretize_(zand(*[pure_eq(I_, x, y, st) for x, y in zip(a, b)]))
  if (isinstance(a, tuple) and (is_numlike(b) or is_byteslike(b) or is_strlike(b))) or \
     (isinstance(b, tuple) and (is_numlike(a) or is_byteslike(a) or is_strlike(a))):
    return False
  raise _NotPure()


def int_eq(a, b, st):
  """a == b for ints; values with a known base-256 representation are compared digit by digit
  (equivalent, and far easier for the solver than equating two weighted sums)"""
  if is_symint(a) and is_symint(b):
    ea, eb = st.unsigned_of.get(a.get_id()), st.unsigned_of.get(b.get_id())
    if ea is not None and eb is not None and ea[2] == eb[2]:
      a, b = ea[1], eb[1]
  ba = st.bits_of(a) if not isinstance(a, bool) else None
  bb = st.bits_of(b) if not isinstance(b, bool) else None
  if ba is not None and bb is not None and (is_sym(a) or is_sym(b)):
    n = max(len(ba), len(bb))
    ba = list(ba) + [0] * (n - len(ba))
    bb = list(bb) + [0] * (n - len(bb))
    cs = []
    for x, y in zip(ba, bb):
      if isinstance(x, int) and isinstance(y, int):
        if x != y:
          return False
        continue
      if is_sym(x) and is_sym(y) and x.eq(y):
        continue
      cs.append(zint(x) == zint(y))
    return concretize_(zand(*cs)) if cs else True
  da = _cheap_decomp(a, st) if (is_symint(a) or isinstance(a, int)) and not isinstance(a, bool) else None
  db = _cheap_decomp(b, st) if (is_symint(b) or isinstance(b, int)) and not isinstance(b, bool) else None
  if da is not None and db is not None and (is_sym(a) or is_sym(b)) and (len(da) > 1 or len(db) > 1):
    n = max(len(da), len(db))
    da = list(da) + [0] * (n - len(da))
    db = list(db) + [0] * (n - len(db))
    cs = []
    for x, y in zip(da, db):
      if isinstance(x, int) and isinstance(y, int):
        if x != y:
          return False
        continue
      if is_sym(x) and is_sym(y) and x.eq(y):
        continue
      cs.append(zint(x) == zint(y))
    return concretize_(zand(*cs)) if cs else True
  return concretize(zint(a) == zint(b))


def seq_eq(I_, xs, ys, st, ctx, k, node):
  if len(xs) != len(ys):
    return k(st, False)
  def step(j, st2, acc):
    if j >= len(xs):
      return k(st2, concretize_(zand(*acc)) if acc else True)
    def got(st3, r):
      def got_t(st4, t):
        t = concretize_(t)
        if t is False:
          return k(st4, False)
        return step(j + 1, st4, acc + ([t] if t is not True else []))
      return I_.truth(r, st3, ctx, got_t, node)
    return values_eq(I_, xs[j], ys[j], st2, ctx, got, node)
  return step(0, st, [])


def compare(I_, op, a, b, st, ctx, k, node):
  if isinstance(op, (ast.Is, ast.IsNot)):
    neg = isinstance(op, ast.IsNot)
    r = identity(I_, a, b, st)
    return k(st, znot(r) if neg else r)
  if isinstance(op, ast.Eq):
    return values_eq(I_, a, b, st, ctx, k, node)
  if isinstance(op, ast.NotEq):
    # __ne__ if the class defines one, else not __eq__
    for x, y in ((a, b),):
      cls = _class_of_instance(I_, x, st) if not isinstance(x, Union) else None
      if cls is not None:
        f = I_.class_lookup(cls, "__ne__")
        if f is not _MISSING and isinstance(f, types.FunctionType) and f is not getattr(object, "__ne__", None):
          return I_.call_value(I_.bind(f, x, cls), [y], {}, st, ctx,
                               lambda st2, r: I_.truth(r, st2, ctx, k, node), node)
    return values_eq(I_, a, b, st, ctx, lambda st2, r: k(st2, znot(r)), node)
  if isinstance(op, (ast.In, ast.NotIn)):
    neg = isinstance(op, ast.NotIn)
    return contains(I_, b, a, st, ctx, (lambda st2, r: k(st2, znot(r))) if neg else k, node)
  # ordering
  if isinstance(a, Union):
    return I_.split(a, st, lambda st2, x: compare(I_, op, x, b, st2, ctx, k, node))
  if isinstance(b, Union):
    return I_.split(b, st, lambda st2, y: compare(I_, op, a, y, st2, ctx, k, node))
  if is_numlike(a) and is_numlike(b):
    if is_sym(a) or is_sym(b):
      if is_symreal(a) or is_symreal(b) or isinstance(a, float) or isinstance(b, float):
        x, y = zreal(a), zreal(b)
      else:
        x, y = zint(a), zint(b)
      r = {ast.Lt: x < y, ast.LtE: x <= y, ast.Gt: x > y, ast.GtE: x >= y}[type(op)]
      return k(st, concretize(r))
    return k(st, {ast.Lt: a < b, ast.LtE: a <= b, ast.Gt: a > b, ast.GtE: a >= b}[type(op)])
  if fully_concrete(a) and fully_concrete(b) and not I_.is_modelled_instance(a) and not I_.is_modelled_instance(b):
    try:
      import operator
      f = {ast.Lt: operator.lt, ast.LtE: operator.le, ast.Gt: operator.gt, ast.GtE: operator.ge}[type(op)]
      return k(st, f(a, b))
    except Exception as e:
      return I_.raise_exc(st, ctx, type(e), str(e), node)
  dn = {ast.Lt: "__lt__", ast.LtE: "__le__", ast.Gt: "__gt__", ast.GtE: "__ge__"}[type(op)]
  rn = {ast.Lt: "__gt__", ast.LtE: "__ge__", ast.Gt: "__lt__", ast.GtE: "__le__"}[type(op)]
  for x, y, name in ((a, b, dn), (b, a, rn)):
    cls = _class_of_instance(I_, x, st)
    if cls is not None:
      f = I_.class_lookup(cls, name)
      if f is not _MISSING and isinstance(f, types.FunctionType):
        return I_.call_value(I_.bind(f, x, cls), [y], {}, st, ctx, k, node)
  if isinstance(a, tuple) and isinstance(b, tuple):
    return tuple_order(I_, op, a, b, st, ctx, k, node)
  if (is_byteslike(a) and is_byteslike(b)) or (is_strlike(a) and is_strlike(b)):
    return bytes_order(I_, op, as_sbytes(a), as_sbytes(b), st, ctx, k, node)
  return I_.raise_exc(st, ctx, TypeError, "'%s' not supported between instances of '%s' and '%s'"
                      % (type(op).__name__, _tname(I_, a, st), _tname(I_, b, st)), node)


def bytes_order(I_, op, a, b, st, ctx, k, node):
  la, lb = a.fixed_length(), b.fixed_length()
  if la is None or lb is None or la != lb or la > 32:
    raise Unsupported("ordering of symbolic byte strings of unequal/unknown length")
  # equal length: compare as big-endian numbers
  x = sb.be_int(a, st)
  y = sb.be_int(b, st)
  return compare(I_, op, x, y, st, ctx, k, node)


def tuple_order(I_, op, a, b, st, ctx, k, node):
  n = min(len(a), len(b))
  for x, y in zip(a, b):
    if not (is_numlike(x) and is_numlike(y)):
      raise Unsupported("tuple ordering with non-numeric items")
  # lexicographic formula
  strict = isinstance(op, (ast.Lt, ast.Gt))
  less = isinstance(op, (ast.Lt, ast.LtE))
  def lex(i):
    if i >= n:
      if len(a) == len(b):
        return not strict
      return (len(a) < len(b)) if less else (len(a) > len(b))
    x, y = zint(a[i]), zint(b[i])
    first = (x < y) if less else (x > y)
    return zor(first, zand(x == y, lex(i + 1)))
  return k(st, concretize_(lex(0)))


def identity(I_, a, b, st):
  if isinstance(a, SElem) or isinstance(b, SElem):
    e, o = (a, b) if isinstance(a, SElem) else (b, a)
    if o is None and not e.path:
      v = slist_attr(st, e.ref, "is_none", e.idx)
      if v is not None:
        return v
      return False       # elements of a list of objects are objects
    raise Unsupported("identity test on an abstract list element (only `is None`)")
  if isinstance(a, Union) or isinstance(b, Union):
    u, o = (a, b) if isinstance(a, Union) else (b, a)
    parts = []
    for g, alt in u.alts:
      parts.append(zand(g, identity(I_, alt, o, st)))
    return concretize_(zor(*parts))
  if a is None or b is None:
    return a is None and b is None
  if isinstance(a, Ref) or isinstance(b, Ref):
    return isinstance(a, Ref) and isinstance(b, Ref) and a == b
  if isinstance(a, bool) or isinstance(b, bool) or is_symbool(a) or is_symbool(b):
    if (isinstance(a, bool) or is_symbool(a)) and (isinstance(b, bool) or is_symbool(b)):
      return concretize_(zbool(a) == zbool(b)) if (is_sym(a) or is_sym(b)) else a is b
    return False
  if is_sym(a) or is_sym(b) or isinstance(a, SBytes) or isinstance(b, SBytes):
    if is_intlike(a) and is_intlike(b):
      # identity of ints is an implementation detail; the code base only uses it against None/True/False
      raise Unsupported("identity comparison of symbolic ints")
    if isinstance(a, SBytes) and isinstance(b, SBytes):
      if a is b:
        return True
      raise Unsupported("identity comparison of symbolic bytes")
    return False
  return a is b


def contains(I_, container, item, st, ctx, k, node):
  container = gobj(st, container)
  if isinstance(container, Union):
    return I_.split(container, st, lambda st2, c: contains(I_, c, item, st2, ctx, k, node))
  if isinstance(container, Ref):
    o = st.obj(container)
    if o.kind == "list":
      return any_eq(I_, item, list(o.data), st, ctx, k, node)
    if o.kind in ("dict", "set"):
      if isinstance(item, Union):
        return I_.split(item, st, lambda st2, it: contains(I_, container, it, st2, ctx, k, node))
      if o.kind == "dict" and is_value_key(I_, item, st):
        return dict_locate(I_, container, item, st, ctx, lambda s_, hk: k(s_, True), lambda s_: k(s_, False), node)
      if is_sym(item) or isinstance(item, SBytes) or (o.kind == "set" and any(_is_symkey(hk) for hk in o.data)):
        keys = [(kv[0] if o.kind == "dict" else kv) for kv in o.data.values()]
        return any_eq(I_, item, keys, st, ctx, k, node)
      return k(st, hashkey(item) in o.data)
    if o.kind == "obj":
      f = I_.class_lookup(o.cls, "__contains__")
      if f is not _MISSING:
        return I_.call_value(I_.bind(f, container, o.cls), [item], {}, st, ctx,
                             lambda st2, r: I_.truth(r, st2, ctx, k, node), node)
      raise Unsupported("'in' on object without __contains__")
  if isinstance(container, ObjDict):
    if isinstance(item, str):
      d = st.obj(container.ref).data
      return k(st, item in d and d[item] is not _ABSENT)
    raise Unsupported("symbolic key in __dict__")
  if isinstance(container, tuple):
    return any_eq(I_, item, list(container), st, ctx, k, node)
  if isinstance(container, IterVal):
    return any_eq(I_, item, list(container.items), st, ctx, k, node)
  if isinstance(container, (list, set, frozenset, dict)) or isinstance(container, (type({}.keys()), type({}.values()))):
    if isinstance(item, Union):
      return I_.split(item, st, lambda st2, it: contains(I_, container, it, st2, ctx, k, node))
    if fully_concrete(item) and not I_.is_modelled_instance(item):
      try:
        return k(st, item in container)
      except TypeError as e:
        return I_.raise_exc(st, ctx, TypeError, str(e), node)
    return any_eq(I_, item, list(container), st, ctx, k, node)
  if isinstance(container, range):
    if is_symint(item):
      z = zint(item)
      if container.step == 1:
        return k(st, concretize(z3.And(z >= container.start, z < container.stop)))
    if isinstance(item, int):
      return k(st, item in container)
  if is_byteslike(container) or is_strlike(container):
    if fully_concrete(container) and fully_concrete(item):
      try:
        return k(st, item in container)
      except TypeError as e:
        return I_.raise_exc(st, ctx, TypeError, str(e), node)
    if is_intlike(item) and is_byteslike(container):
      c = as_sbytes(container)
      n = c.fixed_length()
      if n is not None and n <= 64:
        return k(st, concretize_(zor(*[zint(sb.byte_at(c, i, st)) == zint(item) for i in range(n)])))
    raise Unsupported("substring test on symbolic text")
  if I_.is_modelled_instance(container):
    f = I_.class_lookup(type(container), "__contains__")
    if f is not _MISSING:
      return I_.call_value(I_.bind(f, container, type(container)), [item], {}, st, ctx,
                           lambda st2, r: I_.truth(r, st2, ctx, k, node), node)
  if fully_concrete(container) and fully_concrete(item):
    try:
      return k(st, item in container)
    except TypeError as e:
      return I_.raise_exc(st, ctx, TypeError, str(e), node)
  raise Unsupported("'in' on %r" % (container,))


def any_eq(I_, item, elems, st, ctx, k, node):
  def step(j, st2, acc):
    if j >= len(elems):
      return k(st2, concretize_(zor(*acc)) if acc else False)
    def got(st3, r):
      def got_t(st4, t):
        t = concretize_(t)
        if t is True:
          return k(st4, True)
        return step(j + 1, st4, acc + ([t] if t is not False else []))
      return I_.truth(r, st3, ctx, got_t, node)
    return values_eq(I_, elems[j], item, st2, ctx, got, node)
  return step(0, st, [])


# ----------------------------------------------------------------------
# attribute access
# ----------------------------------------------------------------------

def slist_attr(st, ref, path, idx):
  """value of the tracked attribute `path` of element idx of a symbolic list, or None if not tracked"""
  o = st.obj(ref)
  arr = o.data["attrs"].get(path)
  if arr is None:
    return None
  v = z3.Select(arr, zint(idx))
  return concretize(v)


def getattr_value(I_, obj, name, st, ctx, k, node=None):
  if isinstance(obj, Union):
    return I_.split(obj, st, lambda st2, o: getattr_value(I_, o, name, st2, ctx, k, node))
  if isinstance(obj, SElem):
    path = ".".join(obj.path + (name,))
    v = slist_attr(st, obj.ref, path, obj.idx)
    if v is not None:
      return k(st, v)
    o = st.obj(obj.ref)
    if any(p_.startswith(path + ".") or p_.startswith(path + "(") for p_ in o.data["attrs"]):
      return k(st, SElem(obj.ref, obj.idx, obj.path + (name,)))
    raise Unsupported("attribute %s of an abstract list element is not tracked by the contract" % path)
  if isinstance(obj, Ref):
    o = st.obj(obj)
    if o.kind == "obj":
      return obj_getattr(I_, obj, o, o.cls, name, st, ctx, k, node)
    if o.kind in ("list", "dict", "set", "slist"):
      if name == "__class__":
        return k(st, o.cls)
      return k(st, BuiltinMethod(name, obj))
    if o.kind == "gen":
      if name == "__class__":
        return k(st, o.cls)
      if name in ("send", "throw", "close", "__next__", "__iter__"):
        return k(st, BuiltinMethod(name, obj))
      if name == "__name__":
        return k(st, o.data["name"].split(".")[-1])
      return I_.raise_exc(st, ctx, AttributeError, "'generator' object has no attribute '%s'" % name, node)
  if isinstance(obj, SuperProxy):
    target = obj.obj
    tcls = type_of(I_, target, st) if not isinstance(target, type) else target
    mro = list(tcls.__mro__)
    try:
      idx = mro.index(obj.cls)
    except ValueError:
      raise Unsupported("super(): class not in mro")
    for c in mro[idx + 1:]:
      if name in c.__dict__:
        f = c.__dict__[name]
        if isinstance(f, property):
          return I_.call_value(f.fget, [target], {}, st, ctx, k, node)
        if isinstance(target, type):
          if isinstance(f, classmethod):
            return k(st, BoundMethod(f.__func__, target))
          if isinstance(f, staticmethod):
            return k(st, f.__func__)
          return k(st, f)
        if isinstance(f, (types.WrapperDescriptorType, types.MethodDescriptorType)):
          return k(st, BoundMethod(f, target))
        return k(st, I_.bind(f, target, tcls))
    return I_.raise_exc(st, ctx, AttributeError, "super object has no attribute " + name, node)
  if isinstance(obj, SBytes):
    if not hasattr("" if obj.is_str else b"", name):
      return I_.raise_exc(st, ctx, AttributeError, "'%s' object has no attribute '%s'"
                          % ("str" if obj.is_str else "bytes", name), node)
    return k(st, BuiltinMethod(name, obj))
  if isinstance(obj, ExcVal):
    if name == "args":
      return k(st, obj.args)
    if name == "errno":
      return k(st, obj.args[0] if obj.args else None)
    if name == "strerror":
      return k(st, obj.args[1] if len(obj.args) > 1 else None)
    if name == "message":
      return k(st, obj.args[0] if obj.args else "")
    if name == "__class__":
      return k(st, obj.cls)
    if name == "value" and issubclass(obj.cls, StopIteration):
      return k(st, obj.args[0] if obj.args else None)
    raise Unsupported("attribute %s of exception value" % name)
  if isinstance(obj, Closure):
    if name == "__name__":
      return k(st, obj.name)
    if name in ("__func__", "im_func"):
      return k(st, obj)
    return I_.raise_exc(st, ctx, AttributeError, name, node)
  if isinstance(obj, BoundMethod):
    if name in ("__self__", "im_self"):
      return k(st, obj.self)
    if name in ("__func__", "im_func"):
      return k(st, obj.func)
    if name == "__name__":
      f = obj.func
      return k(st, f.name if isinstance(f, Closure) else f.__name__)
    return I_.raise_exc(st, ctx, AttributeError, name, node)
  if isinstance(obj, ObjDict):
    return k(st, BuiltinMethod(name, obj))
  if type(obj).__name__ == "FrameView":
    if name in obj.extra:
      return k(st, obj.extra[name])
    if name.startswith("g_") and name[2:] in st.ghost:
      return k(st, st.ghost[name[2:]])
    fr = st.frames[obj.fid]
    if name in fr and fr[name] is not _ABSENT:
      return k(st, fr[name])
    if obj.known is not None and name not in obj.known:
      # the loop annotation names a local the function does not have (any more): the annotation does not fit this
      # code - a harmless rename must not look like a defect.  The unit becomes undecided (exit 2).
      raise Unsupported("loop annotation refers to local %r, which the function under contract does not have: "
                        "the annotation does not apply to this code" % name)
    return I_.raise_exc(st, ctx, AttributeError, "loop view: no local " + name, node)
  if isinstance(obj, tuple) and type(obj) is not tuple and hasattr(type(obj), "_fields"):
    # namedtuple instance: field access, and properties / methods a repository subclass adds
    tcls = type(obj)
    if name in tcls._fields:
      return k(st, tuple.__getitem__(obj, tcls._fields.index(name)))
    f = I_.class_lookup(tcls, name)
    if isinstance(f, property) and isinstance(f.fget, types.FunctionType):
      return I_.call_value(f.fget, [obj], {}, st, ctx, k, node)
    if isinstance(f, types.FunctionType) and I_.is_repo_function(f):
      return k(st, I_.bind(f, obj, tcls))
    return k(st, BuiltinMethod(name, obj))
  if is_sym(obj) or isinstance(obj, tuple):
    if isinstance(obj, tuple) or name.startswith("__"):
      return k(st, BuiltinMethod(name, obj))
    raise Unsupported("attribute %s of symbolic scalar" % name)
  # concrete python objects
  if isinstance(obj, type):
    # class attribute
    for c_ in obj.__mro__:
      ov = st.ghost.get(("$classattr", c_, name), _MISSING)
      if ov is not _MISSING:
        return k(st, ov)
    f = I_.class_lookup(obj, name)
    if f is _MISSING:
      # metaclass attribute (e.g. __name__) or real getattr
      try:
        return k(st, getattr(obj, name))
      except AttributeError:
        return I_.raise_exc(st, ctx, AttributeError, "type object '%s' has no attribute '%s'"
                            % (obj.__name__, name), node)
    if isinstance(f, staticmethod):
      return k(st, f.__func__)
    if isinstance(f, classmethod):
      return k(st, BoundMethod(f.__func__, obj))
    if isinstance(f, property):
      return k(st, f)
    if isinstance(f, (types.MemberDescriptorType, types.GetSetDescriptorType)):
      return k(st, getattr(obj, name))
    return k(st, f)
  if isinstance(obj, types.ModuleType):
    try:
      return k(st, getattr(obj, name))
    except AttributeError:
      return I_.raise_exc(st, ctx, AttributeError, "module has no attribute " + name, node)
  if I_.is_modelled_instance(obj):
    cls = type(obj)
    return real_instance_getattr(I_, obj, cls, name, st, ctx, k, node)
  if isinstance(obj, (str, bytes, int, float, list, dict, set, frozenset, bool, range)) or obj is None:
    if name == "__class__":
      return k(st, type(obj))
    if not hasattr(obj, name):
      return I_.raise_exc(st, ctx, AttributeError, "'%s' object has no attribute '%s'"
                          % (type(obj).__name__, name), node)
    return k(st, BuiltinMethod(name, obj))
  try:
    return k(st, getattr(obj, name))
  except AttributeError:
    return I_.raise_exc(st, ctx, AttributeError, name, node)


def obj_getattr(I_, ref, o, cls, name, st, ctx, k, node):
  if name == "__dict__":
    return k(st, ObjDict(ref))
  if name == "__class__":
    return k(st, cls)
  f = I_.class_lookup(cls, name)
  if isinstance(f, property):
    if f.fget is None:
      return I_.raise_exc(st, ctx, AttributeError, "unreadable attribute", node)
    return I_.call_value(f.fget, [ref], {}, st, ctx, k, node)
  d = o.data
  if name in d:
    v = d[name]
    if v is _ABSENT:
      pass
    elif isinstance(v, Union) and any(a is _ABSENT for _, a in v.alts):
      def cont(st2, a):
        if a is _ABSENT:
          st3o = st2.obj(ref)
          saved = st3o.data.pop(name)
          try:
            return obj_getattr(I_, ref, st3o, cls, name, st2, ctx, k, node)
          finally:
            pass
        return k(st2, a)
      return I_.split(v, st, cont)
    else:
      return k(st, v)
  for c_ in cls.__mro__:
    ov = st.ghost.get(("$classattr", c_, name), _MISSING)
    if ov is not _MISSING:
      return k(st, ov)
  if f is not _MISSING:
    if isinstance(f, (types.MemberDescriptorType,)):
      return I_.raise_exc(st, ctx, AttributeError, name, node)
    return k(st, I_.bind(f, ref, cls))
  ga = I_.class_lookup(cls, "__getattr__")
  if ga is not _MISSING:
    return I_.call_value(I_.bind(ga, ref, cls), [name], {}, st, ctx, k, node)
  if ref.oid in RAW_OIDS and _class_assigns_attr(cls, name):
    # real instances of this class get this attribute from the class's own code (e.g. __init__), but the object at hand
    # was put together by a contract's harness without it (a renamed field): the contract does not fit this code.
    # Undecided (exit 2) - a defect would be an attribute nobody ever assigns.
    raise Unsupported("harness object of class %s lacks attribute %r which the class's own code assigns: the contract "
                      "does not fit this code" % (cls.__name__, name))
  return I_.raise_exc(st, ctx, AttributeError, "'%s' object has no attribute '%s'" % (cls.__name__, name), node)


_ASSIGNS_CACHE = {}
RAW_OIDS = set()      # objects allocated by a contract's harness without running __init__ (SymBuilder.raw_new)


def _class_assigns_attr(cls, name):
  """does any method of cls (or of its bases defined in Python source) assign self.<name>?"""
  import inspect, re
  key = (cls, name)
  if key in _ASSIGNS_CACHE:
    return _ASSIGNS_CACHE[key]
  pat = re.compile(r"\bself\.%s\b\s*(=(?!=)|\+=|-=|\|=)" % re.escape(name))
  found = False
  for c_ in cls.__mro__:
    if c_ is object:
      continue
    try:
      src = inspect.getsource(c_)
    except Exception:
      continue
    if pat.search(src):
      found = True
      break
  _ASSIGNS_CACHE[key] = found
  return found


def real_instance_getattr(I_, obj, cls, name, st, ctx, k, node):
  if name == "__class__":
    return k(st, cls)
  if name == "__dict__":
    return k(st, obj.__dict__)
  f = I_.class_lookup(cls, name)
  if isinstance(f, property):
    return I_.call_value(f.fget, [obj], {}, st, ctx, k, node)
  inst = getattr(obj, "__dict__", None)
  if inst is not None and name in inst:
    return k(st, inst[name])
  if f is not _MISSING:
    if isinstance(f, (types.MemberDescriptorType, types.GetSetDescriptorType)):
      try:
        return k(st, getattr(obj, name))
      except AttributeError:
        return I_.raise_exc(st, ctx, AttributeError, name, node)
    return k(st, I_.bind(f, obj, cls))
  ga = I_.class_lookup(cls, "__getattr__")
  if ga is not _MISSING:
    return I_.call_value(I_.bind(ga, obj, cls), [name], {}, st, ctx, k, node)
  try:
    return k(st, getattr(obj, name))
  except AttributeError:
    return I_.raise_exc(st, ctx, AttributeError, "'%s' object has no attribute '%s'" % (cls.__name__, name), node)


def setattr_value(I_, obj, name, v, st, ctx, k, node=None, raw=False):
  if isinstance(obj, Union):
    return I_.split(obj, st, lambda st2, o: setattr_value(I_, o, name, v, st2, ctx, k, node, raw))
  if isinstance(obj, Ref):
    o = st.obj(obj)
    if o.kind != "obj":
      return I_.raise_exc(st, ctx, AttributeError, "cannot set attribute on builtin container", node)
    cls = o.cls
    if not raw:
      sa = I_.class_lookup(cls, "__setattr__")
      if sa is not _MISSING and isinstance(sa, (types.FunctionType, Closure)):
        return I_.call_value(I_.bind(sa, obj, cls), [name, v], {}, st, ctx, lambda st2, _: k(st2), node)
    f = I_.class_lookup(cls, name)
    if isinstance(f, property):
      if f.fset is None:
        return I_.raise_exc(st, ctx, AttributeError, "can't set attribute", node)
      return I_.call_value(f.fset, [obj, v], {}, st, ctx, lambda st2, _: k(st2), node)
    slots = None
    if "__slots__" in cls.__dict__ and not hasattr(cls, "__dict__"):
      pass
    st.obj(obj).data[name] = v
    return k(st)
  if isinstance(obj, type) and is_repo_class(I_, obj):
    # class attribute written at run time (e.g. the ipv4.ip_id counter): kept in a per-path overlay
    st.ghost[("$classattr", obj, name)] = v
    return k(st)
  if isinstance(obj, type) or I_.is_modelled_instance(obj) or isinstance(obj, types.ModuleType):
    raise Unsupported("assignment to attribute %s of concrete global object %r" % (name, obj))
  if isinstance(obj, Closure):
    raise Unsupported("attribute assignment on function")
  return I_.raise_exc(st, ctx, AttributeError, "cannot set attribute %s" % name, node)


# ----------------------------------------------------------------------
# subscripts
# ----------------------------------------------------------------------

def _norm_slice(I_, sl, length, st):
  """-> (lo, hi) with 0 <= lo <= hi <= length, python slice clamping; lo/hi ints or terms"""
  if sl.step is not None and sl.step != 1:
    raise Unsupported("slice step")
  def clamp(v, default):
    if v is None:
      return default
    if isinstance(v, bool):
      v = int(v)
    if isinstance(v, int) and isinstance(length, int):
      if v < 0:
        v += length
      return max(0, min(length, v))
    if not is_intlike(v):
      raise Unsupported("slice bound %r" % (v,))
    z = zint(v)
    L = zint(length)
    # decide the clamping under the path condition where possible (keeps terms small)
    if st.entails(z >= 0):
      if st.entails(z <= L):
        return concretize(z)
      if st.entails(z >= L):
        return length
      return concretize(z3.If(z > L, L, z))
    if st.entails(z < 0):
      z = z + L
      if st.entails(z >= 0):
        return concretize(z)
      return concretize(z3.If(z < 0, 0, z))
    z = z3.If(z < 0, z + L, z)
    z = z3.If(z < 0, 0, z3.If(z > L, L, z))
    return concretize(z)
  lo = clamp(sl.lo, 0)
  hi = clamp(sl.hi, length)
  if isinstance(lo, int) and isinstance(hi, int):
    if hi < lo:
      hi = lo
  elif not st.entails_le(lo, hi):
    if st.entails_le(hi, lo):
      hi = lo
    else:
      hi = concretize(z3.If(zint(hi) < zint(lo), zint(lo), zint(hi)))
  return lo, hi


def getitem(I_, obj, idx, st, ctx, k, node=None):
  obj = gobj(st, obj)
  if isinstance(obj, Union):
    return I_.split(obj, st, lambda st2, o: getitem(I_, o, idx, st2, ctx, k, node))
  if isinstance(idx, Union):
    return I_.split(idx, st, lambda st2, i: getitem(I_, obj, i, st2, ctx, k, node))
  where = I_.where(ctx, node)
  if isinstance(obj, ExcVal):
    # Python 3: exception objects are not subscriptable (e[0] was Python 2)
    return I_.raise_exc(st, ctx, TypeError, "'%s' object is not subscriptable" % obj.cls.__name__, node)
  if isinstance(obj, z3.ArrayRef):
    return k(st, concretize(z3.Select(obj, zint(idx))))
  if isinstance(obj, WordArr):
    if not is_intlike(idx):
      raise Unsupported("array slice")
    L = obj.data.length()
    n = (L // 2) if isinstance(L, int) else concretize(zint(L) / 2)
    zi = zint(idx)
    def cont_w(st2):
      lo = sb.byte_at(obj.data, concretize(2 * zi), st2)
      hi = sb.byte_at(obj.data, concretize(2 * zi + 1), st2)
      return k(st2, concretize(zint(lo) + 256 * zint(hi)))
    return I_.safety(st, z3.And(zi >= 0, zi < zint(n)), "safe.index@" + where,
                     ExcVal(IndexError, ("array index out of range",), where), ctx, cont_w)
  if isinstance(obj, (SBytes, bytes, str)) and (isinstance(obj, SBytes) or not fully_concrete(idx)
                                                or isinstance(idx, SliceVal) and not fully_concrete((idx.lo, idx.hi))):
    s = as_sbytes(obj)
    L = s.length()
    if isinstance(idx, SliceVal):
      lo, hi = _norm_slice(I_, idx, L, st)
      r = sb.slice_bytes(s, lo, hi, st)
      r.is_str = s.is_str
      return k(st, norm_bytes(r))
    if not is_intlike(idx):
      return I_.raise_exc(st, ctx, TypeError, "byte indices must be integers", node)
    i = idx
    zi, zL = zint(i), zint(L)
    ok = z3.And(zi >= -zL, zi < zL)
    def cont(st2):
      j = i
      if isinstance(i, int) and i < 0:
        j = concretize(zL + i) if not isinstance(L, int) else L + i
      elif not isinstance(i, int):
        j = concretize(z3.If(zi < 0, zi + zL, zi))
      v = sb.byte_at(s, j, st2)
      if s.is_str:
        if isinstance(v, int):
          return k(st2, chr(v))
        return k(st2, SBytes([("byte", zint(v))], True))
      return k(st2, v)
    return I_.safety(st, ok, "safe.index@" + where, ExcVal(IndexError, ("index out of range",), where), ctx, cont)
  if isinstance(obj, Ref) and st.obj(obj).kind == "slist":
    o = st.obj(obj)
    if not is_intlike(idx):
      raise Unsupported("slice / non-int index of a symbolic list")
    n = zint(o.data["len"])
    zi = zint(idx)
    ok = z3.And(zi >= -n, zi < n)
    def cont_sl(st2):
      j = concretize(z3.If(zi < 0, zi + n, zi)) if not st2.entails(zi >= 0) else idx
      return k(st2, SElem(obj, j))
    return I_.safety(st, ok, "safe.index@" + where, ExcVal(IndexError, ("list index out of range",), where), ctx, cont_sl)
  if isinstance(obj, Ref):
    o = st.obj(obj)
    if o.kind == "list":
      data = o.data
      if isinstance(idx, SliceVal):
        if not fully_concrete((idx.lo, idx.hi, idx.step)):
          raise Unsupported("symbolic slice of list")
        return k(st, st.alloc("list", list, data[slice(idx.lo, idx.hi, idx.step)]))
      if isinstance(idx, int):
        if -len(data) <= idx < len(data):
          I_.note_site("safe.index@" + where, "proved")
          return k(st, data[idx])
        I_.note_site("safe.index@" + where, "raises")
        return I_.raise_exc(st, ctx, IndexError, "list index out of range", node)
      if is_symint(idx):
        n = len(data)
        zi = zint(idx)
        ok = z3.And(zi >= -n, zi < n)
        def cont(st2):
          # case split over positions (lists here are short)
          alts = []
          for j in range(n):
            g = z3.Or(zi == j, zi == j - n)
            alts.append((g, data[j]))
          return _k_union(I_, alts, st2, k)
        return I_.safety(st, ok, "safe.index@" + where, ExcVal(IndexError, ("list index out of range",), where),
                         ctx, cont)
      return I_.raise_exc(st, ctx, TypeError, "list indices must be integers", node)
    if o.kind == "dict":
      if is_sym(idx) or isinstance(idx, SBytes):
        return dict_sym_lookup(I_, obj, idx, st, ctx, k, node)
      if is_value_key(I_, idx, st):
        return dict_locate(I_, obj, idx, st, ctx, lambda s_, hk_: k(s_, s_.obj(obj).data[hk_][1]),
                           lambda s_: I_.raise_exc(s_, ctx, KeyError, "key", node), node)
      hk = hashkey(idx)
      if hk in o.data:
        I_.note_site("safe.key@" + where, "proved")
        return k(st, o.data[hk][1])
      I_.note_site("safe.key@" + where, "raises")
      return I_.raise_exc(st, ctx, KeyError, idx if fully_concrete(idx) else "key", node)
    if o.kind == "obj":
      f = I_.class_lookup(o.cls, "__getitem__")
      if f is not _MISSING:
        if isinstance(idx, SliceVal):
          idx = slice(idx.lo, idx.hi, idx.step)
        return I_.call_value(I_.bind(f, obj, o.cls), [idx], {}, st, ctx, k, node)
      return I_.raise_exc(st, ctx, TypeError, "object is not subscriptable", node)
  if isinstance(obj, ObjDict):
    d = st.obj(obj.ref).data
    if not isinstance(idx, str):
      raise Unsupported("symbolic __dict__ key")
    if idx in d and d[idx] is not _ABSENT:
      v = d[idx]
      if isinstance(v, Union) and any(a is _ABSENT for _, a in v.alts):
        return I_.split(v, st, lambda st2, a: I_.raise_exc(st2, ctx, KeyError, idx, node) if a is _ABSENT else k(st2, a))
      return k(st, v)
    return I_.raise_exc(st, ctx, KeyError, idx, node)
  if isinstance(obj, tuple):
    if isinstance(idx, SliceVal):
      if not fully_concrete((idx.lo, idx.hi, idx.step)):
        raise Unsupported("symbolic slice of tuple")
      return k(st, obj[slice(idx.lo, idx.hi, idx.step)])
    if isinstance(idx, int):
      if -len(obj) <= idx < len(obj):
        return k(st, obj[idx])
      return I_.raise_exc(st, ctx, IndexError, "tuple index out of range", node)
    if is_symint(idx):
      n = len(obj)
      zi = zint(idx)
      ok = z3.And(zi >= -n, zi < n)
      def cont(st2):
        alts = [(z3.Or(zi == j, zi == j - n), obj[j]) for j in range(n)]
        return _k_union(I_, alts, st2, k)
      return I_.safety(st, ok, "safe.index@" + where, ExcVal(IndexError, ("tuple index out of range",), where),
                       ctx, cont)
    return I_.raise_exc(st, ctx, TypeError, "tuple indices must be integers or slices, not %s"
                        % _tname(I_, idx, st), node)
  if I_.is_modelled_instance(obj):
    f = I_.class_lookup(type(obj), "__getitem__")
    if f is not _MISSING and isinstance(f, types.FunctionType):
      if isinstance(idx, SliceVal):
        idx = slice(idx.lo, idx.hi, idx.step)
      return I_.call_value(I_.bind(f, obj, type(obj)), [idx], {}, st, ctx, k, node)
  # concrete container
  if isinstance(idx, SliceVal):
    if not fully_concrete((idx.lo, idx.hi, idx.step)):
      raise Unsupported("symbolic slice of concrete %s" % type(obj).__name__)
    idx = slice(idx.lo, idx.hi, idx.step)
  if is_symint(idx) and isinstance(obj, (list, tuple)):
    return getitem(I_, tuple(obj), idx, st, ctx, k, node)
  if is_sym(idx) and isinstance(obj, dict):
    # concrete dict, symbolic key: case split over the keys
    alts = []
    conds = []
    for kk, vv in obj.items():
      if isinstance(kk, int) and not isinstance(kk, bool) and is_symint(idx):
        alts.append((idx == kk, vv))
        conds.append(idx == kk)
    ok = zor(*conds) if conds else False
    return I_.safety(st, ok, "safe.key@" + where, ExcVal(KeyError, ("key",), where), ctx,
                     lambda st2: _k_union(I_, alts, st2, k))
  if not fully_concrete(idx):
    if isinstance(idx, Ref) or isinstance(idx, SBytes):
      if isinstance(obj, dict):
        return I_.raise_exc(st, ctx, KeyError, "key", node)
    raise Unsupported("subscript %r[%r]" % (type(obj).__name__, idx))
  try:
    return k(st, obj[idx])
  except (IndexError, KeyError, TypeError) as e:
    I_.note_site("safe.subscript@" + where, "raises")
    return I_.raise_exc(st, ctx, type(e), str(e), node)


def _k_union(I_, alts, st, k):
  """continue with the union of the feasible alternatives; when none is feasible the state itself is infeasible
  (the guards cover the state's path condition): the path ends"""
  try:
    u = _union_of(I_, alts, st)
  except _EmptyUnion:
    return None
  return k(st, u)


class _EmptyUnion(Unsupported):
  pass


def _union_of(I_, alts, st):
  """alts: [(guard, value)] -> a single value: ite for scalars, else a guarded union"""
  feas = [(g, v) for g, v in alts if st.feasible(g)]
  if not feas:
    raise _EmptyUnion("empty union")
  # coalesce identical alternatives
  out = []
  for g, v in feas:
    for j, (g0, v0) in enumerate(out):
      same = (v0 is v) or (isinstance(v, Ref) and isinstance(v0, Ref) and v == v0) \
        or (isinstance(v, BoundMethod) and isinstance(v0, BoundMethod) and v.func is v0.func and v.self is v0.self) \
        or (type(v) is type(v0) and isinstance(v, (int, bool, str, bytes, type(None))) and v == v0)
      if same:
        out[j] = (z3.Or(g0, g), v0)
        break
    else:
      out.append((g, v))
  if len(out) == 1:
    return out[0][1]
  if all(is_intlike(v) and not isinstance(v, bool) and not is_symbool(v) for _, v in out):
    res = zint(out[-1][1])
    for g, v in reversed(out[:-1]):
      res = z3.If(g, zint(v), res)
    return concretize(res)
  return Union(out)


def dict_sym_lookup(I_, ref, key, st, ctx, k, node):
  o = st.obj(ref)
  where = I_.where(ctx, node)
  items = list(o.data.values())
  def step(j, st2, alts, conds):
    if j >= len(items):
      ok = zor(*conds) if conds else False
      return I_.safety(st2, ok, "safe.key@" + where, ExcVal(KeyError, ("key",), where), ctx,
                       lambda st3: _k_union(I_, alts, st3, k))
    kk, vv = items[j]
    def got(st3, r):
      return I_.truth(r, st3, ctx, lambda st4, t: step(j + 1, st4, alts + [(zbool(t) if not is_sym(t) else t, vv)],
                                                     conds + [t]), node)
    return values_eq(I_, kk, key, st2, ctx, got, node)
  return step(0, st, [], [])


def slist_elem_values(I_, st, ref, item):
  """values of the tracked attributes for a concrete item stored into a symbolic list (tuple / None elements)"""
  attrs = st.obj(ref).data["attrs"]
  vals = {}
  for nm, arr in attrs.items():
    if nm == "is_none":
      vals[nm] = item is None
    elif nm.isdigit():
      if item is None:
        vals[nm] = None
      else:
        if not isinstance(item, tuple) or int(nm) >= len(item):
          raise Unsupported("element stored into a symbolic list does not have component " + nm)
        c = item[int(nm)]
        vals[nm] = (c.oid if isinstance(c, Ref) else c)
    else:
      return None
  return vals


def setitem(I_, obj, idx, v, st, ctx, k, node=None):
  if isinstance(obj, (list, dict)) and not isinstance(obj, Ref):
    return gobj_mutable(I_, st, obj, ctx, lambda st2, r: setitem(I_, r, idx, v, st2, ctx, k, node), node)
  if isinstance(obj, Union):
    return I_.split(obj, st, lambda st2, o: setitem(I_, o, idx, v, st2, ctx, k, node))
  if isinstance(idx, Union):
    return I_.split(idx, st, lambda st2, i: setitem(I_, obj, i, v, st2, ctx, k, node))
  where = I_.where(ctx, node)
  if isinstance(obj, Ref) and st.obj(obj).kind == "slist":
    o = st.obj(obj)
    vals = slist_elem_values(I_, st, obj, v)
    if vals is None or not is_intlike(idx):
      raise Unsupported("store into a symbolic list")
    n = zint(o.data["len"])
    zi = zint(idx)
    def cont_sl(st2):
      o2 = st2.obj(obj)
      j = concretize(z3.If(zi < 0, zi + n, zi))
      o2.data["attrs"] = dict(o2.data["attrs"])
      for nm, val in vals.items():
        old = o2.data["attrs"][nm]
        if val is None:
          val = z3.Const(fresh_name("unset_" + nm), old.sort().range())
        elif old.sort().range() == z3.BoolSort():
          val = zbool(val) if not is_sym(val) else val
        else:
          val = zint(val)
        o2.data["attrs"][nm] = z3.Store(old, zint(j), val)
      return k(st2)
    return I_.safety(st, z3.And(zi >= -n, zi < n), "safe.index@" + where,
                     ExcVal(IndexError, ("list assignment index out of range",), where), ctx, cont_sl)
  if isinstance(obj, Ref):
    o = st.obj(obj)
    if o.kind == "list":
      data = o.data
      if isinstance(idx, int):
        if -len(data) <= idx < len(data):
          data[idx] = v
          return k(st)
        return I_.raise_exc(st, ctx, IndexError, "list assignment index out of range", node)
      if is_symint(idx):
        n = len(data)
        zi = zint(idx)
        ok = z3.And(zi >= -n, zi < n)
        def cont(st2):
          d2 = st2.obj(obj).data
          for j in range(n):
            g = z3.Or(zi == j, zi == j - n)
            m = I_.merge_values(g, v, d2[j], st2, st2)
            d2[j] = m
          return k(st2)
        return I_.safety(st, ok, "safe.index@" + where, ExcVal(IndexError, ("list assignment index out of range",), where),
                         ctx, cont)
      if isinstance(idx, SliceVal) and fully_concrete((idx.lo, idx.hi, idx.step)):
        def got_items(st2, items):
          st2.obj(obj).data[slice(idx.lo, idx.hi, idx.step)] = list(items)
          return k(st2)
        return I_.iter_values(v, st, ctx, got_items, node)
      raise Unsupported("list setitem with %r" % (idx,))
    if o.kind == "dict":
      if is_sym(idx) or isinstance(idx, SBytes):
        raise Unsupported("symbolic dict key in store")
      if is_value_key(I_, idx, st):
        def found(s_, hk_):
          d_ = s_.obj(obj).data
          d_[hk_] = (d_[hk_][0], v)          # python keeps the key object already present
          return k(s_)
        def absent(s_):
          s_.obj(obj).data[hashkey(idx)] = (idx, v)
          return k(s_)
        return dict_locate(I_, obj, idx, st, ctx, found, absent, node)
      o.data[hashkey(idx)] = (idx, v)
      return k(st)
    if o.kind == "obj":
      f = I_.class_lookup(o.cls, "__setitem__")
      if f is not _MISSING:
        return I_.call_value(I_.bind(f, obj, o.cls), [idx, v], {}, st, ctx, lambda st2, _: k(st2), node)
      return I_.raise_exc(st, ctx, TypeError, "object does not support item assignment", node)
  if isinstance(obj, ObjDict):
    if not isinstance(idx, str):
      raise Unsupported("symbolic __dict__ key")
    st.obj(obj.ref).data[idx] = v
    return k(st)
  if isinstance(obj, (tuple, bytes, str, SBytes)):
    return I_.raise_exc(st, ctx, TypeError, "object does not support item assignment", node)
  raise Unsupported("store into concrete global container %r" % (type(obj).__name__,))


def delitem(I_, obj, idx, st, ctx, k, node=None):
  if isinstance(obj, (list, dict)) and not isinstance(obj, Ref):
    return gobj_mutable(I_, st, obj, ctx, lambda st2, r: delitem(I_, r, idx, st2, ctx, k, node), node)
  if isinstance(obj, Union):
    return I_.split(obj, st, lambda st2, o: delitem(I_, o, idx, st2, ctx, k, node))
  if isinstance(idx, Union):
    return I_.split(idx, st, lambda st2, i: delitem(I_, obj, i, st2, ctx, k, node))
  if isinstance(obj, Ref):
    o = st.obj(obj)
    if o.kind == "list":
      if isinstance(idx, int):
        if -len(o.data) <= idx < len(o.data):
          del o.data[idx]
          return k(st)
        return I_.raise_exc(st, ctx, IndexError, "list assignment index out of range", node)
      if isinstance(idx, SliceVal) and fully_concrete((idx.lo, idx.hi, idx.step)):
        del o.data[slice(idx.lo, idx.hi, idx.step)]
        return k(st)
      raise Unsupported("del list[%r]" % (idx,))
    if o.kind == "dict":
      if is_sym(idx) or isinstance(idx, SBytes):
        raise Unsupported("symbolic dict key in del")
      if is_value_key(I_, idx, st):
        def found(s_, hk_):
          del s_.obj(obj).data[hk_]
          return k(s_)
        return dict_locate(I_, obj, idx, st, ctx, found, lambda s_: I_.raise_exc(s_, ctx, KeyError, "key", node), node)
      hk = hashkey(idx)
      if hk in o.data:
        del o.data[hk]
        return k(st)
      return I_.raise_exc(st, ctx, KeyError, "key", node)
    if o.kind == "obj":
      f = I_.class_lookup(o.cls, "__delitem__")
      if f is not _MISSING:
        return I_.call_value(I_.bind(f, obj, o.cls), [idx], {}, st, ctx, lambda st2, _: k(st2), node)
  if isinstance(obj, ObjDict):
    d = st.obj(obj.ref).data
    if idx in d:
      del d[idx]
      return k(st)
    return I_.raise_exc(st, ctx, KeyError, idx, node)
  raise Unsupported("del on %r" % (obj,))


# ----------------------------------------------------------------------
# iteration
# ----------------------------------------------------------------------

def iter_values(I_, v, st, ctx, k, node=None, live_ok=False):
  v = gobj(st, v)
  if isinstance(v, Union):
    return I_.split(v, st, lambda st2, x: iter_values(I_, x, st2, ctx, k, node, live_ok))
  if isinstance(v, tuple):
    return k(st, list(v))
  if isinstance(v, Ref):
    o = st.obj(v)
    if o.kind == "list":
      if live_ok:
        return k(st, LiveList(v))
      return k(st, list(o.data))
    if o.kind == "dict":
      return k(st, [kv[0] for kv in o.data.values()])
    if o.kind == "set":
      return k(st, list(o.data.values()))
    if o.kind == "obj":
      f = I_.class_lookup(o.cls, "__iter__")
      if f is not _MISSING:
        return I_.call_value(I_.bind(f, v, o.cls), [], {}, st, ctx,
                             lambda st2, r: iter_values(I_, r, st2, ctx, k, node), node)
      return I_.raise_exc(st, ctx, TypeError, "object is not iterable", node)
    # a list of symbolic length (or any other heap kind): not iterable by unrolling - the construct is outside the
    # evaluator (a `for` statement over it can carry a loop invariant; a comprehension / generator cannot)
    raise Unsupported("iteration over a %s of symbolic length outside a `for` statement with an invariant at %s"
                      % (o.kind, I_.where(ctx, node)))
  if isinstance(v, IterVal):
    return k(st, list(v.items))
  if isinstance(v, SymRange):
    raise Unsupported("loop over range() with a symbolic bound needs a loop invariant at %s" % I_.where(ctx, node))
  if isinstance(v, SElem) and not v.path:
    attrs = st.obj(v.ref).data["attrs"]
    comps = sorted([a for a in attrs if a.isdigit()], key=int)
    if not comps:
      raise Unsupported("abstract list element is not a tracked tuple")
    return k(st, [slist_attr(st, v.ref, a, v.idx) for a in comps])
  if isinstance(v, SBytes):
    n = v.fixed_length()
    if n is None:
      raise Unsupported("iteration over bytes of symbolic length at %s" % I_.where(ctx, node))
    items = []
    for i in range(n):
      b = sb.byte_at(v, i, st)
      if v.is_str:
        items.append(chr(b) if isinstance(b, int) else SBytes([("byte", zint(b))], True))
      else:
        items.append(b)
    return k(st, items)
  if isinstance(v, ObjDict):
    d = st.obj(v.ref).data
    return k(st, [q for q in d.keys() if d[q] is not _ABSENT])
  if v is None or is_numlike(v):
    return I_.raise_exc(st, ctx, TypeError, "'%s' object is not iterable" % _tname(I_, v, st), node)
  if I_.is_modelled_instance(v):
    f = I_.class_lookup(type(v), "__iter__")
    if f is not _MISSING and isinstance(f, types.FunctionType):
      return I_.call_value(I_.bind(f, v, type(v)), [], {}, st, ctx,
                           lambda st2, r: iter_values(I_, r, st2, ctx, k, node), node)
  try:
    if isinstance(v, (types.GeneratorType,)):
      raise Unsupported("iteration over a real generator")
    if (not isinstance(v, (list, tuple, dict, set, frozenset)) and not fully_concrete(v)) \
       or type(v).__module__.startswith("pyvc"):
      # an engine value (heap reference, symbolic bytes ...) that no case above knows how to walk
      raise Unsupported("iteration over engine value %r" % type(v).__name__)
    return k(st, list(v))
  except TypeError as e:
    return I_.raise_exc(st, ctx, TypeError, str(e), node)


class IterVal(object):
  """an already materialised iterator/sequence of values (range over ints, enumerate, zip, dict views...)"""
  __slots__ = ("items", "kind")

  def __init__(self, items, kind="iter"):
    self.items = items
    self.kind = kind


def mapping_items(I_, v, st, ctx, k, node):
  if isinstance(v, Ref) and st.obj(v).kind == "dict":
    return k(st, [kv for kv in st.obj(v).data.values()])
  if isinstance(v, dict):
    return k(st, list(v.items()))
  raise Unsupported("** of non-dict")


# ----------------------------------------------------------------------
# calls
# ----------------------------------------------------------------------

def call_value(I_, f, args, kws, st, ctx, k, node=None):
  if isinstance(f, Union):
    return I_.split(f, st, lambda st2, g: call_value(I_, g, args, kws, st2, ctx, k, node))
  if isinstance(f, SElem):
    # method of an abstract list element: its result is the tracked function of the element (the contract
    # of the unit states under which fixed other arguments this holds)
    path = ".".join(f.path) + "()"
    v = slist_attr(st, f.ref, path, f.idx)
    if v is None:
      raise Unsupported("method %s of an abstract list element is not tracked by the contract" % path)
    return k(st, v)
  # contract / policy hook
  spec = I_.call_spec_for(f, st) if hasattr(I_, "call_spec_for") else None
  if spec is not None:
    return spec.apply(I_, f, args, kws, st, ctx, k, node)
  if isinstance(f, Closure):
    return I_.call_closure(f, args, kws, st, ctx, k, node)
  if isinstance(f, BoundMethod):
    fn = f.func
    if isinstance(fn, (types.WrapperDescriptorType, types.MethodDescriptorType, types.BuiltinFunctionType)):
      return builtin_unbound(I_, fn, [f.self] + list(args), kws, st, ctx, k, node)
    return call_value(I_, fn, [f.self] + list(args), kws, st, ctx, k, node)
  if isinstance(f, BuiltinMethod):
    from .methods import call_method
    return call_method(I_, f.recv, f.name, args, kws, st, ctx, k, node)
  if isinstance(f, types.FunctionType):
    from .builtins_model import _TABLE as _BT, call_builtin as _cb
    if f in _BT:
      return _cb(I_, f, args, kws, st, ctx, k, node)
    if I_.is_repo_function(f) or getattr(f, "__module__", "").startswith("contracts") \
       or getattr(f, "__module__", "").startswith("spec"):
      return I_.call_closure(I_.closure_of(f), args, kws, st, ctx, k, node)
    if all(fully_concrete(a) for a in args) and all(fully_concrete(v) for v in kws.values()):
      try:
        return k(st, f(*args, **kws))
      except Exception as e:
        return I_.raise_exc(st, ctx, type(e), str(e), node)
    raise Unsupported("call of non-repository python function %s with symbolic arguments" % f.__qualname__)
  if isinstance(f, types.MethodType):
    if getattr(f.__func__, "_pyvc_native", False):
      return k(st, f.__func__(f.__self__, st, *args, **kws))
    return call_value(I_, f.__func__, [f.__self__] + list(args), kws, st, ctx, k, node)
  if isinstance(f, type):
    return instantiate(I_, f, args, kws, st, ctx, k, node)
  if isinstance(f, (types.WrapperDescriptorType, types.MethodDescriptorType)):
    return builtin_unbound(I_, f, list(args), kws, st, ctx, k, node)
  if isinstance(f, Ref):
    ho = st.obj(f)
    if ho is not None and ho.kind == "obj":
      m = I_.class_lookup(ho.cls, "__call__")
      if isinstance(m, types.FunctionType):
        return call_value(I_, m, [f] + list(args), kws, st, ctx, k, node)
  from .builtins_model import call_builtin
  return call_builtin(I_, f, args, kws, st, ctx, k, node)


def builtin_unbound(I_, fn, args, kws, st, ctx, k, node):
  name = getattr(fn, "__name__", "")
  owner = getattr(fn, "__objclass__", None)
  if owner is object:
    if name == "__setattr__":
      return setattr_value(I_, args[0], args[1], args[2], st, ctx, lambda st2: k(st2, None), node, raw=True)
    if name == "__init__":
      return k(st, None)
    if name == "__getattribute__":
      raise Unsupported("object.__getattribute__")
    if name == "__eq__":
      return k(st, identity(I_, args[0], args[1], st))
    if name == "__ne__":
      return k(st, znot(identity(I_, args[0], args[1], st)))
    if name == "__hash__":
      from .builtins_model import model_hash
      return model_hash(I_, args[0], st, ctx, k, node, identity=True)
  if owner is not None and issubclass(owner, BaseException) and name == "__init__":
    return k(st, None)
  raise Unsupported("builtin slot wrapper %s.%s" % (getattr(owner, "__name__", "?"), name))


def is_repo_class(I_, cls):
  mod = sys.modules.get(getattr(cls, "__module__", None))
  f = getattr(mod, "__file__", None) if mod is not None else None
  return bool(f and (f.startswith(REPO + "/") or "/verif/" in f))


def instantiate(I_, cls, args, kws, st, ctx, k, node):
  if issubclass(cls, BaseException):
    if is_repo_class(I_, cls):
      init = I_.class_lookup(cls, "__init__")
      if isinstance(init, types.FunctionType):
        # exception classes with their own __init__: keep args, do not interpret
        pass
    return k(st, ExcVal(cls, args, where=I_.where(ctx, node)))
  if is_repo_class(I_, cls) and issubclass(cls, tuple) and hasattr(cls, "_fields") \
      and not any(isinstance(c.__dict__.get(n), types.FunctionType) for c in cls.__mro__ if is_repo_class(I_, c) for n in ("__new__", "__init__")):
    # a namedtuple (or a repository subclass of one that adds only properties / methods): a real instance whose elements may
    # be symbolic terms; it behaves as a tuple everywhere else in the evaluator
    fields = list(cls._fields)
    if len(args) > len(fields) or any(n not in fields for n in kws):
      return I_.raise_exc(st, ctx, TypeError, "%s() takes %d fields" % (cls.__name__, len(fields)), node)
    vals = list(args) + [None] * (len(fields) - len(args))
    given = [True] * len(args) + [False] * (len(fields) - len(args))
    for n, v in kws.items():
      i = fields.index(n)
      if given[i]:
        return I_.raise_exc(st, ctx, TypeError, "%s() got multiple values for field %s" % (cls.__name__, n), node)
      vals[i], given[i] = v, True
    defaults = getattr(cls, "_field_defaults", {}) or {}
    for i, n in enumerate(fields):
      if not given[i]:
        if n not in defaults:
          return I_.raise_exc(st, ctx, TypeError, "%s() missing field %s" % (cls.__name__, n), node)
        vals[i] = defaults[n]
    return k(st, tuple.__new__(cls, vals))
  if is_repo_class(I_, cls):
    for base in cls.__mro__:
      if base in (list, dict, set, tuple, bytes, str, int, frozenset) or \
         (base.__module__ == "collections" and base is not object):
        raise Unsupported("instance of %s (subclass of builtin container %s)" % (cls.__name__, base.__name__))
    new = I_.class_lookup(cls, "__new__")
    if new is not _MISSING and new is not object.__new__ and isinstance(new, (staticmethod, types.FunctionType)):
      raise Unsupported("class %s defines __new__" % cls.__name__)
    ref = st.alloc("obj", cls, {})
    init = I_.class_lookup(cls, "__init__")
    if isinstance(init, (types.FunctionType, Closure)):
      def done(st2, r):
        return k(st2, ref)
      return call_value(I_, init, [ref] + list(args), kws, st, ctx, done, node)
    if (args or kws) and init is object.__init__:
      return I_.raise_exc(st, ctx, TypeError, "%s() takes no arguments" % cls.__name__, node)
    return k(st, ref)
  from .builtins_model import call_builtin
  return call_builtin(I_, cls, args, kws, st, ctx, k, node)
