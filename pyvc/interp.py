"""Merging symbolic evaluator for the real function ASTs (CPS style).

ev(node, st, ctx, k)      evaluate expression; k(st, value) for every normal outcome
ex(stmts, i, st, ctx, k)  execute statements; k(st) on fall-through
Exceptions / return / break / continue go through the continuations in ctx.
A continuation returns only when the whole rest of that path has been explored
(depth first), so collectors placed at joins see every incoming path.
"""
import os
import ast
import sys
import types
import inspect
import builtins
import z3

from .values import *
from .sbytes import SBytes
from . import sbytes as sb
from .state import State, new_oid

sys.setrecursionlimit(200000)

REPO = os.environ.get("PYVC_REPO", "/repo")   # scratch copies for seeded-change evaluation only; registered commands never set it


class Ctx(object):
  __slots__ = ("fid", "fn", "ret_k", "exc_k", "brk_k", "cont_k", "cur_exc", "depth", "gen")

  def __init__(self, fid, fn, ret_k, exc_k, brk_k=None, cont_k=None, cur_exc=None, depth=0, gen=None):
    self.fid = fid
    self.fn = fn
    self.ret_k = ret_k
    self.exc_k = exc_k
    self.brk_k = brk_k
    self.cont_k = cont_k
    self.cur_exc = cur_exc
    self.depth = depth
    self.gen = gen

  def replace(self, **kw):
    c = Ctx(self.fid, self.fn, self.ret_k, self.exc_k, self.brk_k, self.cont_k, self.cur_exc, self.depth, self.gen)
    for k_, v in kw.items():
      setattr(c, k_, v)
    return c


class ObjDict(object):
  """the __dict__ of a symbolic object"""
  __slots__ = ("ref",)

  def __init__(self, ref):
    self.ref = ref


class Obligation(object):
  def __init__(self, name, kind, status, detail=None, model=None, time=0.0, where=None):
    self.name = name
    self.kind = kind
    self.status = status   # proved | refuted | unknown | raises
    self.detail = detail
    self.model = model
    self.time = time
    self.where = where


_ast_cache = {}
_fn_index = {}


def _parse_file(path):
  if path not in _ast_cache:
    with open(path, "rb") as f:
      src = f.read()
    tree = ast.parse(src, path)
    idx = {}
    for node in ast.walk(tree):
      if isinstance(node, (ast.FunctionDef, ast.Lambda)):
        lines = [node.lineno]
        if isinstance(node, ast.FunctionDef):
          lines += [d.lineno for d in node.decorator_list]
        for ln in lines:
          idx.setdefault(ln, []).append(node)
    _ast_cache[path] = (tree, idx, src)
  return _ast_cache[path]


def local_names(node):
  """names that are local to a function (assigned anywhere in its own body)"""
  names = set()
  args = node.args
  for a in args.posonlyargs + args.args + args.kwonlyargs:
    names.add(a.arg)
  if args.vararg:
    names.add(args.vararg.arg)
  if args.kwarg:
    names.add(args.kwarg.arg)

  def walk(n):
    for ch in ast.iter_child_nodes(n):
      if isinstance(ch, (ast.FunctionDef, ast.ClassDef)):
        names.add(ch.name)
        continue
      if isinstance(ch, ast.Lambda):
        continue
      if isinstance(ch, (ast.ListComp, ast.SetComp, ast.DictComp, ast.GeneratorExp)):
        # comprehension targets are in their own scope; but walk the first iterable
        continue
      if isinstance(ch, ast.Name) and isinstance(ch.ctx, (ast.Store, ast.Del)):
        names.add(ch.id)
      if isinstance(ch, ast.ExceptHandler) and ch.name:
        names.add(ch.name)
      if isinstance(ch, (ast.Import, ast.ImportFrom)):
        for al in ch.names:
          names.add((al.asname or al.name).split(".")[0])
      walk(ch)

  if isinstance(node, ast.Lambda):
    return names
  wrapper = ast.Module(body=node.body, type_ignores=[])
  walk(wrapper)
  return names


_localnames_cache = {}


def fn_locals(node):
  i = id(node)
  if i not in _localnames_cache:
    _localnames_cache[i] = local_names(node)
  return _localnames_cache[i]


class Interp(object):
  def __init__(self, config=None):
    from . import models
    self.models = models
    self.config = config
    self.obligations = []
    self.site_status = {}       # site name -> worst status
    self.unroll_limit = 300
    self.call_depth_limit = 60
    self.functions_seen = {}    # qualname -> (file, first, last)
    self.call_specs = {}        # key (realfn or qualname) -> spec
    self.loop_specs = {}        # (qualname, ordinal) -> spec
    self.dropped_calls = 0
    self.merge_count = 0
    self.fork_count = 0
    self.obligation_timeout_ms = 20000
    self.merge_cap = 6
    self.log_depth = 0

  # ------------------------------------------------------------------
  # function objects
  # ------------------------------------------------------------------
  def closure_of(self, fn):
    """real python function -> Closure over its AST re-read from the working tree"""
    key = fn
    c = _fn_index.get(key)
    if c is not None:
      return c
    code = fn.__code__
    path = code.co_filename
    tree, idx, src = _parse_file(path)
    cands = [n for n in idx.get(code.co_firstlineno, [])
             if (isinstance(n, ast.Lambda) and fn.__name__ == "<lambda>") or
             (isinstance(n, ast.FunctionDef) and n.name == fn.__name__)]
    if not cands:
      raise Unsupported("cannot locate source of %r" % (fn,))
    node = cands[0]
    if len(cands) > 1:
      # several lambdas on one line: match the column of the first instruction with the body
      try:
        cols = set()
        for pos in code.co_positions():
          if pos[0] is not None and pos[2] is not None:
            cols.add((pos[0], pos[2]))
        best = [n for n in cands if (n.body.lineno, n.body.col_offset) in cols] if fn.__name__ == "<lambda>" else []
        best = [n for n in best if [a.arg for a in n.args.args] == list(code.co_varnames[:code.co_argcount])]
        if len(best) >= 1:
          node = best[0]
        if len(best) != 1:
          argm = [n for n in cands if isinstance(n, ast.Lambda) and
                  [a.arg for a in n.args.args] == list(code.co_varnames[:code.co_argcount])]
          if len(argm) == 1:
            node = argm[0]
          elif len(best) != 1:
            raise Unsupported("ambiguous lambda at %s:%d; put each contract lambda on its own line"
                              % (path, code.co_firstlineno))
      except Unsupported:
        raise
    owner = None
    qn = fn.__qualname__
    if "." in qn and "<locals>" not in qn:
      try:
        o = fn.__globals__
        parts = qn.split(".")[:-1]
        cur = o[parts[0]]
        for p in parts[1:]:
          cur = inspect.getattr_static(cur, p)
        owner = cur
      except Exception:
        owner = None
    if owner is None and fn.__closure__:
      for nm, cell in zip(code.co_freevars, fn.__closure__):
        if nm == "__class__":
          owner = cell.cell_contents
    kwd = dict(fn.__kwdefaults__ or {})
    c = Closure(node, None, fn.__globals__, fn.__name__, tuple(fn.__defaults__ or ()), kwd,
                owner=owner, qualname=fn.__module__ + ":" + qn, realfn=fn, module=fn.__module__)
    if fn.__closure__:
      fv = {}
      for nm, cell in zip(code.co_freevars, fn.__closure__):
        try:
          fv[nm] = cell.cell_contents
        except ValueError:
          pass
      c.freevars = fv
    else:
      _fn_index[key] = c
    end = getattr(node, "end_lineno", node.lineno)
    self.functions_seen[c.qualname] = (path, node.lineno, end)
    return c

  def call_spec_for(self, f, st):
    if not self.call_specs:
      return None
    fn = f
    qn = None
    if isinstance(fn, Closure):
      qn = fn.qualname
    elif isinstance(fn, types.FunctionType):
      qn = fn.__module__ + ":" + fn.__qualname__
    elif isinstance(fn, type):
      qn = fn.__module__ + ":" + fn.__qualname__
    elif isinstance(fn, types.BuiltinFunctionType) and isinstance(getattr(fn, "__module__", None), str):
      qn = fn.__module__ + ":" + fn.__name__       # e.g. "select:select"
    if qn is None:
      return None
    return self.call_specs.get(qn)

  def is_repo_function(self, fn):
    return isinstance(fn, types.FunctionType) and fn.__code__.co_filename.startswith(REPO + "/")

  # ------------------------------------------------------------------
  # obligations
  # ------------------------------------------------------------------
  def note_site(self, name, status, detail=None):
    order = {"proved": 0, "raises": 1, "unknown": 2, "refuted": 3}
    old = self.site_status.get(name)
    if old is None or order[status] > order[old[0]]:
      self.site_status[name] = (status, detail)

  def check_obligation(self, st, cond, name, kind="post", timeout_ms=None):
    """record the obligation  pc ==> cond"""
    import time as _t
    t0 = _t.time()
    cond = concretize(cond) if is_sym(cond) else cond
    model = None
    if cond is True:
      status = "proved"
    else:
      neg = z3.BoolVal(True) if cond is False else z3.Not(cond)
      r, model = st.check([neg], what=name, want_model=True, timeout_ms=timeout_ms or self.obligation_timeout_ms)
      status = {"unsat": "proved", "sat": "refuted", "unknown": "unknown"}[r]
      if status == "refuted":
        import os as _os
        if _os.environ.get("PYVC_DEBUG"):
          from .backends import to_smt2
          open("/tmp/pyvc_refuted_%s.smt2" % name.replace("/", "_")[:60], "w").write(to_smt2(st.pc + [neg]))
      if status == "unknown":
        import os as _os
        if _os.environ.get("PYVC_DEBUG"):
          sys.stderr.write("UNKNOWN %s pc=%d\n" % (name, len(st.pc)))
          from .backends import to_smt2
          open("/tmp/pyvc_unknown_%s.smt2" % name.replace("/", "_")[:60], "w").write(to_smt2(st.pc + [neg]))
        status, model = self.second_opinion(st, neg, name)
    ob = Obligation(name, kind, status, model=model, time=_t.time() - t0)
    ob.pc_len = len(st.pc)
    self.obligations.append(ob)
    return status

  def second_opinion(self, st, neg, name):
    """z3 said unknown: ask cvc5 and z3 4.8 through SMT-LIB2"""
    try:
      from .backends import second_opinion
      return second_opinion(st.pc + [neg], name)
    except Exception as e:   # pragma: no cover
      return "unknown", None

  def where(self, ctx, node):
    fn = ctx.fn.qualname if ctx is not None and ctx.fn is not None else "?"
    return "%s:%s" % (fn, getattr(node, "lineno", "?"))

  # ------------------------------------------------------------------
  # branching helpers
  # ------------------------------------------------------------------
  def branch(self, cond, st, k_true, k_false, what=None):
    """non-merging two-way branch on a (possibly symbolic) bool"""
    cond = concretize(cond) if is_sym(cond) else cond
    if cond is True:
      return k_true(st)
    if cond is False:
      return k_false(st)
    ft = st.feasible(cond, what)
    ff = st.feasible(z3.Not(cond), what)
    if ft and not ff:
      return k_true(st)
    if ff and not ft:
      return k_false(st)
    if not ft and not ff:
      return  # dead path
    self.fork_count += 1
    s2 = st.copy()
    st.add(cond)
    k_true(st)
    s2.add(z3.Not(cond))
    k_false(s2)

  def safety(self, st, ok_cond, site, exc, ctx, k):
    """run-time check: if ok_cond can fail, fork an exception path; continue with ok_cond assumed.
    site is the obligation name ("safe.<kind>@fn:line")."""
    ok_cond = concretize(ok_cond) if is_sym(ok_cond) else ok_cond
    if ok_cond is True:
      self.note_site(site, "proved")
      return k(st)
    if ok_cond is False:
      self.note_site(site, "raises")
      return ctx.exc_k(st, exc)
    bad = st.feasible(z3.Not(ok_cond), site)
    if not bad:
      self.note_site(site, "proved")
      return k(st)
    good = st.feasible(ok_cond, site)
    self.note_site(site, "raises")
    if not good:
      return ctx.exc_k(st, exc)
    self.fork_count += 1
    s2 = st.copy()
    s2.add(z3.Not(ok_cond))
    ctx.exc_k(s2, exc)
    st.add(ok_cond)
    k(st)

  def raise_exc(self, st, ctx, cls, msg=None, node=None):
    e = ExcVal(cls, (msg,) if msg is not None else (), where=self.where(ctx, node) if node is not None else None)
    return ctx.exc_k(st, e)

  # ------------------------------------------------------------------
  # state merging
  # ------------------------------------------------------------------
  def merge_values(self, g1, v1, v2, st1, st2):
    """value that equals v1 when g1 holds, v2 otherwise; None if not mergeable -> Union"""
    if v1 is v2:
      return v1
    if is_sym(v1) and is_sym(v2) and v1.eq(v2):
      return v1
    try:
      if not is_sym(v1) and not is_sym(v2) and not isinstance(v1, (SBytes, Union, Ref)) \
         and type(v1) == type(v2) and v1 == v2:
        return v1
    except Exception:
      pass
    if isinstance(v1, Ref) and isinstance(v2, Ref) and v1 == v2:
      return v1
    b1 = isinstance(v1, bool) or is_symbool(v1)
    b2 = isinstance(v2, bool) or is_symbool(v2)
    if b1 and b2:
      return concretize(z3.If(g1, zbool(v1), zbool(v2)))
    if (not b1 and not b2 and is_intlike(v1) and is_intlike(v2)):
      bx, by = st1.bits_of(v1), st2.bits_of(v2)
      if bx is not None and by is not None and (is_sym(v1) or is_sym(v2)) and max(len(bx), len(by)) <= 64:
        w = max(len(bx), len(by))
        bx = list(bx) + [0] * (w - len(bx))
        by = list(by) + [0] * (w - len(by))
        bits = []
        for p_, q_ in zip(bx, by):
          if isinstance(p_, int) and isinstance(q_, int) and p_ == q_:
            bits.append(p_)
          elif is_sym(p_) and is_sym(q_) and p_.eq(q_):
            bits.append(p_)
          else:
            bits.append(z3.If(g1, zint(p_), zint(q_)))
        r = st1.compose_bits(bits)
        if is_sym(r):
          st2.register_bits(r, bits)
        return r
      if _ite_depth(v1) >= 4 or _ite_depth(v2) >= 4:
        return _NOMERGE     # long chains of case splits are cheaper as separate paths
      return concretize(z3.If(g1, zint(v1), zint(v2)))
    if is_symreal(v1) or is_symreal(v2):
      if is_numlike(v1) and is_numlike(v2) and not b1 and not b2:
        return z3.If(g1, zreal(v1), zreal(v2))
    if isinstance(v1, (bytes, SBytes)) and isinstance(v2, (bytes, SBytes)) and not isinstance(v1, str):
      a = self.models.as_sbytes(v1)
      b = self.models.as_sbytes(v2)
      la, lb = a.fixed_length(), b.fixed_length()
      if la is not None and la == lb and la <= 64 and a.is_str == b.is_str:
        chunks = []
        for i in range(la):
          x = sb.byte_at(a, i, st1)
          y = sb.byte_at(b, i, st2)
          if isinstance(x, int) and isinstance(y, int) and x == y:
            chunks.append(("lit", bytes([x])))
          elif is_sym(x) and is_sym(y) and x.eq(y):
            chunks.append(("byte", x))
          else:
            mb = self.merge_values(g1, x, y, st1, st2)
            chunks.append(("byte", zint(mb)) if is_sym(mb) else ("lit", bytes([mb])))
        return SBytes(chunks, a.is_str)
    if isinstance(v1, tuple) and isinstance(v2, tuple) and len(v1) == len(v2):
      out = []
      for x, y in zip(v1, v2):
        mv = self.merge_values(g1, x, y, st1, st2)
        if mv is _NOMERGE:
          return _NOMERGE
        out.append(mv)
      return tuple(out)
    # guarded union
    alts = []
    for g, v in ((g1, v1), (z3.Not(g1), v2)):
      if isinstance(v, Union):
        for gg, vv in v.alts:
          alts.append((z3.And(g, gg), vv))
      else:
        alts.append((g, v))
    # coalesce identical alternatives
    out = []
    for g, v in alts:
      for j, (g0, v0) in enumerate(out):
        same = (v0 is v) or (v is None and v0 is None) or (isinstance(v, Ref) and isinstance(v0, Ref) and v == v0) \
               or (isinstance(v, (int, bool, str, bytes)) and type(v) == type(v0) and v == v0)
        if same:
          out[j] = (z3.Or(g0, g), v0)
          break
      else:
        out.append((g, v))
    if len(out) == 1:
      return out[0][1]
    if len(out) > 8:
      return _NOMERGE
    return Union(out)

  def merge_states(self, s1, s2, extra1=None, extra2=None):
    """merge two states that forked from a common ancestor; returns (state, merged_extra) or None"""
    n = 0
    m = min(len(s1.pc), len(s2.pc))
    while n < m and s1.pc[n] is s2.pc[n]:
      n += 1
    if n < m:
      # also accept structurally equal prefix entries
      while n < m and s1.pc[n].eq(s2.pc[n]):
        n += 1
    r1 = s1.pc[n:]
    r2 = s2.pc[n:]
    g1 = zand(*r1) if r1 else True
    g2 = zand(*r2) if r2 else True
    if g1 is True or g2 is True:
      return None
    if set(s1.frames.keys()) != set(s2.frames.keys()):
      # frames created in only one branch are dead by now unless captured; keep union
      pass
    g1z = g1
    # objects: lists must have equal length
    new_heap = {}
    for oid in set(s1.heap.keys()) | set(s2.heap.keys()):
      o1 = s1.heap.get(oid)
      o2 = s2.heap.get(oid)
      if o1 is None:
        new_heap[oid] = o2
        continue
      if o2 is None:
        new_heap[oid] = o1
        continue
      if o1.kind != o2.kind or o1.cls is not o2.cls:
        return None
      if o1.kind == "list":
        if len(o1.data) != len(o2.data):
          return None
        data = []
        for x, y in zip(o1.data, o2.data):
          v = self.merge_values(g1z, x, y, s1, s2)
          if v is _NOMERGE:
            return None
          data.append(v)
        new_heap[oid] = HObj(o1.kind, o1.cls, data, o1.escaped or o2.escaped)
      elif o1.kind in ("obj", "dict", "set", "gen"):
        if list(o1.data.keys()) != list(o2.data.keys()):
          if o1.kind != "obj" or set(o1.data.keys()) != set(o2.data.keys()):
            if o1.kind == "obj":
              # attribute set on one side only: represent absence explicitly
              data = {}
              for kx in list(o1.data.keys()) + [q for q in o2.data.keys() if q not in o1.data]:
                x = o1.data.get(kx, _ABSENT)
                y = o2.data.get(kx, _ABSENT)
                v = self.merge_values(g1z, x, y, s1, s2)
                if v is _NOMERGE:
                  return None
                data[kx] = v
              new_heap[oid] = HObj(o1.kind, o1.cls, data, o1.escaped or o2.escaped)
              continue
            return None
        data = {}
        for kx in o1.data.keys():
          v = self.merge_values(g1z, o1.data[kx], o2.data[kx], s1, s2)
          if v is _NOMERGE:
            return None
          data[kx] = v
        new_heap[oid] = HObj(o1.kind, o1.cls, data, o1.escaped or o2.escaped)
      else:
        if o1.data is not o2.data:
          return None
        new_heap[oid] = o1
    new_frames = {}
    for fid in set(s1.frames.keys()) | set(s2.frames.keys()):
      f1 = s1.frames.get(fid)
      f2 = s2.frames.get(fid)
      if f1 is None:
        new_frames[fid] = f2
        continue
      if f2 is None:
        new_frames[fid] = f1
        continue
      fr = {}
      for kx in list(f1.keys()) + [q for q in f2.keys() if q not in f1]:
        x = f1.get(kx, _ABSENT)
        y = f2.get(kx, _ABSENT)
        v = self.merge_values(g1z, x, y, s1, s2)
        if v is _NOMERGE:
          return None
        fr[kx] = v
      new_frames[fid] = fr
    new_ghost = {}
    for kx in set(s1.ghost.keys()) | set(s2.ghost.keys()):
      x = s1.ghost.get(kx, _ABSENT)
      y = s2.ghost.get(kx, _ABSENT)
      if isinstance(x, tuple) and isinstance(y, tuple) and len(x) != len(y):
        return None        # ghost logs of different length: keep the paths apart
      v = self.merge_values(g1z, x, y, s1, s2)
      if v is _NOMERGE:
        return None
      new_ghost[kx] = v
    ex = None
    if extra1 is not None or extra2 is not None:
      ex = self.merge_values(g1z, extra1, extra2, s1, s2)
      if ex is _NOMERGE:
        return None
    s = State()
    s.pc = s1.pc[:n] + [z3.Or(g1, g2)]
    # facts that do not depend on the branch (range facts, definitional equalities) are kept
    # guarded inside g1/g2; nothing is lost.
    s.heap = new_heap
    s.frames = new_frames
    s.ghost = new_ghost
    s.ranged = s1.ranged & s2.ranged
    s.bitdecomp = dict(s1.bitdecomp)
    s.bitdecomp.update(s2.bitdecomp)
    s.has_quant = s1.has_quant or s2.has_quant
    s.unsigned_of = dict(s1.unsigned_of)
    s.unsigned_of.update(s2.unsigned_of)
    # decompositions whose defining facts are in the common prefix (made before the fork)
    s.decomp = dict((k_, v_) for k_, v_ in s1.decomp.items() if k_ in s2.decomp and s2.decomp[k_][1] is v_[1])
    s.norange = s1.norange & s2.norange
    s.trace = s1.trace
    self.merge_count += 1
    return (s, ex)

  def merge_all(self, items):
    """items: list of (state, extra).  Greedy pairwise merging; returns list of (state, extra)."""
    if len(items) <= 1:
      return items
    if len(items) > self.merge_cap:
      # many outcomes (e.g. a case split on a shift amount): merging them all gives huge nested
      # formulas.  Only outcomes carrying the same constant (the many `return False` of an __eq__) are merged.
      groups = {}
      rest = []
      for s, e in items:
        if e is None or isinstance(e, (bool, int, str)):
          groups.setdefault((type(e).__name__, e), []).append((s, e))
        else:
          rest.append((s, e))
      out = list(rest)
      for key, grp in groups.items():
        if len(grp) == 1 or len(grp) > 40:
          out.extend(grp)
          continue
        acc = [grp[0]]
        for s, e in grp[1:]:
          r = self.merge_states(acc[-1][0], s, acc[-1][1], e)
          if r is not None:
            acc[-1] = r
          else:
            acc.append((s, e))
        out.extend(acc)
      return out
    out = [items[0]]
    for s, e in items[1:]:
      merged = False
      for j in range(len(out) - 1, -1, -1):
        r = self.merge_states(out[j][0], s, out[j][1], e)
        if r is not None:
          out[j] = r
          merged = True
          break
      if not merged:
        out.append((s, e))
    return out

  # ------------------------------------------------------------------
  # union handling
  # ------------------------------------------------------------------
  def narrow_union(self, v, truthy, st):
    """drop the alternatives of a Union that cannot have the given truth value"""
    if not isinstance(v, Union):
      return v
    keep = []
    for g, a in v.alts:
      definitely_false = a is None or a is False or (isinstance(a, (int, float)) and not isinstance(a, bool) and a == 0) \
        or (isinstance(a, (bytes, str, tuple)) and len(a) == 0)
      definitely_true = (a is True) or (isinstance(a, (int, float)) and not isinstance(a, bool) and a != 0) \
        or (isinstance(a, (bytes, str, tuple)) and len(a) > 0)
      if truthy and definitely_false:
        continue
      if (not truthy) and definitely_true:
        continue
      keep.append((g, a))
    if not keep:
      return v
    if len(keep) == 1:
      return keep[0][1]
    return Union(keep)

  def split(self, v, st, k):
    """call k(st', plain) for each feasible alternative of a Union value"""
    if not isinstance(v, Union):
      return k(st, v)
    feas = []
    for g, alt in v.alts:
      if st.feasible(g):
        feas.append((g, alt))
    if len(feas) == 1:
      st.add(feas[0][0])
      return self.split(feas[0][1], st, k)
    for j, (g, alt) in enumerate(feas):
      s2 = st.copy() if j < len(feas) - 1 else st
      s2.add(g)
      self.fork_count += 1
      self.split(alt, s2, k)

  # ------------------------------------------------------------------
  # statements
  # ------------------------------------------------------------------
  def ex(self, stmts, i, st, ctx, k):
    if i >= len(stmts):
      return k(st)
    node = stmts[i]
    m = getattr(self, "ex_" + type(node).__name__, None)
    if m is None:
      raise Unsupported("statement %s at %s" % (type(node).__name__, self.where(ctx, node)))
    return m(node, st, ctx, lambda st2: self.ex(stmts, i + 1, st2, ctx, k))

  def ex_Pass(self, node, st, ctx, k):
    return k(st)

  def ex_Global(self, node, st, ctx, k):
    # module globals written by the function live in a per-path overlay (like class attributes)
    fr = st.frames[ctx.fid]
    g = set(fr.get("$globals", ()))
    g.update(node.names)
    fr["$globals"] = frozenset(g)
    return k(st)

  def ex_Import(self, node, st, ctx, k):
    import importlib
    fr = st.frames[ctx.fid]
    for al in node.names:
      mod = importlib.import_module(al.name)
      if al.asname:
        fr[al.asname] = mod
      else:
        fr[al.name.split(".")[0]] = importlib.import_module(al.name.split(".")[0])
    return k(st)

  def ex_ImportFrom(self, node, st, ctx, k):
    import importlib
    fr = st.frames[ctx.fid]
    modname = node.module or ""
    if node.level:
      pkg = ctx.fn.globs.get("__package__") or ""
      base = pkg.split(".")
      if node.level > 1:
        base = base[:-(node.level - 1)]
      modname = ".".join(base + ([node.module] if node.module else []))
    mod = importlib.import_module(modname)
    for al in node.names:
      if al.name == "*":
        raise Unsupported("import * in function")
      try:
        v = getattr(mod, al.name)
      except AttributeError:
        v = importlib.import_module(modname + "." + al.name)
      fr[al.asname or al.name] = v
    return k(st)

  def ex_Expr(self, node, st, ctx, k):
    if isinstance(node.value, ast.Constant):
      return k(st)
    return self.ev(node.value, st, ctx, lambda st2, v: k(st2))

  def ex_Return(self, node, st, ctx, k):
    if node.value is None:
      return ctx.ret_k(st, None)
    return self.ev(node.value, st, ctx, lambda st2, v: ctx.ret_k(st2, v))

  def ex_Break(self, node, st, ctx, k):
    return ctx.brk_k(st)

  def ex_Continue(self, node, st, ctx, k):
    return ctx.cont_k(st)

  def ex_FunctionDef(self, node, st, ctx, k):
    def have_defaults(st2, dvals):
      c = Closure(node, ctx.fid, ctx.fn.globs, node.name, tuple(dvals), {}, owner=ctx.fn.owner,
                  qualname=ctx.fn.qualname + ".<locals>." + node.name, module=ctx.fn.module)
      if node.decorator_list:
        raise Unsupported("decorated nested function")
      st2.frames[ctx.fid][node.name] = c
      return k(st2)
    return self.ev_list(node.args.defaults, st, ctx, have_defaults)

  def ex_Assign(self, node, st, ctx, k):
    def got(st2, v):
      def assign_targets(j, st3):
        if j >= len(node.targets):
          return k(st3)
        return self.assign(node.targets[j], v, st3, ctx, lambda st4: assign_targets(j + 1, st4))
      return assign_targets(0, st2)
    return self.ev(node.value, st, ctx, got)

  def ex_AnnAssign(self, node, st, ctx, k):
    if node.value is None:
      return k(st)
    return self.ev(node.value, st, ctx, lambda st2, v: self.assign(node.target, v, st2, ctx, k))

  def ex_AugAssign(self, node, st, ctx, k):
    t = node.target
    if isinstance(t, ast.Name):
      load = ast.Name(id=t.id, ctx=ast.Load())
      ast.copy_location(load, t)
      def got_old(st2, old):
        return self.ev(node.value, st2, ctx,
                       lambda st3, v: self.aug(node, old, v, st3, ctx,
                                               lambda st4, r: self.assign(t, r, st4, ctx, k)))
      return self.ev(load, st, ctx, got_old)
    if isinstance(t, ast.Attribute):
      def got_obj(st2, obj):
        def got_old(st3, old):
          return self.ev(node.value, st3, ctx,
                         lambda st4, v: self.aug(node, old, v, st4, ctx,
                                                 lambda st5, r: self.setattr_value(obj, t.attr, r, st5, ctx, k, node)))
        return self.getattr_value(obj, t.attr, st2, ctx, got_old, node)
      return self.ev(t.value, st, ctx, got_obj)
    if isinstance(t, ast.Subscript):
      def got_obj(st2, obj):
        def got_idx(st3, idx):
          def got_old(st4, old):
            return self.ev(node.value, st4, ctx,
                           lambda st5, v: self.aug(node, old, v, st5, ctx,
                                                   lambda st6, r: self.setitem(obj, idx, r, st6, ctx, k, node)))
          return self.getitem(obj, idx, st3, ctx, got_old, node)
        return self.ev_index(t.slice, st2, ctx, got_idx)
      return self.ev(t.value, st, ctx, got_obj)
    raise Unsupported("augassign target")

  def aug(self, node, old, v, st, ctx, k):
    # in-place list extension mutates the object
    if isinstance(old, Ref) and st.obj(old).kind == "list" and isinstance(node.op, ast.Add):
      from .methods import list_extend
      return list_extend(self, old, v, st, ctx, lambda st2, _: k(st2, old), node)
    return self.binop(node.op, old, v, st, ctx, k, node)

  def assign(self, target, v, st, ctx, k):
    if isinstance(target, ast.Name):
      fr = st.frames[ctx.fid]
      if target.id in fr.get("$globals", ()):
        st.ghost[("$global", ctx.fn.module, target.id)] = v
        return k(st)
      fr[target.id] = v
      return k(st)
    if isinstance(target, ast.Attribute):
      return self.ev(target.value, st, ctx,
                     lambda st2, obj: self.setattr_value(obj, target.attr, v, st2, ctx, k, target))
    if isinstance(target, ast.Subscript):
      def got_obj(st2, obj):
        return self.ev_index(target.slice, st2, ctx,
                             lambda st3, idx: self.setitem(obj, idx, v, st3, ctx, k, target))
      return self.ev(target.value, st, ctx, got_obj)
    if isinstance(target, (ast.Tuple, ast.List)):
      def got_items(st2, items):
        if items is None:
          return
        if len(items) != len(target.elts):
          return self.raise_exc(st2, ctx, ValueError, "unpack arity", target)
        def step(j, st3):
          if j >= len(items):
            return k(st3)
          return self.assign(target.elts[j], items[j], st3, ctx, lambda st4: step(j + 1, st4))
        return step(0, st2)
      return self.iter_values(v, st, ctx, got_items, target)
    raise Unsupported("assign target %s" % type(target).__name__)

  def ex_Delete(self, node, st, ctx, k):
    def step(j, st2):
      if j >= len(node.targets):
        return k(st2)
      t = node.targets[j]
      nxt = lambda st3: step(j + 1, st3)
      if isinstance(t, ast.Name):
        fr = st2.frames[ctx.fid]
        if t.id in fr:
          del fr[t.id]
        return nxt(st2)
      if isinstance(t, ast.Subscript):
        def got_obj(st3, obj):
          return self.ev_index(t.slice, st3, ctx, lambda st4, idx: self.delitem(obj, idx, st4, ctx, nxt, t))
        return self.ev(t.value, st2, ctx, got_obj)
      if isinstance(t, ast.Attribute):
        def got_obj(st3, obj):
          if isinstance(obj, Ref) and st3.obj(obj).kind == "obj":
            d = st3.obj(obj).data
            if t.attr in d:
              del d[t.attr]
              return nxt(st3)
            return self.raise_exc(st3, ctx, AttributeError, t.attr, t)
          raise Unsupported("del attribute on %r" % (obj,))
        return self.ev(t.value, st2, ctx, got_obj)
      raise Unsupported("del target")
    return step(0, st)

  def ex_Assert(self, node, st, ctx, k):
    site = "safe.assert@" + self.where(ctx, node)
    def got(st2, v):
      def got_truth(st3, t):
        exc = ExcVal(AssertionError, (), where=self.where(ctx, node))
        return self.safety(st3, t, site, exc, ctx, k)
      return self.truth(v, st2, ctx, got_truth, node)
    return self.ev(node.test, st, ctx, got)

  def ex_Raise(self, node, st, ctx, k):
    if node.exc is None:
      if ctx.cur_exc is None:
        return self.raise_exc(st, ctx, RuntimeError, "No active exception to reraise", node)
      return ctx.exc_k(st, ctx.cur_exc)
    def got(st2, v):
      if isinstance(v, type) and issubclass(v, BaseException):
        v = ExcVal(v, (), where=self.where(ctx, node))
      if isinstance(v, ExcVal):
        if v.where is None:
          v.where = self.where(ctx, node)
        return ctx.exc_k(st2, v)
      if isinstance(v, Ref) and isinstance(st2.obj(v).cls, type) and issubclass(st2.obj(v).cls, BaseException):
        return ctx.exc_k(st2, ExcVal(st2.obj(v).cls, (), where=self.where(ctx, node)))
      return self.raise_exc(st2, ctx, TypeError, "exceptions must derive from BaseException", node)
    return self.ev(node.exc, st, ctx, got)

  def ex_If(self, node, st, ctx, k):
    def got(st2, v):
      return self.truth(v, st2, ctx, lambda st3, t: self.do_if(node, t, st3, ctx, k), node)
    return self.ev(node.test, st, ctx, got)

  def do_if(self, node, t, st, ctx, k):
    t = concretize(t) if is_sym(t) else t
    if t is True:
      return self.ex(node.body, 0, st, ctx, k)
    if t is False:
      return self.ex(node.orelse, 0, st, ctx, k)
    ft = st.feasible(t, "if")
    ff = st.feasible(z3.Not(t), "if")
    if ft and not ff:
      return self.ex(node.body, 0, st, ctx, k)
    if ff and not ft:
      return self.ex(node.orelse, 0, st, ctx, k)
    if not ft and not ff:
      return
    self.fork_count += 1
    s2 = st.copy()
    st.add(t)
    s2.add(z3.Not(t))
    falls = []
    self.ex(node.body, 0, st, ctx, lambda s: falls.append((s, None)))
    self.ex(node.orelse, 0, s2, ctx, lambda s: falls.append((s, None)))
    for s, _ in self.merge_all(falls):
      k(s)

  def ex_While(self, node, st, ctx, k):
    spec = self.loop_spec_for(ctx, node)
    if spec is not None:
      return self.loop_with_invariant(node, spec, st, ctx, k)
    count = [0]
    def iterate(st2):
      count[0] += 1
      if count[0] > self.unroll_limit:
        raise Unsupported("loop at %s needs an invariant (unroll limit)" % self.where(ctx, node))
      def got(st3, v):
        def got_truth(st4, t):
          t2 = concretize(t) if is_sym(t) else t
          if t2 is not True and t2 is not False:
            # symbolic loop condition without invariant: explore both (bounded by unroll limit)
            pass
          def body(st5):
            c2 = ctx.replace(brk_k=k, cont_k=iterate)
            return self.ex(node.body, 0, st5, c2, iterate)
          def done(st5):
            return self.ex(node.orelse, 0, st5, ctx, k)
          return self.branch(t2, st4, body, done, "while")
        return self.truth(v, st3, ctx, got_truth, node)
      return self.ev(node.test, st2, ctx, got)
    return iterate(st)

  def ex_For(self, node, st, ctx, k):
    spec = self.loop_spec_for(ctx, node)
    if spec is not None:
      return self.loop_with_invariant(node, spec, st, ctx, k)
    def got_iter(st2, itv):
      if isinstance(itv, SymRange):
        return self.for_symrange(node, itv, st2, ctx, k)
      def got_items(st3, items):
        if items is None:
          return
        if isinstance(items, LiveList):
          return self.for_live(node, items, st3, ctx, k)
        def step(j, st4):
          if j >= len(items):
            return self.ex(node.orelse, 0, st4, ctx, k)
          c2 = ctx.replace(brk_k=k, cont_k=lambda s: step(j + 1, s))
          return self.assign(node.target, items[j], st4, ctx,
                             lambda st5: self.ex(node.body, 0, st5, c2, lambda s: step(j + 1, s)))
        return step(0, st3)
      return self.iter_values(itv, st2, ctx, got_items, node, live_ok=True)
    return self.ev(node.iter, st, ctx, got_iter)

  def for_symrange(self, node, rng, st, ctx, k):
    """for over range(0, stop) with a symbolic stop and no invariant: unrolled like a `while j < stop` (terminates only
    when the path condition bounds stop; otherwise the unroll limit makes the unit undecided)"""
    stop = rng.stop
    def step(j, st2):
      if j > self.unroll_limit:
        raise Unsupported("loop over range() with a symbolic bound at %s needs an invariant (unroll limit)" % self.where(ctx, node))
      t = concretize(zint(stop) > j) if is_sym(stop) else (j < stop)
      def body(st3):
        c2 = ctx.replace(brk_k=k, cont_k=lambda s: step(j + 1, s))
        return self.assign(node.target, j, st3, ctx,
                           lambda st4: self.ex(node.body, 0, st4, c2, lambda s: step(j + 1, s)))
      def done(st3):
        return self.ex(node.orelse, 0, st3, ctx, k)
      return self.branch(t, st2, body, done, "for-range")
    return step(0, st)

  def for_live(self, node, live, st, ctx, k):
    """for over a mutable list object: index iteration as CPython does it"""
    ref = live.ref
    def step(j, st2):
      if j > self.unroll_limit:
        raise Unsupported("for over live list exceeded unroll limit at %s" % self.where(ctx, node))
      data = st2.obj(ref).data
      if j >= len(data):
        return self.ex(node.orelse, 0, st2, ctx, k)
      c2 = ctx.replace(brk_k=k, cont_k=lambda s: step(j + 1, s))
      return self.assign(node.target, data[j], st2, ctx,
                         lambda st3: self.ex(node.body, 0, st3, c2, lambda s: step(j + 1, s)))
    return step(0, st)

  def loop_spec_for(self, ctx, node):
    if not self.loop_specs:
      return None
    qn = ctx.fn.qualname
    # ordinal of this loop in the function (1-based, source order)
    root = ctx.fn.node
    loops = [n for n in ast.walk(root) if isinstance(n, (ast.While, ast.For))]
    loops.sort(key=lambda n: (n.lineno, n.col_offset))
    try:
      ordinal = loops.index(node) + 1
    except ValueError:
      return None
    return self.loop_specs.get((qn, ordinal))

  def loop_with_invariant(self, node, spec, st, ctx, k):
    from .loops import run_loop
    return run_loop(self, node, spec, st, ctx, k)

  def ex_Try(self, node, st, ctx, k):
    has_final = bool(node.finalbody)

    def run_final(st2, after):
      if not has_final:
        return after(st2)
      return self.ex(node.finalbody, 0, st2, ctx, after)

    # continuations that pass through finally
    def k_after(st2):
      return run_final(st2, k)
    outer = ctx
    if has_final:
      fctx = ctx.replace(
        ret_k=lambda s, v: run_final(s, lambda s2: outer.ret_k(s2, v)),
        exc_k=lambda s, e: run_final(s, lambda s2: outer.exc_k(s2, e)),
        brk_k=(lambda s: run_final(s, outer.brk_k)) if outer.brk_k else None,
        cont_k=(lambda s: run_final(s, outer.cont_k)) if outer.cont_k else None)
    else:
      fctx = ctx

    def handle(st2, exc):
      # find the first matching handler
      def try_handler(j, st3):
        if j >= len(node.handlers):
          return fctx.exc_k(st3, exc)
        h = node.handlers[j]
        if h.type is None:
          return run_handler(h, st3)
        def got_type(st4, tv):
          types_ = tv if isinstance(tv, tuple) else (tv,)
          for t_ in types_:
            if not isinstance(t_, type):
              raise Unsupported("non-class in except clause")
          if any(issubclass(exc.cls, t_) for t_ in types_):
            return run_handler(h, st4)
          return try_handler(j + 1, st4)
        return self.ev(h.type, st3, fctx, got_type)
      def run_handler(h, st3):
        if h.name:
          st3.frames[ctx.fid][h.name] = exc
        hctx = fctx.replace(cur_exc=exc)
        return self.ex(h.body, 0, st3, hctx, k_after)
      return try_handler(0, st2)

    bctx = fctx.replace(exc_k=handle)
    def body_done(st2):
      # else clause runs outside the protection of the handlers
      return self.ex(node.orelse, 0, st2, fctx, k_after)
    return self.ex(node.body, 0, st, bctx, body_done)

  def ex_With(self, node, st, ctx, k):
    """with A [as x], B ...: body  ==  nested single-item with statements.  __enter__ / __exit__ are looked up on the
    manager's class; __exit__ runs on every way out of the body (normal, return, break, continue, exception) and a
    true result swallows the exception."""
    items = list(node.items)
    def run_items(i, st1, ctx1, k1):
      if i >= len(items):
        return self.ex(node.body, 0, st1, ctx1, k1)
      item = items[i]
      def got_mgr(st2, mgr):
        def call_exit(st3, exc, after):
          """after(st, suppressed)"""
          args = [None, None, None] if exc is None else [exc.cls, exc, None]
          return self.getattr_value(mgr, "__exit__", st3, ctx1,
                                    lambda st4, f: self.call_value(f, args, {}, st4, ctx1,
                                      lambda st5, r: self.truth(r, st5, ctx1, lambda st6, t: after(st6, t), item.context_expr),
                                      item.context_expr), item.context_expr)
        def entered(st3, val):
          def proceed(st4):
            outer = ctx1
            def on_exc(s, e):
              def after(s2, suppressed):
                if suppressed is True:
                  return k1(s2)
                if suppressed is False:
                  return outer.exc_k(s2, e)
                return self.branch(suppressed, s2, k1, lambda s3: outer.exc_k(s3, e), "with-exit")
              return call_exit(s, e, after)
            wctx = ctx1.replace(
              ret_k=lambda s, v: call_exit(s, None, lambda s2, _t: outer.ret_k(s2, v)),
              exc_k=on_exc,
              brk_k=(lambda s: call_exit(s, None, lambda s2, _t: outer.brk_k(s2))) if outer.brk_k else None,
              cont_k=(lambda s: call_exit(s, None, lambda s2, _t: outer.cont_k(s2))) if outer.cont_k else None)
            return run_items(i + 1, st4, wctx, lambda s: call_exit(s, None, lambda s2, _t: k1(s2)))
          if item.optional_vars is not None:
            return self.assign(item.optional_vars, val, st3, ctx1, proceed)
          return proceed(st3)
        return self.getattr_value(mgr, "__enter__", st2, ctx1,
                                  lambda st3, f: self.call_value(f, [], {}, st3, ctx1, entered, item.context_expr),
                                  item.context_expr)
      return self.ev(item.context_expr, st1, ctx1, got_mgr)
    return run_items(0, st, ctx, k)

  def ex_ClassDef(self, node, st, ctx, k):
    raise Unsupported("nested class definition")

  # ------------------------------------------------------------------
  # expressions
  # ------------------------------------------------------------------
  _JOIN_NODES = (ast.Compare, ast.Call, ast.Attribute, ast.Subscript, ast.BinOp, ast.BoolOp, ast.UnaryOp)

  def ev(self, node, st, ctx, k):
    m = getattr(self, "ev_" + type(node).__name__, None)
    if m is None:
      raise Unsupported("expression %s at %s" % (type(node).__name__, self.where(ctx, node)))
    if isinstance(node, self._JOIN_NODES):
      # expression-level join: sub-evaluations that fork (unions, interpreted __eq__ ...) are merged
      # again when their results are mergeable values
      res = []
      m(node, st, ctx, lambda s, v: res.append((s, v)))
      if len(res) == 1:
        return k(res[0][0], res[0][1])
      for s, v in self.merge_all(res):
        k(s, v)
      return
    return m(node, st, ctx, k)

  def ev_list(self, nodes, st, ctx, k):
    """evaluate a list of expressions left to right; k(st, [values]); Starred are expanded"""
    def step(j, st2, acc):
      if j >= len(nodes):
        return k(st2, acc)
      n = nodes[j]
      if isinstance(n, ast.Starred):
        def got(st3, v):
          def got_items(st4, items):
            if items is None:
              return
            return step(j + 1, st4, acc + list(items))
          return self.iter_values(v, st3, ctx, got_items, n)
        return self.ev(n.value, st2, ctx, got)
      return self.ev(n, st2, ctx, lambda st3, v: step(j + 1, st3, acc + [v]))
    return step(0, st, [])

  def ev_Constant(self, node, st, ctx, k):
    return k(st, node.value)

  def ev_Name(self, node, st, ctx, k):
    name = node.id
    # locals, then enclosing function frames, then globals, builtins
    fid = ctx.fid
    fn = ctx.fn
    fr = st.frames[fid]
    gk = ("$global", fn.module, name)
    if gk in st.ghost and (name in fr.get("$globals", ()) or name not in fr):
      if name in fr.get("$globals", ()) or name not in fn_locals(fn.node):
        return k(st, st.ghost[gk])
    if name in fr.get("$globals", ()):
      if name in fn.globs:
        return k(st, fn.globs[name])
      return self.raise_exc(st, ctx, NameError, name, node)
    if name in fr:
      v = fr[name]
      if v is _ABSENT:
        return self.raise_exc(st, ctx, UnboundLocalError, name, node)
      if isinstance(v, Union) and any(a is _ABSENT for _, a in v.alts):
        return self.split(v, st, lambda st2, a: (self.raise_exc(st2, ctx, UnboundLocalError, name, node)
                                                  if a is _ABSENT else k(st2, a)))
      return k(st, v)
    if name in fn_locals(fn.node):
      self.note_site("safe.bound@" + self.where(ctx, node), "raises")
      return self.raise_exc(st, ctx, UnboundLocalError, name, node)
    # enclosing scopes
    efid = fn.fid
    efn = fn
    while efid is not None:
      efr = st.frames.get(efid)
      if efr is not None and name in efr:
        return k(st, efr[name])
      efn = st.frames[efid].get("$fn") if efr is not None else None
      if efn is None:
        break
      efid = efn.fid
    f0 = fn
    while f0 is not None:
      if f0.freevars and name in f0.freevars:
        return k(st, f0.freevars[name])
      pf = st.frames.get(f0.fid) if f0.fid is not None else None
      f0 = pf.get("$fn") if pf is not None else None
    if name in fn.globs:
      return k(st, fn.globs[name])
    if hasattr(builtins, name):
      return k(st, getattr(builtins, name))
    self.note_site("safe.name@" + self.where(ctx, node), "raises")
    return self.raise_exc(st, ctx, NameError, name, node)

  def ev_Tuple(self, node, st, ctx, k):
    return self.ev_list(node.elts, st, ctx, lambda st2, vs: k(st2, tuple(vs)))

  def ev_List(self, node, st, ctx, k):
    return self.ev_list(node.elts, st, ctx, lambda st2, vs: k(st2, st2.alloc("list", list, list(vs))))

  def ev_Set(self, node, st, ctx, k):
    def got(st2, vs):
      return self.models.new_set(self, vs, st2, ctx, k, node)
    return self.ev_list(node.elts, st, ctx, got)

  def ev_Dict(self, node, st, ctx, k):
    if any(kn is None for kn in node.keys):
      raise Unsupported("dict unpacking in literal")
    def got_keys(st2, ks):
      def got_vals(st3, vs):
        d = {}
        for kk, vv in zip(ks, vs):
          d[self.models.hashkey(kk)] = (kk, vv)
        return k(st3, st3.alloc("dict", dict, d))
      return self.ev_list(node.values, st2, ctx, got_vals)
    return self.ev_list(node.keys, st, ctx, got_keys)

  def ev_Lambda(self, node, st, ctx, k):
    def have_defaults(st2, dvals):
      c = Closure(node, ctx.fid, ctx.fn.globs, "<lambda>", tuple(dvals), {}, owner=ctx.fn.owner,
                  qualname=ctx.fn.qualname + ".<lambda>", module=ctx.fn.module)
      return k(st2, c)
    return self.ev_list(node.args.defaults, st, ctx, have_defaults)

  def ev_IfExp(self, node, st, ctx, k):
    def got(st2, v):
      def got_truth(st3, t):
        t = concretize(t) if is_sym(t) else t
        if t is True:
          return self.ev(node.body, st3, ctx, k)
        if t is False:
          return self.ev(node.orelse, st3, ctx, k)
        ft = st3.feasible(t, "ifexp")
        ff = st3.feasible(z3.Not(t), "ifexp")
        if ft and not ff:
          return self.ev(node.body, st3, ctx, k)
        if ff and not ft:
          return self.ev(node.orelse, st3, ctx, k)
        if not ft and not ff:
          return
        s2 = st3.copy()
        st3.add(t)
        s2.add(z3.Not(t))
        res = []
        self.ev(node.body, st3, ctx, lambda s, v2: res.append((s, v2)))
        self.ev(node.orelse, s2, ctx, lambda s, v2: res.append((s, v2)))
        for s, v2 in self.merge_all(res):
          k(s, v2)
      return self.truth(v, st2, ctx, got_truth, node)
    return self.ev(node.test, st, ctx, got)

  def ev_BoolOp(self, node, st, ctx, k):
    is_and = isinstance(node.op, ast.And)
    vals = node.values
    def step(j, st2):
      def got(st3, v):
        if j == len(vals) - 1:
          return k(st3, v)
        def got_truth(st4, t):
          t = concretize(t) if is_sym(t) else t
          if t is True:
            return k(st4, v) if not is_and else step(j + 1, st4)
          if t is False:
            return k(st4, v) if is_and else step(j + 1, st4)
          # symbolic: when v is a bool the result is a formula if the rest is pure-bool too
          stop_cond = z3.Not(t) if is_and else t
          fs = st4.feasible(stop_cond, "boolop")
          fc = st4.feasible(z3.Not(stop_cond), "boolop")
          if fs and not fc:
            return k(st4, v)
          if fc and not fs:
            return step(j + 1, st4)
          if not fs and not fc:
            return
          s2 = st4.copy()
          st4.add(stop_cond)
          s2.add(z3.Not(stop_cond))
          res = []
          # short-circuit outcome: value is v itself (a union is narrowed to the alternatives
          # compatible with the truth value that made us stop)
          res.append((st4, self.narrow_union(v, not is_and, st4)))
          step_collect(j + 1, s2, res)
          for s, v2 in self.merge_all(res):
            k(s, v2)
        return self.truth(v, st3, ctx, got_truth, node)
      return self.ev(vals[j], st2, ctx, got)
    def step_collect(j, st2, res):
      # evaluate the remaining operands as a nested boolop, collecting
      sub = ast.BoolOp(op=node.op, values=vals[j:]) if len(vals) - j > 1 else vals[j]
      ast.copy_location(sub, node)
      self.ev(sub, st2, ctx, lambda s, v2: res.append((s, v2)))
    return step(0, st)

  def ev_UnaryOp(self, node, st, ctx, k):
    def got(st2, v):
      if isinstance(node.op, ast.Not):
        return self.truth(v, st2, ctx, lambda st3, t: k(st3, znot(t)), node)
      return self.unop(node.op, v, st2, ctx, k, node)
    return self.ev(node.operand, st, ctx, got)

  def unop(self, op, v, st, ctx, k, node):
    if isinstance(v, Union):
      return self.split(v, st, lambda st2, a: self.unop(op, a, st2, ctx, k, node))
    if is_sym(v):
      if isinstance(op, ast.USub):
        return k(st, concretize(-(zint(v) if not is_symreal(v) else v)))
      if isinstance(op, ast.UAdd):
        return k(st, v)
      if isinstance(op, ast.Invert):
        return k(st, concretize(-zint(v) - 1))
    if isinstance(v, (int, float, bool)):
      if isinstance(op, ast.USub):
        return k(st, -v)
      if isinstance(op, ast.UAdd):
        return k(st, +v)
      if isinstance(op, ast.Invert):
        if isinstance(v, float):
          return self.raise_exc(st, ctx, TypeError, "bad operand type for unary ~", node)
        return k(st, ~v)
    return self.raise_exc(st, ctx, TypeError, "bad operand for unary op", node)

  def ev_BinOp(self, node, st, ctx, k):
    return self.ev(node.left, st, ctx,
                   lambda st2, a: self.ev(node.right, st2, ctx,
                                          lambda st3, b: self.binop(node.op, a, b, st3, ctx, k, node)))

  def binop(self, op, a, b, st, ctx, k, node):
    return self.models.binop(self, op, a, b, st, ctx, k, node)

  def ev_Compare(self, node, st, ctx, k):
    ops = node.ops
    comps = node.comparators
    def step(j, st2, left, acc):
      def got_right(st3, right):
        def got_cmp(st4, r):
          # chain with 'and' semantics (short circuit)
          if j == len(ops) - 1:
            if acc is None:
              return k(st4, r)
            return self.truth(r, st4, ctx, lambda st5, t: k(st5, concretize_b(zand(acc, t))), node)
          def got_truth(st5, t):
            t = concretize(t) if is_sym(t) else t
            if t is False:
              return k(st5, False)
            nacc = t if acc is None else zand(acc, t)
            if nacc is True:
              nacc = None
            return step(j + 1, st5, right, nacc)
          return self.truth(r, st4, ctx, got_truth, node)
        return self.compare(ops[j], left, right, st3, ctx, got_cmp, node)
      return self.ev(comps[j], st2, ctx, got_right)
    return self.ev(node.left, st, ctx, lambda st2, l: step(0, st2, l, None))

  def compare(self, op, a, b, st, ctx, k, node):
    return self.models.compare(self, op, a, b, st, ctx, k, node)

  def ev_Attribute(self, node, st, ctx, k):
    return self.ev(node.value, st, ctx,
                   lambda st2, obj: self.getattr_value(obj, node.attr, st2, ctx, k, node))

  def ev_index(self, sl, st, ctx, k):
    if isinstance(sl, ast.Slice):
      def part(n, st2, kk):
        if n is None:
          return kk(st2, None)
        return self.ev(n, st2, ctx, kk)
      return part(sl.lower, st, lambda st2, lo: part(sl.upper, st2,
                  lambda st3, hi: part(sl.step, st3, lambda st4, stp: k(st4, SliceVal(lo, hi, stp)))))
    return self.ev(sl, st, ctx, k)

  def ev_Subscript(self, node, st, ctx, k):
    def got_obj(st2, obj):
      return self.ev_index(node.slice, st2, ctx, lambda st3, idx: self.getitem(obj, idx, st3, ctx, k, node))
    return self.ev(node.value, st, ctx, got_obj)

  def ev_Starred(self, node, st, ctx, k):
    raise Unsupported("starred expression outside call/tuple")

  def ev_JoinedStr(self, node, st, ctx, k):
    raise Unsupported("f-string")

  def ev_ListComp(self, node, st, ctx, k):
    return self.comprehension(node, node.elt, st, ctx,
                              lambda st2, vs: k(st2, st2.alloc("list", list, list(vs))))

  def ev_GeneratorExp(self, node, st, ctx, k):
    # evaluated eagerly into a list value (the consumers modelled here all exhaust it at once)
    return self.comprehension(node, node.elt, st, ctx,
                              lambda st2, vs: k(st2, st2.alloc("list", list, list(vs))))

  def ev_SetComp(self, node, st, ctx, k):
    def done(st2, vs):
      return self.models.new_set(self, vs, st2, ctx, k, node)
    return self.comprehension(node, node.elt, st, ctx, done)

  def ev_DictComp(self, node, st, ctx, k):
    pair = ast.Tuple(elts=[node.key, node.value], ctx=ast.Load())
    ast.copy_location(pair, node)
    def done(st2, vs):
      d = {}
      for kk, vv in vs:
        d[self.models.hashkey(kk)] = (kk, vv)
      return k(st2, st2.alloc("dict", dict, d))
    return self.comprehension(node, pair, st, ctx, done)

  def lazy_any_all(self, is_any, gnode, st, ctx, k, node):
    """any(<generator expression>) / all(...): elements are produced one at a time and the walk STOPS at the first element
    that decides the answer, as in Python - later elements are not evaluated, so their side effects do not happen
    (2026-09-25: the eager evaluation of generator expressions ran every element; a seeded change
    `return any(self.removeListener(l) for l in listeners)` was 'proved' to remove every listener)"""
    def each(st2, v, go_on):
      def got_t(st3, t):
        if is_any:
          return self.branch(t, st3, lambda s: k(s, True), go_on, "any-element")
        return self.branch(t, st3, go_on, lambda s: k(s, False), "all-element")
      return self.truth(v, st2, ctx, got_t, node)
    return self.comprehension(gnode, gnode.elt, st, ctx, lambda st2, _acc: k(st2, not is_any), each=each)

  def comprehension(self, node, elt, st, ctx, k, each=None):
    # own scope: a fresh frame chained to the current one
    fid = new_oid()
    cfn = Closure(node, ctx.fid, ctx.fn.globs, "<comp>", (), {}, owner=ctx.fn.owner,
                  qualname=ctx.fn.qualname, module=ctx.fn.module)
    _localnames_cache[id(node)] = set(n.id for g in node.generators for n in ast.walk(g.target)
                                       if isinstance(n, ast.Name))
    st.frames[fid] = {"$fn": cfn}
    cctx = Ctx(fid, cfn, ctx.ret_k, ctx.exc_k, None, None, ctx.cur_exc, ctx.depth)
    gens = node.generators
    def gen(gi, st2, acc, kk):
      if gi >= len(gens):
        if each is not None:
          return self.ev(elt, st2, cctx, lambda st3, v: each(st3, v, lambda st4: kk(st4, acc)))
        return self.ev(elt, st2, cctx, lambda st3, v: kk(st3, acc + [v]))
      g = gens[gi]
      if g.is_async:
        raise Unsupported("async comprehension")
      # the first iterable is evaluated in the enclosing scope
      ectx = ctx if gi == 0 else cctx
      def got_iter(st3, itv):
        def got_items(st4, items):
          if items is None:
            return
          if isinstance(items, LiveList):
            items = list(st4.obj(items.ref).data)
          def step(j, st5, acc2):
            if j >= len(items):
              return kk(st5, acc2)
            def assigned(st6):
              def conds(ci, st7):
                if ci >= len(g.ifs):
                  return gen(gi + 1, st7, acc2, lambda st8, acc3: step(j + 1, st8, acc3))
                def got_c(st8, cv):
                  def got_t(st9, t):
                    return self.branch(t, st9, lambda s: conds(ci + 1, s),
                                       lambda s: step(j + 1, s, acc2), "comp-if")
                  return self.truth(cv, st8, cctx, got_t, node)
                return self.ev(g.ifs[ci], st7, cctx, got_c)
              return conds(0, st6)
            return self.assign(g.target, items[j], st5, cctx, assigned)
          return step(0, st4, acc)
        return self.iter_values(itv, st3, ctx, got_items, node)
      return self.ev(g.iter, st2, ectx, got_iter)
    return gen(0, st, [], k)

  # ------------------------------------------------------------------
  # truthiness
  # ------------------------------------------------------------------
  def truth(self, v, st, ctx, k, node=None):
    v = self.models.gobj(st, v)
    if isinstance(v, bool):
      return k(st, v)
    if is_symbool(v):
      return k(st, v)
    if v is None:
      return k(st, False)
    if isinstance(v, (int, float)):
      return k(st, v != 0)
    if is_symint(v) or is_symreal(v):
      return k(st, concretize(v != 0))
    if isinstance(v, (str, bytes, tuple, list, dict, set, frozenset)):
      return k(st, len(v) > 0)
    if isinstance(v, SBytes):
      l = v.length()
      return k(st, (l > 0) if isinstance(l, int) else concretize(zint(l) > 0))
    if isinstance(v, Union):
      # formula when every alternative's truth is a formula / constant
      parts = []
      ok = True
      for g, alt in v.alts:
        if alt is None:
          parts.append(z3.And(g, False))
        elif isinstance(alt, bool):
          parts.append(z3.And(g, alt))
        elif is_symbool(alt):
          parts.append(z3.And(g, alt))
        elif isinstance(alt, int):
          parts.append(z3.And(g, alt != 0))
        elif is_symint(alt):
          parts.append(z3.And(g, alt != 0))
        elif isinstance(alt, (bytes, str)):
          parts.append(z3.And(g, len(alt) > 0))
        else:
          ok = False
          break
      if ok:
        return k(st, concretize(z3.Or(*parts)))
      return self.split(v, st, lambda st2, a: self.truth(a, st2, ctx, k, node))
    if isinstance(v, Ref):
      o = st.obj(v)
      if o.kind in ("list", "dict", "set"):
        return k(st, len(o.data) > 0)
      if o.kind == "slist":
        return k(st, concretize(zint(o.data["len"]) > 0))
      if o.kind == "obj":
        for dn in ("__bool__", "__len__"):
          f = self.class_lookup(o.cls, dn)
          if f is not None and f is not _MISSING:
            def got(st2, r):
              if dn == "__len__":
                return self.truth(r, st2, ctx, k, node)
              return self.truth(r, st2, ctx, k, node)
            return self.call_value(self.bind(f, v, o.cls), [], {}, st, ctx, got, node)
        return k(st, True)
    if isinstance(v, (Closure, BoundMethod, BuiltinMethod, type, types.FunctionType, types.ModuleType,
                      types.BuiltinFunctionType, ExcVal)):
      return k(st, True)
    # real instance
    try:
      cls = type(v)
      if self.is_modelled_instance(v):
        for dn in ("__bool__", "__len__"):
          f = self.class_lookup(cls, dn)
          if f is not None and f is not _MISSING:
            return self.call_value(self.bind(f, v, cls), [], {}, st, ctx,
                                   lambda st2, r: self.truth(r, st2, ctx, k, node), node)
        return k(st, True)
      return k(st, bool(v))
    except Unsupported:
      raise
    except Exception as e:
      raise Unsupported("truth of %r: %s" % (v, e))

  # ------------------------------------------------------------------
  # attribute access
  # ------------------------------------------------------------------
  def class_lookup(self, cls, name):
    for c in cls.__mro__:
      d = c.__dict__
      if name in d:
        return d[name]
    return _MISSING

  def is_modelled_instance(self, v):
    """real instance of a class defined in the repository (its methods are interpreted)"""
    cls = type(v)
    mod = sys.modules.get(getattr(cls, "__module__", None))
    f = getattr(mod, "__file__", None) if mod is not None else None
    return bool(f and f.startswith(REPO + "/")) and not isinstance(v, type)

  def bind(self, f, obj, cls):
    """descriptor binding of a class attribute f found for instance obj"""
    if isinstance(f, staticmethod):
      return f.__func__
    if isinstance(f, classmethod):
      return BoundMethod(f.__func__, cls)
    if isinstance(f, types.FunctionType):
      return BoundMethod(f, obj)
    if isinstance(f, Closure):
      return BoundMethod(f, obj)
    return f

  def getattr_value(self, obj, name, st, ctx, k, node=None):
    return self.models.getattr_value(self, obj, name, st, ctx, k, node)

  def setattr_value(self, obj, name, v, st, ctx, k, node=None):
    return self.models.setattr_value(self, obj, name, v, st, ctx, k, node)

  def getitem(self, obj, idx, st, ctx, k, node=None):
    return self.models.getitem(self, obj, idx, st, ctx, k, node)

  def setitem(self, obj, idx, v, st, ctx, k, node=None):
    return self.models.setitem(self, obj, idx, v, st, ctx, k, node)

  def delitem(self, obj, idx, st, ctx, k, node=None):
    return self.models.delitem(self, obj, idx, st, ctx, k, node)

  def iter_values(self, v, st, ctx, k, node=None, live_ok=False):
    """k(st, list-of-items) for a finite iterable of known length"""
    return self.models.iter_values(self, v, st, ctx, k, node, live_ok)

  # ------------------------------------------------------------------
  # calls
  # ------------------------------------------------------------------
  def ev_Call(self, node, st, ctx, k):
    # logging calls: arguments are evaluated, the call is dropped
    if self.is_dropped_call(node, ctx):
      # arguments of logging calls are evaluated (a crash inside them is a real crash); text-processing
      # methods that are not modelled yield opaque text there instead of putting the function out of reach
      self.log_depth += 1
      lctx = ctx.replace(exc_k=lambda s, e: (self._log_leave(), ctx.exc_k(s, e))[1])
      def got_args(st2, args):
        def got_kw(st3, kws):
          self.dropped_calls += 1
          self._log_leave()
          return k(st3, None)
        return self.ev_keywords(node.keywords, st2, lctx, got_kw)
      return self.ev_list(node.args, st, lctx, got_args)
    def got_f(st2, f):
      if (f is builtins.any or f is builtins.all) and len(node.args) == 1 and not node.keywords \
          and isinstance(node.args[0], ast.GeneratorExp):
        return self.lazy_any_all(f is builtins.any, node.args[0], st2, ctx, k, node)
      def got_args(st3, args):
        def got_kw(st4, kws):
          return self.call_value(f, args, kws, st4, ctx, k, node)
        return self.ev_keywords(node.keywords, st3, ctx, got_kw)
      return self.ev_list(node.args, st2, ctx, got_args)
    # super() without arguments
    if isinstance(node.func, ast.Name) and node.func.id == "super" and not node.args:
      fr = st.frames[ctx.fid]
      fn = ctx.fn
      owner = fn.owner
      first = None
      a = fn.node.args
      if a.args:
        first = fr.get(a.args[0].arg)
      if owner is None or first is None:
        raise Unsupported("zero-argument super() outside a method")
      return k(st, SuperProxy(owner, first))
    return self.ev(node.func, st, ctx, got_f)

  def _log_leave(self):
    if self.log_depth > 0:
      self.log_depth -= 1

  def is_dropped_call(self, node, ctx):
    f = node.func
    if isinstance(f, ast.Attribute):
      if f.attr in ("debug", "info", "warn", "warning", "error", "exception", "critical", "msg", "err"):
        base = f.value
        # log.x / self.log.x / _logger.x / con.msg / self.msg
        if isinstance(base, ast.Name) and base.id in ("log", "_logger", "logger", "logging"):
          return True
        if isinstance(base, ast.Attribute) and base.attr in ("log", "_log", "logger"):
          return True
        # logging.getLogger("x").info(...)
        if isinstance(base, ast.Call) and isinstance(base.func, ast.Attribute) and base.func.attr == "getLogger" \
           and isinstance(base.func.value, ast.Name) and base.func.value.id == "logging":
          return True
        if f.attr in ("msg", "err") :
          return True
      if f.attr == "print_exc" and isinstance(f.value, ast.Name) and f.value.id == "traceback":
        return True
    if isinstance(f, ast.Name) and f.id in ("print",):
      return True
    return False

  def ev_keywords(self, kws, st, ctx, k):
    def step(j, st2, acc):
      if j >= len(kws):
        return k(st2, acc)
      kw = kws[j]
      def got(st3, v):
        if kw.arg is None:
          # **mapping
          def got_items(st4, items):
            acc2 = dict(acc)
            for kk, vv in items:
              if not isinstance(kk, str):
                raise Unsupported("non-string ** key")
              acc2[kk] = vv
            return step(j + 1, st4, acc2)
          return self.models.mapping_items(self, v, st3, ctx, got_items, kw)
        acc2 = dict(acc)
        acc2[kw.arg] = v
        return step(j + 1, st3, acc2)
      return self.ev(kw.value, st2, ctx, got)
    return step(0, st, {})

  def call_value(self, f, args, kws, st, ctx, k, node=None):
    return self.models.call_value(self, f, args, kws, st, ctx, k, node)

  def call_closure(self, c, args, kws, st, ctx, k, node=None, merge=True):
    """interpret the body of c with the given actual arguments"""
    if ctx is not None and ctx.depth > self.call_depth_limit:
      # unbounded recursion in the interpreted program surfaces as RecursionError, as in CPython
      # (_ofp_meta.__len__ relies on it: its bare `except:` catches the error of cls.__len__ recursing)
      return self.raise_exc(st, ctx, RecursionError, "maximum recursion depth exceeded", node)
    fnode = c.node
    a = fnode.args
    fid = new_oid()
    frame = {"$fn": c}
    params = [x.arg for x in a.posonlyargs + a.args]
    nargs = len(args)
    if nargs > len(params) and not a.vararg:
      return self.raise_exc(st, ctx, TypeError, "%s() takes %d positional arguments but %d were given"
                            % (c.name, len(params), nargs), node)
    for p, v in zip(params, args):
      frame[p] = v
    if a.vararg:
      frame[a.vararg.arg] = tuple(args[len(params):])
    extra_kw = {}
    kwonly = [x.arg for x in a.kwonlyargs]
    for kname, v in kws.items():
      if kname in params:
        if kname in frame:
          return self.raise_exc(st, ctx, TypeError, "multiple values for argument " + kname, node)
        frame[kname] = v
      elif kname in kwonly:
        frame[kname] = v
      elif a.kwarg:
        extra_kw[kname] = v
      else:
        return self.raise_exc(st, ctx, TypeError, "%s() got an unexpected keyword argument '%s'"
                              % (c.name, kname), node)
    # defaults
    nd = len(c.defaults)
    for i_, p in enumerate(params):
      if p not in frame:
        di = i_ - (len(params) - nd)
        if di >= 0:
          frame[p] = c.defaults[di]
        else:
          return self.raise_exc(st, ctx, TypeError, "%s() missing required argument '%s'" % (c.name, p), node)
    for i_, p in enumerate(kwonly):
      if p not in frame:
        if p in c.kwdefaults:
          frame[p] = c.kwdefaults[p]
        elif a.kw_defaults[i_] is not None and c.realfn is None:
          raise Unsupported("kw-only default in nested function")
        else:
          return self.raise_exc(st, ctx, TypeError, "missing keyword-only argument " + p, node)
    if a.kwarg:
      d = {}
      for kk, vv in extra_kw.items():
        d[kk] = (kk, vv)
      frame[a.kwarg.arg] = st.alloc("dict", dict, d)
    st.frames[fid] = frame
    if c.realfn is not None and c.qualname not in self.functions_seen:
      end = getattr(fnode, "end_lineno", fnode.lineno)
      self.functions_seen[c.qualname] = (c.realfn.__code__.co_filename, fnode.lineno, end)
    ys = _own_yields(fnode) if not isinstance(fnode, ast.Lambda) else []
    if ys:
      # generator functions: a call creates a generator object whose body runs on next()/send()/throw()
      for n in ys:
        if isinstance(n, (ast.YieldFrom, ast.Await)):
          raise Unsupported("generator function %s uses yield from / await" % c.qualname)
      return k(st, self.make_generator(c, fnode, fid, st, ctx))
    depth = (ctx.depth + 1) if ctx is not None else 0
    if isinstance(fnode, ast.Lambda):
      cctx = Ctx(fid, c, None, ctx.exc_k if ctx else None, None, None, None, depth)
      def done(st2, v):
        st2.frames.pop(fid, None) if not self.frame_captured(st2, fid) else None
        return k(st2, v)
      return self.ev(fnode.body, st, cctx, done)
    rets = []
    excs = []
    cctx = Ctx(fid, c, lambda s, v: rets.append((s, v)), lambda s, e: excs.append((s, e)), None, None, None, depth)
    self.ex(fnode.body, 0, st, cctx, lambda s: rets.append((s, None)))
    if merge and len(rets) > 1:
      rets = self.merge_all(rets)
    for s, v in rets:
      if not self.frame_captured(s, fid, v):
        s.frames.pop(fid, None)
      k(s, v)
    for s, e in excs:
      s.frames.pop(fid, None)
      ctx.exc_k(s, e)

  # ------------------------------------------------------------------
  # generators: the body is run in continuation-passing style anyway, so a suspended generator is the continuation
  # of its `yield` expression kept in a heap object; next()/send()/throw() store the caller's continuations in that
  # object and resume it.  Semantics assumed: PEP 255 / 342 (send, throw, close, StopIteration carrying the return
  # value); `yield from` is not modelled.
  # ------------------------------------------------------------------
  def make_generator(self, c, fnode, fid, st, ctx):
    import types as _types
    depth = (ctx.depth + 1) if ctx is not None else 0
    ref = st.alloc("gen", _types.GeneratorType, {"state": "created", "resume": None, "k": None, "exc_k": None,
                                                 "name": c.qualname})
    def finish(s, e):
      d = s.obj(ref).data
      ek = d["exc_k"]
      d["state"] = "done"
      d["resume"] = None
      d["k"] = None
      d["exc_k"] = None
      s.frames.pop(fid, None)
      return ek(s, e)
    def ret_k(s, v):
      return finish(s, ExcVal(StopIteration, (v,) if v is not None else ()))
    def exc_k(s, e):
      if e.cls is StopIteration:
        # PEP 479
        e = ExcVal(RuntimeError, ("generator raised StopIteration",), e.where)
      return finish(s, e)
    cctx = Ctx(fid, c, ret_k, exc_k, None, None, None, depth, gen=ref)
    def start(s, sent, exc):
      if exc is not None:
        return finish(s, exc)
      if sent is not None:
        return finish(s, ExcVal(TypeError, ("can't send non-None value to a just-started generator",)))
      return self.ex(fnode.body, 0, s, cctx, lambda s2: ret_k(s2, None))
    st.obj(ref).data["resume"] = GenCont(start)
    return ref

  def gen_resume(self, ref, sent, exc, st, ctx, k, node):
    """next(g) / g.send(v) / g.throw(e): run the generator until its next yield (-> k(st, yielded)) or its end
    (-> StopIteration / the escaping exception at the caller)"""
    d = st.obj(ref).data
    if d["state"] == "running":
      return self.raise_exc(st, ctx, ValueError, "generator already executing", node)
    if d["state"] == "done":
      if exc is not None:
        return ctx.exc_k(st, exc)
      return self.raise_exc(st, ctx, StopIteration, None, node)
    r = d["resume"]
    if isinstance(r, Union):
      return self.split(r, st, lambda st2, r2: self._gen_go(ref, r2, sent, exc, st2, ctx, k))
    return self._gen_go(ref, r, sent, exc, st, ctx, k)

  def _gen_go(self, ref, r, sent, exc, st, ctx, k):
    d = st.obj(ref).data
    d["state"] = "running"
    d["resume"] = None
    d["k"] = GenCont(k)
    d["exc_k"] = ctx.exc_k
    return r.fn(st, sent, exc)

  def ev_Yield(self, node, st, ctx, k):
    if ctx.gen is None:
      raise Unsupported("yield outside an interpreted generator at %s" % self.where(ctx, node))
    ref = ctx.gen
    def got(st2, v):
      d = st2.obj(ref).data
      caller = d["k"]
      def resume(s, sent, exc):
        if exc is not None:
          return ctx.exc_k(s, exc)
        return k(s, sent)
      d["state"] = "suspended"
      d["resume"] = GenCont(resume)
      d["k"] = None
      d["exc_k"] = None
      if isinstance(caller, Union):
        return self.split(caller, st2, lambda s3, c3: c3.fn(s3, v))
      return caller.fn(st2, v)
    if node.value is None:
      return got(st, None)
    return self.ev(node.value, st, ctx, got)

  def frame_captured(self, st, fid, retval=None):
    """is the frame still referenced by a live closure? (conservative: any closure defined in it)"""
    fr = st.frames.get(fid)
    if fr is None:
      return False
    for v in fr.values():
      if isinstance(v, Closure) and v.fid == fid:
        return True
    return False


_own_yields_cache = {}


def _own_yields(fnode):
  """yield / yield from / await nodes of this function itself (not of functions nested in it)"""
  r = _own_yields_cache.get(id(fnode))
  if r is None:
    r = []
    stack = list(ast.iter_child_nodes(fnode))
    while stack:
      n = stack.pop()
      if isinstance(n, (ast.FunctionDef, ast.AsyncFunctionDef, ast.Lambda, ast.ClassDef)):
        continue
      if isinstance(n, (ast.Yield, ast.YieldFrom, ast.Await)):
        r.append(n)
      stack.extend(ast.iter_child_nodes(n))
    _own_yields_cache[id(fnode)] = r
  return r


class SliceVal(object):
  __slots__ = ("lo", "hi", "step")

  def __init__(self, lo, hi, step):
    self.lo = lo
    self.hi = hi
    self.step = step


class LiveList(object):
  __slots__ = ("ref",)

  def __init__(self, ref):
    self.ref = ref


class _Absent(object):
  def __repr__(self):
    return "<ABSENT>"


class _NoMerge(object):
  pass


_ABSENT = _Absent()
_NOMERGE = _NoMerge()
_MISSING = object()


def _ite_depth(t):
  d = 0
  while is_sym(t) and z3.is_app_of(t, z3.Z3_OP_ITE):
    d += 1
    a, b = t.arg(1), t.arg(2)
    if z3.is_app_of(b, z3.Z3_OP_ITE):
      t = b
    elif z3.is_app_of(a, z3.Z3_OP_ITE):
      t = a
    else:
      break
  return d


def concretize_b(x):
  if is_sym(x):
    return concretize(x)
  return x
