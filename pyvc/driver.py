"""Runs units: symbolic proof, concrete replay / sampling, evidence assembly."""
import hashlib
import importlib
import json
import os
import subprocess
import sys
import threading
import time
import traceback

VERIF = os.path.dirname(os.path.dirname(os.path.abspath(__file__)))
REPO = os.environ.get("PYVC_REPO", "/repo")   # scratch copies for seeded-change evaluation only; registered commands never set it
VENV_PY = "/venv/bin/python"


def load_repo():
  import unittest  # noqa: pox.core initialises `core` when unittest is loaded (the repository's own test hook)
  if REPO not in sys.path:
    sys.path.insert(0, REPO)
  if VERIF not in sys.path:
    sys.path.insert(0, VERIF)


def contract_modules(prop):
  d = os.path.join(VERIF, "contracts")
  mods = []
  for fn in sorted(os.listdir(d)):
    if fn.startswith(prop.lower() + "_") and fn.endswith(".py"):
      mods.append("contracts." + fn[:-3])
  return mods


def load_units(prop):
  load_repo()
  from . import api
  for m in contract_modules(prop):
    importlib.import_module(m)
  return api.UNITS.get(prop, [])


def sha_segment(path, first, last):
  try:
    with open(path, "rb") as f:
      lines = f.read().splitlines(True)
    seg = b"".join(lines[first - 1:last])
    return hashlib.sha256(seg).hexdigest()
  except Exception:
    return None


# ----------------------------------------------------------------------
# symbolic run of one unit (inside a worker process)
# ----------------------------------------------------------------------

def _run_sym(unit, out, obligation_timeout_ms):
  import z3
  from .interp import Interp, Ctx
  from .state import State, STATS
  from .values import Unsupported, ExcVal, concretize, is_sym
  from .api import SymBuilder
  from . import builtins_model, backends
  t0 = time.time()
  res = {"unit": unit.name, "prop": unit.prop, "target": unit.target, "obligations": [], "status": "ok",
         "functions": {}, "axioms": [], "notes": []}
  out["res"] = res
  try:
    I = Interp()
    I.obligation_timeout_ms = obligation_timeout_ms
    st = State()
    b = SymBuilder(I, st)
    try:
      case = unit.fn(b)
    except (AttributeError, ImportError, NameError) as e_setup:
      # the contract's set-up names a function / class / attribute the code does not have (any more): the contract does
      # not fit this code - undecided, neither a violation nor a crash of the checker
      raise Unsupported("contract set-up does not fit this code: %s: %s" % (type(e_setup).__name__, e_setup))
    st = b.st
    I.loop_specs = dict(case.loops)
    I.call_specs = dict(case.calls)
    # vacuity: the precondition must be satisfiable
    r, _ = st.check([], what="pre.sat")
    res["obligations"].append({"name": "pre.sat", "kind": "vacuity", "status": "proved" if r == "sat" else
                               ("refuted" if r == "unsat" else "unknown"), "time": 0.0})
    if r == "unsat":
      res["status"] = "vacuous"
      return
    rets, excs = [], []
    ctx = Ctx(None, None, None, lambda s, e: excs.append((s, e)))
    I.call_value(case.fn, list(case.args), dict(case.kwargs), st, ctx, lambda s, v: rets.append((s, v)))
    # reachability cover
    reach = any(s.feasible(True) for s, _ in rets) if rets else False
    if case.must_return:
      res["obligations"].append({"name": "reach.return", "kind": "vacuity",
                                 "status": "proved" if reach else "refuted", "time": 0.0})
    models = {}
    # postconditions on every normal exit
    for xi, (s, v) in enumerate(rets):
      for lname, lfn in case.lemma_instances.items():
        outs = []
        ectx = Ctx(None, None, None, lambda s2, e: outs.append((s2, None)))
        I.call_value(lfn, [v], {}, s, ectx, lambda s2, r2: outs.append((s2, r2)))
        if len(outs) != 1 or outs[0][1] is None:
          raise Unsupported("lemma instance %s did not evaluate to a single formula" % lname)
        s = outs[0][0]
        fm = outs[0][1]
        s.add(fm if hasattr(fm, "sort") else z3.BoolVal(bool(fm)))
        res.setdefault("lemmas_used", []).append(lname)
      for cname, cfn in case.ensures.items():
        outs = []
        ectx = Ctx(None, None, None, lambda s2, e: outs.append((s2, ("exc", e))))
        # every clause is evaluated on its OWN copy of the exit state: evaluation forks by adding path conditions to
        # the state in place, which must not leak into the next clause (found 2026-09-25 by a seeded change: all
        # clauses after the first forking one were checked under the first fork's assumption)
        I.call_value(cfn, [v], {}, s.copy(), ectx, lambda s2, r2: outs.append((s2, ("val", r2))))
        for s2, (kind, r2) in outs:
          if kind == "exc":
            # the clause itself raised on this path: counts as not established
            if s2.feasible(True):
              st_ = "unknown" if _contract_misfit(r2) else "refuted"
              I.obligations.append(_mk_ob(I, "post." + cname, "post", st_, s2,
                                          detail=("contract does not fit this code: " if st_ == "unknown" else "")
                                          + "clause raised %r" % (r2,)))
            continue
          tv = []
          I.truth(r2, s2, ectx, lambda s3, t: tv.append((s3, t)))
          for s3, t in tv:
            I.check_obligation(s3, t, "post." + cname, kind="post")
    # exceptional exits
    for s, e in excs:
      allowed = None
      for cls, cond in case.raises.items():
        if issubclass(e.cls, cls):
          allowed = cond
          break
      name = "exc.%s@%s" % (e.cls.__name__, e.where)
      if allowed is None:
        r, m = s.check([], what=name, want_model=True)
        status = {"sat": "refuted", "unsat": "proved", "unknown": "unknown"}[r]
        if status == "refuted" and _contract_misfit(e):
          status = "unknown"      # the contract's own code could not be evaluated on this code: undecided, not a defect
        ob = _mk_ob(I, name, "exc", status, s, model=m, detail=repr(e))
        I.obligations.append(ob)
      elif allowed is True:
        I.obligations.append(_mk_ob(I, name, "exc", "proved", s, detail="allowed by raises"))
      else:
        outs = []
        ectx = Ctx(None, None, None, lambda s2, e2: outs.append((s2, False)))
        I.call_value(allowed, [], {}, s.copy(), ectx, lambda s2, r2: outs.append((s2, r2)))
        for s2, r2 in outs:
          tv = []
          I.truth(r2, s2, ectx, lambda s3, t: tv.append((s3, t))) if r2 is not False else tv.append((s2, False))
          for s3, t in tv:
            I.check_obligation(s3, t, name, kind="exc")
      for cname, cfn in case.exc_ensures.items():
        outs = []
        ectx = Ctx(None, None, None, lambda s2, e2: outs.append((s2, False)))
        I.call_value(cfn, [e.cls], {}, s.copy(), ectx, lambda s2, r2: outs.append((s2, r2)))
        for s2, r2 in outs:
          I.check_obligation(s2, r2 if r2 is not False else False, "excpost." + cname, kind="post")
    # aggregate
    agg = {}
    order = {"proved": 0, "unknown": 1, "refuted": 2}
    for ob in I.obligations:
      cur = agg.get(ob.name)
      if cur is None or order[ob.status] > order[cur["status"]]:
        d = {"name": ob.name, "kind": ob.kind, "status": ob.status, "time": round(ob.time, 4),
             "detail": ob.detail, "paths": 0}
        if ob.status == "refuted" and ob.model is not None:
          try:
            d["inputs"] = b.extract(ob.model)
          except Exception as ex:
            d["inputs_error"] = str(ex)
        if cur is not None:
          d["paths"] = cur["paths"]
          d["time"] = round(cur["time"] + ob.time, 4)
        agg[ob.name] = d
      else:
        cur["time"] = round(cur["time"] + ob.time, 4)
      agg[ob.name]["paths"] += 1
    res["obligations"].extend(agg.values())
    for site, (status, detail) in sorted(I.site_status.items()):
      if status == "proved":
        res["obligations"].append({"name": site, "kind": "safe", "status": "proved", "time": 0.0})
      else:
        res["notes"].append("%s: %s (covered by the exit obligations)" % (site, status))
    for qn, (path, first, last) in sorted(I.functions_seen.items()):
      res["functions"][qn] = {"file": path, "lines": [first, last], "sha256": sha_segment(path, first, last)}
    res["axioms"] = sorted(builtins_model.AXIOMS_USED)
    res["solver"] = {"queries": STATS.queries, "time_s": round(STATS.time, 3), "max_s": round(STATS.max_time, 3),
                     "max_what": STATS.max_what, "unknown": STATS.unknown,
                     "backends": dict(backends.BACKEND_COUNTS)}
    res["paths"] = {"returns": len(rets), "raises": len(excs), "forks": I.fork_count, "merges": I.merge_count,
                    "dropped_log_calls": I.dropped_calls}
  except Unsupported as e:
    res["status"] = "out_of_reach"
    res["error"] = str(e)
  except RecursionError as e:
    res["status"] = "out_of_reach"
    res["error"] = "recursion limit: " + str(e)[:200]
  except Exception as e:
    res["status"] = "error"
    res["error"] = "%s: %s" % (type(e).__name__, e)
    res["traceback"] = traceback.format_exc()[-3000:]
  finally:
    res["wall_s"] = round(time.time() - t0, 3)


def _mk_ob(I, name, kind, status, st, model=None, detail=None):
  from .interp import Obligation
  ob = Obligation(name, kind, status, detail=detail, model=model)
  return ob


def _contract_misfit(e):
  """an AttributeError / NameError raised by the CONTRACT's own code (site in contracts.* / spec.*): the contract reads an
  attribute or name the code under contract does not have (a renamed field, a changed result shape).  Nothing is shown
  wrong about the property: the obligation is undecided (exit 2), never a violation."""
  where = getattr(e, "where", None) or ""
  return getattr(e, "cls", None) in (AttributeError, NameError) and (where.startswith("contracts.") or where.startswith("spec."))


def run_unit_symbolic(prop, unit_name, obligation_timeout_ms=20000):
  """entry point in a worker process"""
  units = load_units(prop)
  unit = [u for u in units if u.name == unit_name][0]
  out = {}
  threading.stack_size(1024 * 1024 * 1024)
  t = threading.Thread(target=_run_sym, args=(unit, out, obligation_timeout_ms))
  t.start()
  t.join()
  return out.get("res", {"unit": unit_name, "status": "error", "error": "no result", "obligations": []})


# ----------------------------------------------------------------------
# concrete execution (replay, sampling) -- runs under /venv/bin/python
# ----------------------------------------------------------------------

def run_unit_concrete(unit, values=None, seed=0, samples=1):
  """native execution of the real function with the contract as oracle.
  returns list of dict(ok, failures=[...], inputs)"""
  import random
  from .api import ConcBuilder, Reject
  results = []
  rng = random.Random(seed)
  tries = 0
  while len(results) < samples and tries < samples * 50:
    tries += 1
    b = ConcBuilder(values, rng if values is None else None)
    try:
      case = unit.fn(b)
    except Reject:
      if values is not None:
        results.append({"ok": None, "rejected": True, "inputs": values})
        break
      continue
    rec = {"inputs": dict(b.drawn), "failures": [], "ok": True}
    try:
      res = case.fn(*case.args, **case.kwargs)
      rec["outcome"] = "returned"
      rec["result"] = repr(res)[:300]
      for cname, cfn in case.ensures.items():
        try:
          okc = bool(cfn(res))
        except Exception as ex:
          okc = False
          rec["failures"].append("post.%s raised %s: %s" % (cname, type(ex).__name__, ex))
          continue
        if not okc:
          rec["failures"].append("post." + cname)
    except Reject:
      continue
    except BaseException as ex:
      rec["outcome"] = "raised %s: %s" % (type(ex).__name__, str(ex)[:200])
      tb = traceback.extract_tb(ex.__traceback__)
      rec["raised_at"] = "%s:%s" % (tb[-1].filename, tb[-1].lineno) if tb else None
      allowed = None
      for cls, cond in case.raises.items():
        if isinstance(ex, cls):
          allowed = cond
          break
      if allowed is None:
        rec["failures"].append("exc.%s" % type(ex).__name__)
      elif allowed is not True:
        try:
          if not bool(allowed()):
            rec["failures"].append("exc.%s (condition false)" % type(ex).__name__)
        except Exception as ex2:
          rec["failures"].append("exc condition raised %s" % ex2)
      for cname, cfn in case.exc_ensures.items():
        try:
          if not bool(cfn(type(ex))):
            rec["failures"].append("excpost." + cname)
        except Exception as ex2:
          rec["failures"].append("excpost.%s raised %s" % (cname, ex2))
    rec["ok"] = not rec["failures"]
    results.append(rec)
    if values is not None:
      break
  return results


def standin_main(argv):
  """python -m pyvc.driver standin <prop> <name> <tier> <seed>
  the stand-in function is a generator of (case_id, thunk); thunk() returns None/True when the contract
  holds, a string describing the failure otherwise (an escaping exception is a failure too)."""
  prop, name, tier, seed = argv[0], argv[1], argv[2], int(argv[3])
  load_units(prop)
  from . import api
  sd = [x for x in api.STANDINS.get(prop, []) if x.name == name][0]
  n = 0
  distinct = set()
  failures = []
  nfail = {}
  samples = []
  t0 = time.time()
  for case_id, thunk in sd.fn(tier, seed):
    n += 1
    cid = case_id if isinstance(case_id, str) else json.dumps(case_id, default=str)
    sys.stderr.write("CASE " + cid[:300] + "\n")
    sys.stderr.flush()
    distinct.add(cid)
    if len(samples) < 5:
      samples.append(cid[:300])
    try:
      r = thunk()
    except BaseException as ex:
      tb = traceback.extract_tb(ex.__traceback__)
      r = "raised %s: %s at %s:%s" % (type(ex).__name__, str(ex)[:200], tb[-1].filename if tb else "?",
                                      tb[-1].lineno if tb else "?")
    if r is not None and r is not True:
      key = str(r)[:80]
      nfail[key] = nfail.get(key, 0) + 1
      if nfail[key] <= 5:
        failures.append({"case": cid[:2000], "failure": str(r)[:500]})
      if len(failures) >= 400:
        break
  out = {"evaluations": n, "distinct": len(distinct), "failures": failures, "failure_counts": nfail, "samples": samples,
         "wall_s": round(time.time() - t0, 2)}
  sys.stdout.write("PYVC-RESULT " + json.dumps(out) + "\n")


def run_standin_subprocess(prop, name, tier, seed, timeout_s):
  env = dict(os.environ)
  env["PYTHONPATH"] = VERIF + ":" + REPO
  cmd = ["timeout", "-k", "5", str(timeout_s), VENV_PY, "-m", "pyvc.driver", "standin", prop, name, tier, str(seed)]
  try:
    p = subprocess.run(cmd, capture_output=True, text=True, env=env, cwd=VERIF, timeout=timeout_s + 20)
  except subprocess.TimeoutExpired as e:
    return {"status": "timeout", "last_case": None}
  for line in p.stdout.splitlines():
    if line.startswith("PYVC-RESULT "):
      return dict(json.loads(line[len("PYVC-RESULT "):]), status="ok")
  last = None
  for line in p.stderr.splitlines():
    if line.startswith("CASE "):
      last = line[5:]
  if p.returncode in (124, 137):
    return {"status": "timeout", "last_case": last}
  return {"status": "crash", "stderr": p.stderr[-1500:], "last_case": last}


def concrete_main(argv):
  """python -m pyvc.driver conc <prop> <unit> <json-file-or-'-'> <seed> <samples>"""
  prop, unit_name, src, seed, samples = argv[0], argv[1], argv[2], int(argv[3]), int(argv[4])
  units = load_units(prop)
  unit = [u for u in units if u.name == unit_name][0]
  values = None
  if src != "-":
    with open(src) as f:
      values = json.load(f)
    if "inputs" in values and isinstance(values["inputs"], dict):
      values = values["inputs"]
  out = run_unit_concrete(unit, values, seed, samples)
  sys.stdout.write("PYVC-RESULT " + json.dumps(out) + "\n")


def run_concrete_subprocess(prop, unit_name, values_path, seed, samples, timeout_s=60):
  env = dict(os.environ)
  env["PYTHONPATH"] = VERIF + ":" + REPO
  env.pop("PYTHONHOME", None)
  cmd = ["timeout", "-k", "5", str(timeout_s), VENV_PY, "-m", "pyvc.driver", "conc", prop, unit_name,
         values_path or "-", str(seed), str(samples)]
  try:
    p = subprocess.run(cmd, capture_output=True, text=True, env=env, cwd=VERIF, timeout=timeout_s + 15)
  except subprocess.TimeoutExpired:
    return {"status": "timeout", "results": []}
  for line in p.stdout.splitlines():
    if line.startswith("PYVC-RESULT "):
      return {"status": "ok", "results": json.loads(line[len("PYVC-RESULT "):])}
  if p.returncode in (124, 137):
    return {"status": "timeout", "results": [], "stderr": p.stderr[-500:]}
  return {"status": "crash", "results": [], "stderr": p.stderr[-1500:], "rc": p.returncode}


if __name__ == "__main__":
  if sys.argv[1] == "conc":
    sys.setrecursionlimit(10000)
    concrete_main(sys.argv[2:])
  elif sys.argv[1] == "standin":
    standin_main(sys.argv[2:])
