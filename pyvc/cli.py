"""./check <property> : discharge every obligation of the property's units, replay refutations,
cross-check proved contracts against CPython, write the evidence file, print the verdict.

exit codes: 0 held (possibly with KNOWN-FINDING lines) / 1 VIOLATION / 2 UNDECIDED / 3 checker error
"""
import argparse
import json
import multiprocessing as mp
import os
import re
import sys
import time

from . import driver

VERIF = driver.VERIF
TRUSTED_BASE = [
  "pyvc: the symbolic evaluator's encoding of Python semantics (DESIGN 2.4)",
  "z3 4.x/5.1 (python API), cvc5 1.0.3 and z3 4.8.12 (SMT-LIB2 second opinion)",
  "axioms for struct/socket/time/sort/hash listed under coverage.axioms (validated against CPython by selftest)",
  "Python ints are mathematical integers; floats (time stamps) are treated as reals",
]


def _worker(args):
  prop, unit_name, oto = args
  try:
    return driver.run_unit_symbolic(prop, unit_name, oto)
  except BaseException as e:   # pragma: no cover
    import traceback
    return {"unit": unit_name, "status": "error", "error": "%s: %s" % (type(e).__name__, e),
            "traceback": traceback.format_exc()[-2000:], "obligations": []}


def load_known(prop):
  p = os.path.join(VERIF, "known_findings.json")
  if not os.path.exists(p):
    return []
  with open(p) as f:
    data = json.load(f)
  return [e for e in data.get("entries", []) if e.get("property") == prop]


def finding_matches(entry, unit, ob_name):
  if entry.get("status") != "finding":
    return False
  if entry.get("unit") != unit:
    return False
  pat = entry.get("obligation")
  if pat.endswith("*"):
    return ob_name.startswith(pat[:-1])
  return pat == ob_name


def main(argv=None):
  ap = argparse.ArgumentParser()
  ap.add_argument("prop")
  ap.add_argument("--tier", default=os.environ.get("VERIF_TIER", "quick"))
  ap.add_argument("--replay")
  ap.add_argument("--unit", action="append")
  ap.add_argument("-j", type=int, default=int(os.environ.get("VERIF_JOBS", "16")))
  ap.add_argument("--no-samples", action="store_true")
  ap.add_argument("-v", action="store_true")
  a = ap.parse_args(argv)
  prop = a.prop
  seed = int(os.environ.get("VERIF_SEED", "0") or 0)
  tier = "thorough" if a.tier == "thorough" else "quick"
  t0 = time.time()

  if a.replay:
    return replay_file(prop, a.replay)

  # engine self-test first: known-true clauses must be proved, known-false ones refuted (contracts/self_engine.py)
  if not os.environ.get("VERIF_SKIP_SELFTEST"):
    from . import selftest
    t_self = time.time()
    problems = selftest.run()
    if problems:
      for pr in problems:
        print("CHECKER-ERROR property=%s engine self-test: %s" % (prop, pr))
      return 3
    if a.v:
      print("engine self-test ok (%.1fs)" % (time.time() - t_self))

  units = driver.load_units(prop)
  if a.unit:
    units = [u for u in units if u.name in a.unit]
  units = [u for u in units if tier == "thorough" or u.tier == "quick"]
  from . import api as _api0
  if not units and not _api0.STANDINS.get(prop):
    print("ERROR property=%s no units registered" % prop)
    return 3
  oto = 20000 if tier == "quick" else 120000
  ctx = mp.get_context("fork")
  results = {}
  pending = []
  pool = ctx.Pool(processes=max(1, min(a.j, max(1, len(units)))), maxtasksperchild=1)
  try:
    for u in units:
      pending.append((u, pool.apply_async(_worker, ((prop, u.name, oto),))))
    for u, fut in pending:
      budget = u.timeout_s * (1 if tier == "quick" else 4)
      try:
        results[u.name] = fut.get(timeout=max(5, budget - (time.time() - t0) + 5))
      except mp.TimeoutError:
        results[u.name] = {"unit": u.name, "status": "timeout", "error": "unit exceeded %ds" % budget,
                           "obligations": []}
  finally:
    pool.terminate()

  known = load_known(prop)
  bounded_sym = {"obligations": 0, "units": {}}
  violations = []     # (unit, obligation, replay path, confirmed)
  undecided = []
  errors = []
  known_hits = []
  total_obl = 0
  discharged = 0
  samples_out = []
  functions = {}
  axioms = set()
  solver_time = 0.0
  solver_queries = 0
  solver_max = (0.0, None)
  backends = {}
  per_unit = []
  os.makedirs(os.path.join(VERIF, "replays", prop), exist_ok=True)

  for u in units:
    r = results[u.name]
    st = r.get("status")
    per_unit.append({"unit": u.name, "target": u.target, "status": st, "wall_s": r.get("wall_s"),
                     "obligations": len(r.get("obligations", [])), "paths": r.get("paths"),
                     "error": r.get("error")})
    if st in ("error",):
      errors.append("%s: %s" % (u.name, r.get("error")))
      if a.v:
        print(r.get("traceback"))
      continue
    if st in ("out_of_reach", "timeout"):
      undecided.append((u.name, "unit", r.get("error")))
      continue
    if st == "vacuous":
      errors.append("%s: precondition unsatisfiable (vacuous contract)" % u.name)
      continue
    functions.update(r.get("functions", {}))
    axioms.update(r.get("axioms", []))
    sv = r.get("solver", {})
    solver_time += sv.get("time_s", 0.0)
    solver_queries += sv.get("queries", 0)
    if sv.get("max_s", 0) > solver_max[0]:
      solver_max = (sv.get("max_s"), "%s/%s" % (u.name, sv.get("max_what")))
    for bk, n in sv.get("backends", {}).items():
      backends[bk] = backends.get(bk, 0) + n
    nobl = 0
    for ob in r.get("obligations", []):
      nobl += 1
      if a.v and ob["status"] != "proved":
        print("  [%s] %s %s %s t=%s inputs=%s" % (u.name, ob["name"], ob["status"], ob.get("detail"), ob.get("time"),
                                              json.dumps(ob.get("inputs"))[:300]))
      full = "%s/%s" % (u.name, ob["name"])
      if ob["status"] == "proved" and u.bound:
        bounded_sym["obligations"] += 1
        bounded_sym["units"].setdefault(u.name, u.bound)
        continue
      if ob["status"] == "proved":
        total_obl += 1
        discharged += 1
        if len(samples_out) < 6 and ob["kind"] in ("post", "loop", "safe"):
          samples_out.append({"obligation": full, "kind": ob["kind"], "status": "proved", "solver_s": ob.get("time")})
        continue
      hit = [e for e in known if finding_matches(e, u.name, ob["name"])]
      if hit:
        known_hits.append((hit[0], full))
        continue
      total_obl += 1
      if ob["status"] == "unknown":
        undecided.append((u.name, ob["name"], "solver unknown on all back ends"))
        continue
      # refuted
      if ob["kind"] == "vacuity":
        errors.append("%s: %s failed (vacuous or unreachable contract)" % (u.name, ob["name"]))
        continue
      path = write_replay(prop, u, ob, r)
      confirmed, observed = confirm_replay(prop, u, ob, path)
      if isinstance(observed, dict) and observed.get("status") == "crash":
        errors.append("%s: replay harness crashed: %s" % (u.name, str(observed.get("stderr"))[-300:]))
      if ob["kind"] == "loop" and not confirmed:
        # scaffolding obligation without a failing input: the proof is lost, nothing shown wrong
        undecided.append((u.name, ob["name"], "loop annotation no longer inductive; no failing input found"))
        continue
      violations.append((u.name, ob["name"], path, confirmed, observed))
    if nobl == 0:
      errors.append("%s: zero obligations generated" % u.name)

  # bounded stand-ins (labelled bounded; never counted in obligations/discharged)
  from . import api as _api
  from concurrent.futures import ThreadPoolExecutor
  standins = [x for x in _api.STANDINS.get(prop, []) if not a.unit or x.name in a.unit]
  standin_out = []
  if standins:
    with ThreadPoolExecutor(max_workers=max(1, min(a.j, len(standins)))) as tp:
      futs = [(sd, tp.submit(driver.run_standin_subprocess, prop, sd.name, tier, seed,
                             sd.timeout_s * (1 if tier == "quick" else 6))) for sd in standins]
      for sd, fut in futs:
        out = fut.result()
        rec = {"function": sd.target, "name": sd.name, "bound": sd.bound, "status": out.get("status"),
               "evaluations": out.get("evaluations", 0), "distinct_nontrivial": out.get("distinct", 0),
               "samples": out.get("samples", []), "failures": len(out.get("failures", [])),
               "wall_s": out.get("wall_s")}
        standin_out.append(rec)
        if out.get("status") == "timeout":
          case = out.get("last_case")
          hit = [e for e in known if e.get("status") == "finding" and e.get("unit") == sd.name
                 and e.get("obligation", "").startswith("nontermination")]
          if hit:
            known_hits.append((hit[0], sd.name + "/nontermination"))
          else:
            path = os.path.join(VERIF, "replays", prop, sd.name + "__timeout.json")
            with open(path, "w") as f:
              json.dump({"property": prop, "standin": sd.name, "bound": sd.bound, "last_case": case,
                         "observed": "native execution did not finish within the time limit"}, f, indent=1)
            violations.append((sd.name, "bounded.nontermination", path, True, case))
        elif out.get("status") == "crash":
          errors.append("%s: stand-in harness crashed: %s" % (sd.name, out.get("stderr", "")[-300:]))
        else:
          if out.get("evaluations", 0) == 0:
            errors.append("%s: stand-in evaluated zero cases" % sd.name)
          unknown_fail = []
          for fl in out.get("failures", []):
            hit = [e for e in known if e.get("status") == "finding" and e.get("unit") == sd.name
                   and fl["case"].startswith(e.get("obligation", "\0")[len("case:"):])
                   and e.get("obligation", "").startswith("case:")]
            if hit:
              if not any(h is hit[0] for h, _ in known_hits):
                known_hits.append((hit[0], sd.name + "/" + fl["case"][:80]))
            else:
              unknown_fail.append(fl)
          if unknown_fail:
            path = os.path.join(VERIF, "replays", prop, sd.name + "__bounded.json")
            with open(path, "w") as f:
              json.dump({"property": prop, "standin": sd.name, "bound": sd.bound, "failures": unknown_fail[:20],
                         "how_to_run": "./check %s --unit %s" % (prop, sd.name)}, f, indent=1)
            violations.append((sd.name, "bounded.case", path, True, unknown_fail[0]))

  # cross-check of proved contracts against CPython on sampled inputs
  sample_stats = {"units": 0, "executions": 0, "failures": 0}
  if not a.no_samples:
    for u in units:
      r = results[u.name]
      if r.get("status") != "ok":
        continue
      n = u.samples if tier == "quick" else u.samples * 10
      if n <= 0:
        continue
      out = driver.run_concrete_subprocess(prop, u.name, None, seed, n, timeout_s=120)
      sample_stats["units"] += 1
      if out["status"] != "ok":
        # native execution can hang/crash on real defects; that is not a checker error by itself
        per_unit.append({"unit": u.name, "sampling": out["status"], "stderr": out.get("stderr", "")[-300:]})
        if out["status"] == "crash":
          errors.append("%s: sampling harness crashed: %s" % (u.name, out.get("stderr", "")[-300:]))
        continue
      for rec in out["results"]:
        sample_stats["executions"] += 1
        if rec.get("ok") is False:
          # a contract that was proved must hold on every sampled execution
          fails = []
          for f in rec["failures"]:
            nm = f.split(" ")[0]
            obs = [o for o in r.get("obligations", []) if o["name"].startswith(nm)]
            proved = obs and all(o["status"] == "proved" for o in obs)
            is_known = any(finding_matches(e, u.name, o["name"]) for e in known for o in obs) or \
              any(e.get("status") == "finding" and e.get("unit") == u.name and e.get("obligation", "").startswith(nm[:8])
                  for e in known)
            if proved and not is_known:
              fails.append(f)
          if fails:
            sample_stats["failures"] += 1
            plain = [f for f in fails if f.startswith("post.") and " " not in f]
            if undecided and plain:
              # the clause was proved against callee / loop contracts of which at least one is no longer discharged on this
              # tree (an UNDECIDED obligation): the proof chain is open, and this execution of the REAL code on a sampled
              # input satisfying the preconditions fails the clause - a failing input, not a checker inconsistency
              if not any(v[0] == u.name and v[1] == plain[0] for v in violations):
                path = os.path.join(VERIF, "replays", prop, "%s__%s__native.json" % (u.name, re.sub(r"[^A-Za-z0-9_.]", "_", plain[0])[:120]))
                with open(path, "w") as f:
                  json.dump({"property": prop, "unit": u.name, "target": u.target, "obligation": plain[0], "kind": "post",
                             "inputs": rec["inputs"], "observed": rec,
                             "open_obligations": ["%s/%s: %s" % x for x in undecided][:10],
                             "note": "clause proved modularly, but an obligation the proof relies on is no longer discharged; "
                                     "the real code fails the clause on this sampled input",
                             "how_to_run": "./check %s --unit %s --replay %s" % (prop, u.name, path)}, f, indent=1)
                violations.append((u.name, plain[0], path, True, rec))
            else:
              errors.append("%s: proved clause fails natively on %s: %s (engine/contract inconsistency)"
                            % (u.name, json.dumps(rec["inputs"])[:300], fails))

  wall = time.time() - t0
  exit_code = 0
  for e, full in known_hits:
    print("KNOWN-FINDING: property=%s %s [%s]" % (prop, e.get("what"), full))
  for (un, obn, path, confirmed, observed) in violations:
    tail = "" if confirmed else " no-failing-input-found"
    print("VIOLATION property=%s replay=%s obligation=%s/%s%s" % (prop, path, un, obn, tail))
    exit_code = 1
  if exit_code == 0 and errors:
    for e in errors:
      print("CHECKER-ERROR property=%s %s" % (prop, e))
    exit_code = 3
  if exit_code == 0 and undecided:
    for (un, obn, why) in undecided:
      print("UNDECIDED property=%s obligation=%s/%s reason=%s" % (prop, un, obn, why))
    exit_code = 2
  elif undecided and a.v:
    for (un, obn, why) in undecided:
      print("UNDECIDED property=%s obligation=%s/%s reason=%s" % (prop, un, obn, why))

  if a.unit:
    # a partial run (development aid: --unit NAME) must not replace the property's evidence file with a partial record
    print("(partial run: evidence/%s.json not rewritten)" % prop)
  else:
    write_evidence(prop, tier, seed, wall, total_obl, discharged, functions, axioms, solver_time, solver_queries,
                   solver_max, backends, per_unit, samples_out, sample_stats, violations, undecided, errors,
                   known_hits, units, standin_out, bounded_sym)
  print("property=%s tier=%s units=%d obligations=%d discharged=%d bounded_shape_obligations=%d standin_cases=%d "
        "violations=%d undecided=%d errors=%d known=%d wall=%.1fs"
        % (prop, tier, len(units), total_obl, discharged, int((bounded_sym or {}).get("obligations", 0)),
           sum(int(x.get("evaluations") or 0) for x in standin_out), len(violations), len(undecided),
           len(errors), len(known_hits), wall))
  return exit_code


def write_replay(prop, u, ob, r):
  safe = (u.name + "__" + ob["name"]).replace("/", "_").replace(":", "_").replace("<", "").replace(">", "")
  safe = safe.replace("@", "_at_")[:150]
  path = os.path.join(VERIF, "replays", prop, safe + ".json")
  doc = {"property": prop, "unit": u.name, "obligation": ob["name"], "kind": ob["kind"],
         "target": u.target, "functions": r.get("functions", {}),
         "inputs": ob.get("inputs"), "solver_output": {"status": ob["status"], "detail": ob.get("detail"),
                                                        "inputs_error": ob.get("inputs_error")},
         "how_to_run": "./check %s --replay %s" % (prop, os.path.relpath(path, VERIF))}
  with open(path, "w") as f:
    json.dump(doc, f, indent=1)
  return path


def confirm_replay(prop, u, ob, path):
  if ob.get("inputs") is None:
    return False, "no model"
  out = driver.run_concrete_subprocess(prop, u.name, path, 0, 1, timeout_s=30)
  observed = None
  confirmed = False
  if out["status"] == "timeout":
    observed = "native execution did not terminate within 30 s"
    confirmed = True
  elif out["status"] == "ok" and out["results"]:
    rec = out["results"][0]
    observed = {"outcome": rec.get("outcome"), "failures": rec.get("failures"), "result": rec.get("result"),
                "raised_at": rec.get("raised_at")}
    confirmed = rec.get("ok") is False
  else:
    observed = out
  try:
    with open(path) as f:
      doc = json.load(f)
    doc["replayed_on_real_code"] = {"confirmed": confirmed, "observed": observed}
    with open(path, "w") as f:
      json.dump(doc, f, indent=1)
  except Exception:
    pass
  return confirmed, observed


def replay_file(prop, path):
  with open(path) as f:
    doc = json.load(f)
  units = driver.load_units(prop)
  u = [x for x in units if x.name == doc["unit"]][0]
  out = driver.run_concrete_subprocess(prop, u.name, path, 0, 1, timeout_s=60)
  print(json.dumps(out, indent=1))
  if out["status"] == "timeout":
    print("VIOLATION property=%s replay=%s (non-termination)" % (prop, path))
    return 1
  if out["status"] == "ok" and out["results"] and out["results"][0].get("ok") is False:
    print("VIOLATION property=%s replay=%s" % (prop, path))
    return 1
  return 0


def write_evidence(prop, tier, seed, wall, total_obl, discharged, functions, axioms, solver_time, solver_queries,
                   solver_max, backends, per_unit, samples_out, sample_stats, violations, undecided, errors,
                   known_hits, units, standin_out=(), bounded_sym=None):
  notdec = []
  p = os.path.join(VERIF, "not_decided.json")
  if os.path.exists(p):
    with open(p) as f:
      notdec = json.load(f).get(prop, [])
  ev = {
    "property_id": prop, "tier": tier, "seed": seed, "level": "proof",
    "coverage": {
      "obligations": total_obl, "discharged": discharged,
      "checker_cmd": "./check %s --tier %s" % (prop, tier),
      "trusted_base": TRUSTED_BASE + ["axiom: " + x for x in sorted(axioms)],
      "functions_under_contract": functions,
      "units": per_unit,
      "by_backend": dict(backends, **{"z3-5.1(api)": solver_queries}),
      "solver_time_s": round(solver_time, 2), "solver_queries": solver_queries,
      "slowest_query_s": solver_max[0], "slowest_query": solver_max[1],
      "native_cross_check": sample_stats,
      "bounded_standins": list(standin_out),
      "bounded_symbolic_units": bounded_sym or {},
      "samples": samples_out or [{"note": "no proved obligation sampled"}],
      "undecided": ["%s/%s: %s" % x for x in undecided],
      "checker_errors": errors,
      "known_findings_matched": ["%s [%s]" % (e.get("what"), full) for e, full in known_hits],
      "violations": [{"unit": v[0], "obligation": v[1], "replay": v[2], "confirmed_on_real_code": v[3]}
                     for v in violations],
      "explanation": "every obligation is generated from the AST of the functions in /repo's working tree on "
                     "this run (sha256 per function above) and discharged by an SMT solver; "
                     "native_cross_check executes the real functions under /venv/bin/python on sampled inputs "
                     "with the same contracts as oracle",
    },
    "assumptions": TRUSTED_BASE + ["not decided by this family: " + x for x in notdec],
    "wall_s": round(wall, 2),
    "violations": len(violations),
  }
  # counts in the exploration-style keys as well (measured on this run): what was evaluated besides the unbounded proofs
  bs = bounded_sym or {}
  n_bounded_obl = int(bs.get("obligations", 0))
  n_standin_cases = sum(int(x.get("evaluations") or 0) for x in standin_out)
  n_native = int((sample_stats or {}).get("executions", 0))
  cov = ev["coverage"]
  cov["evaluations"] = n_bounded_obl + n_standin_cases + n_native + total_obl
  cov["distinct_nontrivial"] = (len(set(u_["unit"] for u_ in per_unit)) + len(bs.get("units", {}))
                                + sum(int(x.get("distinct_nontrivial") or 0) for x in standin_out))
  cov["rule"] = ("evaluations = SMT-discharged obligations of fixed-shape (bounded symbolic) units + obligations of unbounded units "
                 "+ native stand-in cases + native cross-check executions; distinct_nontrivial counts distinct units / stand-ins "
                 "(each a different function, shape or clause set), a conservative lower bound of distinct cases")
  if total_obl == 0:
    # no unbounded obligation: this run is NOT reported at proof level
    if n_bounded_obl > 0:
      ev["level"] = "other"
      cov["explanation"] = ("all units of this property are bounded symbolic units (values symbolic, shape fixed: see "
                            "bounded_symbolic_units); their obligations are discharged by SMT but, because of the shape "
                            "bound, are not reported as proof-level obligations.  " + cov["explanation"])
    else:
      ev["level"] = "exploration"
      cov["explanation"] = ("bounded stand-ins only: native runs of the real functions against independent oracles over the "
                            "stated bounds; nothing is proved")
      cov["samples"] = [{"standin": x.get("name"), "cases": x.get("evaluations"), "bound": x.get("bound"),
                         "examples": x.get("samples", [])[:3]} for x in standin_out] or cov["samples"]
    for k_ in ("obligations", "discharged"):
      cov["unbounded_" + k_] = cov.pop(k_)
  else:
    # unbounded obligations exist; if the manifest claims less than proof level for this property (most of it is bounded or
    # stand-in only), the evidence is reported at the claimed level - the obligation counts stay in the file
    try:
      claimed = [c for c in json.load(open(os.path.join(VERIF, "MANIFEST.json")))["checks"] if c["property_id"] == prop]
      cat = claimed[0]["level_claimed"]["category"] if claimed else "proof"
    except Exception:
      cat = "proof"
    if cat in ("other", "exploration"):
      ev["level"] = "other"
      cov["explanation"] = ("only part of this property is under unbounded contracts (obligations / discharged above); the rest is "
                            "bounded symbolic units and bounded stand-ins, so the run is reported below proof level.  " + cov["explanation"])
  os.makedirs(os.path.join(VERIF, "evidence"), exist_ok=True)
  with open(os.path.join(VERIF, "evidence", prop + ".json"), "w") as f:
    json.dump(ev, f, indent=1, default=str)


if __name__ == "__main__":
  sys.exit(main())
