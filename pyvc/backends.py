"""Second-opinion back ends through SMT-LIB2: cvc5 1.0.3 and z3 4.8.12 command line tools."""
import os
import subprocess
import tempfile
import z3

CVC5 = "/usr/bin/cvc5"
Z3OLD = "/usr/bin/z3"
BACKEND_COUNTS = {"z3-5.1(api)": 0, "cvc5-1.0.3": 0, "z3-4.8.12": 0}


def to_smt2(assertions):
  s = z3.Solver()
  for a in assertions:
    if a is True:
      continue
    s.add(a if not isinstance(a, bool) else z3.BoolVal(a))
  return s.to_smt2()


def run_tool(cmd, text, timeout_s):
  with tempfile.NamedTemporaryFile("w", suffix=".smt2", delete=False) as f:
    f.write(text)
    path = f.name
  try:
    out = subprocess.run(cmd + [path], capture_output=True, text=True, timeout=timeout_s + 5)
    first = (out.stdout.strip().splitlines() or ["unknown"])[0].strip()
    return first if first in ("sat", "unsat", "unknown") else "unknown"
  except subprocess.TimeoutExpired:
    return "unknown"
  finally:
    os.unlink(path)


def second_opinion(assertions, name, timeout_s=20):
  text = to_smt2(assertions)
  r = run_tool([CVC5, "--tlimit=%d" % (timeout_s * 1000)], text.replace("(set-info :status unknown)", ""), timeout_s)
  if r == "unsat":
    BACKEND_COUNTS["cvc5-1.0.3"] += 1
    return "proved", None
  r2 = run_tool([Z3OLD, "-T:%d" % timeout_s], text, timeout_s)
  if r2 == "unsat":
    BACKEND_COUNTS["z3-4.8.12"] += 1
    return "proved", None
  # a 'sat' from a second solver without a model we can replay stays undecided
  return "unknown", None
