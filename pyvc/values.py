"""pyvc value model: what a Python value is during symbolic evaluation.

Concrete Python objects stand for themselves.  Symbolic values are:
  z3.ArithRef (sort Int)  -- a Python int
  z3.ArithRef (sort Real) -- a Python float (time stamps only; reals, stated assumption)
  z3.BoolRef              -- a Python bool
  SBytes                  -- bytes (or latin-1 str when is_str) as a chunk list
  Ref                     -- reference to a mutable heap object of the State
  Union                   -- guarded alternatives (Rosette-style)
  Closure / BoundMethod   -- interpreted callables
  ExcVal                  -- an exception instance
Tuples are Python tuples of values.
"""
import z3

I = z3.IntSort()
B = z3.BoolSort()
R = z3.RealSort()

_ctr = [0]


def fresh_name(base):
  _ctr[0] += 1
  return "%s!%d" % (base, _ctr[0])


def fresh_int(base="i"):
  return z3.Int(fresh_name(base))


def fresh_bool(base="b"):
  return z3.Bool(fresh_name(base))


def fresh_real(base="r"):
  return z3.Real(fresh_name(base))


def is_sym(v):
  return isinstance(v, z3.ExprRef)


def is_symint(v):
  return isinstance(v, z3.ArithRef) and v.sort() == I


def is_symreal(v):
  return isinstance(v, z3.ArithRef) and v.sort() == R


def is_symbool(v):
  return isinstance(v, z3.BoolRef)


def is_intlike(v):
  return (isinstance(v, int)) or is_symint(v) or is_symbool(v)


def is_numlike(v):
  return isinstance(v, (int, float)) or isinstance(v, z3.ArithRef) or is_symbool(v)


def zint(v):
  """Python/ symbolic int-like -> z3 Int term"""
  if isinstance(v, bool):
    return z3.IntVal(1 if v else 0)
  if isinstance(v, int):
    return z3.IntVal(v)
  if is_symint(v):
    return v
  if is_symbool(v):
    return z3.If(v, z3.IntVal(1), z3.IntVal(0))
  raise TypeError("not int-like: %r" % (v,))


def zreal(v):
  if isinstance(v, bool):
    return z3.RealVal(1 if v else 0)
  if isinstance(v, (int, float)):
    return z3.RealVal(v)
  if is_symreal(v):
    return v
  if is_symint(v):
    return z3.ToReal(v)
  if is_symbool(v):
    return z3.If(v, z3.RealVal(1), z3.RealVal(0))
  raise TypeError("not real-like: %r" % (v,))


def zbool(v):
  if isinstance(v, bool):
    return z3.BoolVal(v)
  if is_symbool(v):
    return v
  raise TypeError("not bool: %r" % (v,))


def concretize(t):
  """z3 term -> python value if it simplifies to a literal, else the (simplified) term"""
  if not is_sym(t):
    return t
  t = z3.simplify(t)
  if z3.is_int_value(t):
    return t.as_long()
  if z3.is_true(t):
    return True
  if z3.is_false(t):
    return False
  if z3.is_rational_value(t) and t.sort() == R:
    return float(t.numerator_as_long()) / float(t.denominator_as_long())
  return t


def zand(*xs):
  ys = []
  for x in xs:
    if x is True or (is_sym(x) and z3.is_true(x)):
      continue
    if x is False or (is_sym(x) and z3.is_false(x)):
      return False
    ys.append(x)
  if not ys:
    return True
  if len(ys) == 1:
    return ys[0]
  return z3.And(*ys)


def zor(*xs):
  ys = []
  for x in xs:
    if x is False or (is_sym(x) and z3.is_false(x)):
      continue
    if x is True or (is_sym(x) and z3.is_true(x)):
      return True
    ys.append(x)
  if not ys:
    return False
  if len(ys) == 1:
    return ys[0]
  return z3.Or(*ys)


def znot(x):
  if x is True:
    return False
  if x is False:
    return True
  return concretize(z3.Not(x))


def zimplies(a, b):
  return zor(znot(a), b)


class Ref(object):
  __slots__ = ("oid",)

  def __init__(self, oid):
    self.oid = oid

  def __eq__(self, o):
    return isinstance(o, Ref) and o.oid == self.oid

  def __ne__(self, o):
    return not self.__eq__(o)

  def __hash__(self):
    return hash(("Ref", self.oid))

  def __repr__(self):
    return "Ref(%d)" % self.oid


class Union(object):
  """guarded alternatives; guards are z3 Bools, mutually exclusive, exhaustive under pc"""
  __slots__ = ("alts",)

  def __init__(self, alts):
    self.alts = alts

  def __repr__(self):
    return "Union(%s)" % (", ".join("%s->%r" % (g, v) for g, v in self.alts))


class Closure(object):
  __slots__ = ("node", "fid", "globs", "name", "defaults", "kwdefaults", "owner", "qualname", "realfn", "module",
               "freevars")

  def __init__(self, node, fid, globs, name, defaults=(), kwdefaults=None, owner=None, qualname=None,
               realfn=None, module=None):
    self.node = node
    self.fid = fid
    self.globs = globs
    self.name = name
    self.defaults = defaults
    self.kwdefaults = kwdefaults or {}
    self.owner = owner  # class in whose body it was defined (for super())
    self.qualname = qualname or name
    self.realfn = realfn
    self.module = module
    self.freevars = None

  def __repr__(self):
    return "<Closure %s>" % self.qualname


class BoundMethod(object):
  __slots__ = ("func", "self")

  def __init__(self, func, self_):
    self.func = func
    self.self = self_

  def __repr__(self):
    return "<Bound %r of %r>" % (self.func, self.self)


class BuiltinMethod(object):
  """method of a modelled builtin container / bytes: (kind, name, receiver)"""
  __slots__ = ("name", "recv")

  def __init__(self, name, recv):
    self.name = name
    self.recv = recv

  def __repr__(self):
    return "<BuiltinMethod %s of %r>" % (self.name, self.recv)


class ExcVal(object):
  __slots__ = ("cls", "args", "where", "note")

  def __init__(self, cls, args=(), where=None, note=None):
    self.cls = cls
    self.args = tuple(args)
    self.where = where
    self.note = note

  def __repr__(self):
    return "<Exc %s%r @%s>" % (self.cls.__name__, self.args, self.where)


class GenCont(object):
  """suspended continuation of an interpreted generator: fn(st, sent_value, thrown_exc_or_None)"""
  __slots__ = ("fn",)

  def __init__(self, fn):
    self.fn = fn


class SuperProxy(object):
  __slots__ = ("cls", "obj")

  def __init__(self, cls, obj):
    self.cls = cls
    self.obj = obj


class Unsupported(Exception):
  """evaluation met a construct outside the supported subset: function is out of reach"""
  pass


class HObj(object):
  """mutable heap object.  kind: obj | list | dict | set | slist"""
  __slots__ = ("kind", "cls", "data", "escaped")

  def __init__(self, kind, cls, data, escaped=False):
    self.kind = kind
    self.cls = cls
    self.data = data
    self.escaped = escaped

  def copy(self):
    d = self.data
    if isinstance(d, dict):
      d = dict(d)
    elif isinstance(d, list):
      d = list(d)
    return HObj(self.kind, self.cls, d, self.escaped)


class SElem(object):
  """element number idx (term) of a symbolic list; path = attribute path taken so far"""
  __slots__ = ("ref", "idx", "path")

  def __init__(self, ref, idx, path=()):
    self.ref = ref
    self.idx = idx
    self.path = tuple(path)

  def __repr__(self):
    return "SElem(%r[%s]%s)" % (self.ref, self.idx, "".join("." + p for p in self.path))


class SEnum(object):
  """enumerate() over a symbolic list"""
  __slots__ = ("ref",)

  def __init__(self, ref):
    self.ref = ref


class WordArr(object):
  """array.array('H', data): little-endian 16 bit words over a byte string"""
  __slots__ = ("data",)

  def __init__(self, data):
    self.data = data


class SymRange(object):
  """range(0, stop) with a symbolic stop"""
  __slots__ = ("stop",)

  def __init__(self, stop):
    self.stop = stop
