"""Sidecar contract API: units, cases, dual-mode builders.

A *unit* is a function u(b) that declares symbolic inputs through the builder b, states
preconditions with b.assume(...), and returns a Case: the real function to call, its actual
arguments, `ensures` clauses (name -> lambda res: bool), allowed exceptions (`raises`),
loop invariants and callee contracts.  The same unit text is used three ways:
  SymBuilder   inputs are z3 constants; the real function's AST is evaluated symbolically;
               every ensures lambda's own AST is evaluated by the same evaluator  -> proof
  ConcBuilder  inputs come from a solver model (or a random sample); the real function and the
               lambdas run natively under CPython                                 -> replay / cross-check
"""
import random
try:
  import z3
except ImportError:   # concrete replay under the repository's own interpreter has no z3
  class _NoZ3(object):
    class ExprRef(object):
      pass
  z3 = _NoZ3()

UNITS = {}     # property id -> list of Unit


class Unit(object):
  def __init__(self, prop, name, fn, target=None, tier="quick", timeout_s=300, samples=40):
    self.prop = prop
    self.name = name
    self.fn = fn
    self.target = target
    self.tier = tier
    self.timeout_s = timeout_s
    self.samples = samples
    self.module = fn.__module__

  @property
  def bound(self):
    """non-None when the unit's proof is bounded in some dimension (reported separately)"""
    return getattr(self.fn, "bound", None)


def unit(prop, target=None, name=None, tier="quick", timeout_s=300, samples=40):
  def deco(fn):
    u = Unit(prop, name or fn.__name__, fn, target, tier, timeout_s, samples)
    UNITS.setdefault(prop, []).append(u)
    return fn
  return deco


STANDINS = {}  # property id -> list of StandIn


class StandIn(object):
  """bounded stand-in: the real code is executed natively over an enumerated input space with the
  contract as oracle.  Reported as *bounded*, never counted as proved."""
  def __init__(self, prop, name, fn, bound, target=None, timeout_s=240):
    self.prop = prop
    self.name = name
    self.fn = fn
    self.bound = bound
    self.target = target
    self.timeout_s = timeout_s


def standin(prop, bound, target=None, name=None, timeout_s=240):
  def deco(fn):
    STANDINS.setdefault(prop, []).append(StandIn(prop, name or fn.__name__, fn, bound, target, timeout_s))
    return fn
  return deco


class Case(object):
  def __init__(self, fn, args=(), kwargs=None, ensures=None, raises=None, loops=None, calls=None,
               must_return=True, note=None, exc_ensures=None, lemma_instances=None):
    self.fn = fn
    self.args = list(args)
    self.kwargs = dict(kwargs or {})
    self.ensures = dict(ensures or {})
    self.raises = dict(raises or {})        # exc class -> True | lambda: cond (over inputs)
    self.exc_ensures = dict(exc_ensures or {})  # name -> lambda exc_class: bool, checked on exceptional exits
    self.loops = dict(loops or {})
    self.calls = dict(calls or {})
    self.must_return = must_return
    self.note = note
    # name of a lemma unit (proved universally on its own) -> lambda res: the instance of its statement that
    # this proof uses; assumed at every normal exit before the postconditions are checked
    self.lemma_instances = dict(lemma_instances or {})


class LoopSpec(object):
  """inductive invariant for the k-th loop of a function: see pyvc/loops.py"""
  def __init__(self, invariant, variant=None, havoc=None, name=None, axioms=None):
    self.invariant = invariant
    self.variant = variant
    self.havoc = havoc
    self.name = name
    # instances (at the current iteration) of the recursive definition of ghost functions the invariant
    # mentions, e.g. W(i+1) == W(i) + word(i); assumed, and listed as a definitional assumption
    self.axioms = axioms


def forall(lo, hi, fn):
  """for every integer j with lo <= j < hi: fn(j).  Native execution enumerates; the evaluator quantifies."""
  for j in range(lo, hi):
    if not fn(j):
      return False
  return True


class CallSpec(object):
  """contract used instead of a callee's body.
  kind 'opaque': the call is to code the function does not own (event handlers, sockets, callbacks): arguments
  are evaluated, the result is unconstrained (a fresh value of `returns`), `havoc(I, st)` may weaken the state
  according to the effect envelope stated in `envelope` (recorded as an assumption)."""
  def __init__(self, kind="opaque", returns=None, envelope="no effect on the objects this contract mentions",
               havoc=None, ghost=None, may_raise=(), requires=None):
    self.kind = kind
    self.returns = returns
    self.envelope = envelope
    self.havoc = havoc
    self.ghost = ghost
    self.may_raise = tuple(may_raise)
    self.requires = requires

  def apply(self, I, f, args, kws, st, ctx, k, node):
    from .values import fresh_int, fresh_bool, ExcVal
    if self.requires is not None:
      cond = self.requires(I, st, args, kws)
      I.check_obligation(st, cond, "call.pre:%s@%s" % (getattr(f, "qualname", getattr(f, "__qualname__", "?")),
                                                      I.where(ctx, node)), kind="call")
    if self.ghost is not None:
      self.ghost(I, st, f, args, kws)     # the call happened (ghost log), whatever its outcome
    for exc in self.may_raise:
      s2 = st.copy()
      I.fork_count += 1
      ctx.exc_k(s2, ExcVal(exc, ("raised by opaque callee",), where=I.where(ctx, node)))
    if self.havoc is not None:
      self.havoc(I, st, args, kws)
    I.opaque_calls = getattr(I, "opaque_calls", 0) + 1
    r = None
    if self.returns == "int":
      r = fresh_int("opaque")
    elif self.returns == "bool":
      r = fresh_bool("opaque")
    elif callable(self.returns):
      r = self.returns(I, st, args, kws)
    return k(st, r)


class Reject(Exception):
  """random sample does not satisfy the precondition"""
  pass


def native(fn):
  """builder helper callable from contract lambdas: under symbolic evaluation it is called natively with the
  current evaluation state as first argument after self"""
  fn._pyvc_native = True
  return fn


class BuilderBase(object):
  mode = None

  # dual-mode logical helpers (setup code runs natively in both modes)
  def And(self, *xs):
    if any(isinstance(x, z3.ExprRef) for x in xs):
      return z3.And(*[x if isinstance(x, z3.ExprRef) else z3.BoolVal(bool(x)) for x in xs])
    return all(xs)

  def Or(self, *xs):
    if any(isinstance(x, z3.ExprRef) for x in xs):
      return z3.Or(*[x if isinstance(x, z3.ExprRef) else z3.BoolVal(bool(x)) for x in xs])
    return any(xs)

  def Not(self, x):
    if isinstance(x, z3.ExprRef):
      return z3.Not(x)
    return not x

  def Implies(self, a, b):
    return self.Or(self.Not(a), b)

  def If(self, c, a, b):
    if isinstance(c, z3.ExprRef):
      from .values import zint
      return z3.If(c, zint(a), zint(b))
    return a if c else b


class SymBuilder(BuilderBase):
  mode = "sym"

  def __init__(self, I, st):
    self.I = I
    self.st = st
    self.inputs = []   # (name, kind, handle)

  # ---- scalars
  def int(self, name, lo=None, hi=None):
    v = z3.Int(name)
    if lo is not None:
      self.st.add(v >= lo)
    if hi is not None:
      self.st.add(v <= hi)
    self.inputs.append((name, "int", v))
    return v

  def bool(self, name):
    v = z3.Bool(name)
    self.inputs.append((name, "bool", v))
    return v

  def bits(self, name, n):
    """an n-bit flag word given by its bits: returns (value term, [bit terms]); the evaluator computes
    masks and shifts of it bit by bit (linear), instead of through div/mod"""
    bits = []
    for i in range(n):
      x = z3.Bool("%s.bit%d" % (name, i))
      self.inputs.append(("%s.bit%d" % (name, i), "bool", x))
      bits.append(z3.If(x, z3.IntVal(1), z3.IntVal(0)))
    t = self.st.compose_bits(bits)
    return t, bits

  def real(self, name, lo=None, hi=None):
    v = z3.Real(name)
    if lo is not None:
      self.st.add(v >= lo)
    if hi is not None:
      self.st.add(v <= hi)
    self.inputs.append((name, "real", v))
    return v

  def bytes(self, name, length=None, minlen=0, maxlen=None, is_str=False):
    from . import sbytes as sb
    if length is None:
      length = z3.Int(name + ".len")
      self.st.add(length >= minlen)
      if maxlen is not None:
        self.st.add(length <= maxlen)
      self.inputs.append((name + ".len", "int", length))
    f = z3.Function(name, z3.IntSort(), z3.IntSort())
    s = sb.SBytes([("blob", f, 0, length)], is_str)
    self.inputs.append((name, "str" if is_str else "bytes", (f, length)))
    return s

  def str(self, name, length=None, minlen=0, maxlen=None):
    return self.bytes(name, length, minlen, maxlen, True)

  def short_text(self, name, maxlen, is_str=True, no_nul=True):
    """text of every length 0..maxlen (maxlen small): a guarded union of fixed-length strings over one
    byte function, so that every path works with concrete offsets; optionally without NUL characters"""
    from . import sbytes as sb
    from .values import Union
    L = z3.Int(name + ".len")
    self.st.add(z3.And(L >= 0, L <= maxlen))
    f = z3.Function(name, z3.IntSort(), z3.IntSort())
    self.inputs.append((name + ".len", "int", L))
    self.inputs.append((name, "str" if is_str else "bytes", (f, L)))
    for i in range(maxlen):
      self.st.add(z3.And(f(i) >= (1 if no_nul else 0), f(i) <= 255))
    return Union([(L == n, sb.SBytes([("blob", f, 0, n)], is_str)) for n in range(maxlen + 1)])

  def choice(self, name, options):
    """one of the given concrete values, selected by a fresh symbolic index (guarded union)"""
    from .values import Union
    sel = self.int(name + ".sel", 0, len(options) - 1)
    return Union([(sel == i, o) for i, o in enumerate(options)])

  def assume(self, cond):
    if cond is True:
      return
    self.st.add(cond if isinstance(cond, z3.ExprRef) else z3.BoolVal(bool(cond)))

  # ---- objects
  def run(self, f, *args, **kwargs):
    """evaluate a real callable during setup; exactly one (merged) normal outcome is expected"""
    from .interp import Ctx
    from .values import Unsupported
    rets, excs = [], []
    ctx = Ctx(None, None, None, lambda s, e: excs.append((s, e)))
    self.I.call_value(f, list(args), dict(kwargs), self.st, ctx, lambda s, v: rets.append((s, v)))
    if excs:
      feas = [(s, e) for s, e in excs if s.feasible(True)]
      if feas:
        raise Unsupported("setup call raised %r" % (feas[0][1],))
    rets = self.I.merge_all(rets)
    if len(rets) != 1:
      raise Unsupported("setup call of %r produced %d outcomes" % (f, len(rets)))
    self.st = rets[0][0]
    return rets[0][1]

  def new(self, cls, *args, **kwargs):
    return self.run(cls, *args, **kwargs)

  def raw_new(self, cls, **fields):
    """allocate an instance without running __init__"""
    ref = self.st.alloc("obj", cls, dict(fields))
    from .models import RAW_OIDS
    RAW_OIDS.add(ref.oid)
    return ref

  def set(self, obj, field, value):
    self.st.obj(obj).data[field] = value

  def get(self, obj, field):
    return self.st.obj(obj).data[field]

  def list(self, items):
    return self.st.alloc("list", list, list(items))

  def deque(self, items):
    """collections.deque, modelled as a list with popleft / appendleft"""
    import collections
    return self.st.alloc("list", collections.deque, list(items))

  def slist(self, name, attrs, maxlen=None):
    """list of symbolic length whose elements are abstract: only the attribute paths in `attrs`
    (name -> 'int' | 'bool'; a trailing '()' marks a method result) can be read"""
    n = z3.Int(name + ".len")
    self.st.add(n >= 0)
    if maxlen is not None:
      self.st.add(n <= maxlen)
    self.inputs.append((name + ".len", "int", n))
    arrs = {}
    for a, kind in attrs.items():
      rng = z3.BoolSort() if kind == "bool" else z3.IntSort()
      arrs[a] = z3.Array("%s.%s" % (name, a), z3.IntSort(), rng)
    ref = self.st.alloc("slist", list, {"len": n, "attrs": arrs, "name": name})
    self.inputs.append((name, "slist", (n, arrs)))
    return ref

  def slist_attr(self, ref, attr):
    return self.st.obj(ref).data["attrs"][attr]

  @native
  def inserted_at(self, st, lst, item=None):
    """ghost: position at which the last insert/append put its element"""
    return st.obj(lst).data["ghost_inserted_at"]

  @native
  def index_of(self, st, lst, elem):
    """position of an element value obtained from the list (None for None)"""
    from .values import SElem
    if elem is None:
      return None
    if isinstance(elem, SElem):
      return elem.idx
    raise TypeError("index_of: not an element of a symbolic list")

  def slist_len(self, ref):
    return self.st.obj(ref).data["len"]

  def dict(self, d):
    from .models import hashkey
    return self.st.alloc("dict", dict, dict((hashkey(k_), (k_, v)) for k_, v in d.items()))

  def set_of(self, items):
    """a set of the given elements; symbolic int elements are ASSUMED pairwise distinct (and distinct from the
    concrete ones): a set never holds the same value twice"""
    from .models import symkey, is_sym
    items = list(items)
    for i, x in enumerate(items):
      if is_sym(x):
        for y in items[:i] + items[i + 1:]:
          if is_sym(y) or isinstance(y, int):
            self.st.add(x != y)
    return self.st.alloc("set", set, dict((symkey(v), v) for v in items))

  # ---- model extraction
  def extract(self, model):
    out = {}
    for name, kind, h in self.inputs:
      if kind == "int":
        v = model.eval(h, model_completion=True)
        out[name] = v.as_long()
      elif kind == "bool":
        out[name] = z3.is_true(model.eval(h, model_completion=True))
      elif kind == "real":
        v = model.eval(h, model_completion=True)
        out[name] = float(v.numerator_as_long()) / float(v.denominator_as_long())
      elif kind == "slist":
        n, arrs = h
        nn = max(0, min(model.eval(n, model_completion=True).as_long(), 64))
        elems = []
        for i in range(nn):
          e = {}
          for a, arr in arrs.items():
            v = model.eval(z3.Select(arr, i), model_completion=True)
            e[a] = z3.is_true(v) if z3.is_bool(v) else v.as_long()
          elems.append(e)
        out[name] = elems
      else:
        f, length = h
        n = length if isinstance(length, int) else model.eval(length, model_completion=True).as_long()
        n = max(0, min(n, 70000))
        bs = []
        for i in range(n):
          b = model.eval(f(i), model_completion=True)
          bs.append(b.as_long() & 0xff)
        out[name] = bytes(bs).hex()
    return out


class ConcBuilder(BuilderBase):
  """inputs from a dict (solver model) or random; real objects, native execution"""
  mode = "conc"

  def __init__(self, values=None, rng=None):
    self.values = values
    self.rng = rng
    self.drawn = {}

  def _rand_int(self, lo, hi):
    if lo is None:
      lo = -(1 << 70)
    if hi is None:
      hi = 1 << 70
    r = self.rng
    pick = r.random()
    if pick < 0.25:
      c = [lo, hi, lo + 1, hi - 1, 0, 1, (lo + hi) // 2]
      c = [x for x in c if lo <= x <= hi]
      return r.choice(c)
    if pick < 0.5 and hi - lo > 16:
      # boundary of some power of two
      k_ = r.randrange(0, max(1, (hi - lo).bit_length()))
      x = lo + (1 << k_) + r.choice([-1, 0, 1])
      return min(hi, max(lo, x))
    return r.randint(lo, hi)

  def int(self, name, lo=None, hi=None):
    if self.values is not None:
      v = int(self.values[name])
    else:
      v = self._rand_int(lo, hi)
    self.drawn[name] = v
    return v

  def bool(self, name):
    v = bool(self.values[name]) if self.values is not None else self.rng.random() < 0.5
    self.drawn[name] = v
    return v

  def bits(self, name, n):
    bits = [int(self.bool("%s.bit%d" % (name, i))) for i in range(n)]
    return sum(x << i for i, x in enumerate(bits)), bits

  def real(self, name, lo=None, hi=None):
    if self.values is not None:
      v = float(self.values[name])
    else:
      lo_ = 0.0 if lo is None else float(lo)
      hi_ = lo_ + 1e6 if hi is None else float(hi)
      v = self.rng.choice([lo_, hi_, self.rng.uniform(lo_, hi_), float(int(self.rng.uniform(lo_, hi_)))])
    self.drawn[name] = v
    return v

  def bytes(self, name, length=None, minlen=0, maxlen=None, is_str=False):
    if self.values is not None:
      raw = bytes.fromhex(self.values[name])
      if length is None:
        n = int(self.values.get(name + ".len", len(raw)))
        raw = (raw + b"\0" * n)[:n]
      elif isinstance(length, int):
        raw = (raw + b"\0" * length)[:length]
    else:
      if length is None:
        hi = maxlen if maxlen is not None else minlen + 64
        length = self._rand_int(minlen, min(hi, minlen + 200))
        self.drawn[name + ".len"] = length
      r = self.rng
      mode = r.random()
      if mode < 0.2:
        raw = bytes(length)
      elif mode < 0.4:
        raw = b"\xff" * length
      else:
        raw = bytes(r.randrange(256) for _ in range(length))
    self.drawn[name] = raw.hex()
    return raw.decode("latin-1") if is_str else raw

  def str(self, name, length=None, minlen=0, maxlen=None):
    return self.bytes(name, length, minlen, maxlen, True)

  def short_text(self, name, maxlen, is_str=True, no_nul=True):
    while True:
      s = self.bytes(name, None, 0, maxlen, is_str)
      if self.values is not None or not no_nul:
        return s
      return s.replace("\0" if is_str else b"\0", "x" if is_str else b"x")

  def choice(self, name, options):
    i = self.int(name + ".sel", 0, len(options) - 1)
    return options[i]

  def assume(self, cond):
    if isinstance(cond, z3.ExprRef):
      cond = z3.is_true(z3.simplify(cond))
    if not cond:
      raise Reject()

  def run(self, f, *args, **kwargs):
    return f(*args, **kwargs)

  def new(self, cls, *args, **kwargs):
    return cls(*args, **kwargs)

  def raw_new(self, cls, **fields):
    o = object.__new__(cls)
    for k_, v in fields.items():
      object.__setattr__(o, k_, v)
    return o

  def set(self, obj, field, value):
    try:
      obj.__dict__[field] = value
    except AttributeError:
      object.__setattr__(obj, field, value)

  def get(self, obj, field):
    return obj.__dict__[field]

  def list(self, items):
    return list(items)

  def deque(self, items):
    import collections
    return collections.deque(items)

  def slist(self, name, attrs, maxlen=None, make=None):
    """concrete counterpart of SymBuilder.slist: `make(i, attrvals)` builds element i with the given values of
    the tracked attributes (from a solver model), or with attrvals None a random element"""
    if self.values is not None:
      spec = self.values.get(name, [])
      return [make(i, e) for i, e in enumerate(spec)]
    n = self._rand_int(0, maxlen if maxlen is not None else 6)
    self.drawn[name + ".len"] = n
    return [make(i, None) for i in range(n)]

  def slist_len(self, lst):
    return len(lst)

  def inserted_at(self, lst, item=None):
    for i, e in enumerate(lst):
      if e is item:
        return i
    raise ValueError("item not in list")

  def index_of(self, lst, elem):
    if elem is None:
      return None
    for i, e in enumerate(lst):
      if e is elem:
        return i
    raise ValueError("element not in list")

  def dict(self, d):
    return dict(d)

  def set_of(self, items):
    return set(items)
