"""Axiomatised builtins / standard library functions (DESIGN 2.3 AXIOM, section 4.3)."""
import ast
import sys
import types
import struct as _struct
import socket as _socket
import time as _time
import builtins
import z3

from .values import *
from .sbytes import SBytes
from . import sbytes as sb
from .interp import SliceVal, LiveList, ObjDict, _ABSENT, _MISSING
from .models import (as_sbytes, norm_bytes, is_byteslike, is_strlike, fully_concrete, hashkey, type_of,
                     IterVal, values_eq, opaque_str, opaque_bytes, getattr_value, setattr_value, iter_values,
                     instantiate, _class_of_instance, concretize_, identity, compare)

AXIOMS_USED = set()


def axiom(name):
  AXIOMS_USED.add(name)


_UNION_AWARE = set()


def call_builtin(I_, f, args, kws, st, ctx, k, node):
  import operator as _op
  if isinstance(f, _op.itemgetter) and len(args) == 1:
    # operator.itemgetter(i)(x): subscript
    import re as _re
    mm = _re.match(r"operator\.itemgetter\((-?\d+)\)$", repr(f))
    if mm:
      return I_.getitem(args[0], int(mm.group(1)), st, ctx, k, node)
    raise Unsupported("operator.itemgetter with several indices")
  m = _TABLE.get(f)
  if m is not None:
    if f not in _UNION_AWARE:
      for i, a in enumerate(args):
        if isinstance(a, Union):
          return I_.split(a, st, lambda st2, x: call_builtin(I_, f, list(args[:i]) + [x] + list(args[i + 1:]), kws, st2, ctx, k, node))
    return m(I_, args, kws, st, ctx, k, node)
  # any Union argument: split
  for i, a in enumerate(args):
    if isinstance(a, Union):
      return I_.split(a, st, lambda st2, x: call_builtin(I_, f, args[:i] + [x] + args[i + 1:], kws, st2, ctx, k, node))
  if all(fully_concrete(a) for a in args) and all(fully_concrete(v) for v in kws.values()) \
     and not any(I_.is_modelled_instance(a) for a in args):
    if f in _FORBIDDEN_NATIVE:
      raise Unsupported("native call of %r" % (f,))
    try:
      return k(st, f(*args, **kws))
    except Exception as e:
      return I_.raise_exc(st, ctx, type(e), str(e), node)
  raise Unsupported("no model for %r with symbolic arguments at %s" % (f, I_.where(ctx, node)))


_FORBIDDEN_NATIVE = set([_time.sleep, builtins.input, builtins.exec, builtins.eval, builtins.open])

# ----------------------------------------------------------------------


def m_len(I_, args, kws, st, ctx, k, node):
  from .models import gobj
  args = [gobj(st, a) for a in args]
  (v,) = args
  if isinstance(v, Union):
    return I_.split(v, st, lambda st2, x: m_len(I_, [x], kws, st2, ctx, k, node))
  if isinstance(v, SBytes):
    return k(st, v.length())
  if isinstance(v, (bytes, str, tuple, list, dict, set, frozenset, range)):
    return k(st, len(v))
  if isinstance(v, IterVal):
    return k(st, len(v.items))
  if isinstance(v, WordArr):
    L = v.data.length()
    return k(st, (L // 2) if isinstance(L, int) else concretize(zint(L) / 2))
  if isinstance(v, Ref):
    o = st.obj(v)
    if o.kind in ("list", "dict", "set"):
      return k(st, len(o.data))
    if o.kind == "slist":
      return k(st, o.data["len"])
    f = I_.class_lookup(o.cls, "__len__")
    if f is _MISSING:
      return I_.raise_exc(st, ctx, TypeError, "object of type '%s' has no len()" % o.cls.__name__, node)
    return I_.call_value(I_.bind(f, v, o.cls), [], {}, st, ctx, lambda st2, r: _len_result(I_, r, st2, ctx, k, node), node)
  if isinstance(v, ObjDict):
    return k(st, len([q for q, x in st.obj(v.ref).data.items() if x is not _ABSENT]))
  if isinstance(v, type):
    # len(cls): metaclass __len__
    mcls = type(v)
    f = I_.class_lookup(mcls, "__len__")
    if f is _MISSING:
      return I_.raise_exc(st, ctx, TypeError, "object of type 'type' has no len()", node)
    return I_.call_value(I_.bind(f, v, mcls), [], {}, st, ctx, lambda st2, r: _len_result(I_, r, st2, ctx, k, node), node)
  if I_.is_modelled_instance(v):
    f = I_.class_lookup(type(v), "__len__")
    if f is _MISSING:
      return I_.raise_exc(st, ctx, TypeError, "object has no len()", node)
    return I_.call_value(I_.bind(f, v, type(v)), [], {}, st, ctx, lambda st2, r: _len_result(I_, r, st2, ctx, k, node), node)
  if v is None or is_numlike(v):
    return I_.raise_exc(st, ctx, TypeError, "object of type '%s' has no len()" % type_of(I_, v, st).__name__, node)
  try:
    return k(st, len(v))
  except TypeError as e:
    return I_.raise_exc(st, ctx, TypeError, str(e), node)


def _len_result(I_, r, st, ctx, k, node):
  if not is_intlike(r):
    return I_.raise_exc(st, ctx, TypeError, "__len__ should return an int", node)
  where = I_.where(ctx, node)
  return I_.safety(st, zint(r) >= 0 if is_sym(r) else r >= 0, "safe.len@" + where,
                   ExcVal(ValueError, ("__len__() should return >= 0",), where), ctx, lambda st2: k(st2, r))


def m_isinstance(I_, args, kws, st, ctx, k, node):
  v, cls = args
  if isinstance(v, Union):
    parts = []
    for g, alt in v.alts:
      parts.append(zand(g, _isinst(I_, alt, cls, st)))
    return k(st, concretize_(zor(*parts)))
  return k(st, _isinst(I_, v, cls, st))


def _isinst(I_, v, cls, st):
  if isinstance(cls, tuple):
    return any(_isinst(I_, v, c, st) for c in cls)
  if not isinstance(cls, type):
    raise Unsupported("isinstance with non-class %r" % (cls,))
  t = type_of(I_, v, st)
  try:
    return issubclass(t, cls)
  except TypeError:
    return False


def m_type(I_, args, kws, st, ctx, k, node):
  if len(args) != 1:
    raise Unsupported("type() with 3 arguments")
  v = args[0]
  if isinstance(v, Union):
    return I_.split(v, st, lambda st2, x: k(st2, type_of(I_, x, st2)))
  return k(st, type_of(I_, v, st))


def m_issubclass(I_, args, kws, st, ctx, k, node):
  a, b = args
  try:
    return k(st, issubclass(a, b))
  except TypeError as e:
    return I_.raise_exc(st, ctx, TypeError, str(e), node)


def m_hasattr(I_, args, kws, st, ctx, k, node):
  obj, name = args
  if not isinstance(name, str):
    raise Unsupported("hasattr with symbolic name")
  res = []
  def ok(st2, v):
    res.append((st2, True))
  c2 = ctx.replace(exc_k=lambda st2, e: res.append((st2, False)) if issubclass(e.cls, AttributeError)
                   else ctx.exc_k(st2, e))
  getattr_value(I_, obj, name, st, c2, ok, node)
  for s, r in I_.merge_all(res):
    k(s, r)


def m_dir(I_, args, kws, st, ctx, k, node):
  """dir(obj) for an instance on the symbolic heap: the names of its class (and bases) plus its instance attributes,
  sorted - what object.__dir__ yields for a plain instance"""
  obj = args[0]
  if isinstance(obj, Ref) and st.obj(obj).kind == "obj":
    o = st.obj(obj)
    from .interp import _ABSENT as _abs
    names = set(dir(o.cls))
    for nm, v in o.data.items():
      if isinstance(nm, str) and v is not _abs:
        names.add(nm)
    return k(st, st.alloc("list", list, sorted(names)))
  if fully_concrete(obj):
    return k(st, st.alloc("list", list, dir(obj)))
  raise Unsupported("dir() of %r" % (obj,))


def m_getattr(I_, args, kws, st, ctx, k, node):
  obj, name = args[0], args[1]
  if not isinstance(name, str):
    if isinstance(name, Union):
      return I_.split(name, st, lambda st2, n: m_getattr(I_, [obj, n] + list(args[2:]), kws, st2, ctx, k, node))
    raise Unsupported("getattr with symbolic name")
  if len(args) == 3:
    default = args[2]
    c2 = ctx.replace(exc_k=lambda st2, e: k(st2, default) if issubclass(e.cls, AttributeError)
                     else ctx.exc_k(st2, e))
    return getattr_value(I_, obj, name, st, c2, k, node)
  return getattr_value(I_, obj, name, st, ctx, k, node)


def m_setattr(I_, args, kws, st, ctx, k, node):
  obj, name, v = args
  if not isinstance(name, str):
    raise Unsupported("setattr with symbolic name")
  return setattr_value(I_, obj, name, v, st, ctx, lambda st2: k(st2, None), node)


def m_callable(I_, args, kws, st, ctx, k, node):
  (v,) = args
  if isinstance(v, (Closure, BoundMethod, BuiltinMethod, type)):
    return k(st, True)
  if isinstance(v, Ref):
    o = st.obj(v)
    return k(st, o.kind == "obj" and I_.class_lookup(o.cls, "__call__") is not _MISSING)
  if is_sym(v) or isinstance(v, (SBytes, tuple)) or v is None:
    return k(st, False)
  if isinstance(v, Union):
    return I_.split(v, st, lambda st2, x: m_callable(I_, [x], kws, st2, ctx, k, node))
  return k(st, callable(v))


def m_int(I_, args, kws, st, ctx, k, node):
  if not args:
    return k(st, 0)
  v = args[0]
  if isinstance(v, Union):
    return I_.split(v, st, lambda st2, x: m_int(I_, [x] + list(args[1:]), kws, st2, ctx, k, node))
  if len(args) == 1 and not kws:
    if is_symbool(v):
      return k(st, zint(v))
    if is_symint(v):
      return k(st, v)
    if is_symreal(v):
      axiom("float->int truncation over reals")
      t = z3.If(v >= 0, z3.ToInt(v), -z3.ToInt(-v))
      return k(st, t)
    if v is None:
      return I_.raise_exc(st, ctx, TypeError, "int() argument must be a string, a bytes-like object or a real number, not 'NoneType'", node)
    if isinstance(v, (Ref, tuple)):
      cls = _class_of_instance(I_, v, st)
      if cls is not None:
        for dn in ("__int__", "__index__"):
          f = I_.class_lookup(cls, dn)
          if f is not _MISSING:
            return I_.call_value(I_.bind(f, v, cls), [], {}, st, ctx, k, node)
      return I_.raise_exc(st, ctx, TypeError, "int() argument must be a string or a number", node)
    if I_.is_modelled_instance(v):
      for dn in ("__int__", "__index__"):
        f = I_.class_lookup(type(v), dn)
        if f is not _MISSING:
          return I_.call_value(I_.bind(f, v, type(v)), [], {}, st, ctx, k, node)
      return I_.raise_exc(st, ctx, TypeError, "int() argument must be a string or a number", node)
  if isinstance(v, SBytes):
    # text -> number: opaque function with a ValueError path
    axiom("int(text) is an uninterpreted function of the text (may raise ValueError)")
    s2 = st.copy()
    I_.raise_exc(s2, ctx, ValueError, "invalid literal for int()", node)
    r = fresh_int("parsed")
    return k(st, r)
  try:
    return k(st, int(*args, **kws))
  except Exception as e:
    return I_.raise_exc(st, ctx, type(e), str(e), node)


def m_bool(I_, args, kws, st, ctx, k, node):
  if not args:
    return k(st, False)
  return I_.truth(args[0], st, ctx, k, node)


def m_float(I_, args, kws, st, ctx, k, node):
  (v,) = args
  if is_sym(v):
    return k(st, zreal(v))
  try:
    return k(st, float(v))
  except Exception as e:
    return I_.raise_exc(st, ctx, type(e), str(e), node)


def m_str(I_, args, kws, st, ctx, k, node):
  if not args:
    return k(st, "")
  v = args[0]
  if isinstance(v, Union):
    return I_.split(v, st, lambda st2, x: m_str(I_, [x] + list(args[1:]), kws, st2, ctx, k, node))
  if len(args) > 1:
    # str(bytes, encoding)
    if is_byteslike(v):
      s = as_sbytes(v)
      r = SBytes(s.chunks, True)
      return k(st, norm_bytes(r))
  if is_strlike(v):
    return k(st, v)
  cls = _class_of_instance(I_, v, st)
  if cls is not None:
    for dn in ("__str__", "__repr__"):
      f = I_.class_lookup(cls, dn)
      if f is not _MISSING and isinstance(f, types.FunctionType):
        def got(st2, r):
          if isinstance(r, Union):
            return I_.split(r, st2, got)
          if not is_strlike(r):
            return I_.raise_exc(st2, ctx, TypeError, "__str__ returned non-string", node)
          return k(st2, r)
        return I_.call_value(I_.bind(f, v, cls), [], {}, st, ctx, got, node)
    return k(st, opaque_str(st, "repr"))
  if fully_concrete(v):
    try:
      return k(st, str(v))
    except Exception as e:
      return I_.raise_exc(st, ctx, type(e), str(e), node)
  axiom("str(x) of a symbolic value is an opaque string")
  return k(st, opaque_str(st, "str"))


def m_repr(I_, args, kws, st, ctx, k, node):
  v = args[0]
  cls = _class_of_instance(I_, v, st)
  if cls is not None:
    f = I_.class_lookup(cls, "__repr__")
    if f is not _MISSING and isinstance(f, types.FunctionType):
      return I_.call_value(I_.bind(f, v, cls), [], {}, st, ctx, k, node)
    return k(st, opaque_str(st, "repr"))
  if fully_concrete(v):
    return k(st, repr(v))
  return k(st, opaque_str(st, "repr"))


def m_bytes(I_, args, kws, st, ctx, k, node):
  if not args:
    return k(st, b"")
  v = args[0]
  if isinstance(v, Union):
    return I_.split(v, st, lambda st2, x: m_bytes(I_, [x] + list(args[1:]), kws, st2, ctx, k, node))
  if is_byteslike(v):
    return k(st, v)
  if is_strlike(v):
    if len(args) < 2 and "encoding" not in kws:
      return I_.raise_exc(st, ctx, TypeError, "string argument without an encoding", node)
    s = as_sbytes(v)
    return k(st, norm_bytes(SBytes(s.chunks, False)))
  if isinstance(v, int) and not isinstance(v, bool):
    if v < 0:
      return I_.raise_exc(st, ctx, ValueError, "negative count", node)
    return k(st, bytes(v))
  if is_symint(v):
    where = I_.where(ctx, node)
    def okn(st2):
      blob = sb.new_blob("zeros", v)
      f = blob.chunks[0][1]
      i = fresh_int("zi")
      st2.add(z3.ForAll([i], f(i) == 0))
      return k(st2, blob)
    return I_.safety(st, v >= 0, "safe.bytesn@" + where, ExcVal(ValueError, ("negative count",), where), ctx, okn)
  # iterable of ints
  def got_items(st2, items):
    chunks = []
    where = I_.where(ctx, node)
    def step(j, st3):
      if j >= len(items):
        return k(st3, norm_bytes(SBytes(chunks)))
      x = items[j]
      if isinstance(x, Union):
        return I_.split(x, st3, lambda st4, xx: (items.__setitem__(j, xx), step(j, st4))[1])
      if not is_intlike(x):
        return I_.raise_exc(st3, ctx, TypeError, "'%s' object cannot be interpreted as an integer"
                            % type_of(I_, x, st3).__name__, node)
      if isinstance(x, int):
        if not 0 <= x <= 255:
          return I_.raise_exc(st3, ctx, ValueError, "bytes must be in range(0, 256)", node)
        chunks.append(("lit", bytes([x])))
        return step(j + 1, st3)
      zx = zint(x)
      def ok(st4):
        chunks.append(("byte", zx))
        return step(j + 1, st4)
      return I_.safety(st3, z3.And(zx >= 0, zx <= 255), "safe.byterange@" + where,
                       ExcVal(ValueError, ("bytes must be in range(0, 256)",), where), ctx, ok)
    return step(0, st2)
  return iter_values(I_, v, st, ctx, got_items, node)


def m_list(I_, args, kws, st, ctx, k, node):
  if not args:
    return k(st, st.alloc("list", list, []))
  return iter_values(I_, args[0], st, ctx, lambda st2, items: k(st2, st2.alloc("list", list, list(items))), node)


def m_tuple(I_, args, kws, st, ctx, k, node):
  if not args:
    return k(st, ())
  return iter_values(I_, args[0], st, ctx, lambda st2, items: k(st2, tuple(items)), node)


def m_set(I_, args, kws, st, ctx, k, node):
  if not args:
    return k(st, st.alloc("set", set, {}))
  def got(st2, items):
    from .models import new_set
    return new_set(I_, items, st2, ctx, k, node)
  return iter_values(I_, args[0], st, ctx, got, node)


def m_dict(I_, args, kws, st, ctx, k, node):
  d = {}
  def finish(st2):
    for kk, vv in kws.items():
      d[kk] = (kk, vv)
    return k(st2, st2.alloc("dict", dict, d))
  if not args:
    return finish(st)
  a = args[0]
  if isinstance(a, Ref) and st.obj(a).kind == "dict":
    d.update(st.obj(a).data)
    return finish(st)
  if isinstance(a, dict):
    for kk, vv in a.items():
      d[hashkey(kk)] = (kk, vv)
    return finish(st)
  def got(st2, items):
    for it in items:
      if isinstance(it, tuple) and len(it) == 2:
        d[hashkey(it[0])] = (it[0], it[1])
      else:
        raise Unsupported("dict() from non-pairs")
    return finish(st2)
  return iter_values(I_, a, st, ctx, got, node)


def m_array(I_, args, kws, st, ctx, k, node):
  axiom("array.array('H', b): little-endian 16 bit words; ValueError unless len(b) is even (little-endian host)")
  if len(args) != 2 or args[0] != "H":
    raise Unsupported("array.array with typecode %r" % (args[0] if args else None,))
  data = args[1]
  if not is_byteslike(data):
    return I_.raise_exc(st, ctx, TypeError, "array.array('H', x): x must be bytes", node)
  s_ = as_sbytes(data)
  L = s_.length()
  where = I_.where(ctx, node)
  even = (L % 2 == 0) if isinstance(L, int) else (zint(L) % 2 == 0)
  return I_.safety(st, even, "safe.array@" + where,
                   ExcVal(ValueError, ("bytes length not a multiple of item size",), where), ctx,
                   lambda st2: k(st2, WordArr(s_)))


def m_range(I_, args, kws, st, ctx, k, node):
  if all(isinstance(a, int) for a in args):
    return k(st, range(*args))
  if len(args) == 2 and isinstance(args[0], int) and args[0] == 0 and is_intlike(args[1]):
    return k(st, SymRange(args[1]))
  if len(args) == 1 and is_intlike(args[0]):
    return k(st, SymRange(args[0]))
  raise Unsupported("range() with symbolic bounds needs a loop invariant at %s" % I_.where(ctx, node))


def m_enumerate(I_, args, kws, st, ctx, k, node):
  start = args[1] if len(args) > 1 else kws.get("start", 0)
  if isinstance(args[0], Ref) and st.obj(args[0]).kind == "slist" and start == 0:
    return k(st, SEnum(args[0]))
  return iter_values(I_, args[0], st, ctx,
                     lambda st2, items: k(st2, IterVal([(start + i, x) for i, x in enumerate(items)])), node)


def m_zip(I_, args, kws, st, ctx, k, node):
  def step(j, st2, acc):
    if j >= len(args):
      return k(st2, IterVal(list(zip(*acc))))
    return iter_values(I_, args[j], st2, ctx, lambda st3, items: step(j + 1, st3, acc + [items]), node)
  return step(0, st, [])


def m_reversed(I_, args, kws, st, ctx, k, node):
  return iter_values(I_, args[0], st, ctx, lambda st2, items: k(st2, IterVal(list(reversed(items)))), node)


def m_exc_info(I_, args, kws, st, ctx, k, node):
  """sys.exc_info() inside an except clause of the same function: (type, value, traceback); the traceback is not modelled
  (None)"""
  e = ctx.cur_exc
  if e is None:
    return k(st, (None, None, None))
  return k(st, (e.cls, e, None))


def m_next(I_, args, kws, st, ctx, k, node):
  g = args[0]
  if isinstance(g, Ref) and st.obj(g).kind == "gen":
    if len(args) > 1:
      default = args[1]
      c2 = ctx.replace(exc_k=lambda s, e: k(s, default) if e.cls is StopIteration else ctx.exc_k(s, e))
      return I_.gen_resume(g, None, None, st, c2, k, node)
    return I_.gen_resume(g, None, None, st, ctx, k, node)
  raise Unsupported("next() of %r" % (type(g).__name__,))


def m_iter(I_, args, kws, st, ctx, k, node):
  if len(args) == 1 and isinstance(args[0], Ref) and st.obj(args[0]).kind == "gen":
    return k(st, args[0])
  return iter_values(I_, args[0], st, ctx, lambda st2, items: k(st2, IterVal(list(items))), node)


def m_sum(I_, args, kws, st, ctx, k, node):
  start = args[1] if len(args) > 1 else 0
  def got(st2, items):
    def step(j, st3, acc):
      if j >= len(items):
        return k(st3, acc)
      return I_.binop(ast.Add(), acc, items[j], st3, ctx, lambda st4, r: step(j + 1, st4, r), node)
    return step(0, st2, start)
  return iter_values(I_, args[0], st, ctx, got, node)


def m_any(I_, args, kws, st, ctx, k, node):
  def got(st2, items):
    def step(j, st3, acc):
      if j >= len(items):
        return k(st3, concretize_(zor(*acc)) if acc else False)
      def got_t(st4, t):
        t = concretize_(t)
        if t is True:
          return k(st4, True)
        return step(j + 1, st4, acc + ([t] if t is not False else []))
      return I_.truth(items[j], st3, ctx, got_t, node)
    return step(0, st2, [])
  return iter_values(I_, args[0], st, ctx, got, node)


def m_all(I_, args, kws, st, ctx, k, node):
  def got(st2, items):
    def step(j, st3, acc):
      if j >= len(items):
        return k(st3, concretize_(zand(*acc)) if acc else True)
      def got_t(st4, t):
        t = concretize_(t)
        if t is False:
          return k(st4, False)
        return step(j + 1, st4, acc + ([t] if t is not True else []))
      return I_.truth(items[j], st3, ctx, got_t, node)
    return step(0, st2, [])
  return iter_values(I_, args[0], st, ctx, got, node)


def _minmax(is_min):
  def m(I_, args, kws, st, ctx, k, node):
    if kws:
      raise Unsupported("min/max with key")
    def got(st2, items):
      if not items:
        return I_.raise_exc(st2, ctx, ValueError, "arg is an empty sequence", node)
      if all(isinstance(x, (int, float)) for x in items):
        return k(st2, min(items) if is_min else max(items))
      if not all(is_numlike(x) for x in items):
        raise Unsupported("min/max over non-numbers")
      real = any(is_symreal(x) or isinstance(x, float) for x in items)
      conv = zreal if real else zint
      r = conv(items[0])
      for x in items[1:]:
        zx = conv(x)
        r = z3.If(zx < r, zx, r) if is_min else z3.If(zx > r, zx, r)
      return k(st2, concretize(r))
    if len(args) > 1:
      return got(st, list(args))
    return iter_values(I_, args[0], st, ctx, got, node)
  return m


def m_abs(I_, args, kws, st, ctx, k, node):
  (v,) = args
  if is_symint(v):
    return k(st, z3.If(v < 0, -v, v))
  if is_symreal(v):
    return k(st, z3.If(v < 0, -v, v))
  return k(st, abs(v))


def m_sorted(I_, args, kws, st, ctx, k, node):
  raise Unsupported("sorted() needs a contract-level model at %s" % I_.where(ctx, node))


def m_id(I_, args, kws, st, ctx, k, node):
  (v,) = args
  if isinstance(v, Ref):
    return k(st, 1000000 + v.oid * 16)
  if is_sym(v) or isinstance(v, SBytes):
    raise Unsupported("id() of symbolic value")
  return k(st, id(v))


_hash_fn = {}


def model_hash(I_, v, st, ctx, k, node, identity=False):
  """hash(): an uninterpreted function of the value (equal values -> equal hashes by congruence)"""
  axiom("hash() of ints/bytes is an uninterpreted function of the value")
  if isinstance(v, Union):
    return I_.split(v, st, lambda st2, x: model_hash(I_, x, st2, ctx, k, node, identity))
  if v is None or isinstance(v, (str,)) or (isinstance(v, bytes)):
    if fully_concrete(v) and not isinstance(v, (bytes, str)):
      return k(st, hash(v))
  if is_intlike(v) and not identity:
    if isinstance(v, int):
      return k(st, hash(v))
    f = _hash_fn.setdefault("int", z3.Function("hash_int", I, I))
    return k(st, f(zint(v)))
  if is_byteslike(v) or is_strlike(v):
    s = as_sbytes(v)
    n = s.fixed_length()
    if n is not None and n <= 16:
      f = _hash_fn.setdefault("bytes%d_%s" % (n, s.is_str), z3.Function("hash_bytes%d_%s" % (n, s.is_str), I, I))
      return k(st, f(zint(sb.be_int(s, st))))
    r = fresh_int("hash")
    return k(st, r)
  if isinstance(v, tuple):
    def step(j, st2, acc):
      if j >= len(v):
        f = _hash_fn.setdefault("tuple%d" % len(v), z3.Function("hash_tuple%d" % len(v), *([I] * len(v) + [I])))
        return k(st2, f(*[zint(a) for a in acc]))
      return model_hash(I_, v[j], st2, ctx, lambda st3, h: step(j + 1, st3, acc + [h]), node)
    return step(0, st, [])
  cls = _class_of_instance(I_, v, st)
  if cls is not None and not identity:
    f = I_.class_lookup(cls, "__hash__")
    if f is None:
      return I_.raise_exc(st, ctx, TypeError, "unhashable type: '%s'" % cls.__name__, node)
    if f is not _MISSING and isinstance(f, types.FunctionType):
      return I_.call_value(I_.bind(f, v, cls), [], {}, st, ctx, k, node)
  if isinstance(v, Ref):
    o = st.obj(v)
    if o.kind in ("list", "dict", "set"):
      return I_.raise_exc(st, ctx, TypeError, "unhashable type: '%s'" % o.cls.__name__, node)
    return k(st, 7000000 + v.oid)
  if isinstance(v, (type, types.FunctionType)) or v is None or isinstance(v, (float,)):
    return k(st, hash(v))
  raise Unsupported("hash of %r" % (v,))


def m_hash(I_, args, kws, st, ctx, k, node):
  return model_hash(I_, args[0], st, ctx, k, node)


def m_ord(I_, args, kws, st, ctx, k, node):
  (v,) = args
  if isinstance(v, SBytes):
    if v.fixed_length() != 1:
      return I_.raise_exc(st, ctx, TypeError, "ord() expected a character", node)
    return k(st, sb.byte_at(v, 0, st))
  if is_intlike(v):
    return I_.raise_exc(st, ctx, TypeError, "ord() expected string of length 1, but int found", node)
  try:
    return k(st, ord(v))
  except Exception as e:
    return I_.raise_exc(st, ctx, type(e), str(e), node)


def m_chr(I_, args, kws, st, ctx, k, node):
  (v,) = args
  if is_symint(v):
    where = I_.where(ctx, node)
    return I_.safety(st, z3.And(v >= 0, v <= 255), "safe.chr@" + where,
                     ExcVal(ValueError, ("chr() beyond latin-1 not modelled",), where), ctx,
                     lambda st2: k(st2, SBytes([("byte", v)], True)))
  try:
    return k(st, chr(v))
  except Exception as e:
    return I_.raise_exc(st, ctx, type(e), str(e), node)


def m_super(I_, args, kws, st, ctx, k, node):
  if len(args) == 2:
    return k(st, SuperProxy(args[0], args[1]))
  raise Unsupported("super() form")


def m_object(I_, args, kws, st, ctx, k, node):
  return k(st, st.alloc("obj", object, {}))


def m_forall(I_, args, kws, st, ctx, k, node):
  """pyvc.api.forall(lo, hi, fn): for every integer j with lo <= j < hi, fn(j) holds"""
  lo, hi, fn = args
  j = fresh_int("fa")
  res = []
  c2 = ctx.replace(exc_k=lambda s, e: (_ for _ in ()).throw(Unsupported("quantified contract body raised %r" % (e,))))
  s2 = st.copy()
  s2.add(z3.And(j >= zint(lo), j < zint(hi)))
  I_.call_value(fn, [j], {}, s2, c2, lambda s, v: res.append((s, v)), node)
  # the body must be a pure predicate: combine its outcomes into one formula
  n0 = len(st.pc) + 1
  parts = []
  for s, v in res:
    tv = []
    I_.truth(v, s, c2, lambda s3, t: tv.append((s3, t)), node)
    for s3, t in tv:
      extra = s3.pc[n0:]
      parts.append(z3.Implies(zand(*extra) if extra else z3.BoolVal(True), zbool(t) if not is_sym(t) else t))
  body = zand(*parts) if parts else True
  q = z3.ForAll([j], z3.Implies(z3.And(j >= zint(lo), j < zint(hi)), body if is_sym(body) else z3.BoolVal(bool(body))))
  return k(st, q)


def m_exists(I_, args, kws, st, ctx, k, node):
  lo, hi, fn = args
  neg = []
  def inner(I2, a2, kw2, st2, ctx2, k2, node2):
    raise Unsupported("exists")
  raise Unsupported("exists() in contracts: state the witness explicitly")


def m_reduce(I_, args, kws, st, ctx, k, node):
  f, seq = args[0], args[1]
  def got(st2, items):
    items = list(items)
    if len(args) > 2:
      acc0 = args[2]
    else:
      if not items:
        return I_.raise_exc(st2, ctx, TypeError, "reduce() of empty iterable with no initial value", node)
      acc0 = items.pop(0)
    def step(j, st3, acc):
      if j >= len(items):
        return k(st3, acc)
      return I_.call_value(f, [acc, items[j]], {}, st3, ctx, lambda st4, r: step(j + 1, st4, r), node)
    return step(0, st2, acc0)
  return iter_values(I_, seq, st, ctx, got, node)


def m_operator(opnode):
  def m(I_, args, kws, st, ctx, k, node):
    return I_.binop(opnode, args[0], args[1], st, ctx, k, node)
  return m


def m_id_passthrough(I_, args, kws, st, ctx, k, node):
  return k(st, args[0])


# ----------------------------------------------------------------------
# struct
# ----------------------------------------------------------------------

_CODES = {"B": (1, False), "b": (1, True), "H": (2, False), "h": (2, True), "I": (4, False), "i": (4, True),
          "L": (4, False), "l": (4, True), "Q": (8, False), "q": (8, True), "?": (1, False)}


def parse_fmt(fmt):
  """-> (big_endian, items) items: (code, n, offset) code in _CODES | 's' | 'x'; total size"""
  if isinstance(fmt, bytes):
    fmt = fmt.decode("ascii")
  native = True
  big = False
  if fmt and fmt[0] in "@=<>!":
    c = fmt[0]
    fmt = fmt[1:]
    native = (c == "@")
    big = c in ">!"
  if native and sys.byteorder != "little":
    raise Unsupported("native struct formats assume a little-endian host")
  items = []
  i = 0
  off = 0
  while i < len(fmt):
    if fmt[i].isspace():
      i += 1
      continue
    j = i
    while j < len(fmt) and fmt[j].isdigit():
      j += 1
    cnt = int(fmt[i:j]) if j > i else None
    code = fmt[j]
    i = j + 1
    if code == "s":
      n = 1 if cnt is None else cnt
      items.append(("s", n, off))
      off += n
    elif code == "x":
      n = 1 if cnt is None else cnt
      items.append(("x", n, off))
      off += n
    elif code in _CODES:
      size, signed = _CODES[code]
      if native and code in "LlQq":
        raise Unsupported("native-size struct code %s" % code)
      for _ in range(1 if cnt is None else cnt):
        if native and size > 1:
          pad = (-off) % size
          if pad:
            items.append(("x", pad, off))
            off += pad
        items.append((code, size, off))
        off += size
    else:
      raise Unsupported("struct code %r" % code)
  if _struct.calcsize(("@" if native else ("!" if big else "<")) + fmt) != off:
    raise Unsupported("struct size mismatch for %r" % fmt)
  return big, items, off


def m_struct_pack(I_, args, kws, st, ctx, k, node):
  axiom("struct.pack/unpack: standard sizes, big-endian for '!', little-endian native; range errors raise struct.error")
  fmt = args[0]
  vals = list(args[1:])
  if not isinstance(fmt, (str, bytes)):
    raise Unsupported("symbolic struct format")
  big, items, size = parse_fmt(fmt)
  where = I_.where(ctx, node)
  need = len([it for it in items if it[0] != "x"])
  if need != len(vals):
    return I_.raise_exc(st, ctx, _struct.error, "pack expected %d items for packing (got %d)" % (need, len(vals)), node)
  chunks = []
  def step(j, vi, st2):
    if j >= len(items):
      return k(st2, norm_bytes(SBytes(chunks)))
    code, n, off = items[j]
    if code == "x":
      chunks.append(("lit", b"\0" * n))
      return step(j + 1, vi, st2)
    v = vals[vi]
    if isinstance(v, Union):
      return I_.split(v, st2, lambda st3, x: (vals.__setitem__(vi, x), step(j, vi, st3))[1])
    if code == "s":
      if not is_byteslike(v):
        I_.note_site("safe.struct@" + where, "raises")
        return I_.raise_exc(st2, ctx, _struct.error, "argument for 's' must be a bytes object", node)
      s = as_sbytes(v)
      L = s.length()
      if isinstance(L, int):
        if L >= n:
          piece = sb.slice_bytes(s, 0, n, st2)
          chunks.extend(piece.chunks)
        else:
          chunks.extend(s.chunks)
          chunks.append(("lit", b"\0" * (n - L)))
        return step(j + 1, vi + 1, st2)
      raise Unsupported("struct 's' with symbolic-length operand")
    signed = _CODES[code][1]
    if not is_intlike(v):
      I_.note_site("safe.struct@" + where, "raises")
      cls = _class_of_instance(I_, v, st2)
      if cls is not None and I_.class_lookup(cls, "__index__") is not _MISSING:
        raise Unsupported("struct.pack of object with __index__")
      return I_.raise_exc(st2, ctx, _struct.error, "required argument is not an integer", node)
    lo, hi = (-(1 << (8 * n - 1)), (1 << (8 * n - 1)) - 1) if signed else (0, (1 << (8 * n)) - 1)
    if isinstance(v, int):
      if not lo <= v <= hi:
        I_.note_site("safe.struct@" + where, "raises")
        return I_.raise_exc(st2, ctx, _struct.error, "'%s' format requires %d <= number <= %d" % (code, lo, hi), node)
      chunks.extend(sb.int_to_bytes(int(v), n, st2, big, signed).chunks)
      return step(j + 1, vi + 1, st2)
    zv = zint(v)
    def ok(st3):
      chunks.extend(sb.int_to_bytes(zv, n, st3, big, signed).chunks)
      return step(j + 1, vi + 1, st3)
    # chunks is shared by the forked error path, which never uses it again
    return I_.safety(st2, z3.And(zv >= lo, zv <= hi), "safe.struct@" + where,
                     ExcVal(_struct.error, ("'%s' format requires %d <= number <= %d" % (code, lo, hi),), where), ctx, ok)
  return step(0, 0, st)


def _unpack_at(I_, fmt, data, offset, st, exact, ctx, k, node):
  big, items, size = parse_fmt(fmt)
  where = I_.where(ctx, node)
  if not (is_byteslike(data)):
    return I_.raise_exc(st, ctx, TypeError, "a bytes-like object is required", node)
  s = as_sbytes(data)
  L = s.length()
  zo = offset
  if exact:
    ok = (L == size) if isinstance(L, int) else (zint(L) == size)
  else:
    if isinstance(L, int) and isinstance(zo, int):
      if zo < 0:
        zo = zo + L
        if zo < 0:
          return I_.raise_exc(st, ctx, _struct.error, "offset out of range", node)
      ok = (L - zo) >= size
    else:
      ok = z3.And(zint(zo) >= 0, zint(L) - zint(zo) >= size)
  def cont(st2):
    out = []
    for code, n, off in items:
      if code == "x":
        continue
      lo = sb._add(zo, off)
      piece = sb.slice_bytes(s, lo, sb._add(lo, n), st2)
      if code == "s":
        out.append(norm_bytes(piece))
        continue
      signed = _CODES[code][1]
      if not big:
        val = sb.le_int(piece, st2)
      else:
        val = sb.be_int(piece, st2)
      if signed:
        if isinstance(val, int):
          if val >= 1 << (8 * n - 1):
            val -= 1 << (8 * n)
        else:
          uval = val
          val = concretize(z3.If(val >= (1 << (8 * n - 1)), val - (1 << (8 * n)), val))
          if is_sym(val):
            st2.unsigned_of[val.get_id()] = (val, uval, 8 * n)
      if code == "?":
        val = (val != 0) if isinstance(val, int) else concretize(val != 0)
      out.append(val)
    return k(st2, tuple(out))
  return I_.safety(st, ok, "safe.struct@" + where,
                   ExcVal(_struct.error, ("unpack requires a buffer of %d bytes" % size,), where), ctx, cont)


def m_struct_unpack(I_, args, kws, st, ctx, k, node):
  axiom("struct.pack/unpack: standard sizes, big-endian for '!', little-endian native; range errors raise struct.error")
  fmt, data = args
  return _unpack_at(I_, fmt, data, 0, st, True, ctx, k, node)


def m_struct_unpack_from(I_, args, kws, st, ctx, k, node):
  axiom("struct.pack/unpack: standard sizes, big-endian for '!', little-endian native; range errors raise struct.error")
  fmt, data = args[0], args[1]
  offset = args[2] if len(args) > 2 else kws.get("offset", 0)
  return _unpack_at(I_, fmt, data, offset, st, False, ctx, k, node)


def m_struct_calcsize(I_, args, kws, st, ctx, k, node):
  return k(st, _struct.calcsize(args[0]))


# ----------------------------------------------------------------------
# socket / time
# ----------------------------------------------------------------------

def _swap(n):
  def m(I_, args, kws, st, ctx, k, node):
    axiom("socket.htonl/ntohl/htons/ntohs are byte swaps on this little-endian host; argument must be in range")
    (v,) = args
    if isinstance(v, int):
      try:
        return k(st, {4: _socket.htonl, 2: _socket.htons}[n](v))
      except Exception as e:
        return I_.raise_exc(st, ctx, type(e), str(e), node)
    if not is_intlike(v):
      return I_.raise_exc(st, ctx, TypeError, "an integer is required", node)
    zv = zint(v)
    where = I_.where(ctx, node)
    def ok(st2):
      bs = sb.int_to_bytes(zv, n, st2, True, False)
      return k(st2, sb.le_int(bs, st2))
    return I_.safety(st, z3.And(zv >= 0, zv < (1 << (8 * n))), "safe.htonl@" + where,
                     ExcVal(OverflowError, ("int larger than %d bits" % (8 * n),), where), ctx, ok)
  return m


def m_modf(I_, args, kws, st, ctx, k, node):
  axiom("math.modf(x) = (x - trunc(x), trunc(x)) over the reals")
  (v,) = args
  if not is_sym(v):
    import math
    return k(st, math.modf(v))
  x = zreal(v)
  ip = z3.If(x >= 0, z3.ToReal(z3.ToInt(x)), -z3.ToReal(z3.ToInt(-x)))
  return k(st, (x - ip, ip))


def m_time(I_, args, kws, st, ctx, k, node):
  axiom("time.time() returns a real number; successive calls are non-decreasing")
  t = fresh_real("now")
  last = st.ghost.get("$clock")
  if last is not None:
    st.add(t >= last)
  else:
    st.add(t >= 0)
  st.ghost["$clock"] = t
  return k(st, t)


def m_inet_aton(I_, args, kws, st, ctx, k, node):
  (v,) = args
  if fully_concrete(v):
    try:
      return k(st, _socket.inet_aton(v))
    except Exception as e:
      return I_.raise_exc(st, ctx, type(e), str(e), node)
  axiom("socket.inet_aton(text): 4 opaque bytes or OSError")
  s2 = st.copy()
  I_.raise_exc(s2, ctx, OSError, "illegal IP address string passed to inet_aton", node)
  return k(st, opaque_bytes(st, "aton", 4))


def m_inet_ntoa(I_, args, kws, st, ctx, k, node):
  (v,) = args
  if fully_concrete(v):
    try:
      return k(st, _socket.inet_ntoa(v))
    except Exception as e:
      return I_.raise_exc(st, ctx, type(e), str(e), node)
  axiom("socket.inet_ntoa(bytes4): opaque text")
  return k(st, opaque_str(st, "ntoa"))


_TABLE = {
  builtins.len: m_len, builtins.isinstance: m_isinstance, builtins.type: m_type, builtins.issubclass: m_issubclass,
  builtins.hasattr: m_hasattr, builtins.getattr: m_getattr, builtins.setattr: m_setattr,
  builtins.callable: m_callable, builtins.int: m_int, builtins.bool: m_bool, builtins.float: m_float,
  builtins.str: m_str, builtins.repr: m_repr, builtins.bytes: m_bytes, builtins.list: m_list,
  builtins.tuple: m_tuple, builtins.set: m_set, builtins.dict: m_dict, builtins.range: m_range,
  builtins.enumerate: m_enumerate, builtins.zip: m_zip, builtins.reversed: m_reversed, builtins.iter: m_iter, builtins.next: m_next,
  builtins.sum: m_sum, builtins.any: m_any, builtins.all: m_all, builtins.min: _minmax(True),
  builtins.max: _minmax(False), builtins.abs: m_abs, builtins.sorted: m_sorted, builtins.id: m_id,
  builtins.hash: m_hash, builtins.ord: m_ord, builtins.chr: m_chr, builtins.super: m_super,
  builtins.object: m_object,
  _struct.pack: m_struct_pack, _struct.unpack: m_struct_unpack, _struct.unpack_from: m_struct_unpack_from,
  _struct.calcsize: m_struct_calcsize,
  _socket.htonl: _swap(4), _socket.ntohl: _swap(4), _socket.htons: _swap(2), _socket.ntohs: _swap(2),
  _socket.inet_aton: m_inet_aton, _socket.inet_ntoa: m_inet_ntoa,
  _time.time: m_time,
}
import math as _math
_TABLE[_math.modf] = m_modf
_TABLE[dir] = m_dir
_TABLE[sys.exc_info] = m_exc_info
_UNION_AWARE.update([builtins.isinstance, builtins.len, builtins.type, builtins.bool, builtins.hasattr,
                     builtins.getattr, builtins.setattr, builtins.callable, builtins.int, builtins.str,
                     builtins.bytes, builtins.hash, builtins.id, builtins.repr])
from . import api as _api
_TABLE[_api.forall] = m_forall
import array as _array
_TABLE[_array.array] = m_array
import functools as _functools
import operator as _operator
_TABLE[_functools.reduce] = m_reduce
for _fn, _nd in ((_operator.add, ast.Add()), (_operator.sub, ast.Sub()), (_operator.mul, ast.Mult()),
                 (_operator.or_, ast.BitOr()), (_operator.and_, ast.BitAnd()), (_operator.xor, ast.BitXor())):
  _TABLE[_fn] = m_operator(_nd)
