"""Methods of builtin containers, bytes and str (AXIOM models)."""
import ast
import types
import z3

from .values import *
from .sbytes import SBytes
from . import sbytes as sb
from .interp import SliceVal, LiveList, ObjDict, _ABSENT, _MISSING
from .models import (_k_union, set_insert_all, set_remove_all, set_locate, _is_symkey, as_sbytes, norm_bytes, is_byteslike, is_strlike, fully_concrete, hashkey, type_of, IterVal,
                     values_eq, opaque_str, opaque_bytes, iter_values, any_eq, concretize_, _union_of,
                     dict_sym_lookup, contains)
from .builtins_model import axiom


_CMP_DUNDER = {"__eq__": ast.Eq, "__ne__": ast.NotEq, "__lt__": ast.Lt, "__le__": ast.LtE, "__gt__": ast.Gt,
               "__ge__": ast.GtE}


def call_method(I_, recv, name, args, kws, st, ctx, k, node):
  from .models import gobj, gobj_mutable
  recv = gobj(st, recv)
  if isinstance(recv, Union):
    return I_.split(recv, st, lambda st2, r: call_method(I_, r, name, args, kws, st2, ctx, k, node))
  if not (isinstance(recv, Ref) and name in ("append", "insert", "add", "setdefault", "get", "pop", "remove",
                                              "index", "count", "discard", "extend", "update")):
    for i, a in enumerate(args):
      if isinstance(a, Union):
        return I_.split(a, st, lambda st2, x: call_method(I_, recv, name, list(args[:i]) + [x] + list(args[i + 1:]),
                                                          kws, st2, ctx, k, node))
  if name in _CMP_DUNDER and len(args) == 1 and not isinstance(recv, (Ref, ObjDict)):
    # int.__eq__(x) / bytes.__lt__(x): NotImplemented for foreign types
    from .models import compare, is_numlike
    o = args[0]
    same = (is_numlike(recv) and is_numlike(o)) or (is_byteslike(recv) and is_byteslike(o)) or \
           (is_strlike(recv) and is_strlike(o)) or (isinstance(recv, tuple) and isinstance(o, tuple))
    if not same:
      return k(st, NotImplemented)
    return compare(I_, _CMP_DUNDER[name](), recv, o, st, ctx, k, node)
  if name == "__hash__" and not args and not isinstance(recv, (Ref, ObjDict)):
    from .builtins_model import model_hash
    return model_hash(I_, recv, st, ctx, k, node)
  if isinstance(recv, Ref):
    o = st.obj(recv)
    if o.kind == "slist":
      return slist_method(I_, recv, o, name, args, kws, st, ctx, k, node)
    if o.kind == "list":
      return list_method(I_, recv, o, name, args, kws, st, ctx, k, node)
    if o.kind == "dict":
      return dict_method(I_, recv, o, name, args, kws, st, ctx, k, node)
    if o.kind == "set":
      return set_method(I_, recv, o, name, args, kws, st, ctx, k, node)
    if o.kind == "gen":
      return gen_method(I_, recv, o, name, args, kws, st, ctx, k, node)
  if isinstance(recv, ObjDict):
    return objdict_method(I_, recv, name, args, kws, st, ctx, k, node)
  if isinstance(recv, (SBytes, bytes, str)):
    if fully_concrete(recv) and all(fully_concrete(a) for a in args) and all(fully_concrete(v) for v in kws.values()):
      try:
        r = getattr(recv, name)(*args, **kws)
      except Exception as e:
        return I_.raise_exc(st, ctx, type(e), str(e), node)
      if isinstance(r, list):
        r = st.alloc("list", list, r)
      return k(st, r)
    return bytes_method(I_, recv, name, args, kws, st, ctx, k, node)
  if isinstance(recv, tuple):
    if name == "count":
      return count_eq(I_, args[0], list(recv), st, ctx, k, node)
    if name == "index":
      raise Unsupported("tuple.index")
  # concrete receiver (dict/list/set constants of the module, ints, ...)
  if isinstance(recv, dict) and name in ("get", "items", "keys", "values", "copy", "__contains__"):
    if name == "get":
      key = args[0]
      default = args[1] if len(args) > 1 else None
      if fully_concrete(key):
        try:
          return k(st, recv.get(key, default))
        except TypeError as e:
          return I_.raise_exc(st, ctx, TypeError, str(e), node)
      if is_symint(key):
        alts = []
        conds = []
        for kk, vv in recv.items():
          if isinstance(kk, int) and not isinstance(kk, bool):
            alts.append((key == kk, vv))
            conds.append(key == kk)
        alts.append((z3.Not(z3.Or(*conds)) if conds else z3.BoolVal(True), default))
        return _k_union(I_, alts, st, k)
      if isinstance(key, (Ref, SBytes)):
        # keys of module-level tables are never symbolic objects
        if isinstance(key, Ref):
          return k(st, default)
      raise Unsupported("dict.get with symbolic key %r" % (key,))
    if name == "items":
      return k(st, IterVal(list(recv.items())))
    if name == "keys":
      return k(st, IterVal(list(recv.keys())))
    if name == "values":
      return k(st, IterVal(list(recv.values())))
    if name == "copy":
      d = {}
      for kk, vv in recv.items():
        d[hashkey(kk)] = (kk, vv)
      return k(st, st.alloc("dict", dict, d))
  if isinstance(recv, (list, dict, set)) and not isinstance(recv, Ref) and name in _MUTATORS and fully_concrete(recv):
    # the container is part of the program's global state: mutate its per-path heap copy
    return gobj_mutable(I_, st, recv, ctx, lambda st2, r: call_method(I_, r, name, args, kws, st2, ctx, k, node), node)
  if fully_concrete(recv) and all(fully_concrete(a) for a in args) and all(fully_concrete(v) for v in kws.values()):
    try:
      r = getattr(recv, name)(*args, **kws)
    except Exception as e:
      return I_.raise_exc(st, ctx, type(e), str(e), node)
    if isinstance(r, list):
      r = st.alloc("list", list, r)
    return k(st, r)
  raise Unsupported("method %s of %s with symbolic arguments" % (name, type(recv).__name__))


def gen_method(I_, ref, o, name, args, kws, st, ctx, k, node):
  if name == "__iter__" and not args:
    return k(st, ref)
  if name == "__next__" and not args:
    return I_.gen_resume(ref, None, None, st, ctx, k, node)
  if name == "send" and len(args) == 1:
    return I_.gen_resume(ref, args[0], None, st, ctx, k, node)
  if name == "throw" and 1 <= len(args) <= 3:
    e = args[0]
    if isinstance(e, type) and issubclass(e, BaseException):
      v = args[1] if len(args) > 1 else None
      if isinstance(v, ExcVal):
        e = v
      else:
        e = ExcVal(e, () if v is None else (v,), I_.where(ctx, node))
    if not isinstance(e, ExcVal):
      raise Unsupported("generator.throw of %r" % (e,))
    return I_.gen_resume(ref, None, e, st, ctx, k, node)
  if name == "close" and not args:
    d = o.data
    if d["state"] in ("created", "done"):
      d["state"] = "done"
      d["resume"] = None
      return k(st, None)
    # GeneratorExit is raised at the yield; the generator must end (or re-raise it)
    def yielded(st2, v):
      return I_.raise_exc(st2, ctx, RuntimeError, "generator ignored GeneratorExit", node)
    c2 = ctx.replace(exc_k=lambda s, e: k(s, None) if e.cls in (GeneratorExit, StopIteration) else ctx.exc_k(s, e))
    return I_.gen_resume(ref, None, ExcVal(GeneratorExit, (), I_.where(ctx, node)), st, c2, yielded, node)
  raise Unsupported("generator method %s" % name)


_MUTATORS = set("append extend insert remove pop clear sort reverse update setdefault add discard popitem "
                "difference_update intersection_update symmetric_difference_update".split())


def count_eq(I_, item, elems, st, ctx, k, node):
  def step(j, st2, acc):
    if j >= len(elems):
      return k(st2, concretize(acc) if is_sym(acc) else acc)
    def got(st3, r):
      def got_t(st4, t):
        t = concretize_(t)
        if t is True:
          return step(j + 1, st4, sb._add(acc, 1))
        if t is False:
          return step(j + 1, st4, acc)
        return step(j + 1, st4, zint(acc) + z3.If(t, 1, 0))
      return I_.truth(r, st3, ctx, got_t, node)
    return values_eq(I_, elems[j], item, st2, ctx, got, node)
  return step(0, st, 0)


def list_extend(I_, ref, other, st, ctx, k, node):
  def got(st2, items):
    st2.obj(ref).data.extend(list(items))
    return k(st2, None)
  return iter_values(I_, other, st, ctx, got, node)


def slist_method(I_, ref, o, name, args, kws, st, ctx, k, node):
  """symbolic-length list: element attributes are arrays; insert/append/pop shift them"""
  where = I_.where(ctx, node)
  n = zint(o.data["len"])
  if name in ("insert", "append"):
    if name == "append":
      pos, item = n, args[0]
    else:
      pos, item = args[0], args[1]
      if not is_intlike(pos):
        raise Unsupported("list.insert position")
      zp = zint(pos)
      # python clamps the position into [0, len] (negative positions count from the end)
      zp = z3.If(zp < 0, z3.If(zp + n < 0, 0, zp + n), z3.If(zp > n, n, zp))
      pos = concretize(zp)
    attrs = o.data["attrs"]
    names = list(attrs.keys())
    from .models import slist_elem_values
    if any(nm == "is_none" or nm.isdigit() for nm in names):
      ev_ = slist_elem_values(I_, st, ref, item)
      if ev_ is None:
        raise Unsupported("append/insert into a symbolic list of tuples with other tracked attributes")
      o2 = st.obj(ref)
      zp2 = zint(pos)
      q = z3.Int(fresh_name("q"))
      o2.data["attrs"] = dict(o2.data["attrs"])
      for nm in names:
        old = o2.data["attrs"][nm]
        v = ev_[nm]
        if v is None:
          v = z3.Const(fresh_name("unset_" + nm), old.sort().range())
        elif old.sort().range() == z3.BoolSort():
          v = zbool(v) if not is_sym(v) else v
        else:
          v = zint(v)
        o2.data["attrs"][nm] = z3.Lambda([q], z3.If(q < zp2, z3.Select(old, q),
                                                  z3.If(q == zp2, v, z3.Select(old, q - 1))))
      o2.data["len"] = concretize(zint(o2.data["len"]) + 1)
      o2.data["ghost_inserted_at"] = pos
      return k(st, None)
    def step(j_, st2, vals):
      if j_ >= len(names):
        o2 = st2.obj(ref)
        zp2 = zint(pos)
        q = z3.Int(fresh_name("q"))
        o2.data["attrs"] = dict(o2.data["attrs"])    # states share nested dicts: never mutate in place
        for nm, v in zip(names, vals):
          old = o2.data["attrs"][nm]
          if v is None:
            v = z3.Const(fresh_name("newelem_" + nm.replace(".", "_").replace("()", "")), old.sort().range())
          elif old.sort().range() == z3.BoolSort():
            v = zbool(v) if not is_sym(v) else v
          else:
            v = zint(v)
          o2.data["attrs"][nm] = z3.Lambda([q], z3.If(q < zp2, z3.Select(old, q),
                                                    z3.If(q == zp2, v, z3.Select(old, q - 1))))
        o2.data["len"] = concretize(zint(o2.data["len"]) + 1)
        o2.data["ghost_inserted_at"] = pos
        return k(st2, None)
      nm = names[j_]
      if nm.endswith("()"):
        return step(j_ + 1, st2, vals + [None])
      # evaluate the tracked attribute path on the inserted object
      parts = nm.split(".")
      def walk(pi, st3, cur):
        if pi >= len(parts):
          return step(j_ + 1, st3, vals + [cur])
        return I_.getattr_value(cur, parts[pi], st3, ctx, lambda st4, r: walk(pi + 1, st4, r), node)
      return walk(0, st2, item)
    return step(0, st, [])
  if name == "__len__":
    return k(st, o.data["len"])
  raise Unsupported("method %s of a symbolic-length list" % name)


def list_method(I_, ref, o, name, args, kws, st, ctx, k, node):
  data = o.data
  if name == "append":
    data.append(args[0])
    return k(st, None)
  if name == "extend":
    return list_extend(I_, ref, args[0], st, ctx, k, node)
  if name == "insert":
    i = args[0]
    if isinstance(i, int):
      data.insert(i, args[1])
      return k(st, None)
    raise Unsupported("list.insert at symbolic index (concrete-length list)")
  if name == "pop":
    if not data:
      return I_.raise_exc(st, ctx, IndexError, "pop from empty list", node)
    i = args[0] if args else -1
    if isinstance(i, bool):
      i = int(i)
    if isinstance(i, int):
      if -len(data) <= i < len(data):
        return k(st, data.pop(i))
      return I_.raise_exc(st, ctx, IndexError, "pop index out of range", node)
    raise Unsupported("list.pop at symbolic index")
  if name == "popleft" and o.cls is not list:          # collections.deque modelled as a list
    if not data:
      return I_.raise_exc(st, ctx, IndexError, "pop from an empty deque", node)
    return k(st, data.pop(0))
  if name == "appendleft" and o.cls is not list:
    data.insert(0, args[0])
    return k(st, None)
  if name == "remove":
    return list_remove(I_, ref, args[0], st, ctx, k, node)
  if name == "index":
    return list_index(I_, ref, args[0], st, ctx, k, node)
  if name == "count":
    return count_eq(I_, args[0], list(data), st, ctx, k, node)
  if name == "clear":
    del data[:]
    return k(st, None)
  if name == "reverse":
    data.reverse()
    return k(st, None)
  if name == "copy":
    return k(st, st.alloc("list", list, list(data)))
  if name == "sort":
    return list_sort(I_, ref, kws, st, ctx, k, node)
  if name == "__len__":
    return k(st, len(data))
  raise Unsupported("list.%s" % name)


def list_remove(I_, ref, item, st, ctx, k, node):
  """remove first element equal to item; ValueError if none"""
  elems = list(st.obj(ref).data)
  def step(j, st2):
    if j >= len(elems):
      return I_.raise_exc(st2, ctx, ValueError, "list.remove(x): x not in list", node)
    def got(st3, r):
      def got_t(st4, t):
        def yes(st5):
          d = st5.obj(ref).data
          # position j in the original corresponds to the same position now (nothing removed yet)
          del d[j]
          return k(st5, None)
        return I_.branch(t, st4, yes, lambda st5: step(j + 1, st5), "list.remove")
      return I_.truth(r, st3, ctx, got_t, node)
    return values_eq(I_, elems[j], item, st2, ctx, got, node)
  return step(0, st)


def list_index(I_, ref, item, st, ctx, k, node):
  elems = list(st.obj(ref).data)
  def step(j, st2):
    if j >= len(elems):
      return I_.raise_exc(st2, ctx, ValueError, "x not in list", node)
    def got(st3, r):
      return I_.truth(r, st3, ctx, lambda st4, t: I_.branch(t, st4, lambda st5: k(st5, j),
                                                         lambda st5: step(j + 1, st5), "list.index"), node)
    return values_eq(I_, elems[j], item, st2, ctx, got, node)
  return step(0, st)


def list_sort(I_, ref, kws, st, ctx, k, node):
  """stable sort of a concrete-length list with symbolic integer keys: the result is a merged
  permutation (insertion sort by symbolic comparison, stable)."""
  axiom("list.sort/sorted: stable, ordered by key; reverse=True keeps the original order of equal keys")
  keyf = kws.get("key")
  rev = kws.get("reverse", False)
  if not isinstance(rev, bool):
    raise Unsupported("symbolic reverse flag")
  data = list(st.obj(ref).data)
  def with_keys(st2, keys):
    n = len(data)
    if all(isinstance(x, (int, float, str, bytes)) for x in keys) or \
       all(isinstance(x, tuple) and fully_concrete(x) for x in keys):
      try:
        order = sorted(range(n), key=lambda i: keys[i], reverse=rev)
      except TypeError as e:
        return I_.raise_exc(st2, ctx, TypeError, str(e), node)
      st2.obj(ref).data[:] = [data[i] for i in order]
      return k(st2, None)
    if not all(is_intlike(x) for x in keys):
      raise Unsupported("sort with non-integer symbolic keys")
    # insertion sort with path forking (lists are short); stable
    def insert(j, st3, cur):
      # cur: list of indices sorted so far
      if j >= n:
        st3.obj(ref).data[:] = [data[i] for i in cur]
        return k(st3, None)
      def place(pos, st4):
        # try positions from the end: element j goes after all elements that are <= (or >= for reverse)
        if pos == 0:
          return insert(j + 1, st4, [j] + cur)
        prev = cur[pos - 1]
        kp, kj = zint(keys[prev]), zint(keys[j])
        stays = (kp >= kj) if rev else (kp <= kj)
        return I_.branch(stays, st4, lambda s: insert(j + 1, s, cur[:pos] + [j] + cur[pos:]),
                         lambda s: place(pos - 1, s), "sort")
      return place(len(cur), st3)
    return insert(0, st2, [])
  if keyf is None:
    return with_keys(st, data)
  def step(j, st2, acc):
    if j >= len(data):
      return with_keys(st2, acc)
    return I_.call_value(keyf, [data[j]], {}, st2, ctx, lambda st3, r: step(j + 1, st3, acc + [r]), node)
  return step(0, st, [])


def dict_method(I_, ref, o, name, args, kws, st, ctx, k, node):
  data = o.data
  if name == "get":
    key = args[0]
    default = args[1] if len(args) > 1 else kws.get("default")
    if isinstance(key, Union):
      return I_.split(key, st, lambda st2, kk: dict_method(I_, ref, st2.obj(ref), name, [kk] + list(args[1:]), kws, st2, ctx, k, node))
    if is_sym(key) or isinstance(key, SBytes):
      res = []
      c2 = ctx.replace(exc_k=lambda s, e: res.append((s, default)) if issubclass(e.cls, KeyError) else ctx.exc_k(s, e))
      dict_sym_lookup(I_, ref, key, st, c2, lambda s, v: res.append((s, v)), node)
      for s, v in I_.merge_all(res):
        k(s, v)
      return
    from .models import is_value_key, dict_locate
    if is_value_key(I_, key, st):
      return dict_locate(I_, ref, key, st, ctx, lambda s_, hk_: k(s_, s_.obj(ref).data[hk_][1]),
                         lambda s_: k(s_, default), node)
    hk = hashkey(key)
    if hk in data:
      return k(st, data[hk][1])
    return k(st, default)
  if name == "items":
    return k(st, IterVal([(kv[0], kv[1]) for kv in data.values()]))
  if name == "keys":
    return k(st, IterVal([kv[0] for kv in data.values()]))
  if name == "values":
    return k(st, IterVal([kv[1] for kv in data.values()]))
  if name in ("setdefault", "pop") and args and isinstance(args[0], Union):
    return I_.split(args[0], st, lambda st2, kk: dict_method(I_, ref, st2.obj(ref), name, [kk] + list(args[1:]), kws, st2, ctx, k, node))
  if name == "setdefault":
    key = args[0]
    default = args[1] if len(args) > 1 else None
    hk = hashkey(key)
    if hk not in data:
      data[hk] = (key, default)
    return k(st, data[hk][1])
  if name == "pop":
    key = args[0]
    hk = hashkey(key)
    if hk in data:
      v = data.pop(hk)[1]
      return k(st, v)
    if len(args) > 1:
      return k(st, args[1])
    return I_.raise_exc(st, ctx, KeyError, "key", node)
  if name == "update":
    def finish(st2):
      for kk, vv in kws.items():
        st2.obj(ref).data[kk] = (kk, vv)
      return k(st2, None)
    if not args:
      return finish(st)
    a = args[0]
    if isinstance(a, Ref) and st.obj(a).kind == "dict":
      data.update(st.obj(a).data)
      return finish(st)
    if isinstance(a, dict):
      for kk, vv in a.items():
        data[hashkey(kk)] = (kk, vv)
      return finish(st)
    raise Unsupported("dict.update from iterable")
  if name == "clear":
    data.clear()
    return k(st, None)
  if name == "copy":
    return k(st, st.alloc("dict", dict, dict(data)))
  if name == "__contains__":
    return contains(I_, ref, args[0], st, ctx, k, node)
  if name == "has_key":
    return I_.raise_exc(st, ctx, AttributeError, "'dict' object has no attribute 'has_key'", node)
  raise Unsupported("dict.%s" % name)


def set_method(I_, ref, o, name, args, kws, st, ctx, k, node):
  data = o.data
  if name == "add":
    return set_insert_all(I_, ref, [args[0]], st, ctx, lambda st2: k(st2, None), node)
  if name == "discard":
    return set_remove_all(I_, ref, [args[0]], st, ctx, lambda st2: k(st2, None), node)
  if name == "remove":
    def found(st2, hk):
      del st2.obj(ref).data[hk]
      return k(st2, None)
    return set_locate(I_, ref, args[0], st, ctx, found, lambda st2: I_.raise_exc(st2, ctx, KeyError, "key", node), node)
  if name == "clear":
    data.clear()
    return k(st, None)
  if name == "copy":
    return k(st, st.alloc("set", set, dict(data)))
  if name in ("update", "difference_update", "union", "difference", "intersection"):
    def got(st2, items):
      d = st2.obj(ref).data
      if name == "update":
        return set_insert_all(I_, ref, items, st2, ctx, lambda st3: k(st3, None), node)
      if name == "difference_update":
        return set_remove_all(I_, ref, items, st2, ctx, lambda st3: k(st3, None), node)
      if any(_is_symkey(hk) for hk in d) or any(is_sym(v) for v in items):
        if name == "intersection":
          raise Unsupported("set.intersection with symbolic elements")
        nref = st2.alloc("set", set, dict(d))
        f = set_insert_all if name == "union" else set_remove_all
        return f(I_, nref, items, st2, ctx, lambda st3: k(st3, nref), node)
      nd = dict(d)
      if name == "union":
        for v in items:
          nd[hashkey(v)] = v
      elif name == "difference":
        for v in items:
          nd.pop(hashkey(v), None)
      else:
        keys = set(hashkey(v) for v in items)
        nd = dict((a, b) for a, b in nd.items() if a in keys)
      return k(st2, st2.alloc("set", set, nd))
    return iter_values(I_, args[0], st, ctx, got, node)
  if name == "pop":
    if not data:
      return I_.raise_exc(st, ctx, KeyError, "pop from an empty set", node)
    axiom("set.pop() removes an arbitrary element (modelled: any element, by forking)")
    keys = list(data.keys())
    for j, hk in enumerate(keys):
      s2 = st.copy() if j < len(keys) - 1 else st
      v = s2.obj(ref).data.pop(hk)
      k(s2, v)
    return
  raise Unsupported("set.%s" % name)


def objdict_method(I_, recv, name, args, kws, st, ctx, k, node):
  d = st.obj(recv.ref).data
  if name == "get":
    v = d.get(args[0], _ABSENT)
    if v is _ABSENT:
      return k(st, args[1] if len(args) > 1 else None)
    return k(st, v)
  if name == "items":
    return k(st, IterVal([(a, b) for a, b in d.items() if b is not _ABSENT]))
  if name == "keys":
    return k(st, IterVal([a for a, b in d.items() if b is not _ABSENT]))
  if name == "values":
    return k(st, IterVal([b for a, b in d.items() if b is not _ABSENT]))
  if name == "update":
    a = args[0]
    if isinstance(a, Ref) and st.obj(a).kind == "dict":
      for kk, vv in st.obj(a).data.values():
        d[kk] = vv
      return k(st, None)
  if name == "pop":
    if args[0] in d and d[args[0]] is not _ABSENT:
      return k(st, d.pop(args[0]))
    if len(args) > 1:
      return k(st, args[1])
    return I_.raise_exc(st, ctx, KeyError, args[0], node)
  raise Unsupported("__dict__.%s" % name)


def bytes_method(I_, recv, name, args, kws, st, ctx, k, node):
  s = as_sbytes(recv)
  where = I_.where(ctx, node)
  if name == "encode":
    if not s.is_str:
      return I_.raise_exc(st, ctx, AttributeError, "'bytes' object has no attribute 'encode'", node)
    enc = args[0] if args else kws.get("encoding", "utf-8")
    if enc.lower().replace("_", "-") not in ("latin-1", "latin1", "iso-8859-1"):
      axiom("str.encode with a non latin-1 codec is treated as latin-1 on the 0..255 code points modelled")
    return k(st, norm_bytes(SBytes(s.chunks, False)))
  if name == "decode":
    if s.is_str:
      return I_.raise_exc(st, ctx, AttributeError, "'str' object has no attribute 'decode'", node)
    enc = args[0] if args else kws.get("encoding", "utf-8")
    if enc.lower().replace("_", "-") not in ("latin-1", "latin1", "iso-8859-1"):
      raise Unsupported("bytes.decode(%r) of symbolic bytes" % enc)
    return k(st, norm_bytes(SBytes(s.chunks, True)))
  if name == "ljust" or name == "rjust":
    width = args[0]
    fill = as_sbytes(args[1]) if len(args) > 1 else SBytes.lit(b" ", s.is_str)
    fc = fill.concrete()
    if fc is None or len(fc) != 1 or not isinstance(width, int):
      raise Unsupported("ljust with symbolic fill/width")
    L = s.length()
    if isinstance(L, int):
      padn = max(0, width - L)
      pad = SBytes.lit(fc * padn, s.is_str)
      r = sb.concat(s, pad) if name == "ljust" else sb.concat(pad, s)
      r.is_str = s.is_str
      return k(st, norm_bytes(r))
    # symbolic length: pad is a blob of the fill byte of length max(0, width-L)
    zL = zint(L)
    padlen = z3.If(zL < width, width - zL, 0)
    blob = sb.new_blob("pad", concretize(padlen))
    if blob.chunks:
      f = blob.chunks[0][1]
      i = fresh_int("pi")
      st.add(z3.ForAll([i], f(i) == fc[0]))
    blob.is_str = s.is_str
    r = sb.concat(s, blob) if name == "ljust" else sb.concat(blob, s)
    r.is_str = s.is_str
    return k(st, r)
  if name == "split" and len(args) == 2 and args[1] == 1 and fully_concrete(args[0]) and len(args[0]) == 1:
    sep = as_sbytes(args[0]).concrete()[0]
    n = s.fixed_length()
    if n is None or n > 4096:
      raise Unsupported("split of symbolic-length text")
    # skip leading chunks that provably do not contain the separator (one query per chunk)
    start = 0
    for c in s.chunks:
      l = sb.chunk_len(c)
      if not isinstance(l, int):
        break
      if c[0] == "lit":
        j = c[1].find(bytes([sep]))
        if j >= 0:
          # everything before is separator-free: the first separator is exactly here
          p0 = start + j
          a = sb.slice_bytes(s, 0, p0, st)
          b = sb.slice_bytes(s, p0 + 1, n, st)
          a.is_str = b.is_str = s.is_str
          return k(st, st.alloc("list", list, [norm_bytes(a), norm_bytes(b)]))
        start += l
        continue
      cs = [zint(sb.byte_at(s, start + i, st)) != sep for i in range(l)]
      if l <= 1024 and st.entails(z3.And(*cs) if cs else True, "split-scan"):
        start += l
        continue
      break
    if n - start > 80:
      raise Unsupported("split: separator position not determined within 80 bytes")
    bts = [sb.byte_at(s, i, st) for i in range(start, n)]
    def none_case(st2):
      for b_ in bts:
        st2.add(zint(b_) != sep)
      return k(st2, st2.alloc("list", list, [norm_bytes(s)]))
    def pos_case(p, st2):
      if p >= n:
        return none_case(st2)
      cond = concretize_(zand(*([zint(bts[i - start]) != sep for i in range(start, p)] + [zint(bts[p - start]) == sep])))
      if cond is False or not st2.feasible(cond):
        return pos_case(p + 1, st2)
      rest_possible = p + 1 <= n and (cond is not True) and st2.feasible(znot(cond))
      s2 = st2.copy() if rest_possible else st2
      s2.add(cond)
      a = sb.slice_bytes(s, 0, p, s2)
      b = sb.slice_bytes(s, p + 1, n, s2)
      a.is_str = b.is_str = s.is_str
      k(s2, s2.alloc("list", list, [norm_bytes(a), norm_bytes(b)]))
      if not rest_possible:
        return
      st2.add(znot(cond))
      return pos_case(p + 1, st2)
    return pos_case(start, st)
  if name == "replace" and len(args) == 2 and fully_concrete(args) and len(args[0]) == 1 and len(args[1]) == 0:
    # deleting all occurrences of one byte: result has length = number of other bytes
    x = as_sbytes(args[0]).concrete()[0]
    n = s.fixed_length()
    if n is None or n > 2048:
      axiom("bytes.replace(b, b'') on symbolic-length data: opaque result no longer than the input")
      r = opaque_bytes(st, "repl")
      st.add(zint(r.length()) <= zint(s.length()))
      r.is_str = s.is_str
      return k(st, r)
    cnt = z3.IntVal(0)
    for i in range(n):
      b = sb.byte_at(s, i, st)
      if isinstance(b, int):
        cnt = cnt + (0 if b == x else 1)
      else:
        cnt = cnt + z3.If(zint(b) == x, 0, 1)
    cnt = concretize(cnt)
    r = opaque_bytes(st, "repl", cnt)
    r.is_str = s.is_str
    return k(st, norm_bytes(r) if isinstance(cnt, int) and cnt == 0 else r)
  if name == "count" and len(args) == 1 and fully_concrete(args[0]) and len(args[0]) == 1:
    x = as_sbytes(args[0]).concrete()[0]
    n = s.fixed_length()
    if n is None or n > 128:
      raise Unsupported("count on symbolic-length text")
    tot = z3.IntVal(0)
    for i in range(n):
      bt = sb.byte_at(s, i, st)
      tot = tot + (z3.If(zint(bt) == x, 1, 0) if is_sym(bt) else (1 if bt == x else 0))
    return k(st, concretize(tot))
  if name in ("startswith", "endswith") and len(args) == 1 and fully_concrete(args[0]):
    pre = as_sbytes(args[0]).concrete()
    L = s.length()
    n = len(pre)
    def cmpat(st2, base):
      cs = []
      for i in range(n):
        cs.append(zint(sb.byte_at(s, sb._add(base, i), st2)) == pre[i])
      return concretize_(zand(*cs))
    if isinstance(L, int):
      if L < n:
        return k(st, False)
      return k(st, cmpat(st, 0 if name == "startswith" else L - n))
    lenok = zint(L) >= n
    return k(st, concretize_(zand(lenok, cmpat(st, 0 if name == "startswith" else zint(L) - n))))
  if name in ("lower", "upper", "strip", "lstrip", "rstrip", "title"):
    axiom("str.%s of symbolic text: opaque text no longer than the input" % name)
    r = opaque_str(st, name)
    st.add(zint(r.length()) <= zint(s.length()))
    r.is_str = s.is_str
    return k(st, r)
  if name == "join":
    def got(st2, items):
      items = list(items)
      for j, it in enumerate(items):
        if isinstance(it, Union):
          return I_.split(it, st2, lambda st3, x: got(st3, items[:j] + [x] + items[j + 1:]))
      out = SBytes([], s.is_str)
      for j, it in enumerate(items):
        if not (is_strlike(it) if s.is_str else is_byteslike(it)):
          return I_.raise_exc(st2, ctx, TypeError, "sequence item %d: expected %s instance"
                              % (j, "str" if s.is_str else "a bytes-like object"), node)
        if j:
          out = sb.concat(out, s)
        out = sb.concat(out, as_sbytes(it))
      out.is_str = s.is_str
      return k(st2, norm_bytes(out))
    return iter_values(I_, args[0], st, ctx, got, node)
  if name == "format" and fully_concrete(recv) and isinstance(recv, str) and not kws:
    # positional str.format with symbolic arguments: opaque text; too few arguments raise IndexError
    import string
    need = -1
    auto = 0
    try:
      for lit, field, spec, conv in string.Formatter().parse(recv):
        if field is None:
          continue
        head = field.split(".")[0].split("[")[0]
        if head == "":
          need = max(need, auto)
          auto += 1
        elif head.isdigit():
          need = max(need, int(head))
        else:
          raise Unsupported("str.format with keyword fields")
    except ValueError as e:
      return I_.raise_exc(st, ctx, ValueError, str(e), node)
    if need >= len(args):
      return I_.raise_exc(st, ctx, IndexError, "Replacement index out of range", node)
    axiom("str.format with symbolic arguments yields an opaque string (formatting itself does not raise)")
    return k(st, opaque_str(st, "fmt"))
  if name in ("find", "count", "index", "isdigit", "isalpha", "split", "rsplit", "format", "zfill", "hex",
              "partition", "rpartition", "splitlines", "replace", "translate", "isspace"):
    if I_.log_depth > 0:
      if name in ("split", "rsplit", "splitlines", "partition", "rpartition"):
        return k(st, st.alloc("list", list, [opaque_str(st, "logpart")]))
      if name in ("find", "count", "index"):
        return k(st, fresh_int("logn"))
      if name in ("isdigit", "isalpha", "isspace"):
        return k(st, fresh_bool("logb"))
      return k(st, opaque_str(st, "logtxt"))
    raise Unsupported("text method %s on symbolic text at %s" % (name, where))
  if name == "__len__":
    return k(st, s.length())
  return I_.raise_exc(st, ctx, AttributeError, "no attribute %s" % name, node) if not hasattr(b"" if not s.is_str else "", name) \
    else (_ for _ in ()).throw(Unsupported("bytes/str method %s" % name))
