"""Loops cut at an inductive invariant (DESIGN 2.3: loop.k.init / preserve / variant).

LoopSpec(invariant=fn(v), variant=fn(v), havoc={local: kind}, for_index=name)
  v        is a view of the function's locals (attribute access reads the local)
  havoc    the locals the loop body assigns: kind in int | nat | bool | bytes | real | keep
           (keep = not modified); computed from the body's assigned names when omitted
           (all ints unless the current value says otherwise)
For `for x in seq` over a sequence of symbolic length the loop is treated as
  _i = 0; while _i < len(seq): x = seq[_i]; _i += 1; body
with v._i available to the invariant.
"""
import ast
import z3
from .values import *
from .sbytes import SBytes
from . import sbytes as sb


from .api import LoopSpec  # noqa (defined z3-free for native replay)


class FrameView(object):
  __slots__ = ("fid", "extra", "known")

  def __init__(self, fid, extra=None, known=None):
    self.fid = fid
    self.extra = extra or {}
    self.known = known        # names the function has (locals + parameters); None: unknown


def _known_names(ctx):
  try:
    from .interp import fn_locals
    node = ctx.fn.node
    names = set(fn_locals(node))
    a = node.args
    for x in list(a.args) + list(a.kwonlyargs) + list(getattr(a, "posonlyargs", [])):
      names.add(x.arg)
    if a.vararg:
      names.add(a.vararg.arg)
    if a.kwarg:
      names.add(a.kwarg.arg)
    return names
  except Exception:
    return None


def assigned_names(stmts):
  names = []
  for s in stmts:
    for n in ast.walk(s):
      if isinstance(n, ast.Name) and isinstance(n.ctx, ast.Store) and n.id not in names:
        names.append(n.id)
  return names


def _fresh_like(I, st, name, old, kind):
  if kind is None:
    if isinstance(old, bool) or is_symbool(old):
      kind = "bool"
    elif is_intlike(old):
      kind = "int"
    elif is_symreal(old) or isinstance(old, float):
      kind = "real"
    elif isinstance(old, (bytes, SBytes)) and not (isinstance(old, SBytes) and old.is_str):
      kind = "bytes"
    elif isinstance(old, (str,)) or (isinstance(old, SBytes) and old.is_str):
      kind = "str"
    else:
      raise Unsupported("loop havoc: do not know how to havoc local %s = %r" % (name, old))
  if kind == "keep":
    return old
  if kind == "int":
    return fresh_int(name)
  if kind == "nat":
    v = fresh_int(name)
    st.add(v >= 0)
    return v
  if kind == "bool":
    return fresh_bool(name)
  if kind == "real":
    return fresh_real(name)
  if kind in ("bytes", "str"):
    n = fresh_int(name + "_len")
    st.add(n >= 0)
    b = sb.new_blob(name, n)
    b.is_str = (kind == "str")
    return b
  if callable(kind):
    return kind(I, st, name, old)
  raise Unsupported("havoc kind %r" % (kind,))


def havoc_ghost(I, st):
  """ghost state at a loop cut (2026-09-25, soundness): the body may advance ghost counters (callee contracts do), so at the
  head of an ARBITRARY iteration they are arbitrary too - scalar ghosts become fresh values (the invariant constrains them
  through v.g_<name>).  Returns a snapshot of the remaining (non-scalar) ghosts: a body that changes one of those is out of
  reach of the cut (checked by ghost_unchanged)."""
  snap = {}
  for gk, gv in list(st.ghost.items()):
    if not isinstance(gk, str) or gk.startswith("$"):
      continue
    if isinstance(gv, bool) or is_symbool(gv):
      st.ghost[gk] = fresh_bool("g_" + gk)
    elif is_intlike(gv):
      st.ghost[gk] = fresh_int("g_" + gk)
    elif is_symreal(gv) or isinstance(gv, float):
      st.ghost[gk] = fresh_real("g_" + gk)
    else:
      snap[gk] = gv
  return snap


def ghost_unchanged(st, snap, where):
  for gk, gv in snap.items():
    now = st.ghost.get(gk)
    same = now is gv
    if not same:
      try:
        same = bool(now == gv) and type(now) is type(gv)
      except Exception:
        same = False
    if not same:
      raise Unsupported("the body of the loop at %s changes the ghost value %r, which a loop cut cannot havoc" % (where, gk))


def run_loop(I, node, spec, st, ctx, k):
  from .interp import Ctx
  where = I.where(ctx, node)
  lname = spec.name or ("loop@" + where)
  fr = st.frames[ctx.fid]
  view = FrameView(ctx.fid, None, _known_names(ctx))

  if isinstance(node, ast.For):
    return run_for(I, node, spec, st, ctx, k)

  def eval_pred(fn, st_, kk):
    """evaluate spec function fn(view) in st_ -> kk(st', value)"""
    return I.call_value(fn, [view], {}, st_, ctx, kk, node)

  # 1. init
  def after_init(st1, inv0):
    def with_truth(st1b, t):
      I.check_obligation(st1b, t, "loop.init:" + lname, kind="loop")
      # 2. havoc
      body_names = assigned_names(node.body)
      hv = dict(spec.havoc) if spec.havoc else {}
      fr1 = st1b.frames[ctx.fid]
      for nm in body_names:
        if nm not in hv:
          hv[nm] = None
      for nm, kind in hv.items():
        old = fr1.get(nm)
        if old is None and nm not in fr1:
          continue
        fr1[nm] = _fresh_like(I, st1b, nm, old, kind)
      gsnap = havoc_ghost(I, st1b)
      # 3. assume invariant
      def assumed(st2, inv1):
        def with_t2(st2b, t2):
          st2b.add(t2 if is_sym(t2) else z3.BoolVal(bool(t2)))
          if not st2b.feasible(True):
            return
          def with_var(st3, var0):
            # 4. test
            def got_test(st4, tv):
              def got_truth(st5, tt):
                def body(st6):
                  def end_iter(st7):
                    ghost_unchanged(st7, gsnap, where)
                    def chk(st8, inv2):
                      def with_t3(st8b, t3):
                        I.check_obligation(st8b, t3, "loop.preserve:" + lname, kind="loop")
                        if spec.variant is not None:
                          def got_var(st9, var1):
                            dec = z3.And(zint(var1) < zint(var0), zint(var0) >= 0) \
                              if is_sym(var1) or is_sym(var0) else (var1 < var0 and var0 >= 0)
                            I.check_obligation(st9, dec, "loop.variant:" + lname, kind="loop")
                            return
                          return eval_pred(spec.variant, st8b, got_var)
                        return
                      return I.truth(inv2, st8, ctx, with_t3, node)
                    return eval_pred(spec.invariant, st7, chk)
                  c2 = ctx.replace(brk_k=k, cont_k=end_iter)
                  return I.ex(node.body, 0, st6, c2, end_iter)
                def done(st6):
                  return I.ex(node.orelse, 0, st6, ctx, k)
                return I.branch(tt, st5, body, done, "loop-test")
              return I.truth(tv, st4, ctx, got_truth, node)
            return I.ev(node.test, st3, ctx, got_test)
          if spec.variant is not None:
            return eval_pred(spec.variant, st2b, with_var)
          return with_var(st2b, None)
        return I.truth(inv1, st2, ctx, with_t2, node)
      return eval_pred(spec.invariant, st1b, assumed)
    return I.truth(inv0, st1, ctx, with_truth, node)
  return eval_pred(spec.invariant, st, after_init)


def _substitute_state(st, var, term):
  """replace the constant `var` by `term` everywhere in a state (sound when var == term is known)"""
  pairs = [(var, term)]
  def sub(v):
    if is_sym(v):
      return concretize(z3.substitute(v, *pairs))
    if isinstance(v, tuple):
      return tuple(sub(x) for x in v)
    return v
  st.pc = [z3.substitute(a, *pairs) if is_sym(a) else a for a in st.pc]
  st._solver = None
  st._solver_n = 0
  st._model = None
  for fr in st.frames.values():
    for kx in list(fr.keys()):
      fr[kx] = sub(fr[kx])
  for kx in list(st.ghost.keys()):
    st.ghost[kx] = sub(st.ghost[kx])
  st.decomp = {}
  st.norange = set()


def _bind_equalities(st, fr, names, formula):
  """after assuming the invariant: a conjunct `x == t` for a havocked local x makes x an alias of t"""
  if not is_sym(formula):
    return
  conj = list(formula.children()) if z3.is_and(formula) else [formula]
  for c in conj:
    if z3.is_eq(c) and c.num_args() == 2:
      a, b_ = c.arg(0), c.arg(1)
      for x, t in ((a, b_), (b_, a)):
        for nm in names:
          v = fr.get(nm)
          if is_sym(v) and z3.is_const(v) and v.eq(x) and not z3.is_const(t):
            # t must not mention x itself
            if x.get_id() in set(y.get_id() for y in _consts(t)):
              continue
            _substitute_state(st, x, t)
            break


def _consts(t):
  out = []
  seen = set()
  stack = [t]
  while stack:
    e = stack.pop()
    if e.get_id() in seen:
      continue
    seen.add(e.get_id())
    if z3.is_const(e) and e.decl().kind() == z3.Z3_OP_UNINTERPRETED:
      out.append(e)
    stack.extend(e.children())
  return out


def run_for(I, node, spec, st, ctx, k):
  """`for x in seq` over a list of symbolic length, cut at an invariant over the ghost index v._i:
       _i = 0; while _i < len(seq): x = seq[_i]; body; _i += 1"""
  from .values import SElem, Ref
  where = I.where(ctx, node)
  lname = spec.name or ("loop@" + where)

  def with_iter(st0, seq):
    from .values import SEnum, SymRange
    enum = isinstance(seq, SEnum)
    rng = isinstance(seq, SymRange)
    if enum:
      seq = seq.ref
    if rng:
      n = zint(seq.stop)
      if st0.feasible(n < 0):
        n = z3.If(n < 0, 0, n)
    elif not (isinstance(seq, Ref) and st0.obj(seq).kind == "slist"):
      raise Unsupported("for-loop invariant given for a loop over a concrete sequence at %s" % where)
    else:
      n = zint(st0.obj(seq).data["len"])
    view = FrameView(ctx.fid, {"_i": 0, "_seq": seq}, _known_names(ctx))

    def eval_pred(fn, st_, i, kk):
      v = FrameView(ctx.fid, {"_i": i, "_seq": seq}, _known_names(ctx))
      return I.call_value(fn, [v], {}, st_, ctx, kk, node)

    def after_init(st1, inv0):
      def with_truth(st1b, t):
        I.check_obligation(st1b, t, "loop.init:" + lname, kind="loop")
        hv = dict(spec.havoc) if spec.havoc else {}
        fr1 = st1b.frames[ctx.fid]
        names = assigned_names(node.body) + [x.id for x in ast.walk(node.target) if isinstance(x, ast.Name)]
        for nm in names:
          if nm not in hv:
            hv[nm] = None
        for nm, kind in hv.items():
          if nm not in fr1:
            continue
          if any(isinstance(x, ast.Name) and x.id == nm for x in ast.walk(node.target)):
            continue
          fr1[nm] = _fresh_like(I, st1b, nm, fr1[nm], kind)
        gsnap = havoc_ghost(I, st1b)
        i = fresh_int("_i")
        st1b.add(z3.And(i >= 0, i <= n))
        def assumed(st2, inv1):
          def with_t2(st2b, t2):
            st2b.add(t2 if is_sym(t2) else z3.BoolVal(bool(t2)))
            if not st2b.feasible(True):
              return
            def body(st3):
              if getattr(spec, "axioms", None) is not None:
                ax = []
                eval_pred(spec.axioms, st3, i, lambda s_, v_: ax.append((s_, v_)))
                if len(ax) != 1:
                  raise Unsupported("loop axioms must evaluate on a single path")
                st3 = ax[0][0]
                st3.add(ax[0][1] if is_sym(ax[0][1]) else z3.BoolVal(bool(ax[0][1])))
              def end_iter(st7):
                ghost_unchanged(st7, gsnap, where)
                def chk(st8, inv2):
                  def with_t3(st8b, t3):
                    I.check_obligation(st8b, t3, "loop.preserve:" + lname, kind="loop")
                  return I.truth(inv2, st8, ctx, with_t3, node)
                return eval_pred(spec.invariant, st7, concretize(i + 1), chk)
              c2 = ctx.replace(brk_k=k, cont_k=end_iter)
              return I.assign(node.target, i if rng else ((i, SElem(seq, i)) if enum else SElem(seq, i)), st3, ctx,
                              lambda st4: I.ex(node.body, 0, st4, c2, end_iter))
            def done(st3):
              # at exit the ghost index equals the length (0 <= i <= n and not i < n)
              _substitute_state(st3, i, n if is_sym(n) else z3.IntVal(n))
              return I.ex(node.orelse, 0, st3, ctx, k)
            _bind_equalities(st2b, st2b.frames[ctx.fid], list(hv.keys()), t2)
            return I.branch(i < n, st2b, body, done, "for-test")
          return I.truth(inv1, st2, ctx, with_t2, node)
        return eval_pred(spec.invariant, st1b, i, assumed)
      return I.truth(inv0, st1, ctx, with_truth, node)
    return eval_pred(spec.invariant, st0, 0, after_init)
  return I.ev(node.iter, st, ctx, with_iter)
