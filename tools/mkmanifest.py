#!/usr/bin/env python3
"""regenerates /verif/MANIFEST.json from the table below (kept in one place so it is always valid)"""
import json, os
HERE = os.path.dirname(os.path.dirname(os.path.abspath(__file__)))
ids = [json.loads(l)["id"] for l in open(os.path.join(HERE, "properties.jsonl"))]

CLAIMS = {
 "C19": dict(
   text="(1) UNDER CONTRACT (pyvc, since 2026-09-25): the adjacency bookkeeping of discovery.py over an adjacency of three directed "
        "links with symbolic last-seen times, clock, timeout, datapath ids and ports - _expire_links withdraws exactly the links not "
        "seen for the timeout, _handle_openflow_ConnectionDown exactly the links with an end on that switch, _delete_links takes any "
        "iterable; every withdrawn link is announced removed once and is already OUT of the adjacency when announced (listeners "
        "recompute from it); is_edge_port is true iff no link ends on that (dpid, port); LinkEvent.port_for_dpid / Link.end / flipped "
        "for all 64-bit dpids and 16-bit ports (the only unbounded unit).  (2) BOUNDED STAND-INS ONLY for everything that makes up "
        "the property's main statement (graph reachability and the text-encoded probe are outside what the VC generator and the "
        "solvers decide; DESIGN.md 0.3): the real _calc_spanning_tree and _update_tree on every directed multigraph over 3 switches "
        "(<= 2 parallel links per ordered pair), every directed simple graph over 4 switches and random multigraphs up to 7 switches "
        "against an independent oracle (tree edges bidirectional, symmetric, acyclic, spanning exactly the bidirectional components; "
        "NO_FLOOD cleared exactly on tree and host-facing ports; a flooded frame reaches every switch of its component once); "
        "HISTORIES: links discovered one by one through the real packet-in handler with the real spanning_tree listeners attached, "
        "then an expiry / a switch disconnect and its reconnect, the oracle applied after EVERY change; the discovery probe built, "
        "serialised, parsed and fed to the real handler for boundary / random 64-bit dpids x 16-bit ports.",
   note="Evidence level 'other': one unbounded unit, bounded symbolic units, bounded stand-ins (bounds in the evidence). The history "
        "stand-in found three genuine defects in discovery / spanning_tree, all repaired (fix: commits 579dee7, 536351e, e9e362a).",
   ref="0.3 / 0.9 / 7/C19"),
 "C06": dict(
   text="(1) Task PROGRAMS (since the evaluator runs generators, 2026-09-25): two or three real generator tasks with scripted "
        "steps (yield 0, Sleep, park, sub-task call returning / raising / nested with the exception handled by the direct caller, "
        "raise) on a real Scheduler whose cycle() is called a fixed number of times - per task, as a function of its own script "
        "only: its steps run in order, once each, a sub-task's value or exception reaches exactly its caller's yield, a raising or "
        "parked task runs no further step and the others finish (Scheduler.cycle, fast_schedule, BaseTask.execute, Again.execute, "
        "AgainTask.run_again, task_function, Sleep are the repository's code end to end).  (2) Timer.run resumed up to four times "
        "with cancel() during any sleep: fires once per expiry until cancelled or self-stopped, never after a cancel made while it "
        "was pending, sleeps to absolute deadlines one interval after it fired (one-shot and recurring; times, interval and callback "
        "result symbolic).  (3) The scheduler's plain functions as single steps with "
        "a task's generator as an opaque callee (any yield value, StopIteration, any exception): Scheduler.cycle over a ready "
        "queue of 2..3 tasks - exactly the head task is stepped (once more only after a blocking operation that answers True), "
        "a yielded 0 re-queues it last, a number sleeps it on the timer hub, False parks it, a blocking operation runs exactly once "
        "with (task, scheduler), StopIteration / any exception of task or operation de-schedules only that task, all other tasks "
        "keep their place; BaseTask.execute delivers the pending value / exception / resume function to the generator exactly "
        "once and clears it; fast_schedule / schedule queue once at the requested end, schedule refuses a queued task; Sleep "
        "parks, re-queues at once for 0 / past times, registers a future absolute time; SelectHub._select over 1..3 timer "
        "waiters resumes exactly the waiters whose time has passed plus - on an idle OS select, whose timeout is proved to be "
        "the earliest pending wake time minus now - the earliest one, each once, and forgets exactly those.",
   note="all units bounded (reported so): concrete small programs, up to four timer resumptions, 2..3 ready tasks. NOT decided: "
        "Scheduler.run and the hub threads, low-priority rotation, I/O readiness in _select, 'every runnable task is eventually "
        "run' for arbitrary programs (shown for the programs of the units: nothing is left runnable).",
   ref="0.3 / 7/C06"),
 "C07": dict(
   text="(1) The cooperative lock, decided per call: Lock._do_acquire / _do_release over (holder, waiters) with the invariant "
        "'nobody waits while the lock is free': a free "
        "lock is taken at once, a held lock is never stolen, a non-blocking attempt reports False and does not wait, a blocking "
        "attempt waits, a release hands the lock to exactly one waiter if any and re-queues exactly that waiter once, releasing a "
        "free lock is refused.  (2) The SEQUENTIAL PROTOCOL of each side of the thread hand-off, as order contracts over one "
        "call / one generator (c07_handoff.py): CallLaterTask.callLater queues the call behind the waiting ones and THEN pings, "
        "unconditionally; one round of CallLaterTask.run pongs FIRST, then runs every queued call once, in order, even after a "
        "failing one, empties the queue and goes back to Select on its pinger; ScheduleTask.run queues its task once at the front "
        "unless already queued and parks; SyncTask.run gives its first slice away with both locks held, then releases inlock, THEN "
        "blocks on outlock and ends; Synchronizer enter/exit start the SyncTask, block on inlock and release outlock at the "
        "outermost level only; SelectHub.idle (threaded hub) waits up to CYCLE_MAXIMUM and THEN clears the event, break_idle sets "
        "it; the inline hub runs one select round.",
   note="The interleaving statement itself (every schedule of foreign threads against the scheduler thread) is NOT decided by "
        "this technique: the order contracts of (2) are necessary conditions on which every interleaving argument for these "
        "functions rests (each of the four seeded hand-off changes breaks one of them); that they suffice is an argument, stated "
        "in not_decided and DESIGN.md 0.3.",
   ref="0.3 / 7/C07"),
 "C11": dict(
   text="The learning switch's decision LearningSwitch._handle_PacketIn is proved as one step over the abstract table "
        "(address -> port) for ALL source / destination addresses, ingress ports, ethertypes, transparent flag and buffered or "
        "unbuffered packet-ins, with 0..2 further table entries and the destination unknown / known on the ingress port / "
        "known elsewhere: the source is learnt on the ingress port and nothing else changes; LLDP and bridge-filtered "
        "destinations are dropped (the buffer released by an action-less packet-out); multicast and unknown destinations are "
        "flooded with the buffer id or the frame and the ingress port; a destination on the ingress port gets an action-less "
        "flow-mod naming the buffer (never sent back); a destination known elsewhere gets ONE flow-mod with exactly one output "
        "action to the port learnt for it (10 s idle / 30 s hard) carrying the packet-in; in every branch a buffered "
        "packet-in's buffer id is named in the single message sent. ofp_flow_mod.pack with the packet-in as data is proved for "
        "all frames and ports: a buffered packet travels as the flow-mod's buffer id, an unbuffered one follows behind a barrier "
        "as a packet-out to OFPP_TABLE carrying the whole frame and the ingress port.",
   note="only the controller-side decision is proved here; delivery in a network is the composition with the datapath "
        "contracts C12 (actions / flood rules), C04 (flow-mod), C18 (buffers), C03 (lookup) - an argument, not a machine-checked "
        "lemma; table size bounded (reported so); ofp_match.from_packet, Connection.send and time are callees.",
   ref="7/C11"),
 "C09": dict(
   text="Per-operation contracts over the registry (dpid -> connection) and the connection's phase, for two datapath ids and the "
        "registry entry of the connection's dpid absent / itself / another connection: _finish_connecting registers the "
        "connection as the most recent of its dpid and raises HandshakeComplete, ConnectionUp (nexus, then connection unless "
        "halted; exactly once), FeaturesReceived, then the deferred port-status messages in arrival order, all after "
        "connection-up; barrier reply / barrier-unsupported error finish the handshake exactly for the barrier's xid (all xids, "
        "types, codes symbolic), a foreign barrier reply aborts without announcing; features reply (all versions, nexus or none) "
        "stores dpid and ports, starts deferral, sends the barrier last and raises nothing; early port status is deferred in "
        "order; disconnect marks the connection, removes ONLY its own registration (repaired), raises ConnectionDown on nexus "
        "then connection exactly when the dpid is known, it was not raised before and it is not deferred - never twice; close "
        "twice raises once; sendToDPID reaches the registered connection or reports False.",
   note="bounded to two dpids / one predecessor (reported so); OpenFlow_01_Task.run (a generator around select) is out of reach: "
        "loss at every handshake point is covered through the disconnect contract in every phase; history = induction over steps.",
   ref="7/C09"),
 "C08": dict(
   text="register and call_when_ready are proved per operation over the abstract state (registered components, listed "
        "waiters) under the invariant 'no listed waiter is ready', for every registered subset of three components, every "
        "dependency set (empty included) of up to two listed waiters plus the declared one, and callbacks that do nothing, "
        "register a further component (chained, re-entrant) or raise: exactly the waiters ready at the fixpoint are called, "
        "once each, each at a moment when all its components were registered; the rest stay listed in order, uncalled. "
        "listen_to_dependencies wires (listeners with the component prefix, attributes, _all_dependencies_met) exactly once, "
        "exactly when the last named component arrives, for every subset registered beforehand. goUp / deferrals: for every "
        "placement of two deferrals (obtained before or during going-up, released before, during or after it) the events are "
        "exactly [GoingUp, Up]; a deferral cannot be released twice; _quit raises [GoingDown, Down] once even when asked twice.",
   note="all units bounded (3 component names, <= 3 waiters, 2 deferrals) and reported so; the history statement is the "
        "induction over the per-operation contracts; quit()'s helper threads and the scheduler shutdown are callees / not modelled.",
   ref="7/C08"),
 "C20": dict(
   text="Every step of the send path is proved to keep  wire ++ pending  (bytes accepted by the socket, then bytes queued "
        "behind them) extended by exactly the bytes handed over, for arbitrary message bytes and every per-call socket outcome "
        "(accepts l of n bytes, EAGAIN, fatal error, other exception): Connection.send (disconnected / queue-behind-pending / "
        "direct write with remainder hand-off / fatal -> disconnect once, nothing queued), DeferredSender._sliceup, send, kill "
        "and one full select round of DeferredSender.run (partial writes, chunk advance, EAGAIN, fatal error drops the entry, "
        "disconnects once, writes nothing afterwards; the busy flag is cleared only when nothing is pending - the invariant the "
        "direct write relies on), and on the switch side IOWorker.send / _do_send / _consume_send_buf, RecocoIOWorker.send, "
        "send_fast (repaired) and close (reported exactly once).",
   note="socket / select behaviour is an assumed callee contract; chunk lists of 1..2 chunks and one select round are bounded "
        "(reported so); the history statement is the induction over the steps; thread interleaving is serialised by the "
        "sender's lock and not modelled.",
   ref="7/C20"),
 "C17": dict(
   text="Statistics reassembly (Connection._incoming_stats_reply) is proved as one step over stored parts of ANY number "
        "(symbolic list + representation invariant re-established by every step): a continuing part is appended in order, a "
        "part of another request never merges with stored ones, the last part fires exactly one handler call with all parts "
        "of its request in order and empties the store; the six per-type handlers hand the concatenated entries, in order, to "
        "one nexus event and - unless halted - one connection event. The port view is proved per operation against an "
        "abstract view (own ports ++ unmasked, unsuperseded original ports) for arbitrary states with symbolic port numbers, "
        "names and addresses: _update/_forget and the PORT_STATUS / FEATURES_REPLY handlers apply exactly the notification, "
        "original ports stay untouched, lookup by number / name / address, membership, get, keys, len, iteration, values and "
        "items agree with the view.",
   note="port collections hold at most 2 own, 2 original ports and 2 masks (reported as bounded symbolic units; the history "
        "statement is the induction over the per-operation contracts); stats handlers bounded to 3 parts x 2 entries; "
        "replies of types without a handler (vendor) and PortCollection.copy are outside the contracts.",
   ref="7/C17"),
 "C05": dict(
   text="The real addListener / removeListener / raiseEvent / raiseEventNoErrors / CallProxy are proved against an abstract "
        "view (per event type the sequence of (priority, handler, once, id)) for handler lists of 0..3 entries with symbolic "
        "priorities, one-shot flags and handler return values: subscribing inserts in descending priority and, among equals, "
        "subscription order; undeclared types (by class, by instance, by name) are rejected; every unsubscribe form removes "
        "exactly that entry and never mutates a list a delivery may be walking; delivery invokes exactly the handlers "
        "subscribed when the event was raised, once each, in order, up to the first halting return value (all eight shapes of "
        "the return protocol), also when handlers re-enter subscribe / unsubscribe on the source (effect envelope on opaque "
        "handlers); one-shot and self-removing handlers are gone afterwards, the rest stay in order; error suppression "
        "swallows every handler exception except ReventError (known finding); a weak subscription is dropped, and never "
        "invoked again, once the collector's callback runs.",
   note="list length <= 3 (reported as bounded symbolic units); weakref/GC semantics assumed (the callback is invoked "
        "explicitly); name-based wiring (autoBindEvents) bounded to one sink class; re-entrant raise from inside a handler not decided.",
   ref="7/C05"),
 "C12": dict(
   text="Every header-rewrite action (set dl src/dst, VLAN vid/pcp incl. tag push, strip VLAN, nw src/dst/tos, tp src/dst) is "
        "proved to change exactly the named field on 7 header-chain shapes (plain/VLAN, IPv4 TCP/UDP/ICMP, ARP, other) for all "
        "field values; output to a physical port, IN_PORT, FLOOD, ALL and unsupported virtual ports emits on exactly the "
        "permitted ports (not ingress, not down / forwarding-disabled / flood-disabled) once each with tx counters matching; "
        "actions apply in order to the frame as modified so far; receive rules (unknown port, NO_RECV, NO_RECV_STP), rx "
        "counters, and the miss path (buffer + packet-in unless NO_PACKET_IN).",
   note="port table of three ports with symbolic bits and action lists of length 2 are bounded (reported so); serialisation "
        "of emitted frames is C14; lookup C03; buffers C18.",
   ref="7/C12"),
 "C15": dict(
   text="Fourteen parsers (ethernet, vlan incl. nested tags, llc, arp, ipv4, udp, icmp, echo, unreachable, time-exceeded, mpls, "
        "eapol, eap, vxlan) are "
        "proved total on arbitrary byte strings of any length: construction raises nothing, `parsed` is a bool, the remainder "
        "is bytes or a packet object, and pack() and str() of the result raise nothing (empty `raises`, every implicit "
        "run-time check is an obligation). All parsers reachable from ethernet.parse are exercised by a bounded stand-in over "
        "every truncation and byte corruption of a corpus of valid frames of every protocol (ICMPv6 messages of every type with "
        "valid checksums, extension-header chains, maximally nested VLAN / MPLS stacks, TCP headers filled with one long option, "
        "DHCP long options ...) plus random frames; it found more than twenty genuine raising paths, all repaired (fix: commits). "
        "The checksum routine the parsers call is proved total (C14 units, shared).",
   note="trusted: pyvc, z3; sub-parsers are callees in the proofs; TLV/text-walking parsers bounded only.",
   ref="7/C15"),
 "C14": dict(
   text="Core stack proved for all field values and payload lengths: Ethernet, 802.1Q, ARP, IPv4, UDP, TCP, ICMP echo - pack() "
        "equals the RFC layout with derived length fields, the checksum routine is applied to exactly the RFC-prescribed bytes "
        "(IPv4 header with zero checksum field; pseudo-header ++ UDP/TCP segment; ICMP message) and its result lands in the "
        "field, parse(pack()) restores every field and the payload, re-pack reproduces the bytes. packet_utils.checksum is "
        "proved for buffers of ANY length < 2^17, even and odd (loop invariant over ghost word sums, fold/byte-swap lemma): data "
        "+ checksum sums to 0 in one's complement arithmetic. Other protocols and exact equality with an independent RFC 1071 "
        "implementation: bounded stand-ins.",
   note="trusted: pyvc, z3/cvc5, struct/array/ntohs axioms (little-endian host), RFC layouts from memory. 12 further "
        "protocols bounded only; DHCP/DNS serialisation broken on this tree (known findings).",
   ref="7/C14"),
 "C13": dict(
   text="One contract per request handler of the software switch, request fields symbolic, `raises` empty: echo, barrier, "
        "get/set config, features, queue config, vendor, hello, table/port/queue/aggregate/flow statistics, unknown statistics "
        "type, unknown flow-mod command, port mod - each sends exactly one reply or the specified error carrying the request's "
        "xid (or nothing where none is due), with the specified contents, and every reply's real pack() is evaluated in the "
        "postcondition (it encodes and declares its own length); port-mod changes exactly the masked config bits, link state "
        "follows PORT_DOWN, one port-status per link-state change. FlowTable.aggregate_stats is proved for ANY number of selected "
        "entries (ghost prefix sums). A request with a malformed body is answered with ONE bad-length error carrying its own xid "
        "and bytes; undecodable requests of any claimed length never make the read loop fail (C10 unit, shared).",
   note="trusted: pyvc, z3; connection.send is a callee (C20). Reply ORDER over a request sequence follows from synchronous "
        "handlers (argument, not a lemma). desc stats / flow stats bodies over non-empty tables not under contract.",
   ref="7/C13"),
 "C04": dict(
   text="Per-operation contracts = specification step: entry timeouts (no earlier than idle/hard timeout, traffic refreshes only "
        "the idle clock), flow-removed contents, and - for tables of 0..3 entries with every field/flag/clock symbolic and an "
        "arbitrary selection relation - DELETE(_STRICT) with out-port filter, MODIFY(_STRICT), ADD (emergency / overlap / full "
        "table errors, replace identical, priority-ordered insert) and the expiry sweep, each with exactly the specified "
        "flow-removed notifications (one per removed entry that asked, right reason and counters, none otherwise). The "
        "selection relation of non-strict commands is proved equal to OpenFlow subsumption for all wildcard words and prefix "
        "lengths.",
   note="bounded in table size (0..3) for the table operations (reported as bounded_symbolic_units); unbounded pieces: "
        "timeouts, notifications' contents, subsumption, and C03's insert/lookup. History = induction over per-operation "
        "contracts (DESIGN.md).",
   ref="7/C04"),
 "C18": dict(
   text="The switch's buffer pool is proved for pools of ANY length (symbolic list, loop invariant for the free-slot search): "
        "_buffer_packet returns None iff the pool is full (and then changes nothing), otherwise an id whose slot was free and "
        "now holds exactly this packet and port, all other slots unchanged, size within max_buffers; using an id emits that "
        "slot's packet once with the given actions and frees it, unknown/used ids emit nothing and change nothing; packet-out "
        "and flow-mod release exactly the buffer they name; packet-in carries the whole frame when unbuffered, at most "
        "miss_send_len bytes when buffered, and the true total length.",
   note="trusted: pyvc, z3; action application (C12) and flow-mod handlers (C04) are callees under contract; the history "
        "statement follows by induction over these per-operation contracts (argument in DESIGN.md).",
   ref="7/C18"),
 "C02": dict(
   text="Connection.read (controller) and OFConnection.read + IOWorker receive helpers (switch) are proved, for an arbitrary "
        "buffer and an arbitrary received chunk, to decode and hand over exactly the frames at the boundaries cut(k) of the "
        "ghost stream (boundaries follow declared lengths), each once and in order, and to retain exactly the bytes from the "
        "last boundary; a lemma closes the induction over reads (boundaries of buffer++chunk = boundaries of the whole "
        "stream). A bounded stand-in runs the real decoders over all 1-cuts / gridded 2-cuts / dribble / random k-cuts.",
   note="trusted: pyvc, z3, decoders through their family contract (returns offset + declared length or raises; C01/C10); "
        "that the select loops keep calling read() is not decided.",
   ref="7/C02"),
 "C10": dict(
   text="For arbitrary bytes: every list-free message decoder either raises a listed exception or consumes exactly the "
        "declared length (>= its fixed part); Connection.read and OFConnection.read terminate (loop variants), never index "
        "outside the buffer, keep a suffix of the stream; OFConnection.read raises nothing (an escaping exception would stop "
        "the switch's I/O loop); the type -> decoder table has an entry for exactly the 22 OpenFlow 1.0 types. The two I/O LOOPS "
        "themselves (generators, run by the evaluator since 2026-09-25, the harness playing select): OpenFlow_01_Task.run - "
        "whatever one connection's read() returns or raises (True / False / None / AssertionError / UnderrunError / IndexError / a "
        "handler's RuntimeError / ConnectionResetError / OSError) the loop goes back to Select, that connection is closed once and "
        "dropped from the select set, the other stays and is read when reported, only an error on the listening socket ends the "
        "loop; RecocoIOLoop.run with the real RecocoIOWorker methods - a worker whose recv ends / fails is closed once and no "
        "longer watched, the other worker's bytes are appended and handed on once. Seven genuine defects found by refuted "
        "obligations were repaired (fix: commits). Bounded "
        "stand-in: 18k structured corruptions through the real decoders on both sides.",
   note="trusted: pyvc, z3, family contract for list-carrying decoders; loop units bounded (two connections / workers, 2..4 select "
        "rounds); sockets, select and the Connection constructor are stand-ins / callees; liveness (that select reports a readable "
        "socket) not decided.",
   ref="7/C10"),
 "C03": dict(
   text="ofp_match.matches_with_wildcards is proved equal to the OpenFlow 1.0 match predicate for every wildcard word, "
        "every prefix length and all field values; ofp_match.from_packet is proved against the extraction rules for 14 header-"
        "chain shapes (VLAN, LLC, SNAP, IPv4 TCP/UDP/ICMP/other/fragments, ARP); FlowTable.add_entry (binary-search insert) "
        "and FlowTable.entry_for_packet (first match = highest effective priority, exact entries first, miss iff nothing "
        "matches) are proved for tables of ANY length with loop invariants over a symbolic list.",
   note="trusted: pyvc encoding, z3; entries in stored normal form; opaque envelope for table listeners; from_packet used as "
        "a callee contract inside entry_for_packet (proved separately).",
   ref="7/C03"),
 "C01": dict(
   text="Every OpenFlow 1.0 codec class of libopenflow_01 (22 message types, actions, queue properties, statistics bodies, "
        "ofp_match, ofp_phy_port) has contracts generated from layout tables transcribed from openflow.h: pack() equals the "
        "specified layout (field order, widths, padding, type code, length field), len(obj) equals the byte count, decoding "
        "consumes exactly that many bytes, yields an equal object, and re-encoding reproduces the bytes - discharged for all "
        "field values / payloads / wildcard words by SMT on VCs generated from the real functions' ASTs. Lists (actions, ports, "
        "queues, stats entries) are proved for fixed lengths 0..2 only (reported as bounded). Every message is decoded in the middle of a "
        "buffer (bytes in front and behind). Nicira extensions: the 16 fixed-layout messages and actions (role request / reply, "
        "packet-in format, flow-mod table id, async config and its mask setters, resubmit, set_tunnel(64), fin_timeout, exit, dec_ttl, "
        "controller, push / pop mpls, mpls label / tc) have table-generated contracts like the OpenFlow classes (tables: "
        "spec/nx_layout.py); NXM entries, nx_match, nx_flow_mod, nxt_packet_in, learn / bundle / reg actions: bounded stand-in.",
   note="trusted: pyvc encoding of Python semantics, z3/cvc5, struct axioms, layout tables transcribed from memory of openflow.h "
        "(cross-checked against its sizeof asserts), likewise nicira-ext.h. List lengths > 2 and the NXM-based part of the Nicira module "
        "are not proved (bounded only). "
        "Known finding: matches with unmet protocol prerequisites do not round-trip.",
   ref="7/C01"),
 "C16": dict(
   text="Contracts on the real numeric kernels of pox/lib/addresses.py (IPAddr/IPAddr6/EthAddr construction from binary "
        "forms, byte order views, membership, mask<->prefix conversion, comparison/hash consistency, immutability) are "
        "discharged for all addresses and all prefix lengths by SMT over VCs generated from the functions' ASTs on every run. "
        "Textual forms (string walking) are bounded stand-ins, labelled as such and not counted as proved.",
   note="trusted: pyvc's encoding of Python semantics, z3/cvc5, struct/socket axioms (little-endian host), Python ints "
        "mathematical. Text parsing/printing only bounded (bounds in evidence). Membership for a network given with host "
        "bits is left unspecified.",
   ref="7/C16"),
}
NOT_YET = "check not built yet (work in progress; see DESIGN.md section 7 for the planned contracts)"
NA = {}

checks = []
for i in ids:
  if i in CLAIMS:
    c = CLAIMS[i]
    checks.append({
      "property_id": i,
      "quick_cmd": "./check %s --tier quick" % i,
      "thorough_cmd": "./check %s --tier thorough" % i,
      "evidence_file": "evidence/%s.json" % i,
      "replay_cmd_template": "./check %s --replay {path}" % i,
      "engine": "pyvc",
      "level_claimed": {"category": {"C19": "other", "C06": "other", "C07": "other"}.get(i, "proof"),
                        "text": c["text"], "design_ref": c["ref"]},
      "level_note": c["note"] + (" Evidence level 'other': every unit of this property is a bounded symbolic unit (values symbolic, "
                                  "shape fixed); its SMT-discharged obligations are reported as bounded_shape_obligations, not as "
                                  "proof-level obligations." if i in ("C06", "C07") else ""),
      "technique": ("contract-based deductive verification of the adjacency bookkeeping (pyvc: VCs from the real function ASTs, z3/cvc5; "
                    "bounded symbolic units); spanning tree, flooding and the probe codec: bounded stand-ins only (native enumeration "
                    "of the real functions against an independent oracle, bounds stated) - not counted as proved") if i == "C19" else
                   "contract-based deductive verification: VCs generated from the real function ASTs (pyvc), discharged by z3/cvc5; bounded stand-ins where stated",
    })
m = {
 "version": 1,
 "setup_cmd": "true",
 "hooks": {"guard": "NOXREPO_POX_VERIF",
           "enable": "no hooks: contracts are sidecar files in /verif; nothing in /repo is instrumented (guard reserved, unused)",
           "baseline_off_cmd": "cd /repo && /venv/bin/python -m pytest -ra -q -p no:cacheprovider --timeout=900 --continue-on-collection-errors",
           "source_commits": [], "add_only": True},
 "engines": [{"name": "pyvc", "path": "pyvc/", "serves_properties": sorted(CLAIMS),
              "kind_free_text": "verification-condition generator by merging symbolic evaluation of the real Python function ASTs, "
                                "sidecar contracts, z3 (API) + cvc5/z3-4.8 (SMT-LIB2) back ends, native replay under /venv/bin/python"}],
 "checks": checks,
 "notes": "exit codes of ./check: 0 held / 1 VIOLATION / 2 UNDECIDED / 3 checker error. known_findings.json is committed and never written at run time.",
 "not_applicable": [{"property_id": i, "reason": NA.get(i, NOT_YET)} for i in ids if i not in CLAIMS],
}
json.dump(m, open(os.path.join(HERE, "MANIFEST.json"), "w"), indent=1)
print("claimed:", sorted(CLAIMS))
