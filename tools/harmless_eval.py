#!/usr/bin/env python3
"""run a property's check against a behaviour-preserving refactoring made by a sub-agent (the opposite of seed_eval.py):
the check must NOT print a VIOLATION line (exit 0, or exit 2 = undecided: the contract no longer fits the code).

usage: tools/harmless_eval.py <PROPERTY> <worktree> <k>
keeps the refactoring under /verif/harmless/<PROPERTY>_<k>/ (patch.diff, note.json with the outcome)"""
import json, os, subprocess, sys, shutil

VERIF = os.path.dirname(os.path.dirname(os.path.abspath(__file__)))


def sh(cmd, cwd=None, timeout=3600):
  p = subprocess.run(cmd, shell=True, cwd=cwd, stdout=subprocess.PIPE, stderr=subprocess.STDOUT, timeout=timeout)
  return p.returncode, p.stdout.decode("utf-8", "replace")


def main():
  prop, wt, k = sys.argv[1], sys.argv[2], sys.argv[3]
  patch = os.path.join(wt, "refac%s.diff" % k)
  note = json.load(open(os.path.join(wt, "note%s.json" % k)))
  rc, o = sh("git -C /repo status --short")
  if o.strip():
    print("/repo is not clean:", o)
    sys.exit(4)
  dst = os.path.join(VERIF, "harmless", "%s_%s" % (prop, k))
  os.makedirs(dst, exist_ok=True)
  shutil.copy(patch, os.path.join(dst, "patch.diff"))
  rc, o = sh("git -C /repo apply %s" % os.path.join(dst, "patch.diff"))
  if rc != 0:
    print("patch does not apply to /repo:", o)
    sys.exit(2)
  ep = os.path.join(VERIF, "evidence", prop + ".json")
  saved = open(ep).read() if os.path.exists(ep) else None
  try:
    # baseline tests must still pass with the refactoring (otherwise it is not harmless)
    rct, ot = sh("cd /repo && timeout 900 /venv/bin/python -m pytest -q -p no:cacheprovider --timeout=900 --continue-on-collection-errors 2>&1 | tail -1")
    rc, o = sh("./check %s --tier quick" % prop, cwd=VERIF, timeout=7200)
  finally:
    sh("git -C /repo checkout -- .")
    if saved is not None:
      open(ep, "w").write(saved)
  lines = o.splitlines()
  viol = [l[:400] for l in lines if l.startswith("VIOLATION")]
  und = [l[:300] for l in lines if l.startswith("UNDECIDED")]
  summ = [l for l in lines if l.startswith("property=")][-1:]
  note.update({"property": prop, "tests_summary": ot.strip(), "check_exit": rc, "violations": viol[:5], "undecided": und[:5],
               "summary_line": summ, "false_alarm": bool(viol) or rc == 1})
  json.dump(note, open(os.path.join(dst, "note.json"), "w"), indent=1)
  print("RESULT %s_%s exit=%s false_alarm=%s %s %s" % (prop, k, rc, note["false_alarm"], note.get("kind", ""),
                                                       (viol or und or [""])[0][:220]))


main()
