#!/usr/bin/env python3
"""re-run the property's check against a kept behaviour-preserving refactoring (harmless/<ID>/patch.diff) on SCRATCH copies
(a fresh worktree of /repo's HEAD + the patch, a copy of /verif's working files; see seed_eval2.py) - so that many can be
evaluated side by side.  The check must not print a VIOLATION line: acceptable exits are 0 and 2 (UNDECIDED).
usage: tools/harmless_recheck.py <ID> [-j N]      e.g. C03_2"""
import json, os, subprocess, sys, shutil, tempfile

VERIF = os.path.dirname(os.path.dirname(os.path.abspath(__file__)))


def sh(cmd, cwd=None, timeout=7200, env=None):
  p = subprocess.run(cmd, shell=True, cwd=cwd, stdout=subprocess.PIPE, stderr=subprocess.STDOUT, timeout=timeout, env=env)
  return p.returncode, p.stdout.decode("utf-8", "replace")


def main():
  name = sys.argv[1]
  prop = name.split("_")[0]
  jobs = int(sys.argv[sys.argv.index("-j") + 1]) if "-j" in sys.argv else 5
  dst = os.path.join(VERIF, "harmless", name)
  note = json.load(open(os.path.join(dst, "note.json")))
  scratch = tempfile.mkdtemp(prefix="harmless_")
  repo, verif = os.path.join(scratch, "repo"), os.path.join(scratch, "verif")
  try:
    rc, o = sh("git -C /repo worktree add --detach %s HEAD" % repo)
    rc, o = sh("git apply --3way %s 2>&1 || git apply %s" % (os.path.join(dst, "patch.diff"), os.path.join(dst, "patch.diff")), cwd=repo)
    rc2, st = sh("git status --short", cwd=repo)
    if "UU " in st or (rc != 0 and not st.strip()):
      note.update({"recheck": "patch no longer applies to /repo's HEAD (the code it refactors was repaired since): not re-run"})
      json.dump(note, open(os.path.join(dst, "note.json"), "w"), indent=1)
      print("RESULT %s does-not-apply" % name)
      return
    os.makedirs(verif)
    for n in ("check", "pyvc", "contracts", "spec", "known_findings.json", "not_decided.json", "MANIFEST.json", "properties.jsonl"):
      src = os.path.join(VERIF, n)
      (shutil.copytree if os.path.isdir(src) else shutil.copy)(src, os.path.join(verif, n))
    env = dict(os.environ, PYVC_REPO=repo, VERIF_JOBS=str(jobs))
    rc, o = sh("./check %s --tier quick" % prop, cwd=verif, env=env)
  finally:
    sh("git -C /repo worktree remove --force %s" % repo)
    shutil.rmtree(scratch, ignore_errors=True)
  lines = [l.replace(verif, "/verif").replace(repo, "/repo") for l in o.splitlines()]
  viol = [l[:400] for l in lines if l.startswith("VIOLATION")]
  und = [l[:300] for l in lines if l.startswith("UNDECIDED")]
  err = [l[:300] for l in lines if l.startswith("CHECKER")]
  summ = [l for l in lines if l.startswith("property=")][-1:]
  note.update({"check_exit": rc, "violations": viol[:5], "undecided": und[:5], "checker_errors": err[:3], "summary_line": summ,
               "false_alarm": bool(viol) or rc == 1, "recheck": "re-run on a scratch worktree of /repo HEAD (tools/harmless_recheck.py)"})
  json.dump(note, open(os.path.join(dst, "note.json"), "w"), indent=1)
  print("RESULT %s exit=%s false_alarm=%s %s" % (name, rc, note["false_alarm"], (viol or und or err or [""])[0][:220]))


main()
