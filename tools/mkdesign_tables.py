#!/usr/bin/env python3
"""regenerates the machine-derived tables of DESIGN.md (between the BEGIN/END GENERATED markers):
repairs and open findings from known_findings.json, the seeded-change table from seeded/*/meta.json"""
import json, os, glob, re, subprocess
HERE = os.path.dirname(os.path.dirname(os.path.abspath(__file__)))


def esc(s):
  return str(s).replace("|", "\\|").replace("\n", " ")


def fixes():
  d = json.load(open(os.path.join(HERE, "known_findings.json")))["entries"]
  out = ["| property | commit in /repo | what failed (input / call site) | obligation that failed before the repair |", "|---|---|---|---|"]
  for e in d:
    if e["status"] == "fixed":
      what = re.sub(r"^fixed: property=\S+ \S+ ", "", e["what"])
      out.append("| %s | `%s` | %s | `%s/%s` |" % (e["property"], e["commit"], esc(what), e["unit"], esc(e["obligation"])))
  return "\n".join(out)


def findings():
  d = json.load(open(os.path.join(HERE, "known_findings.json")))["entries"]
  out = ["| property | unit / obligation | what fails |", "|---|---|---|"]
  for e in d:
    if e["status"] == "finding":
      out.append("| %s | `%s` / `%s` | %s |" % (e["property"], e["unit"], esc(e["obligation"]), esc(e["what"])))
  return "\n".join(out)


def seeded():
  out = ["| seeded change | file / function | what was changed | manifests when | caught by (first failing obligation) |", "|---|---|---|---|---|"]
  for p in sorted(glob.glob(os.path.join(HERE, "seeded", "*", "meta.json"))):
    m = json.load(open(p))
    name = os.path.basename(os.path.dirname(p))
    res = m.get("check_results", {}).get(m["property"], {})
    if m.get("caught"):
      v = res.get("violations", [""])[0]
      ob = re.search(r"obligation=(\S+)", v)
      caught = "`./check %s` exit 1: `%s`" % (m["property"], ob.group(1) if ob else "?")
      if m.get("caught_after"):
        caught += " (%s)" % m["caught_after"]
    else:
      caught = "**missed** (exit %s)" % res.get("exit")
      if m.get("missed_because"):
        caught += ": " + m["missed_because"]
    out.append("| %s | %s `%s` | %s | %s | %s |" % (name, esc(m.get("file", "")), esc(m.get("function", "")), esc(m.get("summary", "")),
                                                   esc(m.get("manifests_when", "")), esc(caught)))
  return "\n".join(out)


def harmless():
  out = ["| refactoring | file / functions | kind | check result |", "|---|---|---|---|"]
  for p in sorted(glob.glob(os.path.join(HERE, "harmless", "*", "note.json"))):
    m = json.load(open(p))
    name = os.path.basename(os.path.dirname(p))
    rc = m.get("check_exit")
    if m.get("false_alarm"):
      res = "**false alarm** (exit %s): %s" % (rc, esc((m.get("violations") or [""])[0][:160]))
      if m.get("fixed_by"):
        res += " - " + m["fixed_by"]
    elif rc == 0:
      res = "exit 0, all obligations discharged"
    else:
      res = "exit 2 UNDECIDED (no alarm): " + esc((m.get("undecided") or [""])[0].split("reason=")[-1][:160])
    out.append("| %s | %s `%s` | %s | %s |" % (name, esc(m.get("file", "")), esc(", ".join(m.get("functions", []))[:120]), esc(m.get("kind", "")), res))
  return "\n".join(out)


def main():
  p = os.path.join(HERE, "DESIGN.md")
  s = open(p).read()
  for tag, fn in (("FIXES", fixes), ("FINDINGS", findings), ("SEEDED", seeded), ("HARMLESS", harmless)):
    b, e = "<!-- BEGIN GENERATED %s -->" % tag, "<!-- END GENERATED %s -->" % tag
    if b in s and e in s:
      i, j = s.index(b) + len(b), s.index(e)
      s = s[:i] + "\n" + fn() + "\n" + s[j:]
  open(p, "w").write(s)


main()
