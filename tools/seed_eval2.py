#!/usr/bin/env python3
"""like seed_eval.py, but the check runs on SCRATCH copies (so that several changes can be evaluated side by side and
/repo / /verif stay usable meanwhile): a fresh worktree of /repo's HEAD with the patch applied and a copy of /verif's
working files, PYVC_REPO pointing the copy's ./check at that worktree.  Both are removed afterwards.

usage: tools/seed_eval2.py <PROPERTY> <agent worktree> <k> --as <name> [--also ID,ID] [-j N] [--recheck]
  --recheck: the change is already kept under seeded/<PROPERTY>_<name>; only step 3 is repeated
  1. in the agent's worktree: demo on clean code prints PROPERTY HOLDS, with the patch PROPERTY VIOLATED; baseline tests pass
  2. copies patch / demo / meta to /verif/seeded/<PROPERTY>_<name>/
  3. scratch worktree + patch, scratch /verif copy, ./check, records the outcome in meta.json"""
import json, os, subprocess, sys, shutil, tempfile

VERIF = os.path.dirname(os.path.dirname(os.path.abspath(__file__)))


def sh(cmd, cwd=None, timeout=3600, env=None):
  p = subprocess.run(cmd, shell=True, cwd=cwd, stdout=subprocess.PIPE, stderr=subprocess.STDOUT, timeout=timeout, env=env)
  return p.returncode, p.stdout.decode("utf-8", "replace")


def confirm(wt, k):
  patch, demo = "seed%s.diff" % k, "demo%s.py" % k
  out = {}
  sh("git checkout -- pox", cwd=wt)
  rc, o = sh("timeout 120 /venv/bin/python %s" % demo, cwd=wt)
  out["clean_demo_holds"] = "PROPERTY HOLDS" in o and "PROPERTY VIOLATED" not in o
  rc, o = sh("git apply %s" % patch, cwd=wt)
  if rc != 0:
    print("patch does not apply in worktree:", o)
    sys.exit(2)
  rc, o = sh("timeout 120 /venv/bin/python %s" % demo, cwd=wt)
  out["patched_demo_violates"] = "PROPERTY VIOLATED" in o
  out["demo_output_tail"] = [l[:400] for l in o.strip().splitlines()[-3:]]
  jx = tempfile.mktemp(suffix=".xml", prefix="seed_junit_")
  rc, o = sh("timeout 900 /venv/bin/python -m pytest -q -p no:cacheprovider --timeout=900 --continue-on-collection-errors "
             "--junitxml=%s" % jx, cwd=wt)
  import xml.etree.ElementTree as ET
  passed = set()
  try:
    for tc in ET.parse(jx).getroot().iter("testcase"):
      if not list(tc):
        passed.add("%s::%s" % (tc.get("classname"), tc.get("name")))
  except Exception as e:
    print("junit parse failed", e)
  if os.path.exists(jx):
    os.remove(jx)
  base = json.load(open("/root/.vp/BASELINE.json"))["stable_pass"]
  missing = [t for t in base if t not in passed]
  out["baseline_tests_pass"] = not missing
  out["baseline_missing"] = missing[:5]
  sh("git checkout -- pox", cwd=wt)
  return out


def run_check(props, patch, tier, jobs):
  scratch = tempfile.mkdtemp(prefix="seedeval_")
  repo, verif = os.path.join(scratch, "repo"), os.path.join(scratch, "verif")
  results = {}
  try:
    rc, o = sh("git -C /repo worktree add --detach %s HEAD" % repo)
    if rc != 0:
      raise RuntimeError("worktree: " + o)
    rc, o = sh("git apply %s" % patch, cwd=repo)
    if rc != 0:
      raise RuntimeError("patch does not apply to /repo's HEAD: " + o)
    os.makedirs(verif)
    for n in ("check", "pyvc", "contracts", "spec", "known_findings.json", "not_decided.json", "MANIFEST.json", "properties.jsonl"):
      src = os.path.join(VERIF, n)
      (shutil.copytree if os.path.isdir(src) else shutil.copy)(src, os.path.join(verif, n))
    env = dict(os.environ, PYVC_REPO=repo, VERIF_JOBS=str(jobs))
    for pid in props:
      rc, o = sh("./check %s --tier %s" % (pid, tier), cwd=verif, timeout=7200, env=env)
      lines = [l.replace(verif, "/verif").replace(repo, "/repo") for l in o.splitlines()
               if l.startswith("VIOLATION") or l.startswith("UNDECIDED") or l.startswith("property=") or l.startswith("CHECKER")]
      results[pid] = {"exit": rc, "violations": [l[:400] for l in lines if l.startswith("VIOLATION")][:4],
                      "n_violation_lines": len([l for l in lines if l.startswith("VIOLATION")]),
                      "undecided": [l[:300] for l in lines if l.startswith("UNDECIDED")][:3],
                      "errors": [l[:300] for l in lines if l.startswith("CHECKER")][:3],
                      "summary": [l for l in lines if l.startswith("property=")][-1:]}
  finally:
    sh("git -C /repo worktree remove --force %s" % repo)
    shutil.rmtree(scratch, ignore_errors=True)
  return results


def main():
  prop, wt, k = sys.argv[1], sys.argv[2], sys.argv[3]
  name = sys.argv[sys.argv.index("--as") + 1]
  tier = sys.argv[sys.argv.index("--tier") + 1] if "--tier" in sys.argv else "quick"
  also = sys.argv[sys.argv.index("--also") + 1].split(",") if "--also" in sys.argv else []
  jobs = int(sys.argv[sys.argv.index("-j") + 1]) if "-j" in sys.argv else 6
  dst = os.path.join(VERIF, "seeded", "%s_%s" % (prop, name))
  if "--recheck" in sys.argv:
    meta = json.load(open(os.path.join(dst, "meta.json")))
  else:
    meta = json.load(open(os.path.join(wt, "meta%s.json" % k)))
    conf = confirm(wt, k)
    print("confirmation:", json.dumps(conf))
    if not all(conf[x] for x in ("clean_demo_holds", "patched_demo_violates", "baseline_tests_pass")):
      print("RESULT %s_%s NOT CONFIRMED - not kept" % (prop, name))
      sys.exit(3)
    os.makedirs(dst, exist_ok=True)
    shutil.copy(os.path.join(wt, "seed%s.diff" % k), os.path.join(dst, "patch.diff"))
    shutil.copy(os.path.join(wt, "demo%s.py" % k), os.path.join(dst, "demonstration.py"))
    meta.update({"property": prop, "confirmed_by_main_session": conf})
  results = run_check([prop] + also, os.path.join(dst, "patch.diff"), tier, jobs)
  meta.update({"check_tier": tier, "check_results": results, "check_ran_on": "scratch worktree of /repo HEAD + patch (tools/seed_eval2.py)",
               "caught": results[prop]["exit"] == 1 and results[prop]["n_violation_lines"] > 0})
  json.dump(meta, open(os.path.join(dst, "meta.json"), "w"), indent=1)
  print("RESULT %s_%s caught=%s exit=%s %s" % (prop, name, meta["caught"], results[prop]["exit"],
                                              (results[prop]["violations"] or results[prop]["undecided"] or results[prop]["errors"] or [""])[0][:260]))


main()
