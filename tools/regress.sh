#!/bin/bash
# runs the quick (or given) tier of all 20 properties on the current /repo tree, one after the other; prints the summary lines
cd "$(dirname "$0")/.."
tier=${1:-quick}
for i in 01 02 03 04 05 06 07 08 09 10 11 12 13 14 15 16 17 18 19 20; do
  ./check C$i --tier $tier 2>&1 | grep "^VIOL\|^UNDEC\|^CHECKER\|^property" | cut -c1-260
  echo "exit=$? C$i"
done
