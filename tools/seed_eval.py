#!/usr/bin/env python3
"""confirm a seeded change made by a sub-agent in its scratch worktree and run the property's check against it.

usage: tools/seed_eval.py <PROPERTY> <worktree> <k> [--tier quick|thorough] [--also ID,ID]
  1. in the worktree: demo on clean code prints PROPERTY HOLDS, with the patch PROPERTY VIOLATED; baseline tests still pass
  2. copies patch / demo / meta to /verif/seeded/<PROPERTY>_<k>/
  3. applies the patch to /repo, runs ./check, undoes it (git checkout -- .), records the outcome in meta.json"""
import json, os, subprocess, sys, shutil

VERIF = os.path.dirname(os.path.dirname(os.path.abspath(__file__)))


def sh(cmd, cwd=None, timeout=3600):
  p = subprocess.run(cmd, shell=True, cwd=cwd, stdout=subprocess.PIPE, stderr=subprocess.STDOUT, timeout=timeout)
  return p.returncode, p.stdout.decode("utf-8", "replace")


def main():
  prop, wt, k = sys.argv[1], sys.argv[2], sys.argv[3]
  tier = "quick"
  also = []
  if "--tier" in sys.argv:
    tier = sys.argv[sys.argv.index("--tier") + 1]
  if "--also" in sys.argv:
    also = sys.argv[sys.argv.index("--also") + 1].split(",")
  patch = os.path.join(wt, "seed%s.diff" % k)
  demo = os.path.join(wt, "demo%s.py" % k)
  meta = json.load(open(os.path.join(wt, "meta%s.json" % k)))
  out = {"confirmed": {}}
  sh("git checkout -- pox", cwd=wt)
  rc, o = sh("timeout 120 /venv/bin/python %s" % os.path.basename(demo), cwd=wt)
  out["confirmed"]["clean_demo_holds"] = "PROPERTY HOLDS" in o and "PROPERTY VIOLATED" not in o
  rc, o = sh("git apply %s" % os.path.basename(patch), cwd=wt)
  if rc != 0:
    print("patch does not apply in worktree:", o)
    sys.exit(2)
  rc, o = sh("timeout 120 /venv/bin/python %s" % os.path.basename(demo), cwd=wt)
  out["confirmed"]["patched_demo_violates"] = "PROPERTY VIOLATED" in o
  out["confirmed"]["demo_output_tail"] = o.strip().splitlines()[-3:]
  rc, o = sh("timeout 900 /venv/bin/python -m pytest -q -p no:cacheprovider --timeout=900 --continue-on-collection-errors "
             "--junitxml=/tmp/seed_junit.xml", cwd=wt)
  import xml.etree.ElementTree as ET
  passed = set()
  try:
    for tc in ET.parse("/tmp/seed_junit.xml").getroot().iter("testcase"):
      if not list(tc):
        passed.add("%s::%s" % (tc.get("classname"), tc.get("name")))
  except Exception as e:
    print("junit parse failed", e)
  base = json.load(open("/root/.vp/BASELINE.json"))["stable_pass"]
  missing = [t for t in base if t not in passed]
  out["confirmed"]["baseline_tests_pass"] = not missing
  out["confirmed"]["baseline_missing"] = missing[:5]
  sh("git checkout -- pox", cwd=wt)
  os.remove("/tmp/seed_junit.xml") if os.path.exists("/tmp/seed_junit.xml") else None
  ok = all(out["confirmed"][x] for x in ("clean_demo_holds", "patched_demo_violates", "baseline_tests_pass"))
  print("confirmation:", json.dumps(out["confirmed"]))
  if not ok:
    print("NOT CONFIRMED - not kept")
    sys.exit(3)
  name = sys.argv[sys.argv.index("--as") + 1] if "--as" in sys.argv else k
  dst = os.path.join(VERIF, "seeded", "%s_%s" % (prop, name))
  os.makedirs(dst, exist_ok=True)
  shutil.copy(patch, os.path.join(dst, "patch.diff"))
  shutil.copy(demo, os.path.join(dst, "demonstration.py"))
  # run the checks against the change
  rc, o = sh("git -C /repo status --short")
  if o.strip():
    print("/repo is not clean:", o)
    sys.exit(4)
  rc, o = sh("git -C /repo apply %s" % os.path.join(dst, "patch.diff"))
  if rc != 0:
    print("patch does not apply to /repo:", o)
    sys.exit(2)
  results = {}
  # the seeded run rewrites evidence/<id>.json with a violating run: keep the clean run's file
  saved = {}
  for pid in [prop] + also:
    ep = os.path.join(VERIF, "evidence", pid + ".json")
    if os.path.exists(ep):
      saved[ep] = open(ep).read()
  try:
    for pid in [prop] + also:
      rc, o = sh("./check %s --tier %s" % (pid, tier), cwd=VERIF, timeout=7200)
      lines = [l for l in o.splitlines() if l.startswith("VIOLATION") or l.startswith("UNDECIDED") or l.startswith("property=")]
      results[pid] = {"exit": rc, "violations": [l[:400] for l in lines if l.startswith("VIOLATION")][:4],
                      "n_violation_lines": len([l for l in lines if l.startswith("VIOLATION")]),
                      "undecided": [l[:300] for l in lines if l.startswith("UNDECIDED")][:3],
                      "summary": [l for l in lines if l.startswith("property=")][-1:]}
  finally:
    sh("git -C /repo checkout -- .")
    for ep, txt in saved.items():
      open(ep, "w").write(txt)
  meta.update({"property": prop, "confirmed_by_main_session": out["confirmed"], "check_tier": tier, "check_results": results,
               "caught": results[prop]["exit"] == 1 and results[prop]["n_violation_lines"] > 0})
  json.dump(meta, open(os.path.join(dst, "meta.json"), "w"), indent=1)
  print("RESULT %s_%s caught=%s exit=%s %s" % (prop, name, meta["caught"], results[prop]["exit"],
                                              (results[prop]["violations"] or results[prop]["undecided"] or [""])[0][:260]))


main()
