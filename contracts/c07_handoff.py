"""C07 - the hand-off between foreign threads and the scheduler, as far as a contract over ONE call / ONE generator reaches
(added 2026-09-25, after the evaluator learnt to run generators).

The property itself quantifies over interleavings of OS threads, which contract-based verification of single calls does
not decide (DESIGN 0.3).  What it CAN decide is the sequential protocol each side of the hand-off follows - the order of
its own queue / ping / lock / event operations - on which every interleaving argument for these functions rests:

  CallLaterTask.callLater   appends the call, THEN pings, unconditionally (a ping that is skipped or made before the append
                            leaves an entry nobody is woken for)
  CallLaterTask.run         one round: pongAll FIRST, then drain - each queued call exactly once, in order, an exception in
                            one call does not stop the next - then back to Select on the pinger (a pong after the drain
                            would swallow the ping of an entry queued in between)
  ScheduleTask.run          queues its task at the front unless it is already queued (a task woken twice is queued once), then
                            parks itself (yields False)
  SyncTask.run              step 1 gives the slice away holding both locks; step 2 releases inlock, THEN blocks on outlock, and
                            ends (the foreign thread is let in only while the scheduler thread sits inside SyncTask's step)
  Synchronizer.__enter__/__exit__   outermost enter starts a SyncTask and blocks on its inlock; outermost exit releases its outlock
  SelectHub.idle / break_idle (threaded hub)   idle waits, THEN clears the event (a clear before the wait would wipe a set()
                            made since the scheduler last looked at its queue); break_idle sets it
These are necessary conditions of the interleaving property stated as order contracts; that they are sufficient for every
interleaving is an argument, not decided (not_decided.json)."""
from pyvc.api import unit, Case, CallSpec
import pox.lib.recoco.recoco as R
from pox.lib.recoco.recoco import BaseTask, CallLaterTask, ScheduleTask, SyncTask, Synchronizer, SelectHub, Select, Scheduler
from contracts.c06_scheduler import RC, Hub, Logger

P = "C07"


class Trace(object):
  def __init__(self):
    self.log = []


class Pinger(object):
  """stand-in for pox.lib.util's pinger: records when it is pinged / ponged and how long the call queue was then"""
  def ping(self):
    self.trace.log.append(("ping", len(self.owner._calls)))

  def pongAll(self):
    self.trace.log.append(("pong", len(self.owner._calls)))


def recorded_call(trace, i, fail):
  trace.log.append(("call", i))
  if fail:
    raise ValueError("handed-over function fails")


def _mk_call_later(n_queued):
  def u(b):
    tr = b.raw_new(Trace, log=b.list([]))
    old = [(recorded_call, (tr, i, False), {}) for i in range(n_queued)]
    pinger = b.raw_new(Pinger, trace=tr, owner=None)
    t = b.raw_new(CallLaterTask, _pinger=pinger, _calls=b.deque(list(old)), id=1, priority=1)
    b.set(pinger, "owner", t)
    x = b.int("x", 0, 9)
    def run(t):
      t.callLater(recorded_call, tr, 9, False, key=x)
      return ([e for e in t._calls], [e for e in tr.log])
    return Case(run, [t], raises={}, ensures={
      "the_call_is_queued_behind_those_already_waiting":
        lambda res: len(res[0]) == n_queued + 1 and all([res[0][i] is old[i] or res[0][i] == old[i] for i in range(n_queued)])
        and res[0][n_queued][0] is recorded_call and res[0][n_queued][1] == (tr, 9, False) and res[0][n_queued][2] == {"key": x},
      "the_task_is_pinged_once_after_the_call_was_queued_whatever_was_queued_before":
        lambda res: res[1] == [("ping", n_queued + 1)],
    })
  u.__name__ = "call_later_queues_then_pings_with_%d_waiting" % n_queued
  u.bound = "0..2 calls already queued"
  unit(P, target=RC + "CallLaterTask.callLater")(u)


for _n in (0, 1, 2):
  _mk_call_later(_n)


def drive_call_later(t, tr, batches):
  """play the scheduler for the CallLaterTask: resume it once per batch; before each resumption the batch is queued the way
  callLater does it"""
  g = t.run()
  ys = [next(g)]
  for batch in batches:
    for c in batch:
      t.callLater(*c)
    tr.log.append(("resume",))
    ys.append(g.send(([t._pinger], [], [])))
  return ([type(y) is Select and y._args[0] == [t._pinger] for y in ys], [e for e in tr.log], len(t._calls))


def _mk_call_later_run(sizes):
  def u(b):
    tr = b.raw_new(Trace, log=b.list([]))
    pinger = b.raw_new(Pinger, trace=tr, owner=None)
    t = b.raw_new(CallLaterTask, _pinger=pinger, _calls=b.deque([]), id=1, priority=1)
    b.set(pinger, "owner", t)
    fails = [[b.bool("call%d_%d_fails" % (bi, i)) for i in range(n)] for bi, n in enumerate(sizes)]
    batches = [[(recorded_call, tr, bi * 10 + i, fails[bi][i]) for i in range(n)] for bi, n in enumerate(sizes)]
    def expected():
      out = []
      for bi, n in enumerate(sizes):
        out += [("ping", i + 1) for i in range(n)]
        out += [("resume",), ("pong", n)]
        out += [("call", bi * 10 + i) for i in range(n)]
      return out
    return Case(drive_call_later, [t, tr, batches], raises={}, ensures={
      "it_always_goes_back_to_waiting_for_its_pinger": lambda res: all(res[0]) and len(res[0]) == len(sizes) + 1,
      "each_round_pongs_first_then_runs_every_queued_call_once_in_order_even_after_a_failing_one":
        lambda res: res[1] == expected(),
      "the_queue_is_empty_after_each_round": lambda res: res[2] == 0,
    })
  u.__name__ = "call_later_task_rounds_%s" % "_".join(str(n) for n in sizes)
  u.bound = "rounds with %s calls queued; each call may raise" % (sizes,)
  unit(P, target=RC + "CallLaterTask.run / CallLaterTask.callLater")(u)


_mk_call_later_run([0])
_mk_call_later_run([1])
_mk_call_later_run([3])
_mk_call_later_run([2, 0, 1])


# ---------------------------------------------------------------- ScheduleTask (schedule() from a foreign thread)

def _mk_schedule_task(already):
  def u(b):
    hub = b.raw_new(Hub)
    other = b.raw_new(BaseTask, priority=1, id=7)
    task = b.raw_new(BaseTask, priority=1, id=8)
    s = b.raw_new(Scheduler, _ready=b.deque([other, task] if already else [other]), _selectHub=hub, _hasQuit=False,
                  _allDone=False, _thread=None)
    stask = b.raw_new(ScheduleTask, _scheduler=s, _task=task, id=9, priority=1)
    cs = {}
    if b.mode == "sym":
      b.st.ghost["log"] = ()
      cs = {"contracts.c06_scheduler:Hub.break_idle": Logger("break_idle", "wakes the select hub")}
    def run(stask, s):
      g = stask.run()
      y = next(g)
      ended = False
      try:
        next(g)
      except StopIteration:
        ended = True
      return (y, ended, [t for t in s._ready])
    return Case(run, [stask, s], calls=cs, raises={}, ensures={
      "the_task_is_queued_exactly_once_at_the_front_unless_already_queued":
        lambda res: (len(res[2]) == 2 and res[2][0] is other and res[2][1] is task) if already
        else (len(res[2]) == 2 and res[2][0] is task and res[2][1] is other),
      "the_helper_parks_itself_and_ends": lambda res: res[0] is False and res[1] is True,
    })
  u.__name__ = "schedule_task_%s" % ("already_queued" if already else "not_queued")
  u.bound = "one other ready task"
  unit(P, target=RC + "ScheduleTask.run")(u)


_mk_schedule_task(False)
_mk_schedule_task(True)


# ---------------------------------------------------------------- Scheduler.schedule called on a thread that is not the scheduler's

class ForeignThread(object):
  pass


def _mk_schedule_from_a_foreign_thread(have_default, running=True):
  def u(b):
    hub, hub2 = b.raw_new(Hub), b.raw_new(Hub)
    other = b.raw_new(BaseTask, priority=1, id=7)
    task = b.raw_new(BaseTask, priority=1, id=8)
    # running=False: a scheduler that has no thread of its own (yet) - nobody can claim to be on its thread, so every caller
    # goes through the helper task (seeded change C07_8 let them take the unsynchronised check-then-append path)
    own_thread = b.raw_new(ForeignThread) if running else None
    s = b.raw_new(Scheduler, _ready=b.deque([other]), _selectHub=hub, _hasQuit=False, _allDone=False, _thread=own_thread)
    # another scheduler that happens to be the process-wide default one (or no default at all): the hand-off must not go there
    d = b.raw_new(Scheduler, _ready=b.deque([]), _selectHub=hub2, _hasQuit=False, _allDone=False, _thread=None) if have_default else None
    first = b.bool("first")
    cs = {}
    if b.mode == "sym":
      b.st.ghost["log"] = ()
      b.st.ghost[("$global", "pox.lib.recoco.recoco", "defaultScheduler")] = d
      caller = b.raw_new(ForeignThread)
      cs = {"threading:current_thread": CallSpec("assumed", returns=lambda I, st, a, k: caller,
                                                 envelope="called on a thread that is not the scheduler's"),
            "contracts.c06_scheduler:Hub.break_idle": Logger("break_idle", "wakes the select hub")}
    else:
      from contracts.c06_scheduler import LOG
      del LOG[:]
      R.defaultScheduler = d
    def run(s):
      r = s.schedule(task, first)
      mine = [t for t in s._ready]
      theirs = [t for t in d._ready] if d is not None else []
      return (r, mine, theirs)
    from contracts.c06_scheduler import log as slog
    return Case(run, [s], calls=cs, raises={}, ensures={
      "the_task_itself_is_not_touched_by_the_foreign_thread": lambda res: all([t is not task for t in res[1]]) and res[1][0] is other,
      "a_helper_task_carrying_the_request_is_queued_once_on_THIS_scheduler":
        lambda res: len(res[1]) == 2 and type(res[1][1]) is ScheduleTask and res[1][1]._scheduler is s and res[1][1]._task is task,
      "nothing_is_queued_on_any_other_scheduler": lambda res: res[2] == [],
      "this_scheduler_is_woken": lambda res: [e[0] for e in slog(b)] == ["break_idle"],
    })
  u.__name__ = "schedule_from_a_foreign_thread_%s%s" % ("another_default_scheduler" if have_default else "no_default_scheduler",
                                                       "" if running else "_scheduler_without_a_thread")
  u.bound = "one other ready task"
  unit(P, target=RC + "Scheduler.schedule / BaseTask.start")(u)


_mk_schedule_from_a_foreign_thread(True)
_mk_schedule_from_a_foreign_thread(False)
_mk_schedule_from_a_foreign_thread(True, running=False)


# ---------------------------------------------------------------- Synchronizer / SyncTask

class LockStub(object):
  """threading.Lock stand-in that records the order of operations (blocking is the callee's business)"""
  def acquire(self):
    self.trace.log.append(("acquire", self.name))
    return True

  def release(self):
    self.trace.log.append(("release", self.name))


@unit(P, target=RC + "SyncTask.run")
def sync_task_lets_the_foreign_thread_in_only_inside_its_own_step(b):
  tr = b.raw_new(Trace, log=b.list([]))
  t = b.raw_new(SyncTask, inlock=b.raw_new(LockStub, trace=tr, name="in"), outlock=b.raw_new(LockStub, trace=tr, name="out"),
                id=1, priority=1)
  def run(t):
    g = t.run()
    y = next(g)
    first = [e for e in tr.log]
    ended = False
    try:
      next(g)
    except StopIteration:
      ended = True
    return (y, first, [e for e in tr.log], ended)
  return Case(run, [t], raises={}, ensures={
    "the_first_step_gives_the_slice_away_with_both_locks_still_held": lambda res: res[0] == 0 and res[1] == [],
    "the_second_step_releases_inlock_then_blocks_on_outlock_and_ends":
      lambda res: res[2] == [("release", "in"), ("acquire", "out")] and res[3] is True,
  })
sync_task_lets_the_foreign_thread_in_only_inside_its_own_step.bound = "one SyncTask, two resumptions"


class SyncStub(object):
  def start(self, scheduler):
    self.trace.log.append(("start", scheduler))


@unit(P, target=RC + "Synchronizer.__enter__ / __exit__")
def synchronizer_blocks_on_inlock_and_releases_outlock_at_the_outermost_level(b):
  tr = b.raw_new(Trace, log=b.list([]))
  s = b.raw_new(Scheduler, _ready=b.deque([]), _selectHub=None, _hasQuit=False, _allDone=False, _thread=None)
  sy = b.raw_new(Synchronizer, scheduler=s, syncer=None, enter=0)
  stub = b.raw_new(SyncStub, trace=tr, inlock=b.raw_new(LockStub, trace=tr, name="in"),
                   outlock=b.raw_new(LockStub, trace=tr, name="out"))
  cs = {}
  if b.mode == "sym":
    cs = {RC + "SyncTask": CallSpec("contract", returns=lambda I, st, a, k: stub,
                                     envelope="SyncTask(): a new task holding both of its locks (constructor: two threading.Lock, "
                                              "both acquired)")}
  else:
    R.SyncTask = lambda: stub
  def run(sy):
    a = sy.__enter__()
    l1 = [e for e in tr.log]
    b2 = sy.__enter__()
    l2 = [e for e in tr.log]
    sy.__exit__(None, None, None)
    l3 = [e for e in tr.log]
    sy.__exit__(None, None, None)
    return (a is stub and b2 is stub, l1, l2, l3, [e for e in tr.log], sy.enter)
  return Case(run, [sy], calls=cs, raises={}, ensures={
    "outermost_enter_starts_the_sync_task_on_the_scheduler_then_blocks_on_its_inlock":
      lambda res: res[0] and res[1] == [("start", s), ("acquire", "in")],
    "nested_enter_and_exit_do_nothing": lambda res: res[2] == res[1] and res[3] == res[1],
    "outermost_exit_releases_outlock_once": lambda res: res[4] == res[1] + [("release", "out")] and res[5] == 0,
  })
synchronizer_blocks_on_inlock_and_releases_outlock_at_the_outermost_level.bound = "nesting depth 2"


# ---------------------------------------------------------------- SelectHub.idle / break_idle

class EventStub(object):
  def wait(self, timeout=None):
    self.trace.log.append(("wait", timeout))
    return True

  def clear(self):
    self.trace.log.append(("clear",))

  def set(self):
    self.trace.log.append(("set",))


def _mk_idle(threaded):
  def u(b):
    tr = b.raw_new(Trace, log=b.list([]))
    hub = b.raw_new(SelectHub, _thread=(b.raw_new(Trace, log=None) if threaded else None), _event=b.raw_new(EventStub, trace=tr),
                    _tasks=b.dict({}), _scheduler=None)
    cs = {}
    if b.mode == "sym":
      b.st.ghost["log"] = ()
      cs = {RC + "SelectHub._select": Logger("select", "one select round (C06 units)"),
            RC + "SelectHub._cycle": Logger("cycle", "wakes the hub's own select through its pinger")}
    else:
      from contracts.c06_scheduler import LOG
      del LOG[:]
      hub._select = lambda tasks, rets: LOG.append(("select", tasks, rets))
      hub._cycle = lambda: LOG.append(("cycle",))
    def run(hub):
      hub.idle()
      l1 = [e for e in tr.log]
      hub.break_idle()
      return (l1, [e for e in tr.log])
    from contracts.c06_scheduler import log as slog
    return Case(run, [hub], calls=cs, raises={}, ensures={
      "idle_waits_up_to_the_cycle_maximum_then_clears_the_event":
        lambda res: res[0] == ([("wait", R.CYCLE_MAXIMUM), ("clear",)] if threaded else []),
      "break_idle_sets_the_event": lambda res: res[1] == res[0] + ([("set",)] if threaded else []),
      "the_inline_hub_runs_one_select_round_and_is_woken_through_its_pinger":
        lambda res: [e[0] for e in slog(b)] == ([] if threaded else ["select", "cycle"]),
    })
  u.__name__ = "select_hub_idle_%s" % ("threaded" if threaded else "inline")
  u.bound = "one idle / break_idle pair"
  unit(P, target=RC + "SelectHub.idle / break_idle")(u)


_mk_idle(True)
_mk_idle(False)


# ---------------------------------------------------------------- Scheduler.synchronized(): one Synchronizer PER THREAD
# (added 2026-09-25 after seeded change C07_6 cached a single Synchronizer on the scheduler: two foreign threads then share one
# enter counter, and the second walks into the section while the first is still waiting for the cooperative slice to end)
#
# Built by the real Scheduler.__init__ (select hub, lock and thread-local storage are callees), so the contract does not name
# the private field the Synchronizer is kept in.  threading.local() is modelled as what it is for sequential code - an object
# whose attributes are those of the CURRENT thread: `Threads.run_as(t)` swaps the attribute set of every thread-local object
# created so far (natively: the call really runs on another thread).

import threading as _threading
from pyvc.api import native


class Local(object):
  pass


class ThreadLocalSpec(CallSpec):
  def __init__(self):
    CallSpec.__init__(self, "assumed", envelope="threading.local(): an object whose attributes are per thread (the harness switches "
                                                "the attribute set when it switches the current thread)")

  def apply(self, I, f, args, kws, st, ctx, k, node):
    ref = st.alloc("obj", Local, {})
    st.ghost["tl_objs"] = tuple(st.ghost.get("tl_objs", ())) + (ref,)
    return k(st, ref)


class _Threads(object):
  @native
  def run_as(self, st, tid):
    cur = st.ghost.get("tl_cur", 0)
    saved = dict(st.ghost.get("tl_saved", {}))
    for ref in st.ghost.get("tl_objs", ()):
      o = st.obj(ref)
      saved[(cur, ref.oid)] = dict(o.data)
      o.data = dict(saved.get((tid, ref.oid), {}))
    st.ghost["tl_saved"] = saved
    st.ghost["tl_cur"] = tid
    return None


Threads = _Threads()


def on_another_thread(f):
  out = []
  t = _threading.Thread(target=lambda: out.append(f()))
  t.start()
  t.join(20)
  return out[0]


@unit(P, target=RC + "Scheduler.__init__ / Scheduler.synchronized")
def every_thread_gets_its_own_synchronizer(b):
  hub = b.raw_new(Hub)
  sym = b.mode == "sym"
  cs = {}
  if sym:
    cs = {RC + "SelectHub": CallSpec("contract", returns=lambda I, st, a, k: hub, envelope="SelectHub(...): the scheduler's hub (C06)"),
          "_thread:allocate_lock": CallSpec("assumed", returns=lambda I, st, a, k: st.alloc("obj", LockStub, {"trace": None, "name": "lock"}),
                                     envelope="threading.Lock()"),
          "_thread:_local": ThreadLocalSpec()}
  else:
    R.SelectHub = lambda *a, **k: hub
  def run():
    s = Scheduler(isDefaultScheduler=False, startInThread=False, threaded_selecthub=False)
    a1 = s.synchronized()
    a2 = s.synchronized()
    if sym:
      Threads.run_as(1)
      b1 = s.synchronized()
      b2 = s.synchronized()
      Threads.run_as(0)
    else:
      b1, b2 = on_another_thread(lambda: (s.synchronized(), s.synchronized()))
    a3 = s.synchronized()
    return (s, a1, a2, a3, b1, b2)
  return Case(run, [], calls=cs, raises={}, ensures={
    "a_thread_keeps_getting_the_same_synchronizer_bound_to_this_scheduler":
      lambda res: type(res[1]) is Synchronizer and res[1].scheduler is res[0] and res[2] is res[1] and res[3] is res[1]
      and res[5] is res[4],
    "another_thread_gets_a_synchronizer_of_its_own_with_its_own_enter_counter":
      lambda res: type(res[4]) is Synchronizer and res[4] is not res[1] and res[4].scheduler is res[0] and res[4].enter == 0,
  })
every_thread_gets_its_own_synchronizer.bound = "two threads"


# ---------------------------------------------------------------- SelectHub._select woken by its pinger: pong FIRST, then drain
# (added 2026-09-25 after seeded change C07_9 ponged after draining `_incoming`: a registration whose put + ping land between
# the drain and the pong has its ping swallowed - and `_incoming` is only looked at when the pinger is readable, so not even
# the polling timeout picks it up: a callLater from a foreign thread then never runs)

class HubPinger(object):
  def pongAll(self):
    self.trace.log.append(("pong", len(self.queue.items)))


class IncomingQueue(object):
  """stand-in for the hub's thread-safe Queue: records when it is looked at"""
  def empty(self):
    self.trace.log.append(("empty?", len(self.items)))
    return len(self.items) == 0

  def get(self, block=True):
    return self.items.pop(0)

  def task_done(self):
    pass


class SelFnPinged(object):
  def __call__(self, r, w, x, timeout):
    return ([self.pinger], [], [])


def _mk_hub_wakeup(n_new):
  def u(b):
    tr = b.raw_new(Trace, log=b.list([]))
    new = [b.raw_new(BaseTask, priority=1, id=20 + i, rv=None) for i in range(n_new)]
    q = b.raw_new(IncomingQueue, trace=tr, items=b.list([(t, None, None, None, None) for t in new]))
    pinger = b.raw_new(HubPinger, trace=tr, queue=q)
    sel = b.raw_new(SelFnPinged, pinger=pinger)
    hub = b.raw_new(SelectHub, _pinger=pinger, _incoming=q, _scheduler=None, _select_func=sel)
    tdict = b.dict({})
    cs = {}
    if b.mode == "sym":
      cs = {"time:time": CallSpec("assumed", returns=lambda I, st, a, k: 1000.0, envelope="clock")}
    def run(hub, tdict):
      hub._select(tdict, {})
      return ([e for e in tr.log], [k_ for k_ in tdict])
    return Case(run, [hub, tdict], calls=cs, raises={}, ensures={
      "the_ping_is_consumed_before_the_queue_of_new_registrations_is_looked_at":
        lambda res: len(res[0]) >= 2 and res[0][0] == ("pong", n_new) and all([e[0] == "empty?" for e in res[0][1:]]),
      "every_queued_registration_is_picked_up": lambda res: len(res[1]) == n_new and all([any([k_ is t for k_ in res[1]]) for t in new]),
    })
  u.__name__ = "hub_woken_by_its_pinger_pongs_then_drains_%d_registrations" % n_new
  u.bound = "0..2 new registrations queued"
  unit(P, target=RC + "SelectHub._select (pinger wake-up)")(u)


for _n in (0, 1, 2):
  _mk_hub_wakeup(_n)
