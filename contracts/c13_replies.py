"""C13 - every switch request is answered once, with its transaction id; invalid requests get the specified
error, never an internal failure.  One unit per handler: the request's fields are symbolic, `raises` is empty
(an exception escaping a handler is "an internal failure"), the send log is ghost state, and the reply must
encode (its real pack() is evaluated in the postcondition)."""
from pyvc.api import unit, Case, CallSpec, native
import pox.openflow.libopenflow_01 as of
from pox.datapaths.switch import SoftwareSwitchBase, SwitchFeatures
from pox.openflow.flow_table import FlowTable
from pox.lib.addresses import EthAddr
import logging

P = "C13"
SW = "pox.datapaths.switch:"
SENT = []


class StubCon(object):
  def send(self, msg):
    SENT.append(msg)


class _G(object):
  @native
  def sent(self, st):
    return list(st.ghost.get("sent", ()))


G = _G()


def sent(b):
  return G.sent() if b.mode == "sym" else list(SENT)


def con_calls(b):
  if b.mode != "sym":
    return {}
  def ghost(I, st, f, args, kws):
    st.ghost["sent"] = tuple(st.ghost.get("sent", ())) + (args[1],)
  return {"contracts.c13_replies:StubCon.send": CallSpec("opaque", ghost=ghost, envelope="the connection queues the message (C20)")}


def switch(b, nports=2):
  con = b.raw_new(StubCon)
  ports = {}
  stats = {}
  pvals = []
  for i in range(1, nports + 1):
    hw = b.bytes("port%d.hw" % i, 6)
    cfg, cbits = b.bits("port%d.config" % i, 7)
    st_, sbits = b.bits("port%d.state" % i, 10)
    p = b.raw_new(of.ofp_phy_port, port_no=i, hw_addr=b.new(EthAddr, hw), name="p%d" % i, config=cfg, state=st_,
                  curr=0, advertised=0, supported=0, peer=0)
    ports[i] = p
    stats[i] = b.new(of.ofp_port_stats, port_no=i)
    pvals.append(dict(hw=hw, config=cfg, cbits=cbits, state=st_, sbits=sbits, obj=p))
  feats = b.raw_new(SwitchFeatures, _cap_info={"cap_flow_stats": 1, "cap_table_stats": 2, "cap_port_stats": 4},
                    _act_info={"act_output": 0, "act_enqueue": 11}, cap_flow_stats=True, cap_table_stats=True,
                    cap_port_stats=True, act_output=True, act_enqueue=True, _locked=True)
  sw = b.raw_new(SoftwareSwitchBase, dpid=b.int("dpid", 0, (1 << 64) - 1), max_buffers=b.int("max_buffers", 0, 0xffffffff),
                 max_entries=b.int("max_entries", 0, 0x7fffffff), miss_send_len=b.int("miss_send_len", 0, 65535),
                 config_flags=b.int("config_flags", 0, 3), _has_sent_hello=b.bool("has_sent_hello"),
                 _connection=con, ports=b.dict(ports), port_stats=b.dict(stats), features=feats,
                 _lookup_count=b.int("lookups", 0, 1 << 60), _matched_count=b.int("matched", 0, 1 << 60),
                 log=logging.getLogger("verif"), name="s1",
                 table=b.raw_new(FlowTable, _table=b.list([]), _eventMixin_handlers={}, _eventMixin_initialized=True))
  if b.mode == "sym":
    b.st.ghost["sent"] = ()
  else:
    del SENT[:]
  return sw, con, pvals


def request(b, cls, **fields):
  m = b.new(cls)
  xid = b.int("xid", 0, 0xffffffff)
  b.set(m, "_xid", xid)
  for k_, v in fields.items():
    b.set(m, k_, v)
  return m, xid


def one_reply(b, cls, xid):
  s = sent(b)
  return len(s) == 1 and type(s[0]) is cls and s[0].xid == xid


def encodes(b):
  """every message handed to the connection can be encoded and declares its own length"""
  for m in sent(b):
    p = m.pack()
    if len(p) != len(m) or p[2] * 256 + p[3] != len(p):
      return False
  return True


def is_error(b, xid, etype, code, req=None):
  s = sent(b)
  return len(s) == 1 and type(s[0]) is of.ofp_error and s[0].xid == xid and s[0].type == etype and s[0].code == code \
    and (req is None or s[0].data == req.pack())


@unit(P, target=SW + "SoftwareSwitchBase._rx_echo_request")
def echo_request(b):
  sw, con, _ = switch(b, 0)
  body = b.bytes("body", None, 0, 2000)
  m, xid = request(b, of.ofp_echo_request, body=body)
  return Case(SoftwareSwitchBase._rx_echo_request, [sw, m, con], calls=con_calls(b), ensures={
    "one_echo_reply_with_the_xid": lambda res: one_reply(b, of.ofp_echo_reply, xid),
    "same_payload": lambda res: sent(b)[0].body == body,
    "reply_encodes": lambda res: encodes(b),
  })


@unit(P, target=SW + "SoftwareSwitchBase._rx_barrier_request")
def barrier_request(b):
  sw, con, _ = switch(b, 0)
  m, xid = request(b, of.ofp_barrier_request)
  return Case(SoftwareSwitchBase._rx_barrier_request, [sw, m, con], calls=con_calls(b), ensures={
    "one_barrier_reply_with_the_xid": lambda res: one_reply(b, of.ofp_barrier_reply, xid),
    "reply_encodes": lambda res: encodes(b),
  })


@unit(P, target=SW + "SoftwareSwitchBase._rx_get_config_request / _rx_set_config")
def get_and_set_config(b):
  sw, con, _ = switch(b, 0)
  m, xid = request(b, of.ofp_get_config_request)
  sc = b.new(of.ofp_set_config)
  nf = b.int("new_flags", 0, 65535)
  nm = b.int("new_miss", 0, 65535)
  b.set(sc, "flags", nf)
  b.set(sc, "miss_send_len", nm)
  def run(sw, sc, m, con):
    sw._rx_set_config(sc, con)
    n_after_set = len(sent(b))
    sw._rx_get_config_request(m, con)
    return n_after_set
  return Case(run, [sw, sc, m, con], calls=con_calls(b), ensures={
    "set_config_sends_nothing": lambda res: res == 0,
    "get_config_reports_what_was_set": lambda res: one_reply(b, of.ofp_get_config_reply, xid)
    and sent(b)[0].flags == nf and sent(b)[0].miss_send_len == nm,
    "reply_encodes": lambda res: encodes(b),
  })


@unit(P, target=SW + "SoftwareSwitchBase._rx_features_request")
def features_request(b):
  sw, con, pv = switch(b, 2)
  m, xid = request(b, of.ofp_features_request)
  dpid = b.get(sw, "dpid")
  nbuf = b.get(sw, "max_buffers")
  return Case(SoftwareSwitchBase._rx_features_request, [sw, m, con], calls=con_calls(b), ensures={
    "one_features_reply_with_the_xid": lambda res: one_reply(b, of.ofp_features_reply, xid),
    "datapath_description": lambda res: sent(b)[0].datapath_id == dpid and sent(b)[0].n_buffers == nbuf
    and sent(b)[0].n_tables == 1 and sent(b)[0].capabilities == 7 and sent(b)[0].actions == (1 << 0) + (1 << 11),
    "all_ports_listed": lambda res: [p.port_no for p in sent(b)[0].ports] == [1, 2],
    "reply_encodes": lambda res: encodes(b),
  })


@unit(P, target=SW + "SoftwareSwitchBase._rx_queue_get_config_request")
def queue_get_config_request(b):
  sw, con, _ = switch(b, 0)
  port = b.int("port", 0, 65535)
  m, xid = request(b, of.ofp_queue_get_config_request, port=port)
  return Case(SoftwareSwitchBase._rx_queue_get_config_request, [sw, m, con], calls=con_calls(b), ensures={
    "one_reply_with_the_xid_and_port": lambda res: one_reply(b, of.ofp_queue_get_config_reply, xid) and sent(b)[0].port == port,
    "reply_encodes": lambda res: encodes(b),
  })


@unit(P, target=SW + "SoftwareSwitchBase._rx_vendor / send_error")
def vendor_is_refused(b):
  sw, con, _ = switch(b, 0)
  data = b.bytes("data", None, 0, 500)
  m, xid = request(b, of.ofp_vendor_generic, vendor=b.int("vendor", 0, 0xffffffff), data=data)
  return Case(SoftwareSwitchBase._rx_vendor, [sw, m, con], calls=con_calls(b), ensures={
    "bad_vendor_error_with_the_xid_and_the_request": lambda res: is_error(b, xid, 1, 3, m),
    "reply_encodes": lambda res: encodes(b),
  })


@unit(P, target=SW + "SoftwareSwitchBase._rx_hello / send_hello")
def hello_is_sent_once(b):
  sw, con, _ = switch(b, 0)
  already = b.get(sw, "_has_sent_hello")
  m, xid = request(b, of.ofp_hello)
  def run(sw, m, con):
    sw._rx_hello(m, con)
    sw._rx_hello(m, con)
    return None
  return Case(run, [sw, m, con], calls=con_calls(b), ensures={
    "at_most_one_hello_ever": lambda res: len(sent(b)) == (0 if already else 1),
    "it_is_a_hello": lambda res: all([type(x) is of.ofp_hello for x in sent(b)]),
    "reply_encodes": lambda res: encodes(b),
  })


# ---------------------------------------------------------------- statistics

def stats_req(b, stype, body):
  m = b.new(of.ofp_stats_request)
  xid = b.int("xid", 0, 0xffffffff)
  b.set(m, "_xid", xid)
  b.set(m, "type", stype)
  b.set(m, "_body", body)
  return m, xid


def handlers_table(b, sw):
  hs = {0: SoftwareSwitchBase._stats_desc, 1: SoftwareSwitchBase._stats_flow, 2: SoftwareSwitchBase._stats_aggregate,
        3: SoftwareSwitchBase._stats_table, 4: SoftwareSwitchBase._stats_port, 5: SoftwareSwitchBase._stats_queue}
  if b.mode == "sym":
    from pyvc.values import BoundMethod
    return b.dict(dict((k_, BoundMethod(v, sw)) for k_, v in hs.items()))
  import types
  return dict((k_, types.MethodType(v, sw)) for k_, v in hs.items())


@unit(P, target=SW + "SoftwareSwitchBase._rx_stats_request / _stats_table")
def table_stats(b):
  sw, con, _ = switch(b, 0)
  b.set(sw, "stats_handlers", handlers_table(b, sw))
  m, xid = stats_req(b, 3, b.new(of.ofp_table_stats_request))
  lc, mc = b.get(sw, "_lookup_count"), b.get(sw, "_matched_count")
  return Case(SoftwareSwitchBase._rx_stats_request, [sw, m, con], calls=con_calls(b), ensures={
    "one_stats_reply_with_the_xid_and_type": lambda res: one_reply(b, of.ofp_stats_reply, xid) and sent(b)[0].type == 3,
    "counters": lambda res: sent(b)[0].body.lookup_count == lc
    and sent(b)[0].body.matched_count == mc and sent(b)[0].body.active_count == 0,
    "reply_encodes": lambda res: encodes(b),
  })


@unit(P, target=SW + "SoftwareSwitchBase._rx_stats_request / _stats_port")
def port_stats(b):
  sw, con, _ = switch(b, 2)
  b.set(sw, "stats_handlers", handlers_table(b, sw))
  pno = b.int("port_no", 0, 65535)
  m, xid = stats_req(b, 4, b.new(of.ofp_port_stats_request, port_no=pno))
  return Case(SoftwareSwitchBase._rx_stats_request, [sw, m, con], calls=con_calls(b), ensures={
    "exactly_one_message_with_the_xid": lambda res: len(sent(b)) == 1 and sent(b)[0].xid == xid,
    "a_stats_reply_of_the_requested_type_or_an_error":
      lambda res: (type(sent(b)[0]) is of.ofp_stats_reply and sent(b)[0].type == 4) or type(sent(b)[0]) is of.ofp_error,
    "existing_port_reports_that_port": lambda res: not (pno == 1 or pno == 2) or sent(b)[0].body.port_no == pno,
    "reply_encodes": lambda res: encodes(b),
  })


@unit(P, target=SW + "SoftwareSwitchBase._rx_stats_request / _stats_queue")
def queue_stats(b):
  sw, con, _ = switch(b, 1)
  b.set(sw, "stats_handlers", handlers_table(b, sw))
  q = b.int("queue_id", 0, 0xffffffff)
  m, xid = stats_req(b, 5, b.new(of.ofp_queue_stats_request, port_no=b.int("port_no", 0, 65535), queue_id=q))
  return Case(SoftwareSwitchBase._rx_stats_request, [sw, m, con], calls=con_calls(b), ensures={
    "exactly_one_message_with_the_xid": lambda res: len(sent(b)) == 1 and sent(b)[0].xid == xid,
    "all_queues_gives_an_empty_reply_a_specific_queue_an_error":
      lambda res: (type(sent(b)[0]) is of.ofp_stats_reply and sent(b)[0].type == 5) if q == 0xffffffff
      else is_error(b, xid, 5, 1),
    "reply_encodes": lambda res: encodes(b),
  })


@unit(P, target=SW + "SoftwareSwitchBase._rx_stats_request (unknown type)")
def unknown_stats_type(b):
  sw, con, _ = switch(b, 0)
  b.set(sw, "stats_handlers", handlers_table(b, sw))
  t = b.int("stats_type", 6, 0xfffe)
  m, xid = stats_req(b, t, b"")
  return Case(SoftwareSwitchBase._rx_stats_request, [sw, m, con], calls=con_calls(b), ensures={
    "bad_stat_error_with_the_xid": lambda res: is_error(b, xid, 1, 2),
    "reply_encodes": lambda res: encodes(b),
  })


# ---------------------------------------------------------------- flow mod with an unknown command, port mod

@unit(P, target=SW + "SoftwareSwitchBase._rx_flow_mod (unknown command)")
def flow_mod_unknown_command(b):
  sw, con, _ = switch(b, 0)
  b.set(sw, "flow_mod_handlers", b.dict({}))
  cmd = b.int("command", 5, 65535)
  m, xid = request(b, of.ofp_flow_mod, command=cmd)
  return Case(SoftwareSwitchBase._rx_flow_mod, [sw, m, con], calls=con_calls(b), ensures={
    "bad_command_error_with_the_xid": lambda res: is_error(b, xid, 3, 4),
    "reply_encodes": lambda res: encodes(b),
  })


@unit(P, target=SW + "SoftwareSwitchBase._rx_port_mod")
def port_mod(b):
  sw, con, pv = switch(b, 1)
  pno = b.int("port_no", 0, 65535)
  hw = b.bytes("pm.hw", 6)
  cfg, cfgbits = b.bits("pm.config", 7)
  msk, mskbits = b.bits("pm.mask", 7)
  m, xid = request(b, of.ofp_port_mod, port_no=pno, hw_addr=b.new(EthAddr, hw), config=cfg, mask=msk, advertise=0)
  old = pv[0]["cbits"]
  # representation invariant of the software switch: "the link state depends only on the configuration"
  # (switch.py, _set_port_config_bit): LINK_DOWN == PORT_DOWN.  The two link-state clauses below go beyond the
  # property's statement and only make sense for ports that satisfy it (2026-09-25: without it they fail for a port
  # created with config up / link down, where a port-mod that changes nothing leaves the link state alone).
  b.assume(pv[0]["sbits"][0] == old[0])
  def cfgbit(i):
    return (pv[0]["obj"].config >> i) % 2
  return Case(SoftwareSwitchBase._rx_port_mod, [sw, m, con], calls=con_calls(b), ensures={
    "unknown_port_is_refused": lambda res: pno == 1 or is_error(b, xid, 4, 0, m),
    "wrong_hardware_address_is_refused": lambda res: pno != 1 or hw == pv[0]["hw"] or is_error(b, xid, 4, 1, m),
    "masked_config_bits_take_the_new_value_others_keep_theirs":
      lambda res: pno != 1 or hw != pv[0]["hw"] or all([
        cfgbit(i) == (old[i] if (mskbits[i] == 0 or i == 1) else cfgbits[i]) for i in range(7)]),
    "link_state_follows_port_down": lambda res: pno != 1 or hw != pv[0]["hw"] or mskbits[0] == 0
    or (pv[0]["obj"].state % 2) == cfgbits[0],
    "at_most_one_port_status_and_only_on_a_link_state_change":
      lambda res: pno != 1 or hw != pv[0]["hw"] or (
        [type(x) for x in sent(b)] == ([of.ofp_port_status] if (mskbits[0] == 1 and cfgbits[0] != pv[0]["sbits"][0]) else [])),
    "reply_encodes": lambda res: encodes(b),
  })


def _mk_port_mod_single_bit(i):
  """the same statement for a port-mod whose mask is the single bit i (concrete mask: the per-bit step
  _set_port_config_bit -> ofp_phy_port.set_config stays within linear arithmetic whatever its body does with the bit)"""
  def u(b):
    sw, con, pv = switch(b, 1)
    hw = pv[0]["hw"]
    cfg, cfgbits = b.bits("pm.config", 7)
    m, xid = request(b, of.ofp_port_mod, port_no=1, hw_addr=b.new(EthAddr, hw), config=cfg, mask=1 << i, advertise=0)
    old = pv[0]["cbits"]
    b.assume(pv[0]["sbits"][0] == old[0])
    def cfgbit(j):
      return (pv[0]["obj"].config >> j) % 2
    return Case(SoftwareSwitchBase._rx_port_mod, [sw, m, con], calls=con_calls(b), ensures={
      "the_masked_bit_takes_the_new_value_others_keep_theirs":
        lambda res: all([cfgbit(j) == (cfgbits[j] if (j == i and i != 1) else old[j]) for j in range(7)]),
      "link_state_follows_port_down": lambda res: i != 0 or (pv[0]["obj"].state % 2) == cfgbits[0],
      "a_port_status_only_on_a_link_state_change":
        lambda res: [type(x) for x in sent(b)] == ([of.ofp_port_status] if (i == 0 and cfgbits[0] != pv[0]["sbits"][0]) else []),
    })
  u.__name__ = "port_mod_of_config_bit_%d" % i
  return u


PORT_MOD_BIT_UNITS = [_mk_port_mod_single_bit(_i) for _i in range(7)]
for _u in PORT_MOD_BIT_UNITS:
  unit(P, target=SW + "SoftwareSwitchBase._rx_port_mod / _set_port_config_bit, ofp_phy_port.set_config")(_u)


# ---------------------------------------------------------------- dispatch

@unit(P, target=SW + "SoftwareSwitchBase.rx_message")
def every_controller_message_type_has_a_handler(b):
  types_ = [0, 2, 3, 4, 5, 7, 9, 13, 14, 15, 16, 18, 20]
  def run():
    sw = SoftwareSwitchBase(1, ports=0)
    return [t for t in types_ if t not in sw.ofp_handlers]
  if b.mode == "sym":
    # the constructor builds the handler tables from the class by introspection; evaluated concretely
    import pox.datapaths.switch as S
    sw = S.SoftwareSwitchBase(1, ports=0)
    missing = [t for t in types_ if t not in sw.ofp_handlers]
    return Case(lambda: list(missing), [], ensures={"none_missing": lambda res: res == []})
  return Case(run, [], ensures={"none_missing": lambda res: res == []})


@unit(P, target=SW + "SoftwareSwitchBase._rx_stats_request / _stats_aggregate / _stats_flow")
def aggregate_and_flow_stats_on_an_empty_table(b):
  sw, con, _ = switch(b, 0)
  b.set(sw, "stats_handlers", handlers_table(b, sw))
  tid = b.int("table_id", 0, 255)
  which = b.bool("aggregate")
  out_port = b.int("out_port", 0, 65535)
  if b.mode == "sym":
    from pyvc.values import Union
    import z3
    body_a = b.new(of.ofp_aggregate_stats_request, table_id=tid, out_port=out_port)
    body_f = b.new(of.ofp_flow_stats_request, table_id=tid, out_port=out_port)
    body = Union([(which, body_a), (z3.Not(which), body_f)])
  else:
    body = (of.ofp_aggregate_stats_request if which else of.ofp_flow_stats_request)(table_id=tid, out_port=out_port)
  stype = b.If(which, 2, 1)
  m, xid = stats_req(b, stype, body)
  return Case(SoftwareSwitchBase._rx_stats_request, [sw, m, con], calls=con_calls(b), ensures={
    "one_stats_reply_with_the_xid_and_type": lambda res: one_reply(b, of.ofp_stats_reply, xid) and sent(b)[0].type == stype,
    "aggregate_reply_carries_one_aggregate_body":
      lambda res: (not which) or (len(sent(b)[0].pack()) == 12 + 24),
    "flow_reply_for_an_empty_table_is_empty": lambda res: which or len(sent(b)[0].pack()) == 12,
    "reply_encodes": lambda res: encodes(b),
  })


# ---------------------------------------------------------------- emergency flow-mods: the specified error codes

@unit(P, target=SW + "SoftwareSwitchBase._flow_mod_add (emergency flows)")
def emergency_flow_mods_are_refused_with_the_specified_code(b):
  """OFPFF_EMERG entries: non-zero idle OR hard timeout -> BAD_EMERG_TIMEOUT; otherwise with SEND_FLOW_REM -> EPERM;
  otherwise ALL_TABLES_FULL (this switch has no emergency table); never silence, never an installed entry"""
  sw, con, _ = switch(b, 0)
  idle = b.int("idle_timeout", 0, 65535)
  hard = b.int("hard_timeout", 0, 65535)
  flags, fbits = b.bits("flags", 3)
  b.assume(fbits[2] == 1)                      # OFPFF_EMERG
  m, xid = request(b, of.ofp_flow_mod, idle_timeout=idle, hard_timeout=hard, flags=flags)
  table = b.get(sw, "table") if b.mode == "sym" else sw.table
  def run(sw, m, con, table):
    n0 = len(table)
    sw._flow_mod_add(m, con, table)
    return len(table) - n0
  code = lambda: of.OFPFMFC_BAD_EMERG_TIMEOUT if (idle != 0 or hard != 0) else (
    of.OFPFMFC_EPERM if fbits[0] == 1 else of.OFPFMFC_ALL_TABLES_FULL)
  return Case(run, [sw, m, con, table], calls=con_calls(b), ensures={
    "one_error_with_the_specified_code": lambda res: is_error(b, xid, of.OFPET_FLOW_MOD_FAILED, code(), m),
    "nothing_is_installed": lambda res: res == 0,
    "reply_encodes": lambda res: encodes(b),
  })


# ---------------------------------------------------------------- the xid an error reply carries

from pox.datapaths.switch import OFConnection


@unit(P, target=SW + "OFConnection._extract_message_xid")
def error_replies_carry_the_offending_messages_xid(b):
  """errors for messages that could not be decoded copy the xid from the raw bytes: bytes 4..7 whenever the buffer
  holds a whole header (8 bytes or more, exactly 8 included), 0 when the header is incomplete"""
  raw = b.bytes("message", None, 0, 64)
  n = len(raw) if b.mode == "conc" else raw.length()
  oc = b.raw_new(OFConnection)
  return Case(OFConnection._extract_message_xid, [oc, raw], raises={}, ensures={
    "xid_of_a_complete_header": lambda res: n < 8 or res == ((raw[4] * 256 + raw[5]) * 256 + raw[6]) * 256 + raw[7],
    "zero_when_the_header_is_incomplete": lambda res: n >= 8 or res == 0,
  })


# ---------------------------------------------------------------- a request with a malformed body is answered with ITS xid
# (added 2026-09-25 after seeded change C13_8 consumed the message before the bad-length error was built: the error then
# carried xid 0 and no data - or the xid and bytes of the NEXT pipelined request)
import contracts.c10_framing as _F10
from pox.datapaths.switch import OFConnection as _OFConnection
from pox.lib.ioworker import IOWorker as _IOWorker


class _Err(object):
  pass


@unit(P, target=SW + "OFConnection.read / _error_handler / _extract_message_xid (malformed body)")
def a_malformed_request_is_answered_with_a_bad_length_error_carrying_its_own_xid(b):
  mtype = b.int("type", 0, 21)                               # any of the 22 message types (all have a decoder)
  body = b.bytes("body", None, 0, 200)
  nxt = b.bytes("next_request", None, 0, 40)
  x = b.int("xid", 0, 2 ** 32 - 1)
  n = len(body) if b.mode == "conc" else body.length()
  k = len(nxt) if b.mode == "conc" else nxt.length()
  if b.mode == "sym":
    b.assume(k < 4)                                            # what follows is not yet a readable header
    from pyvc import sbytes as sb
    from pyvc.models import as_sbytes
    xb, lb = b.bytes("xid_bytes", 4), b.bytes("len_bytes", 2)
    b.assume(x == sb.byte_at(xb, 0, b.st) * 16777216 + sb.byte_at(xb, 1, b.st) * 65536 + sb.byte_at(xb, 2, b.st) * 256 + sb.byte_at(xb, 3, b.st))
    b.assume(sb.byte_at(lb, 0, b.st) * 256 + sb.byte_at(lb, 1, b.st) == 8 + n)
    tb = b.bytes("type_byte", 1)
    b.assume(sb.byte_at(tb, 0, b.st) == mtype)
    M = as_sbytes(b"\x01")
    for part in (tb, lb, xb, body):
      M = sb.concat(M, part)
    S = sb.concat(M, nxt)
    b.st.ghost["sent"] = ()
  else:
    nxt = nxt[:3]
    M = bytes([1, mtype, (8 + n) >> 8, (8 + n) & 255, x >> 24 & 255, x >> 16 & 255, x >> 8 & 255, x & 255]) + body
    S = M + nxt
    del SENT[:]
  w = b.raw_new(_IOWorker, receive_buf=S, send_buf=b"", closed=False, _shutdown_send=False, _connecting=False)
  con = b.raw_new(_OFConnection, starting=False, io_worker=w, ID=1, unpackers=_F10.unpackers, on_message_received=_F10.stub_on_message,
                  log=logging.getLogger("verif"))
  cs = {}
  if b.mode == "sym":
    def ghost(I, st, f, args, kws):
      st.ghost["sent"] = tuple(st.ghost.get("sent", ())) + (args[1],)
    cs = {"pox.openflow.libopenflow_01:ofp_base.unpack_new":
            CallSpec("contract", may_raise=[of.UnderrunError], returns=lambda I, st, a, k_: (0, None),
                     envelope="the decoder rejects the body (raises) or reports a length other than the declared one"),
          SW + "OFConnection.send": CallSpec("opaque", ghost=ghost, envelope="queues the reply (C20)")}
  else:
    def bad(raw, offset=0):
      raise of.UnderrunError()
    con.unpackers = [bad] * 22
    con.send = lambda m: SENT.append(m)
  def run(con, w):
    r = con.read(w)
    return (r, w.receive_buf)
  return Case(run, [con, w], calls=cs, raises={}, ensures={
    "exactly_one_error_is_sent": lambda res: len(sent(b)) == 1 and type(sent(b)[0]) is of.ofp_error,
    "it_is_bad_request_bad_length": lambda res: sent(b)[0].type == of.OFPET_BAD_REQUEST and sent(b)[0].code == of.OFPBRC_BAD_LEN,
    "it_carries_the_xid_of_the_offending_request": lambda res: sent(b)[0].xid == x,
    "and_the_offending_request_as_data": lambda res: sent(b)[0].data == M,
    "the_request_is_skipped_what_follows_stays_buffered": lambda res: res[1] == nxt,
  })
a_malformed_request_is_answered_with_a_bad_length_error_carrying_its_own_xid.bound = "one request with a body of 0..200 bytes, up to 3 bytes of the next one"


# ---------------------------------------------------------------- a request with unsupported actions gets ONE error, and stops there
# (sixth round, 2026-09-25: a seeded change went on with the rest of the action list after the bad-action error - a packet-out
# with two unsupported actions was answered by two errors with the same xid, and the actions behind them were still applied)

class _Act(object):
  pass


def _applied(sw, action, packet, in_port):
  sw.applied.append(action)
  return packet


def _mk_bad_actions(shape):
  """shape: a string over 'g' (supported action) and 'b' (unsupported type)"""
  def u(b):
    from pox.lib.packet.ethernet import ethernet
    import types
    ethernet()
    sw = b.raw_new(SoftwareSwitchBase, log=logging.getLogger("verif"), applied=b.list([]))
    good_type = 0
    bad_types = [b.int("unsupported_type_%d" % i, 1, 0xfffe) for i in range(shape.count("b"))]
    acts, j = [], 0
    for c in shape:
      if c == "g":
        acts.append(b.raw_new(_Act, type=good_type))
      else:
        acts.append(b.raw_new(_Act, type=bad_types[j]))
        j += 1
    if b.mode == "sym":
      from pyvc.values import BoundMethod
      b.set(sw, "action_handlers", b.dict({good_type: BoundMethod(_applied, sw)}))
      b.st.ghost["errors"] = ()
      def ghost(I, st, f, args, kws):
        st.ghost["errors"] = tuple(st.ghost["errors"]) + ((kws.get("type"), kws.get("code"), kws.get("ofp")),)
      cs = {SW + "SoftwareSwitchBase.send_error": CallSpec("contract", ghost=ghost, envelope="one error message to the controller (send_error unit)")}
      errs = lambda: list(G_err.get())
    else:
      sw.action_handlers = {good_type: types.MethodType(_applied, sw)}
      sent = []
      sw.send_error = lambda type, code, ofp=None, **kw: sent.append((type, code, ofp))
      cs = {}
      errs = lambda: list(sent)
    req = b.raw_new(_Act, type="the request")
    pkt = b.new(ethernet)
    first_bad = shape.index("b") if "b" in shape else len(shape)
    def run(sw):
      sw._process_actions_for_packet(acts, pkt, 1, req)
      return [a for a in sw.applied]
    return Case(run, [sw], calls=cs, raises={}, ensures={
      "exactly_one_bad_action_error_naming_the_request_if_any_action_is_unsupported":
        lambda res: len(errs()) == (1 if "b" in shape else 0)
        and all([e[0] == of.OFPET_BAD_ACTION and e[1] == of.OFPBAC_BAD_TYPE and e[2] is req for e in errs()]),
      "the_actions_in_front_of_the_first_unsupported_one_are_applied_in_order_none_behind_it":
        lambda res: len(res) == first_bad and all([res[i] is acts[i] for i in range(first_bad)]),
    })
  u.__name__ = "action_list_%s_one_error_and_stop" % shape
  u.bound = "action lists of 1..4 actions"
  unit(P, target=SW + "SoftwareSwitchBase._process_actions_for_packet")(u)


class _GErr(object):
  @native
  def get(self, st):
    return st.ghost.get("errors", ())


G_err = _GErr()
for _shape in ("g", "b", "bb", "gbg", "bgb", "ggbb"):
  _mk_bad_actions(_shape)
