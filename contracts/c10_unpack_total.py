"""C10 - decoding ARBITRARY bytes: every message class's unpack_new, on any buffer and any offset at which at
least a header and the declared number of bytes are available (what both read loops guarantee before calling it),
either raises one of the listed exception types or returns offset + the header's declared length - never an
offset that disagrees with the declared length, never an IndexError/TypeError/struct.error surprise."""
from pyvc.api import unit, Case, LoopSpec
import pox.openflow.libopenflow_01 as of
from spec.of10_layout import MESSAGE_TYPE

P = "C10"
MOD = "pox.openflow.libopenflow_01:"
ALLOWED = {of.UnderrunError: True, AssertionError: True, RuntimeError: True}


def declared(raw, offset):
  return raw[offset + 2] * 256 + raw[offset + 3]


def _mk(cname, min_len):
  cls = getattr(of, cname)

  def u(b):
    raw = b.bytes("raw", None, 8, 70000)
    n = len(raw) if b.mode == "conc" else raw.length()
    offset = b.int("offset", 0, 70000)
    b.assume(n - offset >= 8)
    L = declared(raw, offset) if b.mode == "conc" else None
    if b.mode == "sym":
      from pyvc import sbytes as sb
      L = sb.byte_at(raw, offset + 2, b.st) * 256 + sb.byte_at(raw, offset + 3, b.st)
    b.assume(n - offset >= L)
    return Case(cls.unpack_new, [raw, offset], must_return=False, raises=ALLOWED, ensures={
      "consumed_is_declared_length": lambda res: res[0] == offset + L,
      "declared_length_at_least_fixed_part": lambda res: L >= min_len,
      "stays_inside_buffer": lambda res: res[0] <= n,
    })
  u.__name__ = "arbitrary_bytes_" + cname
  unit(P, target=MOD + cname + ".unpack")(u)


# (class, smallest declared length its decoder accepts)
for _n, _m in [("ofp_hello", 0), ("ofp_error", 12), ("ofp_echo_request", 8), ("ofp_echo_reply", 8),
               ("ofp_vendor_generic", 12), ("ofp_features_request", 8), ("ofp_get_config_request", 8),
               ("ofp_get_config_reply", 12), ("ofp_set_config", 12), ("ofp_packet_in", 18), ("ofp_flow_removed", 88),
               ("ofp_port_status", 64), ("ofp_port_mod", 32), ("ofp_barrier_request", 8), ("ofp_barrier_reply", 8),
               ("ofp_queue_get_config_request", 12)]:
  _mk(_n, _m)


# ---- the converse (added 2026-09-25 after seeded change C02_6): a message whose declared length is one the wire format
# allows for its type is ACCEPTED - decoded without raising - whatever else it contains.  (A decoder that rejects such a
# message, e.g. a HELLO carrying a body, breaks the framing of every stream that contains one: C02, and on the controller
# side ends up in the 'malformed' path: C10.)

def _mk_accept(cname, ok_len, pre=None, note=""):
  cls = getattr(of, cname)

  def u(b):
    raw = b.bytes("raw", None, 8, 70000)
    n = len(raw) if b.mode == "conc" else raw.length()
    offset = b.int("offset", 0, 70000)
    if b.mode == "sym":
      from pyvc import sbytes as sb
      b.assume(n - offset >= 8)
      L = sb.byte_at(raw, offset + 2, b.st) * 256 + sb.byte_at(raw, offset + 3, b.st)
      b.assume(n - offset >= L)
      b.assume(ok_len(b, L))
      if pre:
        pre(b, raw, offset)
    else:
      # concrete sample: make the drawn bytes a buffer with a permitted declared length
      import random
      rng = random.Random(len(raw) * 131 + offset)
      Ls = [x for x in (8, 12, 16, 18, 20, 24, 32, 64, 88, 100, 1500, 65535) if ok_len(b, x)]
      L = rng.choice(Ls)
      body = bytes(rng.getrandbits(8) for _ in range(L))
      offset = offset % 7
      raw = bytes(offset) + body[:2] + bytes([L >> 8, L & 255]) + body[4:] + bytes(rng.randrange(0, 9))
      if pre:
        raw = pre(b, raw, offset)
      b.drawn["raw"] = raw.hex()
      b.drawn["offset"] = offset
    return Case(cls.unpack_new, [raw, offset], raises={}, ensures={
      "consumed_is_declared_length": lambda res: res[0] == offset + L,
    })
  u.__name__ = "well_formed_length_is_accepted_" + cname
  unit(P, target=MOD + cname + ".unpack" + note)(u)


def _ge(m):
  return lambda b, L: L >= m


def _eq(m):
  return lambda b, L: L == m


for _n, _ok in [("ofp_hello", _ge(8)), ("ofp_echo_request", _ge(8)), ("ofp_echo_reply", _ge(8)), ("ofp_error", _ge(12)),
                ("ofp_vendor_generic", _ge(12)), ("ofp_features_request", _eq(8)), ("ofp_get_config_request", _eq(8)),
                ("ofp_get_config_reply", _eq(12)), ("ofp_set_config", _eq(12)), ("ofp_packet_in", _ge(18)),
                ("ofp_barrier_request", _eq(8)), ("ofp_barrier_reply", _eq(8)), ("ofp_port_mod", _eq(32)),
                ("ofp_flow_removed", _eq(88)), ("ofp_queue_get_config_request", _eq(12))]:
  _mk_accept(_n, _ok)


def _port_name_without_nul(b, raw, offset):
  """ofp_phy_port.name (16 bytes at 8 + 8 + 2 + 6 of the message): the decoder rejects a name with non-zero bytes behind its
  first NUL (a content rule, 'non-zero string padding'); the acceptance contract is stated for names without a NUL"""
  at = offset + 8 + 8 + 2 + 6
  if b.mode == "sym":
    from pyvc import sbytes as sb
    for i in range(16):
      b.assume(sb.byte_at(raw, at + i, b.st) >= 1)
    return raw
  return raw[:at] + bytes((x or 0x41) for x in raw[at:at + 16]) + raw[at + 16:]


_mk_accept("ofp_port_status", _eq(64), pre=_port_name_without_nul, note=" (port name without NUL)")


# ---- Nicira vendor messages are decoded through nicira_base.unpack, which the vendor dispatcher calls directly (not through
# unpack_new, so nothing re-checks the length there): the offset it reports must be the one its body decoder REACHED - that is
# what Connection.read compares with the declared length.  (Seeded change C10_10 reported start + declared length instead: a
# role reply declaring 16 bytes was then accepted with its role field read from the header of the following message.)
import pox.openflow.nicira as _nx
from spec.nx_layout import SIZEOF as _NXSIZE


def _mk_nx(cname):
  cls = getattr(_nx, cname)
  size = _NXSIZE[cname]

  def u(b):
    raw = b.bytes("raw", None, 8, 70000)
    n = len(raw) if b.mode == "conc" else raw.length()
    offset = b.int("offset", 0, 70000)
    b.assume(n - offset >= size)
    if b.mode == "sym":
      from pyvc import sbytes as sb
      L = sb.byte_at(raw, offset + 2, b.st) * 256 + sb.byte_at(raw, offset + 3, b.st)
    else:
      L = declared(raw, offset)
    def run(raw, offset):
      o = cls()
      return o.unpack(raw, offset)
    return Case(run, [raw, offset], raises={}, ensures={
      "reports_the_offset_its_decoder_reached_and_the_declared_length": lambda res: res[0] == offset + size and res[1] == L,
    })
  u.__name__ = "arbitrary_bytes_nicira_" + cname
  unit(P, target="pox.openflow.nicira:nicira_base.unpack / " + cname + "._unpack_body")(u)


for _n in ("nx_flow_mod_table_id", "nx_packet_in_format", "nx_role_request", "nx_role_reply", "nx_async_config"):
  _mk_nx(_n)
