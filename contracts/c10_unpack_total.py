"""C10 - decoding ARBITRARY bytes: every message class's unpack_new, on any buffer and any offset at which at
least a header and the declared number of bytes are available (what both read loops guarantee before calling it),
either raises one of the listed exception types or returns offset + the header's declared length - never an
offset that disagrees with the declared length, never an IndexError/TypeError/struct.error surprise."""
from pyvc.api import unit, Case, LoopSpec
import pox.openflow.libopenflow_01 as of
from spec.of10_layout import MESSAGE_TYPE

P = "C10"
MOD = "pox.openflow.libopenflow_01:"
ALLOWED = {of.UnderrunError: True, AssertionError: True, RuntimeError: True}


def declared(raw, offset):
  return raw[offset + 2] * 256 + raw[offset + 3]


def _mk(cname, min_len):
  cls = getattr(of, cname)

  def u(b):
    raw = b.bytes("raw", None, 8, 70000)
    n = len(raw) if b.mode == "conc" else raw.length()
    offset = b.int("offset", 0, 70000)
    b.assume(n - offset >= 8)
    L = declared(raw, offset) if b.mode == "conc" else None
    if b.mode == "sym":
      from pyvc import sbytes as sb
      L = sb.byte_at(raw, offset + 2, b.st) * 256 + sb.byte_at(raw, offset + 3, b.st)
    b.assume(n - offset >= L)
    return Case(cls.unpack_new, [raw, offset], must_return=False, raises=ALLOWED, ensures={
      "consumed_is_declared_length": lambda res: res[0] == offset + L,
      "declared_length_at_least_fixed_part": lambda res: L >= min_len,
      "stays_inside_buffer": lambda res: res[0] <= n,
    })
  u.__name__ = "arbitrary_bytes_" + cname
  unit(P, target=MOD + cname + ".unpack")(u)


# (class, smallest declared length its decoder accepts)
for _n, _m in [("ofp_hello", 0), ("ofp_error", 12), ("ofp_echo_request", 8), ("ofp_echo_reply", 8),
               ("ofp_vendor_generic", 12), ("ofp_features_request", 8), ("ofp_get_config_request", 8),
               ("ofp_get_config_reply", 12), ("ofp_set_config", 12), ("ofp_packet_in", 18), ("ofp_flow_removed", 88),
               ("ofp_port_status", 64), ("ofp_port_mod", 32), ("ofp_barrier_request", 8), ("ofp_barrier_reply", 8),
               ("ofp_queue_get_config_request", 12)]:
  _mk(_n, _m)
