"""C08 - component rendezvous and the up / down protocol (pox/core.py).

Abstract state of the core:  components (name -> object), waiters (callback, name, needed components, args, kw),
go-up deferrals, the phase flags.  Representation invariant between public operations:
    every waiter still listed lacks at least one of its components           (no ready waiter is left waiting)
Per-operation contracts (callbacks are opaque: they may register further components or raise):
    register(name, c)         every waiter whose components are all registered once the operation (including chained
                              registrations made by callbacks) is over has been called exactly once, each at a moment
                              when all its components were registered; the others are untouched, in order, not called
    call_when_ready(cb, deps) ready -> called once now and not listed; otherwise listed last and not called
    listen_to_dependencies    the wiring (listeners, attributes, _all_dependencies_met) happens exactly once, exactly
                              when the components named by the handler names and the explicit list are all registered
    goUp / deferrals          for every order of {obtain deferral, release deferral, goUp} (two deferrals; release before,
                              during and after going-up): events are exactly [GoingUp, Up]
    _quit                     [GoingDown, Down] exactly once, also when asked twice"""
from pyvc.api import unit, Case, CallSpec, native
import pox.core as pc
from pox.core import POXCore, GoingUpEvent, UpEvent, GoingDownEvent, DownEvent, ComponentRegistered

P = "C08"
CORE = "pox.core:POXCore."
EV = "pox.lib.revent.revent:EventMixin."


class _G(object):
  @native
  def get(self, st, name):
    return st.ghost.get(name)


G = _G()
EVENTS = []        # native log of raised events (class names)
_PLAN = {}


def events(b):
  return list(G.get("events") or ()) if b.mode == "sym" else list(EVENTS)


# ---------------------------------------------------------------- going up

class Sched(object):
  _hasQuit = True
  _allDone = True
  _thread = None

  def quit(self):
    pass

  def callLater(self, f, *a, **k):
    pass


class Cond(object):
  def acquire(self):
    pass

  def notifyAll(self):
    pass

  def release(self):
    pass


def new_core(b, **fields):
  d = dict(components=b.dict({}), _waiters=b.list([]), _go_up_deferrals=b.set_of([]), _go_up_stage=0, starting_up=True, running=True,
           debug=False, _openflow_wanted=False, _handle_signals=False, _eventMixin_handlers={},
           scheduler=b.raw_new(Sched), quit_condition=b.raw_new(Cond))
  d.update(fields)
  c = b.raw_new(POXCore, **d)
  return c


class RaiseSpec(CallSpec):
  """core.raiseEvent(event): logs the event's class; a GoingUpEvent listener may take and/or release deferrals
  (the action plan of the unit)"""
  def __init__(self, during):
    CallSpec.__init__(self, "contract", envelope="event delivery: property C05; going-up listeners may obtain and release "
                      "go-up deferrals")
    self.during = during

  def apply(self, I, f, args, kws, st, ctx, k, node):
    ev = args[1]
    cls = st.obj(ev).cls if hasattr(ev, "oid") else (ev if isinstance(ev, type) else type(ev))
    st.ghost["events"] = tuple(st.ghost.get("events", ())) + (cls.__name__,)
    during = self.during
    if isinstance(during, dict):
      during = during.get(cls.__name__)
    elif cls is not GoingUpEvent:
      during = None
    if during is not None:
      return I.call_value(during, [args[0]], {}, st, ctx, lambda st2, r: k(st2, ev), node)
    return k(st, ev)


def native_core_patches(core, during):
  def raise_(event, *a, **kw):
    cls = event if isinstance(event, type) else type(event)
    EVENTS.append(cls.__name__)
    d = during.get(cls.__name__) if isinstance(during, dict) else (during if cls is GoingUpEvent else None)
    if d is not None:
      d(core)
    return event
  core.raiseEvent = raise_
  core.raiseEventNoErrors = raise_
  core._add_signal_handlers = lambda: None


GO_CALLS = {CORE + "_add_signal_handlers": CallSpec("opaque", envelope="installs signal handlers"),
            CORE + "_get_python_version": CallSpec("opaque", returns=lambda I, st, a, k: "py", envelope="version text"),
            CORE + "_get_platform_info": CallSpec("opaque", returns=lambda I, st, a, k: "platform", envelope="platform text"),
            CORE + "goUp.<locals>.vwarn": CallSpec("opaque", envelope="version warning (logging)"),
            CORE + "_waiter_notify": CallSpec("opaque", envelope="logs who is still waiting")}

# plans: where the two deferrals are obtained (b: before goUp, d: inside a going-up listener) and released
# (b: before goUp, d: inside a going-up listener, a: after goUp returned)
PLANS = [(o1, r1, o2, r2) for o1 in "bd" for r1 in "bda" for o2 in "-bd" for r2 in "bda"
         if not (o1 == "d" and r1 == "b") and not (o2 == "d" and r2 == "b") and not (o2 == "-" and r2 != "a")]


def _mk_goup(plan):
  o1, r1, o2, r2 = plan
  def u(b):
    core = new_core(b)
    def run(core):
      d = {}
      if o1 == "b":
        d[1] = core._get_go_up_deferral()
      if o2 == "b":
        d[2] = core._get_go_up_deferral()
      if o1 == "b" and r1 == "b":
        d[1]()
      if o2 == "b" and r2 == "b":
        d[2]()
      core._ghost_d = d
      core.goUp()
      d = core._ghost_d
      if r1 == "a":
        d[1]()
      if o2 != "-" and r2 == "a":
        d[2]()
      return core.starting_up
    def listener(core):
      d = core._ghost_d
      if o1 == "d":
        d[1] = core._get_go_up_deferral()
      if o2 == "d":
        d[2] = core._get_go_up_deferral()
      if r1 == "d":
        d[1]()
      if o2 != "-" and r2 == "d":
        d[2]()
    cs = {}
    if b.mode == "sym":
      b.st.ghost["events"] = ()
      cs = dict(GO_CALLS)
      cs[EV + "raiseEvent"] = RaiseSpec(listener)
    else:
      del EVENTS[:]
      native_core_patches(core, listener)
      core._get_python_version = lambda: "py"
      core._get_platform_info = lambda: "platform"
    return Case(run, [core], calls=cs, raises={}, ensures={
      "going_up_then_up_exactly_once_each": lambda res: events(b) == ["GoingUpEvent", "UpEvent"],
      "no_longer_starting_up": lambda res: res is False,
    })
  u.__name__ = "go_up_deferral1_%s%s_deferral2_%s%s" % (o1, r1, o2, r2)
  u.bound = "two deferrals; each obtained before / during going-up and released before / during / after it"
  unit(P, target=CORE + "goUp / _get_go_up_deferral / _goUp_stage2")(u)


for _p in PLANS:
  _mk_goup(_p)


@unit(P, target=CORE + "goUp (no deferral)")
def go_up_without_deferrals(b):
  core = new_core(b)
  cs = {}
  if b.mode == "sym":
    b.st.ghost["events"] = ()
    cs = dict(GO_CALLS)
    cs[EV + "raiseEvent"] = RaiseSpec(None)
  else:
    del EVENTS[:]
    native_core_patches(core, None)
    core._get_python_version = lambda: "py"
    core._get_platform_info = lambda: "platform"
  return Case(POXCore.goUp, [core], calls=cs, raises={}, ensures={
    "going_up_then_up_exactly_once_each": lambda res: events(b) == ["GoingUpEvent", "UpEvent"],
  })


@unit(P, target=CORE + "_get_go_up_deferral (a deferral is good for one release)")
def a_deferral_cannot_be_released_twice(b):
  core = new_core(b)
  def run(core):
    d = core._get_go_up_deferral()
    e = core._get_go_up_deferral()
    d()
    try:
      d()
      return "accepted"
    except RuntimeError:
      return "rejected"
  cs = {}
  if b.mode == "sym":
    b.st.ghost["events"] = ()
    cs = dict(GO_CALLS)
    cs[EV + "raiseEvent"] = RaiseSpec(None)
  else:
    del EVENTS[:]
    native_core_patches(core, None)
  return Case(run, [core], calls=cs, raises={}, ensures={
    "second_release_is_rejected": lambda res: res == "rejected" and events(b) == [],
  })


# ---------------------------------------------------------------- going down

@unit(P, target=CORE + "_quit")
def quit_raises_going_down_then_down_once(b):
  core = new_core(b, starting_up=False)
  cs = {}
  if b.mode == "sym":
    b.st.ghost["events"] = ()
    b.st.ghost[("$global", "pox.core", "core")] = core
    cs = {EV + "raiseEvent": RaiseSpec(None), CORE + "callLater": CallSpec("opaque", envelope="asks the scheduler to quit"),
          "gc:collect": CallSpec("opaque", returns=lambda I, st, a, k: 0, envelope="gc"),
          "time:sleep": CallSpec("opaque", envelope="sleep")}
  else:
    del EVENTS[:]
    native_core_patches(core, None)
    core.callLater = lambda *a, **k: None
    pc.core, _PLAN["saved_core"] = core, pc.core
  def run(core):
    core._quit()
    core._quit()
    return core.running
  return Case(run, [core], calls=cs, raises={}, ensures={
    "going_down_then_down_exactly_once": lambda res: events(b) == ["GoingDownEvent", "DownEvent"] and res is False,
  })


# ---------------------------------------------------------------- rendezvous: register / call_when_ready

NAMES = ["a", "b", "c"]
SUBSETS = [[], ["a"], ["b"], ["c"], ["a", "b"], ["a", "c"], ["b", "c"], ["a", "b", "c"]]
CALLS = []          # native log: (waiter index, were all its components registered at that moment)
ACTIONS = ["nothing", "register a", "register b", "register c", "raise"]


def cb0(*args, **kw):
  return _native_cb(0)


def cb1(*args, **kw):
  return _native_cb(1)


def cb2(*args, **kw):
  return _native_cb(2)


CBS = [cb0, cb1, cb2]


def _native_cb(i):
  core = _PLAN["core"]
  CALLS.append((i, all(d in core.components for d in _PLAN["deps"][i])))
  act = _PLAN["act"][i]
  if act.startswith("register"):
    core.register(act[-1], object())
  elif act == "raise":
    raise ValueError("callback failed")


class Callback(CallSpec):
  """waiter i: logs the call (and whether its components were all registered at that moment), then acts"""
  def __init__(self, i, env):
    CallSpec.__init__(self, "opaque", envelope="a callback may register further components or raise")
    self.i = i
    self.env = env

  def apply(self, I, f, args, kws, st, ctx, k, node):
    env, i = self.env, self.i
    def with_deps(st1, deps):
      def with_comps(st2, comps):
        keys = [kv[0] for kv in st2.obj(comps).data.values()]
        ready = all(d in keys for d in deps)
        if any(c[0] == i for c in st2.ghost.get("calls", ())):
          # precondition of the callee: a waiter is notified at most once.  Checked here, at the call, so that an
          # implementation that re-runs a waiter (possibly forever) is reported instead of being explored without end
          I.check_obligation(st2, False, "call.pre:a_waiter_is_called_at_most_once", kind="post")
          return
        st2.ghost["calls"] = tuple(st2.ghost.get("calls", ())) + ((i, ready),)
        def act(st3, a):
          if a.startswith("register"):
            obj = st3.alloc("obj", object, {})
            return I.call_value(POXCore.register, [env["core"], a[-1], obj], {}, st3, ctx, lambda st4, r: k(st4, None), node)
          if a == "raise":
            return I.raise_exc(st3, ctx, ValueError, "callback failed", node)
          return k(st3, None)
        return I.split(env["act"][i], st2, act)
      return I.split(st1.obj(env["core"]).data["components"], st1, with_comps)
    return I.split(env["deps"][i], st, with_deps)


def calls(b):
  return list(G.get("calls") or ()) if b.mode == "sym" else list(CALLS)


def closure(registered, deps, acts, called0):
  """the components registered and the waiters called once every ready waiter has run (least fixpoint)"""
  reg = list(registered)
  called = list(called0)
  changed = True
  while changed:
    changed = False
    for i in range(len(deps)):
      if i not in called and all([d in reg for d in deps[i]]):
        called.append(i)
        if acts[i].startswith("register") and acts[i][-1] not in reg:
          reg.append(acts[i][-1])
        changed = True
  return reg, called


def same_members(a, b_):
  return len(a) == len(b_) and all([x in b_ for x in a]) and all([x in a for x in b_])


def rendezvous_state(b, n_waiters, last_may_be_empty=False):
  """a core with an arbitrary set of registered components and n waiters that each lack something (the invariant)"""
  reg = b.choice("registered", SUBSETS)
  deps = [b.choice("deps%d" % i, SUBSETS if (last_may_be_empty and i == n_waiters - 1) else SUBSETS[1:])
          for i in range(n_waiters)]
  acts = [b.choice("action%d" % i, ACTIONS) for i in range(n_waiters)]
  return reg, deps, acts


def _mk_register(n_waiters, fixed_new=None):
  def u(b):
    regs, depss, actss = rendezvous_state(b, n_waiters)
    new = b.choice("new", NAMES) if fixed_new is None else fixed_new
    env = {}
    if b.mode == "sym":
      from pyvc.values import Union
      # the component dictionary and the waiter list are built per alternative of the choices
      comp_alts = [(g, b.dict(dict((nm, b.raw_new(object)) for nm in r))) for g, r in regs.alts]
      core = new_core(b, components=Union(comp_alts), starting_up=False)
      entries = []
      for i in range(n_waiters):
        dl = Union([(g, b.list(list(d))) for g, d in depss[i].alts])
        entries.append((CBS[i], "waiter%d" % i, dl, (), b.dict({})))
      b.set(core, "_waiters", b.list(entries))
      env.update(core=core, deps=depss, act=actss)
      b.st.ghost["calls"] = ()
      b.st.ghost["events"] = ()
      cs = dict(("contracts.c08_core:cb%d" % i, Callback(i, env)) for i in range(n_waiters))
      cs[EV + "raiseEventNoErrors"] = CallSpec("contract", envelope="ComponentRegistered delivery: property C05")
      # the other delivery entry point PROPAGATES a listener's exception (C05): announcing the component through it would let a
      # failing ComponentRegistered listener abort register() before the waiters are looked at (seeded change C08_8)
      cs[EV + "raiseEvent"] = CallSpec("contract", may_raise=(RuntimeError,),
                                       envelope="raiseEvent: delivery that propagates a listener's exception (property C05)")
    else:
      core = new_core(b, components=dict((nm, object()) for nm in regs), starting_up=False)
      core._waiters = [(CBS[i], "waiter%d" % i, list(depss[i]), (), {}) for i in range(n_waiters)]
      del CALLS[:]
      _PLAN.update(core=core, deps=depss, act=actss)
      core.raiseEventNoErrors = lambda *a, **k: None
      cs = {}
    # representation invariant: no listed waiter is ready
    for i in range(n_waiters):
      b.assume(b.Not(subset_cond(b, depss[i], regs)) if b.mode == "sym" else not all(d in regs for d in depss[i]))
    def run(core, new):
      core.register(new, object())
      return ([k for k in core.components], [e[0] for e in core._waiters])
    def expect():
      return closure(list(regs) + ([] if new in regs else [new]), depss, actss, [])
    return Case(run, [core, new], calls=cs, raises={}, ensures={
      "every_waiter_that_became_ready_was_called_exactly_once_the_others_never":
        lambda res: all([len([c for c in calls(b) if c[0] == i]) == (1 if i in expect()[1] else 0) for i in range(n_waiters)]),
      "never_before_all_its_components_were_registered": lambda res: all([c[1] for c in calls(b)]),
      "components_are_the_registered_ones_plus_chained_registrations":
        lambda res: same_members(res[0], expect()[0]),
      "waiters_still_listed_are_exactly_the_ones_not_called_in_order":
        lambda res: res[1] == [CBS[i] for i in range(n_waiters) if i not in expect()[1]],
    })
  u.__name__ = "register_%swith_%d_waiters" % ("" if fixed_new is None else fixed_new + "_", n_waiters)
  u.bound = "components a, b, c; up to 2 waiters with arbitrary non-empty dependency sets; callbacks: nothing / register one of a, b, c / raise"
  unit(P, target=CORE + "register / _try_waiters / _try_waiter", timeout_s=400)(u)


def subset_cond(b, dep_choice, reg_choice):
  """z3 condition: the chosen dependency list is a subset of the chosen registered list"""
  import z3
  terms = []
  for g1, d in dep_choice.alts:
    for g2, r in reg_choice.alts:
      if all(x in r for x in d):
        terms.append(z3.And(g1, g2))
  return z3.Or(*terms) if terms else z3.BoolVal(False)


_mk_register(0)
_mk_register(1)
for _nm in NAMES:
  _mk_register(2, _nm)


def _mk_cwr(n_waiters):
  def u(b):
    regs, depss, actss = rendezvous_state(b, n_waiters + 1, True)
    me = n_waiters          # the waiter being declared is the last one
    env = {}
    if b.mode == "sym":
      from pyvc.values import Union
      comp_alts = [(g, b.dict(dict((nm, b.raw_new(object)) for nm in r))) for g, r in regs.alts]
      core = new_core(b, components=Union(comp_alts), starting_up=False)
      entries = []
      for i in range(n_waiters):
        dl = Union([(g, b.list(list(d))) for g, d in depss[i].alts])
        entries.append((CBS[i], "waiter%d" % i, dl, (), b.dict({})))
      b.set(core, "_waiters", b.list(entries))
      mydeps = Union([(g, b.list(list(d))) for g, d in depss[me].alts])
      env.update(core=core, deps=depss, act=actss)
      b.st.ghost["calls"] = ()
      cs = dict(("contracts.c08_core:cb%d" % i, Callback(i, env)) for i in range(n_waiters + 1))
      cs[EV + "raiseEventNoErrors"] = CallSpec("contract", envelope="ComponentRegistered delivery: property C05")
    else:
      core = new_core(b, components=dict((nm, object()) for nm in regs), starting_up=False)
      core._waiters = [(CBS[i], "waiter%d" % i, list(depss[i]), (), {}) for i in range(n_waiters)]
      mydeps = list(depss[me])
      del CALLS[:]
      _PLAN.update(core=core, deps=depss, act=actss)
      core.raiseEventNoErrors = lambda *a, **k: None
      cs = {}
    for i in range(n_waiters):
      b.assume(b.Not(subset_cond(b, depss[i], regs)) if b.mode == "sym" else not all(d in regs for d in depss[i]))
    def run(core, mydeps):
      core.call_when_ready(CBS[me], mydeps, name="me")
      return ([k for k in core.components], [e[0] for e in core._waiters])
    def expect():
      return closure(list(regs), depss, actss, [])
    return Case(run, [core, mydeps], calls=cs, raises={}, ensures={
      "called_once_now_if_ready_else_not_called":
        lambda res: all([len([c for c in calls(b) if c[0] == i]) == (1 if i in expect()[1] else 0) for i in range(n_waiters + 1)]),
      "never_before_all_its_components_were_registered": lambda res: all([c[1] for c in calls(b)]),
      "listed_last_exactly_when_not_ready":
        lambda res: res[1] == [CBS[i] for i in range(n_waiters + 1) if i not in expect()[1]],
    })
  u.__name__ = "call_when_ready_with_%d_other_waiters" % n_waiters
  u.bound = "components a, b, c; 0..1 other waiters; arbitrary dependency sets; callbacks: nothing / register / raise"
  unit(P, target=CORE + "call_when_ready / _try_waiter", timeout_s=400)(u)


_mk_cwr(0)
_mk_cwr(1)


# ---------------------------------------------------------------- listen_to_dependencies

WIRED = []
BU = "b_with_underscores"


class CompA(object):
  _eventMixin_events = set()

  def addListeners(self, sink, **kw):
    WIRED.append(("a", sink, kw))


class CompB(object):
  """a component that raises no events: nothing to listen to"""
  pass


class Sink(object):
  met = 0

  def _handle_a_SomethingHappened(self, event):
    pass

  def _handle_b_with_underscores_Other(self, event):
    """names the component 'b_with_underscores' (component names may contain underscores: openflow_discovery)"""
    pass

  def _handle_toofew(self, event):
    pass

  def _all_dependencies_met(self):
    self.met += 1


class Wire(CallSpec):
  def __init__(self):
    CallSpec.__init__(self, "contract", envelope="EventMixin.addListeners / autoBindEvents: name-based wiring (C05, not decided there)")

  def apply(self, I, f, args, kws, st, ctx, k, node):
    st.ghost["wired"] = tuple(st.ghost.get("wired", ())) + (("a", args[1], kws.get("prefix")),)
    return k(st, None)


def wired(b):
  return list(G.get("wired") or ()) if b.mode == "sym" else [(w[0], w[1], w[2].get("prefix")) for w in WIRED]


def _mk_listen(pre, explicit):
  """pre: components registered before the declaration; the sink names a and b by handler names, `explicit` adds c"""
  def u(b):
    need = ["a", BU] + (["c"] if explicit else [])
    objs = {"a": b.raw_new(CompA), BU: b.raw_new(CompB), "c": b.raw_new(CompB), "b": b.raw_new(CompB)}
    core = new_core(b, components=b.dict(dict((nm, objs[nm]) for nm in pre)), starting_up=False)
    sink = b.raw_new(Sink, met=0)
    cs = {}
    if b.mode == "sym":
      b.st.ghost["wired"] = ()
      cs = {"contracts.c08_core:CompA.addListeners": Wire(),
            EV + "raiseEventNoErrors": CallSpec("contract", envelope="ComponentRegistered delivery: property C05"),
            CORE + "_waiter_notify": CallSpec("opaque", envelope="logs who is still waiting")}
    else:
      del WIRED[:]
      core.raiseEventNoErrors = lambda *a, **k: None
    rest = [nm for nm in need if nm not in pre]
    def run(core, sink):
      core.listen_to_dependencies(sink, ["c"] if explicit else None)
      trace = [(sink.met, len(wired(b)))]
      for nm in rest:
        core.register(nm, objs[nm])
        trace.append((sink.met, len(wired(b))))
      core.register("z", objs["c"])
      trace.append((sink.met, len(wired(b))))
      return (trace, getattr(sink, "_a_", None), getattr(sink, "_" + BU + "_", None), len(core._waiters))
    n = len(rest)
    return Case(run, [core, sink], calls=cs, raises={}, ensures={
      "wired_exactly_when_the_last_named_component_arrives_and_only_once":
        lambda res: res[0] == [(0, 0)] * n + [(1, 1)] * 2,
      "listeners_are_bound_with_the_component_name_as_prefix":
        lambda res: wired(b) == [("a", sink, "a")],
      "component_attributes_are_set": lambda res: res[1] is objs["a"] and res[2] is objs[BU] and res[3] == 0,
    })
  u.__name__ = "listen_to_dependencies_%s_registered_before%s" % ("".join(pre) or "none", "_plus_explicit_c" if explicit else "")
  u.bound = "sink with handlers naming components a and b (and optionally an explicit c); every subset registered beforehand"
  unit(P, target=CORE + "listen_to_dependencies")(u)


for _pre in ([], ["a"], [BU], ["a", BU], ["b"], ["a", "b"]):
  _mk_listen(_pre, False)
for _pre in ([], ["c"], ["a", BU], ["a", BU, "c"]):
  _mk_listen(_pre, True)


# ---------------------------------------------------------------- listeners of Up / GoingDown that re-enter the protocol

@unit(P, target=CORE + "goUp / _goUp_stage2 (an Up listener takes and releases a deferral)")
def a_deferral_taken_by_an_up_listener_does_not_raise_up_again(b):
  core = new_core(b)
  def up_listener(core):
    d = core._get_go_up_deferral()
    d()
  cs = {}
  if b.mode == "sym":
    b.st.ghost["events"] = ()
    cs = dict(GO_CALLS)
    cs[EV + "raiseEvent"] = RaiseSpec({"UpEvent": up_listener})
  else:
    del EVENTS[:]
    native_core_patches(core, {"UpEvent": up_listener})
    core._get_python_version = lambda: "py"
    core._get_platform_info = lambda: "platform"
  return Case(POXCore.goUp, [core], calls=cs, raises={}, ensures={
    "going_up_then_up_exactly_once_each": lambda res: events(b) == ["GoingUpEvent", "UpEvent"],
  })
a_deferral_taken_by_an_up_listener_does_not_raise_up_again.bound = "one deferral taken and released inside an Up listener"


@unit(P, target=CORE + "_quit (asked again from inside a going-down listener)")
def quit_asked_again_while_going_down(b):
  core = new_core(b, starting_up=False)
  def down_listener(core):
    core._quit()
  cs = {}
  if b.mode == "sym":
    b.st.ghost["events"] = ()
    b.st.ghost[("$global", "pox.core", "core")] = core
    cs = {EV + "raiseEvent": RaiseSpec({"GoingDownEvent": down_listener}),
          CORE + "callLater": CallSpec("opaque", envelope="asks the scheduler to quit"),
          "gc:collect": CallSpec("opaque", returns=lambda I, st, a, k: 0, envelope="gc"),
          "time:sleep": CallSpec("opaque", envelope="sleep")}
  else:
    del EVENTS[:]
    native_core_patches(core, {"GoingDownEvent": down_listener})
    core.callLater = lambda *a, **k: None
    pc.core = core
  return Case(POXCore._quit, [core], calls=cs, raises={}, ensures={
    "going_down_then_down_exactly_once": lambda res: events(b) == ["GoingDownEvent", "DownEvent"],
  })
quit_asked_again_while_going_down.bound = "one re-entrant quit"


# ---------------------------------------------------------------- core.<name>: a registered component is reachable, whatever it is
# (added 2026-09-25 after seeded change C08_9 tested the component's truth value: a component that is an empty container - a host
# table with no hosts yet - was 'not registered' for attribute access while hasComponent() said it was, so the wiring callback of
# listen_to_dependencies raised inside _try_waiter and the sink was never wired)

class EmptyTable(object):
  """a component that is false as long as it holds nothing"""
  def __len__(self):
    return len(self.rows)


class Quiet(object):
  def __bool__(self):
    return self.on


@unit(P, target=CORE + "__getattr__ / hasComponent")
def a_registered_component_is_reachable_whatever_its_truth_value(b):
  table = b.raw_new(EmptyTable, rows=b.list([]))
  quiet = b.raw_new(Quiet, on=b.bool("quiet_component_is_true"))
  plain = b.raw_new(object)
  core = new_core(b, components=b.dict({"hosts": table, "quiet": quiet, "plain": plain}), starting_up=False)
  def run(core):
    missing = None
    try:
      core.absent
    except AttributeError:
      missing = "AttributeError"
    return (core.hosts, core.quiet, core.plain, missing, core.hasComponent("hosts"), core.hasComponent("absent"), core._openflow_wanted)
  return Case(run, [core], raises={}, ensures={
    "attribute_access_returns_the_registered_object": lambda res: res[0] is table and res[1] is quiet and res[2] is plain,
    "an_unregistered_name_is_an_attribute_error": lambda res: res[3] == "AttributeError" and res[5] is False,
    "has_component_agrees_with_attribute_access": lambda res: res[4] is True,
    "asking_for_other_components_does_not_ask_for_openflow": lambda res: res[6] is False,
  })
a_registered_component_is_reachable_whatever_its_truth_value.bound = "three components"


# ---------------------------------------------------------------- every going-up listener that asks gets a deferral OF ITS OWN
# (added 2026-09-25 after seeded change C08_10 cached one deferral per GoingUpEvent: with two deferring listeners the first
# release let the up event fire while the second component was still starting, and the second release raised RuntimeError)
from pox.core import GoingUpEvent as _GoingUpEvent


@unit(P, target="pox.core:GoingUpEvent.get_deferral / POXCore._get_go_up_deferral")
def two_listeners_of_one_going_up_event_get_two_deferrals(b):
  core = new_core(b)
  b.set(core, "_go_up_stage", 1)
  ev = b.new(_GoingUpEvent)
  b.set(ev, "source", core)
  def run(core, ev):
    d1 = ev.get_deferral()
    d2 = ev.get_deferral()
    n0 = len(core._go_up_deferrals)
    d1()
    n1 = len(core._go_up_deferrals)
    d2()
    return (d1 is d2, n0, n1, len(core._go_up_deferrals))
  cs = {}
  if b.mode == "sym":
    b.st.ghost["events"] = ()
    cs = dict(GO_CALLS)
    cs[EV + "raiseEvent"] = RaiseSpec(None)
  else:
    del EVENTS[:]
    native_core_patches(core, None)
  return Case(run, [core, ev], calls=cs, raises={}, ensures={
    "each_request_takes_out_a_deferral_of_its_own": lambda res: res[0] is False and res[1] == 2 and res[2] == 1 and res[3] == 0,
    "up_is_raised_once_after_BOTH_were_released": lambda res: events(b) == ["UpEvent"],
  })


# ---------------------------------------------------------------- a waiter's dependencies are the ones it was DECLARED on
# (added 2026-09-25 after seeded change C08_11 stopped copying a dependency list: launch code that reuses one list for several
# declarations - appending to it, clearing it - then changed the dependencies of waiters already pending)

@unit(P, target=CORE + "call_when_ready (the dependency collection is copied)")
def a_pending_waiter_does_not_share_its_dependency_list_with_the_caller(b):
  kind = b.choice("given_as", ["list", "tuple", "set"])
  core = new_core(b, components=b.dict({"b": b.raw_new(object)}), starting_up=False)
  cs = {}
  if b.mode == "sym":
    b.st.ghost["calls"] = ()
    cs = {CORE + "_waiter_notify": CallSpec("opaque", envelope="logs who is still waiting")}
  else:
    core._waiter_notify = lambda: None
  def run(core):
    if kind == "list":
      given = ["a", "b"]
    elif kind == "tuple":
      given = ("a", "b")
    else:
      given = set(["a"])
    core.call_when_ready(cb0, given, name="w")
    stored = core._waiters[-1][2]
    return (stored is given, [x for x in stored], len(core._waiters))
  return Case(run, [core], calls=cs, raises={}, ensures={
    "the_waiter_is_pending_with_a_list_of_its_own_holding_the_declared_names":
      lambda res: res[0] is False and res[2] == 1 and (res[1] == ["a"] if kind == "set" else res[1] == ["a", "b"]),
  })
