"""C13 - 'invalid requests get the specified error, never an internal failure': the switch's read loop on ARBITRARY bytes
raises nothing, whatever request it cannot decode and however long it claims to be (the C10 unit switch_read_arbitrary_bytes;
error replies are built and packed inside it).  Shared with C13 after seeded change C13_10 mis-sized the cap on the bytes an
error reply echoes: undecodable requests claiming 65524..65535 bytes made pack() of the reply raise struct.error out of read(),
no error was sent and every later request on the connection went unanswered."""
from pyvc.api import unit
import contracts.c10_framing as _F

P = "C13"
unit(P, target=_F.SW + "OFConnection.read / _error_handler", name="undecodable_requests_of_any_claimed_length_never_make_the_read_loop_fail",
     timeout_s=600)(_F.switch_read_arbitrary_bytes)


# a flow-mod that names a buffer hands ITSELF to the code that applies its actions to the buffered packet, so that a bad-action
# error raised there is an answer to this request (its xid, its bytes): the C18 unit on _rx_flow_mod, shared (C13_11)
import contracts.c18_buffers as _B18
unit(P, target=_B18.SW + "SoftwareSwitchBase._rx_flow_mod", name="errors_from_a_released_buffer_can_name_the_flow_mod")(_B18.flow_mod_releases_its_buffer)
