"""C10 / C02 - bounded stand-ins that run the real read loops with the REAL decoders end to end (the proofs use the
decoders through their family contract; list-carrying decoders - actions, ports, queues, stats - are only covered
here and in C01's bounded units)."""
import random
import logging
from pyvc.api import standin
import pox.openflow.libopenflow_01 as of
from pox.openflow.of_01 import Connection, unpackers
from pox.datapaths.switch import OFConnection
from pox.lib.ioworker import IOWorker
from pox.lib.addresses import EthAddr, IPAddr


def corpus():
  acts = [of.ofp_action_output(port=3), of.ofp_action_dl_addr.set_dst(EthAddr("01:02:03:04:05:06")),
          of.ofp_action_nw_addr.set_src(IPAddr("10.0.0.1")), of.ofp_action_enqueue(port=1, queue_id=7)]
  port = of.ofp_phy_port(port_no=1, hw_addr=EthAddr("00:00:00:00:00:01"), name="eth1")
  m = of.ofp_match(dl_type=0x800, nw_proto=6, tp_dst=80, nw_src="10.0.0.0/24")
  msgs = [
    of.ofp_hello(), of.ofp_error(type=1, code=2, data=b"abcdefgh"), of.ofp_echo_request(body=b"ping"),
    of.ofp_echo_reply(body=b"pong"), of.ofp_vendor_generic(vendor=0x2320, data=b"\0" * 8), of.ofp_features_request(),
    of.ofp_features_reply(datapath_id=5, ports=[port, port]), of.ofp_get_config_request(),
    of.ofp_get_config_reply(miss_send_len=128), of.ofp_set_config(miss_send_len=64),
    of.ofp_packet_in(in_port=1, data=b"x" * 30, total_len=30), of.ofp_flow_removed(match=m, reason=1),
    of.ofp_port_status(reason=2, desc=port), of.ofp_packet_out(in_port=1, actions=acts[:2], data=b"y" * 20),
    of.ofp_flow_mod(match=m, actions=acts), of.ofp_port_mod(port_no=1, hw_addr=EthAddr("00:00:00:00:00:01")),
    of.ofp_stats_request(body=of.ofp_flow_stats_request(match=m)),
    of.ofp_stats_reply(body=[of.ofp_flow_stats(match=m, actions=acts[:1]), of.ofp_flow_stats(match=m)]),
    of.ofp_barrier_request(), of.ofp_barrier_reply(), of.ofp_queue_get_config_request(port=1),
    of.ofp_queue_get_config_reply(port=1, queues=[of.ofp_packet_queue(queue_id=1, properties=[of.ofp_queue_prop_min_rate(rate=10)])]),
  ]
  out = []
  for i, x in enumerate(msgs):
    x.xid = 1000 + i
    out.append(x.pack())
  return out


class Sock(object):
  def __init__(self, chunks):
    self.chunks = list(chunks)

  def recv(self, n):
    if not self.chunks:
      return b""
    c = self.chunks.pop(0)
    assert len(c) <= n
    return c


def controller_run(chunks):
  """feed the chunks to a controller-side connection; returns (delivered raw messages, outcome)"""
  got = []
  con = object.__new__(Connection)
  con.buf = b""
  con.sock = Sock(chunks)
  con.unpackers = unpackers
  con.handlers = [lambda c, m: got.append(m.pack())] * 22
  con.ID = 1
  con.dpid = None
  outcome = "open"
  for _ in range(len(chunks)):
    try:
      r = con.read()
    except Exception as e:
      outcome = "closed:" + type(e).__name__      # the accept/read task closes the connection
      break
    if r is False:
      outcome = "closed"
      break
  return got, outcome, con.buf


def switch_run(chunks):
  got = []
  sent = []
  w = IOWorker()
  w.send = lambda data: sent.append(data)
  closed = []
  w.shutdown = lambda *a, **k: closed.append(1)
  con = object.__new__(OFConnection)
  con.starting = False
  con.io_worker = w
  con.ID = 1
  con.log = logging.getLogger("verif")
  con.unpackers = unpackers
  con.on_message_received = lambda c, m: got.append(m.pack())
  w.rx_handler = con.read
  for c in chunks:
    if closed:
      break
    w._push_receive_data(c)     # an exception here would reach RecocoIOLoop.run and stop the I/O loop
  return got, ("closed" if closed else "open"), w.receive_buf, sent


def split(data, cuts):
  out = []
  prev = 0
  for c in sorted(set(cuts)):
    if 0 < c < len(data):
      out.append(data[prev:c])
      prev = c
  out.append(data[prev:])
  res = []
  for piece in out:
    while len(piece) > 2048:
      res.append(piece[:2048])
      piece = piece[2048:]
    if piece:
      res.append(piece)
  return res


@standin("C02", bound="stream of all 22 message types (~1.2 kB): every 1-cut, every 2-cut on a 7-byte grid plus all cuts "
                       "inside the first three messages, 1-byte dribble, 300 random k-cuts; 5 streams with messages of 32767..65535 bytes x 6 "
                       "cut sets; both sides",
         target="pox.openflow.of_01:Connection.read / pox.datapaths.switch:OFConnection.read", timeout_s=250)
def segmentation_independence(tier, seed):
  rng = random.Random(seed)
  msgs = corpus()
  stream = b"".join(msgs)
  n = len(stream)
  cutsets = [[c] for c in range(1, n)]
  grid = list(range(1, n, 7)) + list(range(1, len(msgs[0]) + len(msgs[1]) + len(msgs[2]) + 2))
  for i in grid[::3]:
    for j in grid[::5]:
      if i < j:
        cutsets.append([i, j])
  cutsets.append(list(range(1, n)))
  for _ in range(300 if tier == "quick" else 5000):
    cutsets.append(rng.sample(range(1, n), rng.randrange(1, 12)))
  for cuts in cutsets:
    def t(cuts=cuts):
      chunks = split(stream, cuts)
      got, outcome, rest = controller_run(chunks)
      if outcome != "open" or got != msgs or rest != b"":
        return "controller: outcome %s, %d/%d messages, %d bytes left" % (outcome, len(got), len(msgs), len(rest))
      got, outcome, rest, sent = switch_run(chunks)
      if outcome != "open" or got != msgs or rest != b"":
        return "switch: outcome %s, %d/%d messages, %d bytes left" % (outcome, len(got), len(msgs), len(rest))
      # an incomplete trailing message is held, never delivered early
      k = cuts[0]
      got, outcome, rest = controller_run(split(stream[:k], []))
      done = 0
      pos = 0
      for m in msgs:
        if pos + len(m) <= k:
          done += 1
          pos += len(m)
        else:
          break
      if got != msgs[:done] or rest != stream[pos:k]:
        return "controller delivered %d messages from a %d byte prefix (expected %d)" % (len(got), k, done)
      got, outcome, rest, sent = switch_run(split(stream[:k], []))
      if got != msgs[:done] or rest != stream[pos:k]:
        return "switch delivered %d messages from a %d byte prefix (expected %d)" % (len(got), k, done)
    yield ("cuts=%s" % (cuts if len(cuts) < 8 else "%d cuts" % len(cuts)), t)
  # messages near the 16-bit length limit (they necessarily arrive over many 2048-byte reads)
  for blen in (32759, 32760, 32761, 40000, 65527):
    big = of.ofp_echo_request(body=bytes((i * 31 + blen) & 255 for i in range(blen)))
    big.xid = 77
    pin = of.ofp_packet_in(in_port=1, data=b"z" * (blen - 10), total_len=blen - 10)
    pin.xid = 78
    seq = [msgs[0], big.pack(), msgs[18], pin.pack(), msgs[19]]
    bstream = b"".join(seq)
    for cuts in ([], [1], [len(seq[0]) + 3], [len(seq[0]) + len(seq[1]) - 1], [len(seq[0]) + len(seq[1]) + 1],
                 rng.sample(range(1, len(bstream)), 5)):
      def t(cuts=cuts, seq=seq, bstream=bstream):
        chunks = split(bstream, cuts)
        got, outcome, rest = controller_run(chunks)
        if outcome != "open" or got != seq or rest != b"":
          return "controller: outcome %s, %d/%d messages, %d bytes left" % (outcome, len(got), len(seq), len(rest))
        got, outcome, rest, sent = switch_run(chunks)
        if outcome != "open" or got != seq or rest != b"":
          return "switch: outcome %s, %d/%d messages, %d bytes left" % (outcome, len(got), len(seq), len(rest))
      yield ("large message of %d bytes, cuts=%s" % (blen + 8, cuts), t)


@standin("C10", bound="22 message types: every truncation point, every length-field value 0..len+8, every type/version "
                       "byte value, every byte position x {0x00,0xff,+1,-1,^0x80}, 300 random mutations each; placed "
                       "between two valid messages; both sides",
         target="pox.openflow.of_01:Connection.read / pox.datapaths.switch:OFConnection.read", timeout_s=280)
def malformed_messages_are_contained(tier, seed):
  rng = random.Random(seed)
  msgs = corpus()
  before = msgs[2]
  after = msgs[18]
  for mi, good in enumerate(msgs):
    variants = []
    for k in range(len(good)):
      variants.append(("trunc%d" % k, good[:k]))
    for L in range(0, len(good) + 9):
      variants.append(("len=%d" % L, good[:2] + bytes([L >> 8, L & 255]) + good[4:]))
    for v in range(256):
      variants.append(("type=%d" % v, good[:1] + bytes([v]) + good[2:]))
      variants.append(("version=%d" % v, bytes([v]) + good[1:]))
    for pos in range(len(good)):
      for f in (lambda x: 0, lambda x: 255, lambda x: (x + 1) & 255, lambda x: (x - 1) & 255, lambda x: x ^ 0x80):
        nb = f(good[pos])
        if nb != good[pos]:
          variants.append(("byte%d=%d" % (pos, nb), good[:pos] + bytes([nb]) + good[pos + 1:]))
    for r in range(40 if tier == "quick" else 300):
      bb = bytearray(good)
      for _ in range(rng.randrange(1, 4)):
        bb[rng.randrange(len(bb))] = rng.randrange(256)
      variants.append(("rand%d" % r, bytes(bb)))
    for name, bad in variants:
      def t(bad=bad):
        stream = before + bad + after
        chunks = split(stream, [len(before), len(before) + len(bad)])
        got, outcome, rest = controller_run(chunks)
        if not got or got[0] != before:
          return "controller: the valid message before the bad one was not delivered unchanged"
        for g in got[1:]:
          if g != after and g not in (bad,) and len(g) > len(bad) + len(after):
            return "controller delivered a message longer than what followed the first one"
        got2, outcome2, rest2, sent = switch_run(chunks)
        if not got2 or got2[0] != before:
          return "switch: the valid message before the bad one was not delivered unchanged"
        if outcome2 == "open" and not rest2 and got2[-1] != after and len(bad) >= 8 and \
           (bad[2] << 8 | bad[3]) == len(bad):
          return "switch: connection stayed open, stream fully consumed, but the trailing valid message was lost"
        for e in sent:
          if not isinstance(e, bytes):
            e = e.pack()
          if len(e) < 12 or e[1] != 1 or (e[2] << 8 | e[3]) != len(e):
            return "switch sent something that is not a well-formed error message"
        # a complete frame whose type byte is not an OpenFlow 1.0 message type: "answered with an error and skipped or that
        # one connection is closed" - it is never handed on as if it were a message
        if len(bad) >= 8 and (bad[2] << 8 | bad[3]) == len(bad) and bad[1] > 21 and bad[0] == 1:
          if len(got) > 1 and outcome == "open":
            return "controller: frame of unknown type %d was passed over silently (connection open, later traffic delivered)" % bad[1]
          if outcome2 == "open" and not sent:
            return "switch: frame of unknown type %d was neither answered with an error nor was the connection closed" % bad[1]
          if len(got2) > 2 or (len(got2) == 2 and got2[1] != after):
            return "switch: frame of unknown type %d was handed to the message handler" % bad[1]
        return None
      yield ("msg%d/%s" % (mi, name), t)
