"""C01 - Nicira extension codec, the fixed-layout part under generated contracts (added 2026-09-25; before that the whole
module was covered by the bounded stand-in c01_nicira_standin.py only).

Tables: spec/nx_layout.py (transcribed from nicira-ext.h).  For every class below - field values free in their wire
ranges - the same five clauses as for the OpenFlow 1.0 classes (c01_codec.py) are discharged on the real
pack / unpack / __len__ / __eq__ of pox/openflow/nicira.py and the vendor base classes of libopenflow_01.py:
layout (incl. vendor id and subtype code), length, consumed, round_trip, re_encode.
Still stand-in only: NXM entries / nx_match (class-generated, text-keyed), nx_flow_mod, nxt_packet_in, learn / bundle /
reg_move / reg_load / output_reg (they embed NXM headers)."""
from pyvc.api import unit, Case
from spec.of10_layout import fixed_size, layout
from spec.nx_layout import TABLES, SIZEOF, OFPT_VENDOR, OFPAT_VENDOR, NXAST
import pox.openflow.nicira as nx
from contracts.c01_codec import build_fields, _rt_message, _rt_action2

P = "C01"
MOD = "pox.openflow.nicira:"

for _n, _sz in SIZEOF.items():
  assert fixed_size(TABLES[_n]) == _sz, (_n, fixed_size(TABLES[_n]), _sz)


def make_nx_unit(cname, kind, pre=None, post_fields=None):
  table = TABLES[cname]
  cls = getattr(nx, cname)

  def u(b):
    vals = {}
    o = b.new(cls)
    build_fields(b, table, "", o, vals, 0)
    if pre:
      pre(b, o, vals)
    total = fixed_size(table)
    harness = _rt_message if kind == "message" else _rt_action2
    typecode = OFPT_VENDOR if kind == "message" else OFPAT_VENDOR
    return Case(harness, [o], ensures={
      "layout": lambda res: res[0] == layout(table, vals, typecode, total),
      "length": lambda res: res[1] == total and len(res[0]) == total,
      "consumed": lambda res: res[2] == total,
      "round_trip": lambda res: res[3] == True,
      "re_encode": lambda res: res[4] == res[0],
    })
  u.__name__ = cname
  unit(P, target=MOD + cname + ".pack/unpack/__len__/__eq__ (+ vendor base classes)")(u)
  return u


def _bool_enable(b, o, vals):
  # the message carries a flag; the object holds a bool
  e = b.bool("enable_flag")
  b.set(o, "enable", e)
  vals["enable"] = b.If(e, 1, 0) if b.mode == "sym" else (1 if e else 0)


def _resubmit_subtypes(b, o, vals):
  st = vals["subtype"]
  ok = b.Or(st == NXAST["NXAST_RESUBMIT"], st == NXAST["NXAST_RESUBMIT_TABLE"]) if b.mode == "sym" else None
  if b.mode == "sym":
    b.assume(ok)
  else:
    v = [NXAST["NXAST_RESUBMIT"], NXAST["NXAST_RESUBMIT_TABLE"]][st % 2]
    b.set(o, "subtype", v)
    vals["subtype"] = v
    b.drawn["subtype"] = v


for _n in ["nx_packet_in_format", "nx_role_request", "nx_role_reply", "nx_async_config"]:
  make_nx_unit(_n, "message")
make_nx_unit("nx_flow_mod_table_id", "message", pre=_bool_enable)

for _n in ["nx_action_set_tunnel", "nx_action_set_tunnel64", "nx_action_fin_timeout", "nx_action_exit", "nx_action_dec_ttl",
           "nx_action_controller", "nx_action_push_mpls", "nx_action_pop_mpls", "nx_action_mpls_label", "nx_action_mpls_tc"]:
  make_nx_unit(_n, "action")
make_nx_unit("nx_action_resubmit", "action", pre=_resubmit_subtypes)


# ---- nx_async_config: the mask setters (the way a caller builds the message)

def _mk_async_setter(which):
  def u(b):
    o = b.new(nx.nx_async_config)
    names = ["packet_in_mask", "packet_in_mask_slave", "port_status_mask", "port_status_mask_slave",
             "flow_removed_mask", "flow_removed_mask_slave"]
    old = {}
    for n in names:
      old[n] = b.int(n, 0, 2 ** 32 - 1)
      b.set(o, n, old[n])
    bit = b.int("bit", 0, 2 ** 32 - 1)
    master, slave = b.bool("master"), b.bool("slave")
    def run(o):
      getattr(o, "set_" + which)(bit, master, slave)
      return [getattr(o, n) for n in names]
    def expected():
      out = []
      for n in names:
        if n == which + "_mask":
          out.append((old[n] | bit) if master else old[n])
        elif n == which + "_mask_slave":
          out.append((old[n] | bit) if slave else old[n])
        else:
          out.append(old[n])
      return out
    return Case(run, [o], raises={}, ensures={
      "exactly_the_named_mask_of_the_named_roles_gains_the_bits": lambda res: all([a == e for a, e in zip(res, expected())]),
    })
  u.__name__ = "nx_async_config_set_" + which
  unit(P, target=MOD + "nx_async_config.set_" + which)(u)


for _w in ("packet_in", "port_status", "flow_removed"):
  _mk_async_setter(_w)
