"""C03 - table order and lookup: TableEntry.effective_priority, FlowTable.add_entry (binary search insert),
FlowTable.entry_for_packet (first match) - for tables of ANY length (loop invariants over a symbolic list)."""
from pyvc.api import unit, Case, LoopSpec, CallSpec, forall
import pox.openflow.libopenflow_01 as of
from pox.openflow.flow_table import TableEntry, FlowTable
from contracts.c01_match import build_match, prereq_ok

P = "C03"
FT = "pox.openflow.flow_table:"
EXACT = (1 << 16) + 1
RAISE = {"pox.lib.revent.revent:EventMixin.raiseEvent":
         CallSpec("opaque", envelope="table-modification listeners do not modify the table's entry list")}


@unit(P, target=FT + "TableEntry.effective_priority")
def effective_priority(b):
  m, mi = build_match(b)
  p = b.int("priority", 0, 65535)
  e = b.raw_new(TableEntry, priority=p, match=m)
  return Case(lambda x: x.effective_priority, [e], ensures={
    "exact_entries_outrank_every_priority": lambda res: res == (EXACT if mi.W == 0 else p),
  })


def mk_entry(ep, matches=None):
  """concrete table entry with the given effective priority (and, optionally, matching everything / nothing
  arriving on port 1)"""
  if ep == EXACT:
    m = of.ofp_match()
    for k_, v in dict(in_port=(1 if matches in (None, True) else 2), dl_src=b"\1\2\3\4\5\6", dl_dst=b"\6\5\4\3\2\1",
                      dl_vlan=0xffff, dl_vlan_pcp=0, dl_type=0x9000, nw_tos=0, nw_proto=0, nw_src=0, nw_dst=0,
                      tp_src=0, tp_dst=0).items():
      setattr(m, k_, v)
    m.wildcards = 0
    return TableEntry(priority=7, match=m, now=0.0)
  m = of.ofp_match(in_port=(1 if matches in (None, True) else 2))
  return TableEntry(priority=ep, match=m, now=0.0)


def table_of(b, name, attrs, sorted_=True):
  """a flow table whose entry list has any length; entries are abstract, described by `attrs`"""
  if b.mode == "sym":
    import z3
    lst = b.slist(name, attrs)
    n = b.slist_len(lst)
    K = b.slist_attr(lst, "effective_priority")
    j = z3.Int(name + "!j")
    b.assume(z3.ForAll([j], z3.Or(z3.And(K[j] >= 0, K[j] <= 65535), K[j] == EXACT)))
    if sorted_:
      i = z3.Int(name + "!i")
      b.assume(z3.ForAll([i, j], z3.Implies(z3.And(0 <= i, i <= j, j < n), K[i] >= K[j])))
    old = K
  else:
    def make(i, vals):
      if vals is None:
        ep = b.rng.choice([EXACT, 0, 1, 0x8000, 0xffff, b.rng.randrange(65536)])
        mt = b.rng.random() < 0.4
      else:
        ep = vals["effective_priority"]
        mt = vals.get("match.matches_with_wildcards()", True)
      return mk_entry(ep, mt)
    lst = b.slist(name, attrs, 8, make)
    if sorted_:
      lst.sort(key=lambda e: e.effective_priority, reverse=True)
    n = len(lst)
    old = [e.effective_priority for e in lst]
  ft = b.raw_new(FlowTable, _table=lst, _eventMixin_handlers={}, _eventMixin_initialized=True)
  return ft, lst, n, old


@unit(P, target=FT + "FlowTable.add_entry")
def add_entry_keeps_order(b):
  ft, lst, n0, old = table_of(b, "table", {"effective_priority": "int"})
  m, mi = build_match(b)
  p = b.int("priority", 0, 65535)
  e = b.raw_new(TableEntry, priority=p, match=m)
  prio = b.If(mi.W == 0, EXACT, p)
  inv = LoopSpec(
    invariant=lambda v: 0 <= v.low and v.low <= v.high and v.high <= len(v.table)
    and forall(0, v.low, lambda j: v.table[j].effective_priority > v.priority)
    and forall(v.high, len(v.table), lambda j: v.table[j].effective_priority <= v.priority),
    variant=lambda v: v.high - v.low)
  return Case(FlowTable.add_entry, [ft, e], loops={(FT + "FlowTable.add_entry", 1): inv}, calls=RAISE, ensures={
    "one_more_entry": lambda res: len(ft._table) == n0 + 1,
    "still_sorted_by_descending_effective_priority":
      lambda res: forall(0, n0 + 1, lambda i: forall(i, n0 + 1, lambda j: ft._table[i].effective_priority
                                                     >= ft._table[j].effective_priority)),
    "inserted_before_equal_and_lower_priorities":
      lambda res: placed(ft._table, b.inserted_at(ft._table, e), prio, old, n0),
  })


def placed(new, p, prio, old, n0):
  return (0 <= p and p <= n0 and new[p].effective_priority == prio
          and forall(0, p, lambda j: new[j].effective_priority == old[j] and old[j] > prio)
          and forall(p + 1, n0 + 1, lambda j: new[j].effective_priority == old[j - 1] and old[j - 1] <= prio))


def frame(b):
  """an Ethernet frame object (concrete in native runs; opaque under proof, where from_packet is a callee
  with its own contract, see c03_extract)"""
  if b.mode == "sym":
    return b.raw_new(object)
  from pox.lib.packet.ethernet import ethernet
  from pox.lib.addresses import EthAddr
  return ethernet(src=EthAddr(b"\1\2\3\4\5\6"), dst=EthAddr(b"\6\5\4\3\2\1"), type=0x9000, payload=b"x" * 46)


def _fragments_by_the_spec(I, st, args, kws):
  """precondition of the extraction callee as the lookup uses it: OpenFlow 1.0 matches IP fragments with tp_src = tp_dst = 0,
  which from_packet does only when asked (spec_frags = True; its default is the Open vSwitch behaviour).  Added 2026-09-25
  after seeded change C03_8 dropped the argument."""
  a = [x for x in args if not isinstance(x, type)]          # (cls,) packet, in_port[, spec_frags]
  v = kws.get("spec_frags", a[2] if len(a) > 2 else False)
  return v is True


LOOKUP_CALLS = {"pox.openflow.libopenflow_01:ofp_match.from_packet":
                CallSpec("opaque", returns=lambda I, st, a, k: st.alloc("obj", object, {}), requires=_fragments_by_the_spec,
                         envelope="from_packet returns the frame's header fields (contract: c03_extract units, which call "
                                  "it with spec_frags=True - required at this call site)")}


@unit(P, target=FT + "FlowTable.entry_for_packet")
def entry_for_packet_first_match(b):
  ft, lst, n, old = table_of(b, "table", {"effective_priority": "int", "match.matches_with_wildcards()": "bool"})
  pkt = frame(b)
  def M(j):
    return ft._table[j].match.matches_with_wildcards(of.ofp_match.from_packet(pkt, 1, spec_frags=True),
                                                     consider_other_wildcards=False)
  inv = LoopSpec(invariant=lambda v: forall(0, v._i, lambda j: not M(j)))
  return Case(FlowTable.entry_for_packet, [ft, pkt, 1], calls=LOOKUP_CALLS,
              loops={(FT + "FlowTable.entry_for_packet", 1): inv}, ensures={
    "miss_only_if_nothing_matches": lambda res: (res is None) == forall(0, n, lambda j: not M(j)),
    "result_matches": lambda res: res is None or M(b.index_of(ft._table, res)),
    "no_earlier_entry_matches": lambda res: res is None or forall(0, b.index_of(ft._table, res), lambda j: not M(j)),
    "highest_effective_priority_among_matching":
      lambda res: res is None or forall(0, n, lambda j: (not M(j)) or ft._table[j].effective_priority
                                        <= ft._table[b.index_of(ft._table, res)].effective_priority),
  })
