"""C11 - the learning switch's decision per packet-in (pox/forwarding/l2_learning.py) and the buffer hand-back.

The end-to-end statement (frames delivered like an ideal learning bridge over any network) composes four contracts:
  * this file: LearningSwitch._handle_PacketIn as ONE STEP over the abstract table macToPort (address -> port), for
    arbitrary source / destination addresses, ingress port, ethertype, table contents (0..2 other entries, the
    destination known or not, on the ingress port or another) and buffered / unbuffered packet-ins:
        table' = table[src := in_port]
        exactly one message goes to the switch, and it is
          filtered (LLDP / 01:80:c2:00:00:0x, non-transparent): a packet-out without actions naming the buffer - or, for
                                                  an unbuffered packet, nothing;
          multicast or unknown destination:       a packet-out FLOOD carrying the buffer id or the frame, in_port = ingress;
          destination known on the ingress port:  a flow-mod without actions (drop) naming the buffer;
          destination known on another port:      a flow-mod matching the frame exactly with ONE output action to the
                                                  port learnt for the destination (10 s idle / 30 s hard), carrying the
                                                  packet-in (buffer id, or the frame via the data hand-off)
        in every branch a buffered packet-in has its buffer id named in the message sent (never leaked)
  * ofp_flow_mod.pack with a packet-in as `data`: the buffer id travels in the flow-mod, or the frame follows behind a
    barrier as a packet-out to OFPP_TABLE
  * the datapath's action / output rules (C12), flow-mod state machine (C04) and buffers (C18)
The composition over a network and a frame history is an argument (DESIGN.md), not a machine-checked lemma."""
from pyvc.api import unit, Case, CallSpec, native
import pox.openflow.libopenflow_01 as of
import pox.forwarding.l2_learning as l2
from pox.forwarding.l2_learning import LearningSwitch
from pox.lib.addresses import EthAddr
from pox.lib.packet.ethernet import ethernet

P = "C11"
L2 = "pox.forwarding.l2_learning:"
SENT = []


class _G(object):
  @native
  def get(self, st, name):
    return st.ghost.get(name)


G = _G()


def sent(b):
  return list(G.get("sent") or ()) if b.mode == "sym" else list(SENT)


class Conn(object):
  connect_time = 0.0

  def send(self, msg):
    SENT.append(msg)

  def addListeners(self, *a, **k):
    pass


class Event(object):
  pass


class SendSpec(CallSpec):
  def __init__(self):
    CallSpec.__init__(self, "contract", envelope="Connection.send: property C20 (the message object is handed over)")

  def apply(self, I, f, args, kws, st, ctx, k, node):
    st.ghost["sent"] = tuple(st.ghost.get("sent", ())) + (args[1],)
    return k(st, None)


def _mk_decision(n_other, dst_known):
  """n_other: table entries for addresses other than the destination; dst_known: None (unknown) / 'same' / 'other'"""
  def u(b):
    src = b.bytes("src", 6)
    dst = b.bytes("dst", 6)
    others = [b.bytes("other%d" % i, 6) for i in range(n_other)]
    in_port = b.int("in_port", 1, 0xff00)
    dst_port = b.int("dst_port", 1, 0xff00)
    other_ports = [b.int("other%d.port" % i, 1, 0xff00) for i in range(n_other)]
    etype = b.int("ethertype", 0x0600, 0xffff)
    buffered = b.bool("buffered")
    buffer_id = b.int("buffer_id", 0, 0xfffffffe)
    transparent = b.bool("transparent")
    frame = b.bytes("frame", None, 60, 1514)
    # table keys are pairwise different addresses, and different from the destination (the destination's own entry is
    # separate); the source may coincide with any of them
    def ne(x, y):
      return b.Not(x == y) if b.mode == "sym" else x != y
    if b.mode == "sym":
      from pyvc import sbytes as sb
      def ne(x, y):
        return b.Not(sb.bytes_eq(x, y, b.st))
    for i in range(n_other):
      b.assume(ne(others[i], dst))
      for j in range(i):
        b.assume(ne(others[i], others[j]))
    if dst_known == "same":
      b.assume(dst_port == in_port)
    elif dst_known == "other":
      b.assume(b.Not(dst_port == in_port) if b.mode == "sym" else dst_port != in_port)
    table = {}
    keys = []
    for i in range(n_other):
      kobj = b.new(EthAddr, others[i])
      keys.append(kobj)
      table[kobj] = other_ports[i]
    if dst_known is not None:
      dkey = b.new(EthAddr, dst)
      table[dkey] = dst_port
    pkt = b.raw_new(ethernet, prev=None, next=None, parsed=True, raw=None, src=b.new(EthAddr, src),
                    dst=b.new(EthAddr, dst), type=etype)
    pi = b.new(of.ofp_packet_in)
    b.set(pi, "in_port", in_port)
    b.set(pi, "_data", frame)
    b.set(pi, "_total_len", len(frame) if b.mode == "conc" else frame.length())
    if b.mode == "sym":
      from pyvc.values import Union
      b.set(pi, "_buffer_id", Union([(buffered, buffer_id), (b.Not(buffered), of.NO_BUFFER)]))
    else:
      pi._buffer_id = buffer_id if buffered else of.NO_BUFFER
    ev = b.raw_new(Event, parsed=pkt, port=in_port, ofp=pi, dpid=1)
    con = b.raw_new(Conn, connect_time=0.0)
    sw = b.raw_new(LearningSwitch, connection=con, transparent=transparent, macToPort=b.dict(table), hold_down_expired=True)
    cs = {}
    if b.mode == "sym":
      b.st.ghost["sent"] = ()
      cs = {"contracts.c11_l2learning:Conn.send": SendSpec(),
            "time:time": CallSpec("assumed", returns=lambda I, st, a, k: 100.0, envelope="clock (hold-down delay is 0)"),
            "pox.openflow.libopenflow_01:ofp_match.from_packet":
              CallSpec("contract", returns=lambda I, st, a, k: st.alloc("obj", of.ofp_match, {"_from": a[1], "_port": (a[2] if len(a) > 2 else k.get("in_port"))}),
                       envelope="ofp_match.from_packet: exact match of the frame's headers (C03 extraction units)")}
    else:
      del SENT[:]
    def run(sw, ev):
      sw._handle_PacketIn(ev)
      return [(k_.toRaw(), sw.macToPort[k_]) for k_ in sw.macToPort]
    filtered = lambda: (not transparent) and (etype == 0x88cc or (dst[0] == 1 and dst[1] == 0x80 and dst[2] == 0xc2 and dst[3] == 0
                                                                   and dst[4] == 0 and dst[5] < 16))
    multicast = lambda: dst[0] % 2 == 1
    # after learning the source, is the destination known and where?
    known_port = lambda: in_port if dst == src else (dst_port if dst_known is not None else None)
    def one(kind):
      return len(sent(b)) == 1 and type(sent(b)[0]) is kind
    def names_buffer(m):
      return m.buffer_id == buffer_id if buffered else m.buffer_id is None
    def expected_table():
      ent = [(others[i], other_ports[i]) for i in range(n_other)] + ([(dst, dst_port)] if dst_known is not None else [])
      out = [(k_, (in_port if k_ == src else v)) for k_, v in ent]
      if not any([k_ == src for k_, v in ent]):
        out.append((src, in_port))
      return out
    def flow_matches_this_frame_on_its_ingress_port(m):
      # under proof from_packet is a callee (C03 extraction): the stub records which frame and which port it was given
      if b.mode == "sym":
        return m._from is pkt and m._port == in_port
      return m.in_port == in_port and m.dl_src == pkt.src and m.dl_dst == pkt.dst and m.dl_type == etype
    def same_table(a, e):
      return len(a) == len(e) and all([any([x[0] == y[0] and x[1] == y[1] for y in e]) for x in a])
    return Case(run, [sw, ev], calls=cs, raises={}, ensures={
      "the_source_is_learnt_on_the_ingress_port_nothing_else_changes": lambda res: same_table(res, expected_table()),
      "filtered_frames_are_dropped_and_their_buffer_released":
        lambda res: not filtered() or ((one(of.ofp_packet_out) and len(sent(b)[0].actions) == 0 and sent(b)[0].buffer_id == buffer_id
                                        and sent(b)[0].in_port == in_port) if buffered else len(sent(b)) == 0),
      "multicast_and_unknown_destinations_are_flooded":
        lambda res: filtered() or not (multicast() or known_port() is None) or (
          one(of.ofp_packet_out) and len(sent(b)[0].actions) == 1 and type(sent(b)[0].actions[0]) is of.ofp_action_output
          and sent(b)[0].actions[0].port == of.OFPP_FLOOD and sent(b)[0].in_port == in_port and names_buffer(sent(b)[0])
          and (buffered or sent(b)[0].data == frame)),
      "a_destination_on_the_ingress_port_is_dropped_never_sent_back":
        lambda res: filtered() or multicast() or known_port() is None or known_port() != in_port or (
          one(of.ofp_flow_mod) and len(sent(b)[0].actions) == 0 and names_buffer(sent(b)[0])
          and sent(b)[0].idle_timeout == 10 and sent(b)[0].hard_timeout == 10),
      "a_known_destination_gets_a_flow_to_exactly_the_learnt_port":
        lambda res: filtered() or multicast() or known_port() is None or known_port() == in_port or (
          one(of.ofp_flow_mod) and len(sent(b)[0].actions) == 1 and type(sent(b)[0].actions[0]) is of.ofp_action_output
          and sent(b)[0].actions[0].port == known_port() and sent(b)[0].idle_timeout == 10 and sent(b)[0].hard_timeout == 30
          and sent(b)[0].data is pi and sent(b)[0].command == of.OFPFC_ADD
          and flow_matches_this_frame_on_its_ingress_port(sent(b)[0].match)),
    })
  u.__name__ = "packet_in_%d_other_entries_destination_%s" % (n_other, dst_known or "unknown")
  u.bound = "learning table with 0..2 entries besides the destination's; all addresses, ports, ethertypes symbolic"
  unit(P, target=L2 + "LearningSwitch._handle_PacketIn", timeout_s=900)(u)


for _n in (0, 1, 2):
  for _d in (None, "same", "other"):
    _mk_decision(_n, _d)


# ---------------------------------------------------------------- ofp_flow_mod.pack with the packet-in handed over as `data`

def _pack_flow_mod(fm):
  return fm.pack()


@unit(P, target="pox.openflow.libopenflow_01:ofp_flow_mod.pack (data = packet-in)")
def flow_mod_hands_the_packet_back(b):
  """the learning switch sends ONE flow-mod with msg.data = the packet-in: a buffered packet travels as the flow-mod's
  buffer id; an unbuffered one follows the flow-mod behind a barrier as a packet-out to OFPP_TABLE with the whole frame"""
  frame = b.bytes("frame", None, 60, 1514)
  n = len(frame) if b.mode == "conc" else frame.length()
  in_port = b.int("in_port", 1, 0xff00)
  out_port = b.int("out_port", 1, 0xff00)
  buffered = b.bool("buffered")
  buffer_id = b.int("buffer_id", 0, 0xfffffffe)
  pi = b.new(of.ofp_packet_in)
  b.set(pi, "in_port", in_port)
  b.set(pi, "_data", frame)
  # a buffered packet-in usually carries only the first miss_send_len bytes: its total length may exceed its data
  extra = b.int("bytes_kept_in_the_switch_buffer", 0, 9000)
  if b.mode == "sym":
    from pyvc.values import Union
    b.set(pi, "_buffer_id", Union([(buffered, buffer_id), (b.Not(buffered), of.NO_BUFFER)]))
    b.set(pi, "_total_len", b.If(buffered, n + extra, n))
  else:
    pi._buffer_id = buffer_id if buffered else of.NO_BUFFER
    pi._total_len = n + extra if buffered else n
  fm = b.new(of.ofp_flow_mod)
  act = b.new(of.ofp_action_output)
  b.set(act, "port", out_port)
  b.set(fm, "actions", b.list([act]))
  b.set(fm, "idle_timeout", 10)
  b.set(fm, "hard_timeout", 30)
  b.set(fm, "data", pi)
  def be(v, k_):
    return bytes([(v >> (8 * (k_ - 1 - i))) % 256 for i in range(k_)]) if b.mode == "conc" else None
  return Case(_pack_flow_mod, [fm], raises={}, ensures={
    "a_buffered_packet_travels_as_the_flow_mods_buffer_id":
      lambda res: not buffered or (len(res) == 80 and res[0] == 1 and res[1] == 14 and res[2] * 256 + res[3] == 80
                                   and ((res[64] * 256 + res[65]) * 256 + res[66]) * 256 + res[67] == buffer_id),
    "an_unbuffered_packet_follows_behind_a_barrier_as_a_packet_out_to_the_table":
      lambda res: buffered or (
        len(res) == 80 + 8 + 24 + n
        and res[1] == 14 and res[2] * 256 + res[3] == 80 and res[64] == 255 and res[65] == 255 and res[66] == 255 and res[67] == 255
        and res[80] == 1 and res[81] == 18 and res[82] * 256 + res[83] == 8
        and res[88] == 1 and res[89] == 13 and res[90] * 256 + res[91] == 24 + n
        and res[96] == 255 and res[97] == 255 and res[98] == 255 and res[99] == 255
        and res[100] * 256 + res[101] == in_port and res[102] * 256 + res[103] == 8
        and res[104] * 256 + res[105] == 0 and res[106] * 256 + res[107] == 8 and res[108] * 256 + res[109] == of.OFPP_TABLE
        and res[112:] == frame),
    "the_flow_mod_keeps_its_output_action": lambda res: res[72] * 256 + res[73] == 0 and res[74] * 256 + res[75] == 8
                                                          and res[76] * 256 + res[77] == out_port,
  })
