"""C19 - discovery adjacency and the spanning tree: BOUNDED STAND-INS ONLY (nothing here is counted as proved).

No contract within reach decides C19: the spanning-tree statement quantifies over graphs (reachability of a flooded
frame), which a per-call contract over integers / sequences cannot express for an arbitrary graph without an inductive
graph theory the home-made VC generator does not have; the discovery probe is encoded and decoded through text
(`'dpid:' + hex(..)`, `str(port)`, `int(.., 16)`, `isdigit`), which z3 / cvc5 leave undecided (DESIGN.md 2.4).
The functions are therefore exercised natively, against independent oracles, over stated bounds:

  spanning_tree_is_a_spanning_forest   _calc_spanning_tree on every directed multigraph over 3 switches with up to two
                                       parallel links per ordered pair, every directed simple graph over 4 switches, and random
                                       multigraphs up to 7 switches: tree edges are bidirectional links with the right ports,
                                       symmetric, acyclic, and connect exactly the components of the bidirectional graph
  flooding_follows_the_tree            _update_tree on the same graphs with 2 host ports per switch: NO_FLOOD is cleared
                                       exactly on tree ports and host-facing ports, set on the other inter-switch ports,
                                       and a frame flooded from any host port reaches every switch of its component once
  probe_round_trip                     _create_discovery_packet -> bytes -> ethernet() -> _handle_openflow_PacketIn for
                                       boundary and random 64-bit dpids x 16-bit ports: the adjacency gains exactly the link
                                       (origin dpid, origin port) -> (receiving dpid, port), one LinkEvent(added); repeating
                                       it only refreshes the timestamp; expiry / switch disconnect withdraw the links with
                                       one LinkEvent(removed) each, added always before removed"""
import itertools
import random
from pyvc.api import standin

P = "C19"


class FakeCon(object):
  def __init__(self, dpid, ports):
    import pox.openflow.libopenflow_01 as of
    from pox.lib.addresses import EthAddr
    self.dpid = dpid
    self.connect_time = 1.0
    self.sent = []
    self.ports = dict((p, of.ofp_phy_port(port_no=p, hw_addr=EthAddr(bytes([2, 0, 0, 0, dpid & 255, p & 255])))) for p in ports)

  def send(self, m):
    self.sent.append(m)


class FakeNexus(object):
  def __init__(self, cons):
    self.cons = cons

  @property
  def connections(self):
    from pox.openflow import ConnectionDict
    return ConnectionDict(self.cons)

  def getConnection(self, dpid):
    return self.cons.get(dpid)


class FakeCore(object):
  pass


def setup(links, n_switches, host_ports=(101, 102), extra_hosts=True):
  """links: list of (s1, p1, s2, p2) directed.  returns (spanning_tree module, discovery stub, cons)"""
  import pox.openflow.spanning_tree as stm
  import pox.openflow.discovery as dm
  disc = object.__new__(dm.Discovery)
  disc.adjacency = dict((dm.Discovery.Link(*l), 0.0) for l in links)
  disc._link_timeout = 10
  ports = dict((s, set(host_ports)) for s in range(1, n_switches + 1))
  for s1, p1, s2, p2 in links:
    ports[s1].add(p1)
    ports[s2].add(p2)
  if extra_hosts:
    # host ports numbered like the FAR end of a link of the same switch (a mix-up of the two ends of a link in the
    # edge-port test only shows when such numbers coincide)
    linked = set((s1, p1) for (s1, p1, s2, p2) in links) | set((s2, p2) for (s1, p1, s2, p2) in links)
    for s1, p1, s2, p2 in links:
      if (s2, p1) not in linked:
        ports[s2].add(p1)
      if (s1, p2) not in linked:
        ports[s1].add(p2)
  cons = dict((s, FakeCon(s, sorted(ps))) for s, ps in ports.items())
  core = FakeCore()
  core.openflow_discovery = disc
  core.openflow = FakeNexus(cons)
  stm.core = core
  stm.Timer = lambda *a, **k: None
  stm._prev.clear()
  stm._dirty_switches.clear()
  return stm, disc, cons


def components(nodes, edges):
  parent = dict((n, n) for n in nodes)
  def find(x):
    while parent[x] != x:
      parent[x] = parent[parent[x]]
      x = parent[x]
    return x
  for a, b in edges:
    parent[find(a)] = find(b)
  comp = {}
  for n in nodes:
    comp.setdefault(find(n), set()).add(n)
  return sorted(sorted(c) for c in comp.values())


def check_tree(links, n):
  stm, disc, cons = setup(links, n)
  tree = stm._calc_spanning_tree()
  L = set(links)
  bidir_pairs = set()
  for (s1, p1, s2, p2) in L:
    if (s2, p2, s1, p1) in L:
      bidir_pairs.add(frozenset((s1, s2)))
  nodes = set()
  for (s1, p1, s2, p2) in L:
    nodes.add(s1)
    nodes.add(s2)
  und = set()
  for v, nbrs in tree.items():
    seen = set()
    for (w, p) in nbrs:
      if w in seen:
        return "two tree edges from %s to %s" % (v, w)
      seen.add(w)
      back = [q for (x, q) in tree.get(w, ()) if x == v]
      if len(back) != 1:
        return "tree edge %s->%s (port %s) has no single reverse entry" % (v, w, p)
      if (v, p, w, back[0]) not in L or (w, back[0], v, p) not in L:
        return "tree edge %s.%s <-> %s.%s is not a bidirectional discovered link" % (v, p, w, back[0])
      und.add(frozenset((v, w)))
  want = components(nodes, [tuple(e) for e in bidir_pairs])
  got = components(nodes, [tuple(e) for e in und])
  if want != got:
    return "tree components %s, bidirectional-link components %s" % (got, want)
  if len(und) != len(nodes) - len(want):
    return "%d tree edges for %d switches in %d components (cycle or missing edge)" % (len(und), len(nodes), len(want))
  return None


def check_flood(links, n, part="main"):
  """part 'main': every clause, with the one-way-link ports of switches that have no bidirectional link taken as the
  property wants them (flooding off);  part 'oneway': exactly that remaining clause - those ports have flooding off"""
  stm, disc, cons = setup(links, n)
  stm._update_tree()
  return judge_flood(stm, cons, links, part)


def flood_flags(cons):
  """resulting flood flags: default enabled, changed by the port-mods sent so far (in order)"""
  import pox.openflow.libopenflow_01 as of
  flood = dict(((s, p), True) for s, c in cons.items() for p in c.ports)
  for s, c in cons.items():
    for m in c.sent:
      if isinstance(m, of.ofp_port_mod) and m.mask & of.OFPPC_NO_FLOOD:
        flood[(s, m.port_no)] = not (m.config & of.OFPPC_NO_FLOOD)
  return flood


def judge_flood(stm, cons, links, part="main"):
  """the oracle: links = the directed links of the adjacency as it is NOW"""
  L = set(links)
  flood = flood_flags(cons)
  tree = stm._calc_spanning_tree()
  tree_ports = set((v, p) for v, nbrs in tree.items() for (w, p) in nbrs)
  linked = set((s1, p1) for (s1, p1, s2, p2) in L) | set((s2, p2) for (s1, p1, s2, p2) in L)
  bidir = set((s1, p1) for (s1, p1, s2, p2) in L if (s2, p2, s1, p1) in L)
  in_bidir = set(s_ for (s_, p_) in bidir)
  outside = sorted((s_, p_) for (s_, p_) in linked if s_ not in in_bidir)
  if part == "oneway":
    on = [x for x in outside if flood[x]]
    if on:
      return ("port %s.%s carries only a one-way link and its switch has no bidirectional link: flooding stays enabled on "
              "this inter-switch port outside the forest" % on[0])
    return None
  for x in outside:
    flood[x] = False
  for (s, p), f in sorted(flood.items()):
    if (s, p) not in linked and not f:
      return "host-facing port %s.%s has flooding disabled" % (s, p)
    if (s, p) in bidir and f != ((s, p) in tree_ports):
      return "inter-switch port %s.%s: flooding %s but %s the tree" % (s, p, "on" if f else "off", "in" if (s, p) in tree_ports else "not in")
  # a frame flooded from a host port of each switch reaches every switch of its bidirectional component exactly once
  nodes = sorted(cons)
  bid_edges = [(s1, s2) for (s1, p1, s2, p2) in L if (s2, p2, s1, p1) in L]
  comp_of = {}
  for c in components(nodes, bid_edges):
    for x in c:
      comp_of[x] = tuple(c)
  out = {}
  for (s1, p1, s2, p2) in L:
    out.setdefault((s1, p1), []).append((s2, p2))
  for start in nodes:
    visits = dict((x, 0) for x in nodes)
    frontier = [(start, 101)]
    visits[start] = 1
    steps = 0
    while frontier:
      steps += 1
      if steps > 50 or len(frontier) > 500:
        return "flooded frame from switch %s circulates for ever" % start
      nxt = []
      for (s, inp) in frontier:
        for p in sorted(cons[s].ports):
          if p == inp or not flood[(s, p)]:
            continue
          for (s2, p2) in out.get((s, p), []):
            visits[s2] += 1
            nxt.append((s2, p2))
      frontier = nxt
    for x in comp_of[start]:
      if visits[x] != 1:
        return "frame flooded at switch %s reaches switch %s %d times (same bidirectional component)" % (start, x, visits[x])
  return None


def graphs(tier, seed):
  rng = random.Random(seed)
  # 3 switches, up to two parallel links per ordered pair, each present or not
  pairs3 = [(a, b) for a in (1, 2, 3) for b in (1, 2, 3) if a != b]
  slots3 = [(a, b, k) for (a, b) in pairs3 for k in (0, 1)]
  def links_of(slots, chosen):
    # the k-th parallel link between a and b uses port 10*b+k on a and 10*a+k on b (so a<->b links can pair up)
    return [(a, 10 * b + k, b, 10 * a + k) for (a, b, k), c in zip(slots, chosen) if c]
  space = list(itertools.product((0, 1), repeat=len(slots3)))
  if tier == "quick":
    space = space[::7]
  for ch in space:
    yield (3, links_of(slots3, ch))
  pairs4 = [(a, b, 0) for a in (1, 2, 3, 4) for b in (1, 2, 3, 4) if a != b]
  space4 = list(itertools.product((0, 1), repeat=len(pairs4)))
  if tier == "quick":
    space4 = space4[::11]
  for ch in space4:
    yield (4, links_of(pairs4, ch))
  for _ in range(300 if tier == "quick" else 5000):
    n = rng.randint(2, 7)
    slots = [(a, b, k) for a in range(1, n + 1) for b in range(1, n + 1) if a != b for k in (0, 1)]
    dens = rng.choice([0.15, 0.3, 0.6])
    ch = [1 if rng.random() < dens else 0 for _ in slots]
    # mostly bidirectional: copy a direction to its twin with high probability
    idx = dict((s, i) for i, s in enumerate(slots))
    for (a, b, k), i in list(idx.items()):
      if ch[i] and rng.random() < 0.7:
        ch[idx[(b, a, k)]] = 1
    yield (n, links_of(slots, ch))


@standin(P, bound="all directed multigraphs on 3 switches with <= 2 parallel links per ordered pair (quick: every 7th), all "
                  "directed simple graphs on 4 switches (quick: every 11th), 300 (quick) / 5000 random multigraphs on 2..7 switches",
         target="pox.openflow.spanning_tree:_calc_spanning_tree", timeout_s=280)
def spanning_tree_is_a_spanning_forest(tier, seed):
  for i, (n, links) in enumerate(graphs(tier, seed)):
    yield ("graph %d n=%d links=%s" % (i, n, links), lambda n=n, links=links: check_tree(links, n))


@standin(P, bound="the same graphs, two host ports per switch, all switches connected and past the hold-down",
         target="pox.openflow.spanning_tree:_update_tree", timeout_s=280)
def flooding_follows_the_tree(tier, seed):
  for i, (n, links) in enumerate(graphs(tier, seed)):
    yield ("graph %d n=%d links=%s" % (i, n, links), lambda n=n, links=links: check_flood(links, n))
    yield ("one-way-only switch: graph %d n=%d links=%s" % (i, n, links), lambda n=n, links=links: check_flood(links, n, "oneway"))


class FakeEvent(object):
  pass


def check_history(links, n, removal, how):
  """links are DISCOVERED one by one through the real packet-in handler of a real Discovery object whose LinkEvents reach the
  real spanning_tree._handle_LinkEvent through the real event machinery; then `removal` (a list of directed links) is
  withdrawn - how = 'expire': they time out in one sweep of the real _expire_links under a virtual clock; how = ('down', sw): the
  switch sw disconnects (real _handle_openflow_ConnectionDown; removal = all its links).  After EVERY change the
  flood flags on the switches must satisfy the oracle for the adjacency as it is then."""
  import pox.openflow.discovery as dm
  import pox.lib.packet as pkt
  from pox.lib.addresses import EthAddr
  stm, disc, cons = setup(links, n)
  disc.adjacency = {}
  disc._eat_early_packets = False
  disc._explicit_drop = False
  disc._link_timeout = 10
  dm.core = stm.core
  disc.addListenerByName("LinkEvent", stm._handle_LinkEvent)
  import time as _t
  try:
    dm.time.time = lambda: 100.0
    for i, (s1, p1, s2, p2) in enumerate(links):
      ev = FakeEvent()
      ev.parsed = pkt.ethernet(dm.LLDPSender._create_discovery_packet(s1, p1, EthAddr(b"\x02\x00\x00\x00\x00\x01"), 120).pack())
      ev.dpid, ev.port, ev.connection, ev.ofp = s2, p2, None, None
      disc._handle_openflow_PacketIn(ev)
      if sorted(map(tuple, disc.adjacency)) != sorted(links[:i + 1]):
        return "after discovering %s the adjacency is %s" % (links[:i + 1], sorted(map(tuple, disc.adjacency)))
      r = judge_flood(stm, cons, links[:i + 1])
      if r:
        return "after link %s.%s->%s.%s was discovered (links so far %s): %s" % (s1, p1, s2, p2, links[:i + 1], r)
    if not removal:
      return None
    rest = [l for l in links if l not in removal]
    if how == "expire":
      for l in removal:
        disc.adjacency[dm.Discovery.Link(*l)] = 80.0      # last seen 20 s ago, timeout 10 s
      disc._expire_links()
    else:
      sw = how[1]
      how = "down"
      down = FakeEvent()
      down.dpid = sw
      # the nexus no longer knows the connection when the event is raised
      gone = cons.pop(sw)
      disc._handle_openflow_ConnectionDown(down)
    if sorted(map(tuple, disc.adjacency)) != sorted(rest):
      return "after withdrawing %s the adjacency is %s, expected %s" % (removal, sorted(map(tuple, disc.adjacency)), sorted(rest))
    r = judge_flood(stm, cons, rest)
    if r:
      return "after %s of %s (links left %s): %s" % ("the expiry" if how == "expire" else "the disconnect of the switch", removal, rest, r)
    if how == "down":
      # the switch comes back: a NEW connection (its ports flood, nothing is configured on it yet), spanning_tree is told
      # (ConnectionUp), and its links are discovered again one by one
      cons[sw] = FakeCon(sw, sorted(gone.ports))
      up = FakeEvent()
      up.dpid, up.connection = sw, cons[sw]
      stm._handle_ConnectionUp(up)
      now = list(rest)
      for (s1, p1, s2, p2) in removal:
        ev = FakeEvent()
        ev.parsed = pkt.ethernet(dm.LLDPSender._create_discovery_packet(s1, p1, EthAddr(b"\x02\x00\x00\x00\x00\x01"), 120).pack())
        ev.dpid, ev.port, ev.connection, ev.ofp = s2, p2, None, None
        disc._handle_openflow_PacketIn(ev)
        now.append((s1, p1, s2, p2))
        r = judge_flood(stm, cons, now)
        if r:
          return "after switch %s reconnected and link %s.%s->%s.%s was discovered again (links %s): %s" % (sw, s1, p1, s2, p2, now, r)
    return None
  finally:
    dm.time.time = _t.time


def histories(tier, seed):
  rng = random.Random(seed + 1)
  k = 0
  for (n, links) in graphs(tier, seed):
    k += 1
    if tier == "quick" and k % 5:
      continue
    if not links:
      continue
    links = list(links)
    rng.shuffle(links)
    L = set(links)
    yield (n, links, [], "expire")
    # one directed link times out; a link and its reverse time out in the same sweep; a switch disconnects
    one = links[rng.randrange(len(links))]
    yield (n, links, [one], "expire")
    twins = [l for l in links if (l[2], l[3], l[0], l[1]) in L]
    if twins:
      t = twins[rng.randrange(len(twins))]
      yield (n, links, [t, (t[2], t[3], t[0], t[1])], "expire")
    sw = rng.randint(1, n)
    mine = [l for l in links if l[0] == sw or l[2] == sw]
    if mine:
      yield (n, links, mine, ("down", sw))


@standin(P, bound="a fifth (quick) / all of the graphs above, links discovered one by one in a random order through the real packet-in "
                  "handler, then one withdrawal per history: one directed link expires / a link and its reverse expire in the same "
                  "sweep / a switch disconnects; the oracle is applied after every single change",
         target="pox.openflow.discovery:Discovery._handle_openflow_PacketIn / _expire_links / _delete_links / "
                "_handle_openflow_ConnectionDown + pox.openflow.spanning_tree:_handle_LinkEvent / _update_tree", timeout_s=280)
def flooding_follows_every_change_of_the_adjacency(tier, seed):
  for i, (n, links, removal, how) in enumerate(histories(tier, seed)):
    yield ("history %d n=%d discover %s then %s %s" % (i, n, links, how, removal),
           lambda n=n, links=links, removal=removal, how=how: check_history(links, n, removal, how))


def check_probe(dpid, port, rx_dpid, rx_port):
  import pox.openflow.discovery as dm
  import pox.lib.packet as pkt
  from pox.lib.addresses import EthAddr
  events = []
  disc = object.__new__(dm.Discovery)
  disc.adjacency = {}
  disc._eat_early_packets = False
  disc._explicit_drop = False
  disc._link_timeout = 10
  disc._link_timeout = 10
  disc.raiseEventNoErrors = lambda cls, *a: events.append((cls.__name__, a[0], a[1]))
  core = FakeCore()
  core.openflow = FakeNexus({dpid: object(), rx_dpid: object()})
  dm.core = core
  eth = dm.LLDPSender._create_discovery_packet(dpid, port, EthAddr(b"\x02\x00\x00\x00\x00\x01"), 120)
  raw = eth.pack()
  ev = FakeEvent()
  ev.parsed = pkt.ethernet(raw)
  ev.dpid = rx_dpid
  ev.port = rx_port
  ev.connection = None
  ev.ofp = None
  want = dm.Discovery.Link(dpid, port, rx_dpid, rx_port)
  own = (dpid, port) == (rx_dpid, rx_port)
  disc._handle_openflow_PacketIn(ev)
  if own:
    return None if (not disc.adjacency and not events) else "a port's own probe created a link"
  if list(disc.adjacency.keys()) != [want]:
    return "adjacency %s, expected exactly %s" % (list(disc.adjacency.keys()), want)
  if events != [("LinkEvent", True, want)]:
    return "events %s" % (events,)
  disc._handle_openflow_PacketIn(ev)
  if list(disc.adjacency.keys()) != [want] or len(events) != 1:
    return "a repeated probe changed the adjacency or announced the link again"
  # expiry: not before the timeout, then removed once
  t = disc.adjacency[want]
  dm.time.time = lambda: t + disc._link_timeout - 0.001
  disc._expire_links()
  if list(disc.adjacency.keys()) != [want] or len(events) != 1:
    return "link withdrawn before its timeout"
  dm.time.time = lambda: t + disc._link_timeout + 0.001
  disc._expire_links()
  import time as _t
  dm.time.time = _t.time
  if disc.adjacency or events[1:] != [("LinkEvent", False, want)]:
    return "expiry: adjacency %s events %s" % (list(disc.adjacency.keys()), events[1:])
  # two links time out in the same sweep: each is withdrawn exactly once
  disc._handle_openflow_PacketIn(ev)
  ev2 = FakeEvent()
  ev2.parsed = ev.parsed
  ev2.dpid = rx_dpid
  ev2.port = rx_port + 1
  ev2.connection = None
  ev2.ofp = None
  disc._handle_openflow_PacketIn(ev2)
  want2 = dm.Discovery.Link(dpid, port, rx_dpid, rx_port + 1)
  n0 = len(events)
  t2 = max(disc.adjacency.values())
  dm.time.time = lambda: t2 + disc._link_timeout + 0.001
  disc._expire_links()
  dm.time.time = _t.time
  removed = [e for e in events[n0:] if e[1] is False]
  if disc.adjacency or sorted(map(tuple, [e[2] for e in removed])) != sorted([tuple(want), tuple(want2)]) or len(events) - n0 != 2:
    return "two links expiring together: adjacency %s, events %s" % (list(disc.adjacency.keys()), events[n0:])
  # re-discovered, then the originating switch disconnects
  disc._handle_openflow_PacketIn(ev)
  down = FakeEvent()
  down.dpid = dpid
  disc._handle_openflow_ConnectionDown(down)
  tail = events[-2:]
  if disc.adjacency or [e[:2] for e in tail] != [("LinkEvent", True), ("LinkEvent", False)]:
    return "switch disconnect: adjacency %s events %s" % (list(disc.adjacency.keys()), tail)
  return None


@standin(P, bound="dpids: every single-byte position x {1, 0x7f, 0x80, 0xff}, 0, 1, 2^48-1, 2^48, 2^63, 2^64-1 and random; ports 1, 9, 10, "
                  "255, 256, 0xfeff, 0xff00 and random; receiving side another switch or the same port",
         target="pox.openflow.discovery:LLDPSender._create_discovery_packet / Discovery._handle_openflow_PacketIn / _expire_links / "
                "_handle_openflow_ConnectionDown", timeout_s=280)
def probe_round_trip(tier, seed):
  rng = random.Random(seed)
  dpids = set([0, 1, (1 << 48) - 1, 1 << 48, 1 << 63, (1 << 64) - 1])
  for pos in range(8):
    for v in (1, 0x7f, 0x80, 0xff):
      dpids.add(v << (8 * pos))
  for _ in range(40 if tier == "quick" else 2000):
    dpids.add(rng.getrandbits(64))
  # incl. ports whose 16-bit big-endian bytes are both ASCII digits (0x3031 = b"01") and two-digit decimals: the decoder
  # tries "decimal text" before "two raw bytes"
  ports = [1, 9, 10, 12, 99, 100, 255, 256, 0x3031, 0x3939, 0x3030, 0x3130, 12594, 0xfeff, 0xff00] \
    + [rng.randrange(1, 0xff00) for _ in range(5 if tier == "quick" else 50)]
  for d in sorted(dpids):
    for p in ports:
      yield ("dpid=%x port=%d" % (d, p), lambda d=d, p=p: check_probe(d, p, (d + 1) & ((1 << 64) - 1), 7))
    yield ("dpid=%x own probe" % d, lambda d=d: check_probe(d, 3, d, 3))
