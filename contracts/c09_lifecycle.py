"""C09 - connection lifecycle events and the nexus registry (pox/openflow/of_01.py, pox/openflow/__init__.py).

Abstract state: the registry R (dpid -> connection) of the nexus and, per connection, its phase
    fresh (no dpid) -> features (dpid known, not up) -> up (connect_time set, default handlers) -> disconnected.
Per-operation contracts, registry and connection fields arbitrary (dpid from two datapath ids, the registry entry of that
dpid absent / this connection / another connection):
    _finish_connecting      R' = R[dpid := con]; events in order: HandshakeComplete, ConnectionUp (nexus, then the
                            connection unless halted) - once -, FeaturesReceived, then the deferred port-status messages in
                            arrival order through the default handler; handlers switched, deferral list cleared
    handshake handlers      barrier reply / barrier-unsupported error finish the handshake only for the barrier's xid;
                            features reply stores ports and dpid, starts deferring port status, sends the barrier;
                            early port status is deferred in arrival order; hello sends the requests once
    Connection.disconnect   disconnected; R' = R without dpid exactly when R[dpid] is this connection (a stale connection
                            never unregisters its successor); ConnectionDown on nexus and connection exactly when the dpid
                            is known, it was not raised before and it is not deferred; never twice
    Connection.close        = disconnect + socket close;    sendToDPID reaches R[dpid] or reports False"""
from pyvc.api import unit, Case, CallSpec, native
import pox.openflow as ofm
import pox.openflow.libopenflow_01 as of
import pox.openflow.of_01 as of_01
from pox.openflow.of_01 import Connection, HandshakeOpenFlowHandlers, PortCollection
from pox.openflow import OpenFlowNexus, ConnectionDict

P = "C09"
OF = "pox.openflow.of_01:"
NX = "pox.openflow:OpenFlowNexus."
DPIDS = [1, 2]
LOG = []      # native event / call log


class _G(object):
  @native
  def get(self, st, name):
    return st.ghost.get(name)


G = _G()


def log(b):
  return list(G.get("log") or ()) if b.mode == "sym" else list(LOG)


class FakeEvent(object):
  def __init__(self, halt):
    self.halt = halt


class Raise(CallSpec):
  """raiseEventNoErrors(EventClass, *args) on nexus / connection: logged as ("event", target, class name, args)"""
  def __init__(self, outcome):
    CallSpec.__init__(self, "contract", envelope="event delivery: property C05; listeners do not touch the registry or "
                      "the connection's lifecycle fields")
    self.outcome = outcome

  def apply(self, I, f, args, kws, st, ctx, k, node):
    st.ghost["log"] = tuple(st.ghost.get("log", ())) + (("event", args[0], args[1].__name__, tuple(args[2:])),)
    if args[1].__name__ == "ConnectionUp" and st.obj(args[0]).cls is OpenFlowNexus:
      return k(st, self.outcome)
    return k(st, None)


class Log(CallSpec):
  def __init__(self, what, envelope, returns=None):
    CallSpec.__init__(self, "contract", envelope=envelope)
    self.what = what
    self.ret = returns

  def apply(self, I, f, args, kws, st, ctx, k, node):
    st.ghost["log"] = tuple(st.ghost.get("log", ())) + ((self.what,) + tuple(args),)
    return k(st, self.ret)


class Sock(object):
  def shutdown(self, how):
    LOG.append(("shutdown", self))

  def close(self):
    LOG.append(("sockclose", self))


def env(b, reg_kind, dpid_none=False):
  """nexus with registry R, connection `con` and another connection `other` of the same dpid.
  reg_kind: 'absent' | 'self' | 'other' - what R holds for con's dpid;  the other dpid is always held by `third`"""
  halt = b.choice("nexus_connection_up_outcome", ["none", "free", "halted"])
  dpid = None if dpid_none else b.choice("dpid", DPIDS)
  if b.mode == "sym":
    from pyvc.values import Union
    b.st.ghost["log"] = ()
    nexus = b.raw_new(OpenFlowNexus, miss_send_len=128, clear_flows_on_connect=True)
    sock = b.raw_new(Sock)
    con = b.raw_new(Connection, ofnexus=nexus, sock=sock, ID=1)
    other = b.raw_new(Connection, ofnexus=nexus, ID=2, disconnected=False)
    third = b.raw_new(Connection, ofnexus=nexus, ID=3, disconnected=False)
    ev_free = b.raw_new(FakeEvent, halt=False)
    ev_halt = b.raw_new(FakeEvent, halt=True)
    out = Union([(g, {"none": None, "free": ev_free, "halted": ev_halt}[v]) for g, v in halt.alts])
    def reg_for(d):
      r = {}
      if d is not None:
        if reg_kind == "self":
          r[d] = con
        elif reg_kind == "other":
          r[d] = other
        r[3 - d] = third
      else:
        r[1] = third
      return r
    if dpid is None:
      R = b.raw_new(ConnectionDict)
      R = b.dict(reg_for(None))
    else:
      R = Union([(g, b.dict(reg_for(d))) for g, d in dpid.alts])
    b.set(nexus, "_connections", R)
    b.set(con, "dpid", dpid)
    b.set(other, "dpid", dpid)
    cs = {"pox.lib.revent.revent:EventMixin.raiseEventNoErrors": Raise(out),
          "contracts.c09_lifecycle:Sock.shutdown": Log("shutdown", "socket shutdown"),
          "contracts.c09_lifecycle:Sock.close": Log("sockclose", "socket close"),
          "pox.core:POXCore.callDelayed": CallSpec("opaque", envelope="timer for the aborted-connections log line"),
          "pox.core:POXCore.call_delayed": CallSpec("opaque", envelope="timer for the aborted-connections log line")}
    return nexus, con, other, third, dpid, halt, cs
  del LOG[:]
  nexus = OpenFlowNexus.__new__(OpenFlowNexus)
  nexus.miss_send_len = 128
  nexus.clear_flows_on_connect = True
  def mk(i):
    c = object.__new__(Connection)
    c.ofnexus = nexus
    c.ID = i
    c.disconnected = False
    c.raiseEventNoErrors = (lambda c: lambda cls, *a: LOG.append(("event", c, cls.__name__, a)))(c)
    return c
  con, other, third = mk(1), mk(2), mk(3)
  con.sock = Sock()
  outcome = {"none": None, "free": FakeEvent(False), "halted": FakeEvent(True)}[halt]
  def nx_raise(cls, *a):
    LOG.append(("event", nexus, cls.__name__, a))
    return outcome if cls.__name__ == "ConnectionUp" else None
  nexus.raiseEventNoErrors = nx_raise
  R = ConnectionDict()
  if dpid is not None:
    if reg_kind == "self":
      R[dpid] = con
    elif reg_kind == "other":
      R[dpid] = other
    R[3 - dpid] = third
  else:
    R[1] = third
  nexus._connections = R
  con.dpid = dpid
  other.dpid = dpid
  of_01.core.callDelayed = lambda *a, **k: None
  return nexus, con, other, third, dpid, halt, {}


def registry(nexus):
  return [(k, nexus._connections[k]) for k in nexus._connections.keys()]


def same_registry(a, expected):
  return len(a) == len(expected) and all([any([x[0] == y[0] and x[1] is y[1] for y in expected]) for x in a])


# ---------------------------------------------------------------- disconnect / close

def _mk_disconnect(reg_kind, dpid_none):
  def u(b):
    nexus, con, other, third, dpid, halt, cs = env(b, reg_kind, dpid_none)
    disconnected = b.bool("already_disconnected")
    raised = b.bool("down_already_raised")
    defer = b.bool("defer_event")
    b.set(con, "disconnected", disconnected)
    b.set(con, "disconnection_raised", raised)
    if b.mode == "sym":
      b.st.ghost[("$classattr", Connection, "_aborted_connections")] = b.int("aborted", 0, 5)
    def run(con, defer):
      before = registry(con.ofnexus)
      con.disconnect(defer_event=defer)
      return (before, registry(con.ofnexus), con.disconnected, con.disconnection_raised)
    downs = lambda: [e for e in log(b) if e[0] == "event" and e[2] == "ConnectionDown"]
    should_raise = lambda: dpid is not None and not raised and not defer
    return Case(run, [con, defer], calls=cs, raises={}, ensures={
      "marked_disconnected": lambda res: res[2] is True,
      "only_its_own_registration_is_removed":
        lambda res: same_registry(res[1], [e for e in res[0] if not (e[1] is con)]),
      "connection_down_on_nexus_then_connection_exactly_when_due":
        lambda res: (len(downs()) == 2 and downs()[0][1] is nexus and downs()[1][1] is con
                     and downs()[0][3][0] is con and res[3] is True) if should_raise() else len(downs()) == 0,
      "never_raised_twice": lambda res: not raised or len(downs()) == 0,
      "socket_is_shut_down": lambda res: len([e for e in log(b) if e[0] == "shutdown"]) == 1,
    })
  u.__name__ = "disconnect_registry_%s%s" % (reg_kind, "_no_dpid" if dpid_none else "")
  u.bound = "two datapath ids; registry entry of the connection's dpid absent / itself / its successor"
  unit(P, target=OF + "Connection.disconnect")(u)


for _k in ("absent", "self", "other"):
  _mk_disconnect(_k, False)
_mk_disconnect("absent", True)


@unit(P, target=OF + "Connection.close")
def close_is_disconnect_plus_socket_close(b):
  nexus, con, other, third, dpid, halt, cs = env(b, "self")
  b.set(con, "disconnected", False)
  b.set(con, "disconnection_raised", False)
  def run(con):
    con.close()
    con.close()
    return (registry(con.ofnexus), con.disconnected)
  downs = lambda: [e for e in log(b) if e[0] == "event" and e[2] == "ConnectionDown"]
  return Case(run, [con], calls=cs, raises={}, ensures={
    "down_raised_once_even_when_closed_twice": lambda res: len(downs()) == 2 and downs()[0][1] is nexus and downs()[1][1] is con,
    "unregistered": lambda res: all([e[1] is not con for e in res[0]]) and res[1] is True,
  })
close_is_disconnect_plus_socket_close.bound = "two datapath ids"


def deferred_down_is_raised_by_the_later_close(b):
  """a fatal send error disconnects with the event deferred (Connection.send); the close that follows when the select loop
  notices the dead socket must still announce the loss - once"""
  nexus, con, other, third, dpid, halt, cs = env(b, "self")
  b.set(con, "disconnected", False)
  b.set(con, "disconnection_raised", False)
  def run(con):
    con.disconnect(defer_event=True)
    n_before = len([e for e in log(b) if e[0] == "event" and e[2] == "ConnectionDown"])
    con.close()
    con.close()
    return (n_before, con.disconnected, con.disconnection_raised)
  downs = lambda: [e for e in log(b) if e[0] == "event" and e[2] == "ConnectionDown"]
  return Case(run, [con], calls=cs, raises={}, ensures={
    "nothing_is_announced_while_deferred": lambda res: res[0] == 0,
    "the_close_announces_the_loss_exactly_once":
      lambda res: len(downs()) == 2 and downs()[0][1] is nexus and downs()[1][1] is con and res[1] is True and res[2] is True,
  })
deferred_down_is_raised_by_the_later_close.bound = "two datapath ids"
unit(P, target=OF + "Connection.disconnect(defer_event=True) / Connection.close")(deferred_down_is_raised_by_the_later_close)


# ---------------------------------------------------------------- nexus registry operations

def _mk_send_to_dpid(reg_kind):
  @unit(P, target=NX + "sendToDPID", name="send_to_dpid_registry_" + reg_kind)
  def u(b):
    nexus, con, other, third, dpid, halt, cs = env(b, reg_kind)
    if b.mode == "sym":
      cs = dict(cs)
      cs[OF + "Connection.send"] = Log("send", "Connection.send: property C20")
      cs["pox.lib.util:dpid_to_str"] = CallSpec("opaque", returns=lambda I, st, a, k: "dpid", envelope="text")
    else:
      for c in (con, other, third):
        c.send = (lambda c: lambda d: LOG.append(("send", c, d)))(c)
    data = b.bytes("data", 8)
    sends = lambda: [e for e in log(b) if e[0] == "send"]
    target = {"absent": None, "self": con, "other": other}[reg_kind]
    return Case(OpenFlowNexus.sendToDPID, [nexus, dpid, data], calls=cs, raises={}, ensures={
      "reaches_the_registered_connection_or_reports_false":
        lambda res: (res is True and len(sends()) == 1 and sends()[0][1] is target and sends()[0][2] == data)
                    if target is not None else (res is False and len(sends()) == 0),
    })
  u.bound = "two datapath ids"


for _k in ("absent", "self", "other"):
  _mk_send_to_dpid(_k)


# ---------------------------------------------------------------- handshake

def handshake_env(b, reg_kind, n_deferred=0):
  nexus, con, other, third, dpid, halt, cs = env(b, reg_kind)
  h = b.raw_new(HandshakeOpenFlowHandlers, _features_request_sent=True, _barrier=None)
  feats = b.new(of.ofp_features_reply)
  msgs = [b.raw_new(of.ofp_port_status) for _ in range(n_deferred)]
  b.set(con, "features", feats)
  b.set(con, "connect_time", None)
  b.set(con, "disconnected", False)
  b.set(con, "disconnection_raised", False)
  b.set(con, "_deferred_port_status", b.list(msgs))
  b.set(con, "handlers", b.list([]) if b.mode == "sym" else [])
  if b.mode == "sym":
    cs = dict(cs)
    cs[OF + "DefaultOpenFlowHandlers.handle_PORT_STATUS"] = Log("port_status", "default port-status handler: property C17")
    cs[OF + "Connection.send"] = Log("send", "Connection.send: property C20")
    cs["time:time"] = CallSpec("opaque", returns=lambda I, st, a, k: 1234.5, envelope="clock")
  else:
    con.send = lambda d: LOG.append(("send", con, d))
    _PATCH["ps"] = of_01._default_handlers.handlers[of.OFPT_PORT_STATUS]
    hl = list(of_01._default_handlers.handlers)
    hl[of.OFPT_PORT_STATUS] = lambda c, m: LOG.append(("port_status", c, m))
    of_01._default_handlers.handlers = hl
  return nexus, con, other, third, dpid, halt, cs, h, feats, msgs


_PATCH = {}


def _mk_finish(reg_kind, n_deferred):
  def u(b):
    nexus, con, other, third, dpid, halt, cs, h, feats, msgs = handshake_env(b, reg_kind, n_deferred)
    def run(h, con):
      before = registry(con.ofnexus)
      h._finish_connecting(con)
      return (before, registry(con.ofnexus), con.connect_time, con.handlers is of_01._default_handlers.handlers,
              con._deferred_port_status)
    evs = lambda: [(e[1], e[2]) for e in log(b) if e[0] == "event"]
    expected_events = lambda: ([(nexus, "ConnectionHandshakeComplete"), (nexus, "ConnectionUp")]
                               + ([] if halt == "halted" else [(con, "ConnectionUp")])
                               + [(nexus, "FeaturesReceived"), (con, "FeaturesReceived")])
    def after_up():
      l = log(b)
      ups = [i for i in range(len(l)) if l[i][0] == "event" and l[i][2] == "ConnectionUp"]
      ps = [i for i in range(len(l)) if l[i][0] == "port_status"]
      return all([p > max(ups) for p in ps])
    return Case(run, [h, con], calls=cs, raises={}, ensures={
      "registered_as_the_most_recent_connection_of_its_dpid":
        lambda res: same_registry(res[1], [e for e in res[0] if e[0] != dpid] + [(dpid, con)]),
      "events_in_order_connection_up_exactly_once":
        lambda res: len(evs()) == len(expected_events())
                    and all([a[0] is x[0] and a[1] == x[1] for a, x in zip(evs(), expected_events())]),
      "early_port_status_delivered_after_connection_up_in_arrival_order":
        lambda res: len([e for e in log(b) if e[0] == "port_status"]) == len(msgs)
                    and all([e[2] is m for e, m in zip([e for e in log(b) if e[0] == "port_status"], msgs)])
                    and all([e[1] is con for e in log(b) if e[0] == "port_status"]) and after_up(),
      "now_up": lambda res: res[2] is not None and res[3] is True and (res[4] is None or len(res[4]) == 0),
    })
  u.__name__ = "finish_connecting_registry_%s_%d_early_port_status" % (reg_kind, n_deferred)
  u.bound = "two datapath ids; 0..3 early port-status messages; registry entry absent / stale predecessor"
  unit(P, target=OF + "HandshakeOpenFlowHandlers._finish_connecting")(u)


for _k in ("absent", "other"):
  for _n in (0, 1, 3):
    _mk_finish(_k, _n)


class FinishSpec(CallSpec):
  def __init__(self):
    CallSpec.__init__(self, "contract", envelope="_finish_connecting: units finish_connecting_* above")

  def apply(self, I, f, args, kws, st, ctx, k, node):
    st.ghost["log"] = tuple(st.ghost.get("log", ())) + (("finish", args[1]),)
    return k(st, None)


class DiscSpec(CallSpec):
  def __init__(self):
    CallSpec.__init__(self, "contract", envelope="Connection.disconnect: units disconnect_* above")

  def apply(self, I, f, args, kws, st, ctx, k, node):
    st.ghost["log"] = tuple(st.ghost.get("log", ())) + (("disconnect", args[0], st.obj(args[0]).data.get("dpid")),)
    return k(st, None)


def barrier_env(b):
  nexus, con, other, third, dpid, halt, cs, h, feats, msgs = handshake_env(b, "absent")
  has_barrier = b.bool("barrier_sent")
  bx = b.int("barrier.xid", 0, 0xffffffff)
  barrier = b.new(of.ofp_barrier_request)
  b.set(barrier, "_xid", bx)
  if b.mode == "sym":
    from pyvc.values import Union
    b.set(h, "_barrier", Union([(has_barrier, barrier), (b.Not(has_barrier), None)]))
    cs = dict(cs)
    cs[OF + "HandshakeOpenFlowHandlers._finish_connecting"] = FinishSpec()
    cs[OF + "Connection.disconnect"] = DiscSpec()
  else:
    h._barrier = barrier if has_barrier else None
    h._finish_connecting = lambda c: LOG.append(("finish", c))
    con.disconnect = lambda *a, **k: LOG.append(("disconnect", con, con.dpid))
  return nexus, con, dpid, cs, h, has_barrier, bx


class SockFlag(object):
  """the connection's socket as far as a handler could touch it: close() is remembered"""
  def close(self):
    self.closed = True


@unit(P, target=OF + "HandshakeOpenFlowHandlers.handle_BARRIER_REPLY")
def barrier_reply_finishes_only_for_the_barriers_xid(b):
  nexus, con, dpid, cs, h, has_barrier, bx = barrier_env(b)
  xid = b.int("xid", 0, 0xffffffff)
  msg = b.new(of.ofp_barrier_reply)
  b.set(msg, "_xid", xid)
  sock = b.raw_new(SockFlag, closed=False)
  b.set(con, "sock", sock)
  fin = lambda: [e for e in log(b) if e[0] == "finish"]
  dis = lambda: [e for e in log(b) if e[0] == "disconnect"]
  return Case(HandshakeOpenFlowHandlers.handle_BARRIER_REPLY, [h, con, msg], calls=cs, raises={}, ensures={
    "before_the_barrier_was_sent_nothing_happens": lambda res: has_barrier or (len(fin()) == 0 and len(dis()) == 0),
    "matching_reply_finishes_once": lambda res: not (has_barrier and xid == bx) or (len(fin()) == 1 and fin()[0][1] is con and len(dis()) == 0),
    "foreign_reply_aborts_without_announcing":
      lambda res: not (has_barrier and xid != bx) or (len(fin()) == 0 and len(dis()) == 1 and dis()[0][2] is None),
    # closing the SOCKET is the I/O loop's business (it takes the connection out of its select set when read() reports the end);
    # a handler that closes it leaves a dead descriptor in that set - select() then fails for every connection (sixth round,
    # 2026-09-25: a seeded change called con.close() instead of con.disconnect() here)
    "a_handler_never_closes_the_socket_itself": lambda res: sock.closed is False,
  })


@unit(P, target=OF + "HandshakeOpenFlowHandlers.handle_ERROR")
def barrier_unsupported_error_finishes_only_for_the_barriers_xid(b):
  nexus, con, dpid, cs, h, has_barrier, bx = barrier_env(b)
  xid = b.int("xid", 0, 0xffffffff)
  typ = b.int("type", 0, 0xffff)
  code = b.int("code", 0, 0xffff)
  msg = b.new(of.ofp_error)
  b.set(msg, "_xid", xid)
  b.set(msg, "type", typ)
  b.set(msg, "code", code)
  fin = lambda: [e for e in log(b) if e[0] == "finish"]
  due = lambda: has_barrier and xid == bx and typ == of.OFPET_BAD_REQUEST and code == of.OFPBRC_BAD_TYPE
  return Case(HandshakeOpenFlowHandlers.handle_ERROR, [h, con, msg], calls=cs, raises={}, ensures={
    "finishes_exactly_for_bad_type_on_the_barrier": lambda res: len(fin()) == (1 if due() else 0),
    "never_disconnects": lambda res: len([e for e in log(b) if e[0] == "disconnect"]) == 0,
  })


def _mk_early(n_before):
  @unit(P, target=OF + "HandshakeOpenFlowHandlers.handle_PORT_STATUS", name="early_port_status_is_deferred_in_arrival_order_%d_before" % n_before)
  def u(b):
    return _early(b, n_before)
  u.bound = "0..2 port-status messages deferred before this one"


def _early(b, n_before):
  nexus, con, other, third, dpid, halt, cs, h, feats, msgs = handshake_env(b, "absent", n_before)
  after_features = b.bool("features_reply_seen")
  if b.mode == "sym":
    from pyvc.values import Union
    b.set(con, "_deferred_port_status", Union([(after_features, b.get(con, "_deferred_port_status")), (b.Not(after_features), None)]))
  elif not after_features:
    con._deferred_port_status = None
  port = b.new(of.ofp_phy_port)
  msg = b.new(of.ofp_port_status)
  b.set(msg, "desc", port)
  def run(h, con, msg):
    h.handle_PORT_STATUS(con, msg)
    return con._deferred_port_status
  return Case(run, [h, con, msg], calls=cs, raises={}, ensures={
    "appended_last_once_features_are_known":
      lambda res: (len(res) == n_before + 1 and all([res[i] is msgs[i] for i in range(n_before)]) and res[n_before] is msg)
                  if after_features else res is None,
    "nothing_is_raised_yet": lambda res: len(log(b)) == 0,
  })


for _n in (0, 1, 2):
  _mk_early(_n)


class Arbiter(object):
  def __init__(self, nexus):
    self.nexus = nexus

  def getNexus(self, con):
    return self.nexus


class CoreStub(object):
  pass


@unit(P, target=OF + "HandshakeOpenFlowHandlers.handle_FEATURES_REPLY")
def features_reply_starts_deferral_and_sends_the_barrier(b):
  nexus, con, other, third, dpid, halt, cs, h, feats, msgs = handshake_env(b, "absent")
  version = b.int("version", 0, 255)
  have_nexus = b.bool("arbiter_knows_a_nexus")
  new_dpid = b.int("datapath_id", 0, (1 << 64) - 1)
  p0 = b.new(of.ofp_phy_port)
  b.set(p0, "port_no", 1)
  msg = b.new(of.ofp_features_reply)
  b.set(msg, "version", version)
  b.set(msg, "datapath_id", new_dpid)
  b.set(msg, "ports", b.list([p0]))
  b.set(con, "dpid", None)
  b.set(con, "_deferred_port_status", None)
  b.set(con, "original_ports", b.new(PortCollection))
  b.set(con, "ports", b.new(PortCollection))
  b.set(con, "ofnexus", of_01._dummyOFNexus if b.mode == "conc" else b.get(con, "ofnexus"))
  if b.mode == "sym":
    from pyvc.values import Union
    arb = b.raw_new(Arbiter, nexus=Union([(have_nexus, nexus), (b.Not(have_nexus), None)]))
    core = b.raw_new(CoreStub, OpenFlowConnectionArbiter=arb)
    b.st.ghost[("$global", "pox.openflow.of_01", "core")] = core
    cs = dict(cs)
    cs[OF + "Connection.disconnect"] = DiscSpec()
    cs["pox.lib.util:dpid_to_str"] = CallSpec("opaque", returns=lambda I, st, a, k: "dpid", envelope="text")
    # the registry is written when the handshake is FINISHED (_finish_connecting), not here: a connection that is still
    # shaking hands must not take over its datapath id (seeded change C09_10 registered it at the features reply - a newcomer
    # lost before its barrier reply then removed the entry of the old, still open connection)
    cs["pox.openflow:OpenFlowNexus._connect"] = CallSpec("contract", requires=lambda I, st, a, k: False,
                                                         envelope="must not be called during the handshake")
  else:
    core = CoreStub()
    core.OpenFlowConnectionArbiter = Arbiter(nexus if have_nexus else None)
    _PATCH["core"] = of_01.core
    of_01.core = core
    con.disconnect = lambda *a, **k: LOG.append(("disconnect", con, con.dpid))
    con.info = con.err = con.msg = lambda *a: None
  def run(h, con, msg):
    h.handle_FEATURES_REPLY(con, msg)
    return (con.dpid, con._deferred_port_status, con.ofnexus, h._barrier, [p for p in con.original_ports._ports])
  ok = lambda: version == 1 and have_nexus
  sends = lambda: [e for e in log(b) if e[0] == "send"]
  dis = lambda: [e for e in log(b) if e[0] == "disconnect"]
  return Case(run, [h, con, msg], calls=cs, raises={}, ensures={
    "other_versions_are_refused": lambda res: version == 1 or (len(dis()) == 1 and len(sends()) == 0 and res[3] is None),
    "no_nexus_no_connection": lambda res: not (version == 1 and not have_nexus) or (len(dis()) == 1 and len(sends()) == 0 and res[3] is None),
    "dpid_ports_and_deferral_are_set_and_the_barrier_goes_last":
      lambda res: not ok() or (res[0] == new_dpid and res[1] is not None and len(res[1]) == 0 and res[2] is nexus
                               and len(res[4]) == 1 and res[4][0] is p0 and len(dis()) == 0
                               and len(sends()) == 3 and sends()[2][2] is res[3] and res[3] is not None),
    "connection_up_is_not_raised_yet": lambda res: len([e for e in log(b) if e[0] == "event"]) == 0,
  })


@unit(P, target=OF + "HandshakeOpenFlowHandlers.handle_HELLO")
def hello_sends_the_requests_once(b):
  nexus, con, other, third, dpid, halt, cs, h, feats, msgs = handshake_env(b, "absent")
  sent = b.bool("requests_already_sent")
  b.set(h, "_features_request_sent", sent)
  msg = b.new(of.ofp_hello)
  return Case(HandshakeOpenFlowHandlers.handle_HELLO, [h, con, msg], calls=cs, raises={}, ensures={
    "one_send_the_first_time_none_later": lambda res: len([e for e in log(b) if e[0] == "send"]) == (0 if sent else 1),
    # (sixth round, 2026-09-25: a seeded change set the flag only on the path WITHOUT a description request, so with the default
    # settings every further HELLO re-sent the requests - and a switch answering all of them was disconnected)
    "the_requests_are_marked_as_sent_whichever_form_they_took": lambda res: h._features_request_sent is True,
  })


def _mk_hello_twice(want_desc):
  def u(b):
    nexus, con, other, third, dpid, halt, cs, h, feats, msgs = handshake_env(b, "absent")
    b.set(h, "_features_request_sent", False)
    b.set(h, "request_description", want_desc)
    m1, m2 = b.new(of.ofp_hello), b.new(of.ofp_hello)
    def run(h, con):
      h.handle_HELLO(con, m1)
      h.handle_HELLO(con, m2)
      return None
    return Case(run, [h, con], calls=cs, raises={}, ensures={
      "a_second_hello_sends_nothing": lambda res: len([e for e in log(b) if e[0] == "send"]) == 1,
    })
  u.__name__ = "two_hellos_one_features_request_%s" % ("with_description_request" if want_desc else "plain")
  u.bound = "two HELLO messages"
  unit(P, target=OF + "HandshakeOpenFlowHandlers.handle_HELLO")(u)


_mk_hello_twice(True)
_mk_hello_twice(False)


# the accept/read loop: an accepted connection joins the select set, a connection whose read() fails or reports closed is
# close()d exactly once and dropped (close() -> ConnectionDown is the unit above) - c10_taskloop (generators, 2026-09-25)
import contracts.c10_taskloop as _TL
unit(P, target=_TL.OF01 + "OpenFlow_01_Task.run", name="the_loop_closes_a_failing_connection_exactly_once")(_TL.a_failing_connection_is_closed_alone_and_the_loop_goes_on)
unit(P, target=_TL.OF01 + "OpenFlow_01_Task.run (exceptional sockets)", name="the_loop_closes_a_socket_reported_in_error")(_TL.sockets_reported_in_error_are_closed_and_dropped)


# ---------------------------------------------------------------- messages that share a chunk with the end of the handshake
# (added 2026-09-25 after seeded change C09_8 hoisted `self.handlers` out of Connection.read's loop: the message that completes
# the handshake replaces the connection's handler table; whatever follows it IN THE SAME recv() chunk must already go to the new
# table - with the hoisted table, port-status and packet-in messages right behind the barrier reply were swallowed by the
# handshake's handlers and never raised as events)
import contracts.c10_framing as _F
from pox.openflow.of_01 import Connection as _Connection


class ReadTrace(object):
  pass


def _h_first(con, msg):
  con.trace.log.append(("first table", msg.header_type, msg.xid))
  con.handlers = con.next_table


def _h_second(con, msg):
  con.trace.log.append(("second table", msg.header_type, msg.xid))


class ChunkSock(object):
  def recv(self, n):
    return self.chunk


@unit(P, target="pox.openflow.of_01:Connection.read (handler table replaced by a handler)")
def a_message_behind_the_one_that_switches_the_handler_table_goes_to_the_new_table(b):
  import pox.openflow.libopenflow_01 as of
  tr = b.raw_new(ReadTrace, log=b.list([]))
  x1, x2 = b.int("xid1", 0, 2 ** 32 - 1), b.int("xid2", 0, 2 ** 32 - 1)
  body = b.bytes("echo_body", None, 0, 40)
  def be4(x):
    return bytes([x >> 24 & 255, x >> 16 & 255, x >> 8 & 255, x & 255]) if b.mode == "conc" else None
  n = len(body) if b.mode == "conc" else body.length()
  if b.mode == "sym":
    from pyvc import sbytes as sb
    import struct
    x1b, x2b = b.bytes("xid1_bytes", 4), b.bytes("xid2_bytes", 4)
    # the two xids as the decoders will read them
    b.assume(x1 == sb.byte_at(x1b, 0, b.st) * 16777216 + sb.byte_at(x1b, 1, b.st) * 65536 + sb.byte_at(x1b, 2, b.st) * 256 + sb.byte_at(x1b, 3, b.st))
    b.assume(x2 == sb.byte_at(x2b, 0, b.st) * 16777216 + sb.byte_at(x2b, 1, b.st) * 65536 + sb.byte_at(x2b, 2, b.st) * 256 + sb.byte_at(x2b, 3, b.st))
    lenb = b.bytes("echo_len_bytes", 2)
    b.assume(sb.byte_at(lenb, 0, b.st) * 256 + sb.byte_at(lenb, 1, b.st) == 8 + n)
    from pyvc.models import as_sbytes
    chunk = as_sbytes(b"\x01\x13\x00\x08")
    for part in (x1b, as_sbytes(b"\x01\x02"), lenb, x2b, body):
      chunk = sb.concat(chunk, part)
  else:
    chunk = b"\x01\x13\x00\x08" + be4(x1) + b"\x01\x02" + bytes([(8 + n) >> 8, (8 + n) & 255]) + be4(x2) + body
  sock = b.raw_new(ChunkSock, chunk=chunk)
  first = [_h_first] * 22
  second = [_h_second] * 22
  con = b.raw_new(_Connection, buf=b"", sock=sock, unpackers=_F.unpackers, handlers=first, next_table=second, trace=tr, ID=1, dpid=None)
  def run(con):
    r = con.read()
    return (r, [e for e in tr.log], con.buf)
  return Case(run, [con], raises={}, ensures={
    "both_messages_are_handled_in_order_the_second_by_the_table_installed_by_the_first":
      lambda res: res[0] is True and res[1] == [("first table", of.OFPT_BARRIER_REPLY, x1), ("second table", of.OFPT_ECHO_REQUEST, x2)],
    "nothing_stays_buffered": lambda res: len(res[2]) == 0,
  })
a_message_behind_the_one_that_switches_the_handler_table_goes_to_the_new_table.bound = "one chunk: a barrier reply and an echo request (body 0..40 bytes)"


# ---------------------------------------------------------------- the handler tables: a type without a handler of its own gets the default
# (sixth round, 2026-09-25: a seeded change padded a growing table with the handler being added instead of the do-nothing
# default - in the handshake's table every type without its own handler then went to its barrier-reply handler, so a packet-in
# between features reply and barrier reply was taken for a wrong barrier and the switch was disconnected)
from pox.openflow.of_01 import OpenFlowHandlers as _OFH


def _hA(con, msg):
  pass


def _hB(con, msg):
  pass


def _mk_padding(t1, t2):
  def u(b):
    tab = b.raw_new(_OFH, handlers=b.list([]))
    def run(tab):
      tab.add_handler(t1, _hA)
      mid = [x for x in tab.handlers]
      tab.add_handler(t2, _hB)
      return (mid, [x for x in tab.handlers])
    def is_default(x):
      return x == tab.handle_default
    def ok_first(mid):
      return len(mid) == t1 + 1 and all([(mid[i] is _hA) if i == t1 else is_default(mid[i]) for i in range(len(mid))])
    def ok_second(fin):
      n = max(t1, t2) + 1
      return len(fin) == n and all([(fin[i] is _hB) if i == t2 else ((fin[i] is _hA) if i == t1 else is_default(fin[i]))
                                    for i in range(len(fin))])
    return Case(run, [tab], raises={}, ensures={
      "after_the_first_registration_every_other_slot_holds_the_default": lambda res: ok_first(res[0]),
      "after_the_second_only_the_two_registered_types_have_their_handlers": lambda res: ok_second(res[1]),
    })
  u.__name__ = "a_growing_handler_table_is_padded_with_the_default_handler_types_%d_then_%d" % (t1, t2)
  u.bound = "two registrations"
  unit(P, target=OF + "OpenFlowHandlers.add_handler")(u)


for _t1, _t2 in ((5, 2), (0, 6), (3, 3), (2, 5), (19, 1)):
  _mk_padding(_t1, _t2)
