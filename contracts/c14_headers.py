"""C14 - packet headers: build -> bytes -> parse, for the core protocol stack.

For each header stack a unit builds the packet objects with symbolic field values and a symbolic-length payload,
calls the real pack() and proves
  layout       the bytes are the RFC / IEEE layout (field order, widths, derived length fields)
  checksums    the Internet checksum routine is applied to exactly the bytes the RFCs prescribe (IPv4 header with a
               zero checksum field; pseudo-header ++ UDP/TCP segment with zero checksum field; ICMP message) and its
               result is what lands in the checksum field.  The routine itself (packet_utils.checksum) is a callee
               here: `CS` below; it is checked against RFC 1071 in c14_checksum.
  round trip   parsing the bytes yields equal header fields and payload, and packing the parse result reproduces
               the bytes.
"""
from pyvc.api import unit, Case, CallSpec, native
from pox.lib.addresses import EthAddr, IPAddr
from pox.lib.packet.ethernet import ethernet
from pox.lib.packet.vlan import vlan
from pox.lib.packet.llc import llc
from pox.lib.packet.arp import arp
from pox.lib.packet.ipv4 import ipv4
from pox.lib.packet.udp import udp
from pox.lib.packet.tcp import tcp
from pox.lib.packet.icmp import icmp, echo
import pox.lib.packet.packet_utils as pu

ethernet()       # the class fills its ethertype -> parser table on first use; do it before any proof starts
P = "C14"
PK = "pox.lib.packet."
CSUM_CALLS = []
_real_checksum = pu.checksum


def be(v, n):
  return bytes([(v >> (8 * (n - 1 - i))) & 0xff for i in range(n)])


class _G(object):
  @native
  def get(self, st, name):
    return st.ghost.get(name)


G = _G()


def cs_calls(b):
  """(data, skip_word, result) of every call of the checksum routine, in order"""
  if b.mode == "sym":
    return list(G.get("cs") or ())
  return list(CSUM_CALLS)


def cs_spec(b):
  if b.mode != "sym":
    del CSUM_CALLS[:]
    def rec(data, start=0, skip_word=None):
      r = _real_checksum(data, start, skip_word)
      CSUM_CALLS.append((data, skip_word, r))
      return r
    import sys
    # NB `import pox.lib.packet.udp as m` binds the CLASS udp (the package re-exports it under the module's name)
    for nm in ("ipv4", "udp", "tcp", "icmp"):
      sys.modules["pox.lib.packet." + nm].checksum = rec
    return {}
  def ret(I, st, args, kws):
    from pyvc.values import fresh_int
    import z3
    c = fresh_int("csum")
    st.add(z3.And(c >= 0, c <= 65535))
    skip = args[2] if len(args) > 2 else kws.get("skip_word")
    st.ghost["cs"] = tuple(st.ghost.get("cs", ())) + ((args[0], skip, c),)
    return c
  b.st.ghost["cs"] = ()
  return {PK + "packet_utils:checksum": CallSpec("contract", returns=ret,
          envelope="the Internet checksum routine returns a 16 bit value that depends on its data only (c14_checksum)")}


def ether(b, etype, payload):
  src = b.bytes("eth.src", 6)
  dst = b.bytes("eth.dst", 6)
  e = b.new(ethernet)
  b.set(e, "src", b.new(EthAddr, src))
  b.set(e, "dst", b.new(EthAddr, dst))
  b.set(e, "type", etype)
  b.run(ethernet.set_payload, e, payload)
  return e, dst + src if b.mode == "conc" else None, (dst, src)


def eth_bytes(dst, src, etype):
  return dst + src + be(etype, 2)


def payload_bytes(b, name="payload", maxlen=1500):
  return b.bytes(name, None, 0, maxlen)


def _rt(e):
  p = e.pack()
  e2 = ethernet(raw=p)
  return (p, e2, e2.pack())


@unit(P, target=PK + "ethernet:ethernet.hdr/parse")
def ethernet_frame(b):
  etype = b.int("eth.type", 1536, 65535)
  b.assume(b.And(etype != 0x8100, etype != 0x0806, etype != 0x8035, etype != 0x0800, etype != 0x86dd, etype != 0x88cc,
                 etype != 0x888e, etype != 0x8847, etype != 0x8848))
  data = payload_bytes(b)
  e, _, (dst, src) = ether(b, etype, data)
  return Case(_rt, [e], ensures={
    "layout": lambda res: res[0] == eth_bytes(dst, src, etype) + data,
    "fields_round_trip": lambda res: res[1].dst.toRaw() == dst and res[1].src.toRaw() == src and res[1].type == etype
    and res[1].next == data,
    "re_encode": lambda res: res[2] == res[0],
  })


@unit(P, target=PK + "vlan:vlan.hdr/parse")
def vlan_tagged_frame(b):
  etype = b.int("vlan.eth_type", 1536, 65535)
  b.assume(b.And(etype != 0x8100, etype != 0x0806, etype != 0x8035, etype != 0x0800, etype != 0x86dd, etype != 0x88cc,
                 etype != 0x888e, etype != 0x8847, etype != 0x8848))
  vid, _vb = b.bits("vlan.id", 12)
  pcp, _pb = b.bits("vlan.pcp", 3)
  cfi, _cb = b.bits("vlan.cfi", 1)
  data = payload_bytes(b)
  v = b.new(vlan)
  for k_, x in (("id", vid), ("pcp", pcp), ("cfi", cfi), ("eth_type", etype)):
    b.set(v, k_, x)
  b.run(vlan.set_payload, v, data)
  e, _, (dst, src) = ether(b, 0x8100, v)
  tci = pcp * 8192 + cfi * 4096 + vid
  return Case(_rt, [e], ensures={
    "layout": lambda res: res[0] == eth_bytes(dst, src, 0x8100) + be(tci, 2) + be(etype, 2) + data,
    "fields_round_trip": lambda res: type(res[1].next) is vlan and res[1].next.id == vid and res[1].next.pcp == pcp
    and res[1].next.eth_type == etype and res[1].next.next == data,
    "re_encode": lambda res: res[2] == res[0],
  })


@unit(P, target=PK + "arp:arp.hdr/parse")
def arp_packet(b):
  op = b.int("arp.opcode", 0, 65535)
  sha = b.bytes("arp.hwsrc", 6)
  tha = b.bytes("arp.hwdst", 6)
  spa = b.bytes("arp.protosrc", 4)
  tpa = b.bytes("arp.protodst", 4)
  a = b.new(arp)
  b.set(a, "opcode", op)
  b.set(a, "hwsrc", b.new(EthAddr, sha))
  b.set(a, "hwdst", b.new(EthAddr, tha))
  b.set(a, "protosrc", b.new(IPAddr, spa))
  b.set(a, "protodst", b.new(IPAddr, tpa))
  e, _, (dst, src) = ether(b, 0x0806, a)
  return Case(_rt, [e], ensures={
    "layout": lambda res: res[0] == eth_bytes(dst, src, 0x0806) + be(1, 2) + be(0x0800, 2) + bytes([6, 4]) + be(op, 2)
    + sha + spa + tha + tpa,
    "fields_round_trip": lambda res: type(res[1].next) is arp and res[1].next.opcode == op
    and res[1].next.hwsrc.toRaw() == sha and res[1].next.hwdst.toRaw() == tha
    and res[1].next.protosrc.toRaw() == spa and res[1].next.protodst.toRaw() == tpa,
    "re_encode": lambda res: res[2] == res[0],
  })


def ip_header(b, proto, payload_obj):
  f = dict(tos=b.int("ip.tos", 0, 255), id=b.int("ip.id", 0, 65535), flags=b.int("ip.flags", 0, 7),
           ttl=b.int("ip.ttl", 0, 255))
  sip = b.bytes("ip.src", 4)
  dip = b.bytes("ip.dst", 4)
  ip = b.new(ipv4)
  for k_, x in f.items():
    b.set(ip, k_, x)
  b.set(ip, "frag", 0)
  b.set(ip, "protocol", proto)
  b.set(ip, "srcip", b.new(IPAddr, sip))
  b.set(ip, "dstip", b.new(IPAddr, dip))
  b.run(ipv4.set_payload, ip, payload_obj)
  return ip, f, sip, dip


def ip_bytes(f, proto, sip, dip, total, csum):
  return bytes([0x45]) + be(f["tos"], 1) + be(total, 2) + be(f["id"], 2) + be(f["flags"] * 8192 + f.get("frag", 0), 2) + be(f["ttl"], 1) \
    + be(proto, 1) + be(csum, 2) + sip + dip


@unit(P, target=PK + "ipv4:ipv4.hdr/checksum/parse, " + PK + "udp:udp.hdr/checksum/parse")
def ipv4_udp_datagram(b):
  sp = b.int("udp.srcport", 0, 65535)
  dp = b.int("udp.dstport", 0, 65535)
  for special in (67, 68, 53, 5353, 520, 4789):
    b.assume(b.And(sp != special, dp != special))     # payload handed to DHCP/DNS/RIP/VXLAN parsers otherwise
  data = payload_bytes(b, maxlen=1400)
  n = len(data) if b.mode == "conc" else data.length()
  u = b.new(udp)
  b.set(u, "srcport", sp)
  b.set(u, "dstport", dp)
  b.run(udp.set_payload, u, data)
  ip, f, sip, dip = ip_header(b, 17, u)
  e, _, (dst, src) = ether(b, 0x0800, ip)
  ulen = 8 + n
  return Case(_rt, [e], calls=cs_spec(b), ensures={
    "udp_checksum_covers_pseudo_header_and_segment":
      lambda res: cs_calls(b)[0][0] == sip + dip + bytes([0, 17]) + be(ulen, 2) + be(sp, 2) + be(dp, 2) + be(ulen, 2) + bytes(2) + data,
    "ip_checksum_covers_the_header_with_a_zero_checksum_field":
      lambda res: cs_calls(b)[1][0] == ip_bytes(f, 17, sip, dip, 20 + ulen, 0),
    "layout": lambda res: res[0] == eth_bytes(dst, src, 0x0800) + ip_bytes(f, 17, sip, dip, 20 + ulen, cs_calls(b)[1][2])
    + be(sp, 2) + be(dp, 2) + be(ulen, 2) + be(65535 if cs_calls(b)[0][2] == 0 else cs_calls(b)[0][2], 2) + data,
    "fields_round_trip": lambda res: type(res[1].next) is ipv4 and res[1].next.srcip.toRaw() == sip
    and res[1].next.dstip.toRaw() == dip and res[1].next.protocol == 17 and res[1].next.tos == f["tos"]
    and res[1].next.iplen == 20 + ulen and type(res[1].next.next) is udp and res[1].next.next.srcport == sp
    and res[1].next.next.dstport == dp and res[1].next.next.len == ulen and res[1].next.next.next == data,
  })


def ipv4_datagram_with_a_raw_payload_of_any_length(b, frag=0):
  """an IPv4 datagram whose payload is not parsed further (protocol outside icmp / igmp / tcp / udp / gre), 0..1480 bytes - the
  EMPTY payload included, where total length == header length (added 2026-09-25 after seeded change C14_9 rejected exactly
  that datagram as malformed)"""
  proto = b.int("ip.protocol", 0, 255)
  b.assume(b.And(proto != 1, proto != 2, proto != 6, proto != 17, proto != 47))
  data = payload_bytes(b, maxlen=1480)
  n = len(data) if b.mode == "conc" else data.length()
  ip, f, sip, dip = ip_header(b, proto, data)
  # any fragment offset (13 bits; seeded change C03_11 parsed it with a 12-bit mask, so the last fragment at offset 0x1000 looked
  # unfragmented and was matched on 'transport ports' taken from payload bytes)
  # (boundary offsets, one unit each: a symbolic 13-bit offset next to the symbolic 3-bit flags leaves the solvers undecided)
  f["frag"] = frag
  b.set(ip, "frag", frag)
  e, _, (dst, src) = ether(b, 0x0800, ip)
  total = 20 + n
  return Case(_rt, [e], calls=cs_spec(b), ensures={
    "ip_checksum_covers_the_header_with_a_zero_checksum_field": lambda res: cs_calls(b)[0][0] == ip_bytes(f, proto, sip, dip, total, 0),
    "layout": lambda res: res[0] == eth_bytes(dst, src, 0x0800) + ip_bytes(f, proto, sip, dip, total, cs_calls(b)[0][2]) + data,
    "the_header_parses_again_and_keeps_the_payload_as_bytes":
      lambda res: type(res[1].next) is ipv4 and res[1].next.parsed is True and res[1].next.iplen == total
      and res[1].next.protocol == proto and res[1].next.srcip.toRaw() == sip and res[1].next.dstip.toRaw() == dip
      and res[1].next.next == data and res[1].next.frag == f["frag"] and res[1].next.flags == f["flags"],
  })


FRAG_UNITS = {}
for _fr in (0, 1, 0x0fff, 0x1000, 0x1001, 0x1fff):
  def _u(b, _fr=_fr):
    return ipv4_datagram_with_a_raw_payload_of_any_length(b, _fr)
  _u.__name__ = "ipv4_datagram_with_a_raw_payload_of_any_length" + ("" if _fr == 0 else "_fragment_offset_%#x" % _fr)
  FRAG_UNITS[_fr] = unit(P, target=PK + "ipv4:ipv4.hdr/checksum/parse (payload of another protocol, any length)")(_u)


@unit(P, target=PK + "packet_base:packet_base.set_payload, udp:udp.checksum (a header moved into another packet)")
def a_udp_header_moved_into_another_ip_packet_is_summed_over_its_new_addresses(b):
  """added 2026-09-25 after seeded change C14_10 let set_payload keep a payload's OLD parent: a udp / tcp header taken out of a
  parsed (or earlier built) packet and put under a new IPv4 header was then checksummed over the old packet's addresses"""
  sp, dp = b.int("udp.srcport", 1024, 4000), b.int("udp.dstport", 1024, 4000)
  data = payload_bytes(b, maxlen=1400)
  n = len(data) if b.mode == "conc" else data.length()
  u = b.new(udp)
  b.set(u, "srcport", sp)
  b.set(u, "dstport", dp)
  b.run(udp.set_payload, u, data)
  old = b.new(ipv4)
  b.set(old, "protocol", 17)
  b.set(old, "srcip", b.new(IPAddr, b.bytes("old.src", 4)))
  b.set(old, "dstip", b.new(IPAddr, b.bytes("old.dst", 4)))
  b.run(ipv4.set_payload, old, u)                     # the header belongs to another packet first
  ip, f, sip, dip = ip_header(b, 17, u)               # ... and is then made the payload of this one
  e, _, (dst, src) = ether(b, 0x0800, ip)
  ulen = 8 + n
  return Case(_rt, [e], calls=cs_spec(b), ensures={
    "udp_checksum_covers_the_pseudo_header_of_the_packet_it_is_sent_in":
      lambda res: cs_calls(b)[0][0] == sip + dip + bytes([0, 17]) + be(ulen, 2) + be(sp, 2) + be(dp, 2) + be(ulen, 2) + bytes(2) + data,
  })


def _mk_ipv4_options(hl):
  """IPv4 header with options (hl words): total length and checksum cover the options; parse returns them"""
  @unit(P, target=PK + "ipv4:ipv4.hdr/checksum/parse (header with options)", name="ipv4_with_%d_option_bytes_udp" % ((hl - 5) * 4))
  def u(b):
    sp = b.int("udp.srcport", 1024, 4000)
    dp = b.int("udp.dstport", 1024, 4000)
    data = payload_bytes(b, maxlen=1400)
    n = len(data) if b.mode == "conc" else data.length()
    opts = b.bytes("ip.options", (hl - 5) * 4)
    ud = b.new(udp)
    b.set(ud, "srcport", sp)
    b.set(ud, "dstport", dp)
    b.run(udp.set_payload, ud, data)
    ip, f, sip, dip = ip_header(b, 17, ud)
    b.set(ip, "hl", hl)
    b.set(ip, "raw_options", opts)
    e, _, (dst, src) = ether(b, 0x0800, ip)
    ulen = 8 + n
    total = hl * 4 + ulen
    def hdr_bytes(csum):
      return bytes([0x40 + hl]) + ip_bytes(f, 17, sip, dip, total, csum)[1:] + opts
    return Case(_rt, [e], calls=cs_spec(b), ensures={
      "ip_checksum_covers_the_header_and_its_options_with_a_zero_checksum_field":
        lambda res: cs_calls(b)[1][0] == hdr_bytes(0),
      "layout_total_length_counts_the_options":
        lambda res: res[0] == eth_bytes(dst, src, 0x0800) + hdr_bytes(cs_calls(b)[1][2])
        + be(sp, 2) + be(dp, 2) + be(ulen, 2) + be(65535 if cs_calls(b)[0][2] == 0 else cs_calls(b)[0][2], 2) + data,
      "fields_round_trip": lambda res: type(res[1].next) is ipv4 and res[1].next.hl == hl and res[1].next.raw_options == opts
      and res[1].next.iplen == total and type(res[1].next.next) is udp and res[1].next.next.srcport == sp
      and res[1].next.next.len == ulen and res[1].next.next.next == data,
    })


for _hl in (6, 7, 15):
  _mk_ipv4_options(_hl)


@unit(P, target=PK + "tcp:tcp.hdr/checksum/parse")
def ipv4_tcp_segment(b):
  f = dict(srcport=b.int("tcp.srcport", 0, 65535), dstport=b.int("tcp.dstport", 0, 65535),
           seq=b.int("tcp.seq", 0, 0xffffffff), ack=b.int("tcp.ack", 0, 0xffffffff), flags=b.int("tcp.flags", 0, 255),
           win=b.int("tcp.win", 0, 65535), urg=b.int("tcp.urg", 0, 65535), res=b.int("tcp.res", 0, 15))
  data = payload_bytes(b, maxlen=1400)
  n = len(data) if b.mode == "conc" else data.length()
  t = b.new(tcp)
  for k_, x in f.items():
    b.set(t, k_, x)
  b.run(tcp.set_payload, t, data)
  ip, ipf, sip, dip = ip_header(b, 6, t)
  e, _, (dst, src) = ether(b, 0x0800, ip)
  def tcp_bytes(csum):
    return be(f["srcport"], 2) + be(f["dstport"], 2) + be(f["seq"], 4) + be(f["ack"], 4) + be(5 * 16 + f["res"], 1) \
      + be(f["flags"], 1) + be(f["win"], 2) + be(csum, 2) + be(f["urg"], 2)
  return Case(_rt, [e], calls=cs_spec(b), ensures={
    "tcp_checksum_covers_pseudo_header_and_segment":
      lambda res: cs_calls(b)[0][0] == sip + dip + bytes([0, 6]) + be(20 + n, 2) + tcp_bytes(0) + data,
    "layout": lambda res: res[0] == eth_bytes(dst, src, 0x0800) + ip_bytes(ipf, 6, sip, dip, 40 + n, cs_calls(b)[1][2])
    + tcp_bytes(cs_calls(b)[0][2]) + data,
    "fields_round_trip": lambda res: type(res[1].next.next) is tcp and res[1].next.next.srcport == f["srcport"]
    and res[1].next.next.dstport == f["dstport"] and res[1].next.next.seq == f["seq"] and res[1].next.next.ack == f["ack"]
    and res[1].next.next.flags == f["flags"] and res[1].next.next.win == f["win"] and res[1].next.next.off == 5
    and res[1].next.next.next == data,
  })


@unit(P, target=PK + "icmp:icmp.hdr/parse, echo.hdr/parse")
def ipv4_icmp_echo(b):
  typ = b.choice("icmp.type", [8, 0])
  code = b.int("icmp.code", 0, 255)
  ident = b.int("echo.id", 0, 65535)
  seq = b.int("echo.seq", 0, 65535)
  data = payload_bytes(b, maxlen=1400)
  n = len(data) if b.mode == "conc" else data.length()
  ec = b.new(echo)
  b.set(ec, "id", ident)
  b.set(ec, "seq", seq)
  b.run(echo.set_payload, ec, data)
  ic = b.new(icmp)
  b.set(ic, "type", typ)
  b.set(ic, "code", code)
  b.run(icmp.set_payload, ic, ec)
  ip, ipf, sip, dip = ip_header(b, 1, ic)
  e, _, (dst, src) = ether(b, 0x0800, ip)
  return Case(_rt, [e], calls=cs_spec(b), ensures={
    "icmp_checksum_covers_the_whole_message":
      lambda res: cs_calls(b)[0][0] == be(typ, 1) + be(code, 1) + bytes(2) + be(ident, 2) + be(seq, 2) + data,
    "layout": lambda res: res[0] == eth_bytes(dst, src, 0x0800) + ip_bytes(ipf, 1, sip, dip, 28 + n, cs_calls(b)[1][2])
    + be(typ, 1) + be(code, 1) + be(cs_calls(b)[0][2], 2) + be(ident, 2) + be(seq, 2) + data,
    "fields_round_trip": lambda res: type(res[1].next.next) is icmp and res[1].next.next.type == typ
    and res[1].next.next.code == code and type(res[1].next.next.next) is echo and res[1].next.next.next.id == ident
    and res[1].next.next.next.seq == seq and res[1].next.next.next.next == data,
  })
