"""C10 / C20 - the switch side's I/O loop RecocoIOLoop.run with the real RecocoIOWorker methods (_do_recv, _do_send,
_do_exception, close, register_worker's close command) over recording socket stand-ins (added 2026-09-25; generators).
The harness plays the scheduler and resumes the loop with what a select would report.

Stated: whatever one worker's socket does on recv (data, end of stream, connection reset, the SSL ENOENT quirk), the loop
goes back to Select; a worker whose stream ended or failed is closed once (close handler once, socket shut down and
closed once) and no longer watched from the next round on; every other worker is untouched, still watched, and gets its
received bytes appended to its buffer with its rx handler called once."""
from pyvc.api import unit, Case, CallSpec
import pox.lib.ioworker as iow
from pox.lib.ioworker import RecocoIOLoop, RecocoIOWorker
from pox.lib.recoco.recoco import Select

P = "C10"
IO = "pox.lib.ioworker:"


class Trace(object):
  def __init__(self):
    self.log = []


class CoreStub(object):
  running = True


class PingerStub(object):
  def ping(self):
    self.trace.log.append(("ping",))

  def pongAll(self):
    self.trace.log.append(("pong",))


class SockStub(object):
  def recv(self, n, flags=0):
    self.trace.log.append(("recv", self.name))
    o = self.outcome
    if o == "data":
      return self.data
    if o == "eof":
      return b""
    if o == "reset":
      raise ConnectionResetError(104, "Connection reset by peer")
    if o == "enoent":
      raise OSError(2, "No such file or directory")
    raise OSError(113, "No route to host")

  def send(self, data, flags=0):
    self.trace.log.append(("send", self.name, data))
    return self.accepts

  def shutdown(self, how):
    self.trace.log.append(("shutdown", self.name, how))

  def close(self):
    self.trace.log.append(("sock.close", self.name))


def rx_handler(worker):
  worker.socket.trace.log.append(("rx", worker.socket.name, worker.receive_buf))


def close_handler(worker):
  worker.socket.trace.log.append(("closed", worker.socket.name))


def select_sets(y):
  if type(y) is not Select:
    return ("not a Select", y)
  return ([s for s in y._args[0]], [s for s in y._args[1]], [s for s in y._args[2]], y._args[3])


def same_members(xs, ys):
  return len(xs) == len(ys) and all([any([x is y for y in ys]) for x in xs])


def drive(loop, workers, rounds):
  for w in workers:
    loop.register_worker(w)
  g = loop.run()
  asked = [select_sets(next(g))]
  ended = False
  for (r, w_, e) in rounds:
    watched = asked[-1][0]
    r = [x for x in r if any([x is s for s in watched])]
    w_ = [x for x in w_ if any([x is s for s in asked[-1][1]])]
    e = [x for x in e if any([x is s for s in asked[-1][2]])]
    try:
      asked.append(select_sets(g.send((r, w_, e))))
    except StopIteration:
      ended = True
      break
  return (asked, ended)


OUTCOMES = ["data", "eof", "reset", "enoent", "unreachable"]


def env(b, pending=(b"", b"")):
  tr = b.raw_new(Trace, log=b.list([]))
  pinger = b.raw_new(PingerStub, trace=tr)
  outs = [b.choice("sock%s.recv" % n, OUTCOMES) for n in "AB"]
  datas = [b.bytes("data%s" % n, None, 1, 64) for n in "AB"]
  olds = [b.bytes("buffered%s" % n, None, 0, 16) for n in "AB"]
  socks = [b.raw_new(SockStub, trace=tr, name=n, outcome=outs[i], data=datas[i], accepts=0) for i, n in enumerate("AB")]
  ws = [b.raw_new(RecocoIOWorker, socket=socks[i], send_buf=pending[i], receive_buf=olds[i], closed=False,
                  _custom_rx_handler=rx_handler, _custom_close_handler=close_handler, _custom_connect_handler=iow._dummy_handler,
                  _connecting=False, _shutdown_send=False, on_close=None, pinger=None) for i in range(2)]
  loop = b.raw_new(RecocoIOLoop, _workers=b.set_of([]), pinger=pinger, _pending_commands=b.deque([]), running=None, id=1, priority=1,
                   _worker_type=RecocoIOWorker)
  if b.mode == "sym":
    b.st.ghost[("$global", "pox.lib.ioworker", "core")] = b.raw_new(CoreStub)
  else:
    iow.core = CoreStub()
  return tr, pinger, outs, datas, olds, socks, ws, loop


@unit(P, target=IO + "RecocoIOLoop.run / register_worker, RecocoIOWorker._do_recv / close, IOWorker._push_receive_data")
def a_failing_worker_is_closed_alone_and_the_io_loop_goes_on(b):
  tr, pinger, outs, datas, olds, socks, ws, loop = env(b)
  A, B = ws
  oa, ob = outs
  rounds = [([A, B], [], []), ([pinger, B], [], [])]
  dead = lambda o: o in ("eof", "reset", "unreachable")
  def after_recv(i, n, again=False):
    o = outs[i]
    if o == "data":
      # the stand-in rx handler does not consume: the buffer keeps growing
      return [("recv", n), ("rx", n, olds[i] + datas[i] + datas[i] if again else olds[i] + datas[i])]
    if o == "enoent":
      return [("recv", n)]
    return [("recv", n), ("closed", n), ("shutdown", n, 0), ("ping",)]
  def expected_log():
    out = [("ping",), ("ping",)]                       # two registrations
    out += after_recv(0, "A") + after_recv(1, "B")
    # next round: the close commands queued by close() run first (socket closed, worker forgotten), then select reports
    # the pinger and B
    out += [("sock.close", "A")] if dead(oa) else []
    out += [("sock.close", "B")] if dead(ob) else []
    out += [("pong",)]
    if not dead(ob):
      out += after_recv(1, "B", True)
    return out
  def watched(k):
    # read set asked for before round k (0: before anything was received)
    w = [pinger]
    if k == 0 or not dead(oa):
      w += [A]
    if k == 0 or not dead(ob):
      w += [B]
    return w
  return Case(drive, [loop, ws, rounds], raises={}, ensures={
    "the_io_loop_never_ends_because_of_a_worker": lambda res: res[1] is False and len(res[0]) == 3,
    "it_watches_every_registered_worker_and_its_pinger": lambda res: same_members(res[0][0][0], [A, B, pinger])
      and same_members(res[0][0][2], [A, B]) and res[0][0][1] == [] and res[0][0][3] == 5,
    "a_worker_whose_stream_ended_or_failed_is_no_longer_watched_the_other_one_still_is":
      lambda res: same_members(res[0][1][0], watched(1)) and same_members(res[0][1][2], [x for x in watched(1) if x is not pinger]),
    "received_bytes_are_appended_and_handed_on_once_a_dead_worker_is_closed_once":
      lambda res: [e for e in tr.log] == expected_log(),
    "the_other_workers_buffer_is_untouched_by_a_failure":
      lambda res: B.receive_buf == (olds[1] + datas[1] + datas[1] if ob == "data" else olds[1]),
  })
a_failing_worker_is_closed_alone_and_the_io_loop_goes_on.bound = \
  "two workers, both reported readable, then the pinger and the second; each recv outcome any of: 1..64 bytes, end of " \
  "stream, ConnectionResetError, OSError(ENOENT), OSError(EHOSTUNREACH)"


@unit("C20", target=IO + "RecocoIOLoop.run (write set), IOWorker._do_send / _consume_send_buf")
def pending_bytes_keep_a_worker_in_the_write_set_until_they_are_written(b):
  pa = b.bytes("pendingA", None, 1, 40)
  tr, pinger, outs, datas, olds, socks, ws, loop = env(b, pending=(pa, b""))
  A, B = ws
  n = len(pa) if b.mode == "conc" else pa.length()
  k1 = b.int("accepted1", 0, 40)
  k2 = b.int("accepted2", 0, 40)
  b.assume(k1 <= n)
  b.assume(k2 <= n - k1)
  def run(loop, ws):
    for w in ws:
      loop.register_worker(w)
    g = loop.run()
    y0 = select_sets(next(g))
    socks[0].accepts = k1
    y1 = select_sets(g.send(([], [A], [])))
    sent1 = A.send_buf
    socks[0].accepts = k2
    y2 = select_sets(g.send(([], [x for x in y1[1]], [])))
    return (y0[1], y1[1], y2[1], sent1, A.send_buf, [e for e in tr.log if e[0] == "send"])
  return Case(run, [loop, ws], raises={}, ensures={
    "only_the_worker_with_pending_bytes_is_asked_writable": lambda res: len(res[0]) == 1 and res[0][0] is A,
    "the_socket_is_offered_exactly_the_pending_bytes_and_what_it_accepted_is_dropped_from_the_front":
      lambda res: res[3] == pa[k1:] and res[5][0] == ("send", "A", pa),
    "it_stays_in_the_write_set_exactly_while_bytes_remain":
      lambda res: (len(res[1]) == 1 and res[1][0] is A) if k1 < n else res[1] == [],
    "the_remainder_is_offered_next_and_nothing_is_sent_twice_or_skipped":
      lambda res: (len(res[5]) == 1 and res[4] == b"") if k1 == n else
                  (len(res[5]) == 2 and res[5][1] == ("send", "A", pa[k1:]) and res[4] == pa[k1 + k2:]
                   and ((len(res[2]) == 1 and res[2][0] is A) if k1 + k2 < n else res[2] == [])),
  })
pending_bytes_keep_a_worker_in_the_write_set_until_they_are_written.bound = \
  "two workers, one with 1..40 pending bytes; two write rounds, the socket accepting any number of the offered bytes"


@unit(P, target=IO + "RecocoIOLoop.run (exceptional condition), IOWorker._do_exception")
def a_worker_reported_exceptional_is_closed_alone_and_the_io_loop_goes_on(b):
  """added 2026-09-25 after seeded change C10_9 removed an exceptional worker from the readable list unconditionally: a socket
  that is exceptional but NOT readable in the same round (urgent data only) raised ValueError inside the loop, whose own
  `except BaseException: break` then ended the switch's whole I/O loop"""
  tr, pinger, outs, datas, olds, socks, ws, loop = env(b, pending=(b"queued", b""))
  A, B = ws
  a_readable, a_writable = b.bool("A_also_readable"), b.bool("A_also_writable")
  b.set(socks[1], "outcome", "data")
  def run(loop, ws):
    for w in ws:
      loop.register_worker(w)
    g = loop.run()
    y0 = select_sets(next(g))
    r = ([A] if a_readable else []) + [B]
    ended = False
    y1 = None
    try:
      y1 = select_sets(g.send((r, [A] if a_writable else [], [A])))
    except StopIteration:
      ended = True
    return (ended, y1, A.closed, B.closed, [e for e in tr.log if e[0] in ("recv", "closed", "rx", "send")])
  return Case(run, [loop, ws], raises={}, ensures={
    "the_io_loop_goes_on": lambda res: res[0] is False and res[1] is not None,
    "the_exceptional_worker_is_closed_once_and_neither_read_nor_written_to": lambda res: res[2] is True and res[3] is False
      and [e for e in res[4] if e[1] == "A"] == [("closed", "A")],
    "the_other_worker_is_read_as_reported": lambda res: [e for e in res[4] if e[1] == "B"] == [("recv", "B"), ("rx", "B", olds[1] + datas[1])],
    "it_is_no_longer_watched": lambda res: same_members(res[1][0], [B, pinger]),
  })
a_worker_reported_exceptional_is_closed_alone_and_the_io_loop_goes_on.bound = \
  "two workers; one (with queued bytes) reported exceptional - readable and / or writable as well, or neither -, the other readable"
unit("C20", target=IO + "RecocoIOLoop.run (exceptional condition)",
     name="an_exceptional_worker_is_not_written_to_after_it_was_closed")(a_worker_reported_exceptional_is_closed_alone_and_the_io_loop_goes_on)


@unit("C20", target=IO + "RecocoIOLoop.register_worker (on_close) / RecocoIOLoop.run, RecocoIOWorker.close")
def a_worker_closed_by_its_owner_is_retired_by_the_loop(b):
  """sixth round, 2026-09-25: a seeded change made the loop's close callback only close the socket and left the worker in the
  loop's worker set ('the _do_* handlers take it out themselves' - they do, on THEIR error paths): a worker closed by its owner,
  or by send_fast after a fatal error, that was then sent to again was still serviced - _do_send wrote to the dead socket"""
  tr, pinger, outs, datas, olds, socks, ws, loop = env(b)
  A, B = ws
  more = b.bytes("sent_after_the_close", None, 1, 8)
  def run(loop, ws):
    for w in ws:
      loop.register_worker(w)
    g = loop.run()
    y0 = select_sets(next(g))
    A.close()
    A.send(more)
    y1 = select_sets(g.send(([pinger], [], [])))
    y2 = select_sets(g.send(([], [x for x in y1[1]], [])))
    return (y0, y1, y2, [e for e in tr.log if e[0] in ("send", "sock.close", "closed")])
  return Case(run, [loop, ws], raises={}, ensures={
    "the_closed_worker_is_no_longer_watched_for_anything":
      lambda res: same_members(res[1][0], [B, pinger]) and res[1][1] == [] and same_members(res[1][2], [B])
      and same_members(res[2][0], [B, pinger]) and res[2][1] == [],
    "its_socket_is_closed_once_and_never_written_to": lambda res: res[3] == [("closed", "A"), ("sock.close", "A")],
  })
a_worker_closed_by_its_owner_is_retired_by_the_loop.bound = "two workers; one closed by its owner and sent to afterwards; two rounds"
