"""C09 - a connection lost in the middle of a SEND leaves the registry at once: Connection.send's fatal-error path disconnects
(event deferred to the later close()), which removes the registration (the disconnect units of c09_lifecycle).  That send()
calls disconnect exactly once on a fatal socket error is the C20 unit controller_send_one_message - an obligation of C09 too
(seeded change C09_11 only marked the connection dead there: until the I/O loop got round to closing it, the registry mapped
the datapath id to a dead connection and sendToDPID answered True while dropping the data).  In a file of its own because
c20_send imports c09_lifecycle."""
from pyvc.api import unit
import contracts.c20_send as _S

P = "C09"
unit(P, target=_S.OF + "Connection.send (fatal socket error)", name="a_send_that_hits_a_dead_socket_disconnects_at_once")(_S.controller_send_one_message)
