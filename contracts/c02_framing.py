"""C02 - message framing is independent of segmentation.

The framing units of c10_framing are re-discharged here (DESIGN 2.2, cross-property dependencies): they state
the delivered messages and the retained remainder as a function of the ghost stream S = buffer ++ received chunk
alone (frame boundaries cut(k) follow the declared lengths), never of how S was cut into reads.  The lemma below
closes the induction over reads.  A bounded stand-in (c10_standins.segmentation_independence) runs the real
decoders end to end over enumerated segmentations."""
from pyvc.api import unit, Case
import contracts.c10_framing as F
import contracts.c10_standins   # noqa: registers the C02 stand-in

P = "C02"
unit(P, target=F.OF01 + "Connection.read", name="controller_read_frames", timeout_s=600)(F.controller_read_arbitrary_bytes)
unit(P, target=F.SW + "OFConnection.read", name="switch_read_frames", timeout_s=600)(F.switch_read_frames)
unit(P, target="pox.lib.ioworker:IOWorker receive buffer", name="ioworker_receive_buffer")(F.ioworker_receive_buffer)

# the decoder family contract the read units call ("returns offset + declared length or raises") is discharged per message
# class in c10_unpack_total; C02 depends on it (a decoder returning another offset would merge or split neighbours), so the
# same units are obligations of C02 too
import contracts.c10_unpack_total as U   # noqa
from pyvc.api import UNITS as _UNITS
for _u in list(_UNITS.get("C10", [])):
  if _u.name.startswith("arbitrary_bytes_"):
    unit(P, target=_u.target, name="decoder_" + _u.name[len("arbitrary_bytes_"):] + "_consumes_the_declared_length")(_u.fn)
  if _u.name.startswith("well_formed_length_is_accepted_"):
    # ... and a frame whose length its type allows IS decoded (a rejected frame is not handed over: 'delivers exactly that sequence')
    unit(P, target=_u.target, name="decoder_" + _u.name[len("well_formed_length_is_accepted_"):] + "_accepts_every_permitted_length")(_u.fn)


def next_cut(S, c):
  """frame boundary after c, or c itself when no complete frame starts at c"""
  if len(S) - c < 8:
    return c
  L = S[c + 2] * 256 + S[c + 3]
  if L < 8 or len(S) - c < L:
    return c
  return c + L


@unit(P, target="lemma: segmentation independence (induction step over reads)")
def lemma_boundaries_do_not_depend_on_the_split(b):
  """Let T be a stream, c a frame boundary of T that a first read has reached, i.e. the connection now buffers
  T[c:k] having received T[:k].  When the next chunk T[k:k2] arrives, the loop works on S' = T[c:k] ++ T[k:k2]
  = T[c:k2]: a frame starts at offset o of S' iff it starts at c + o of T[:k2], with the same declared length.
  Hence the boundaries reached after the second read are those of T[:k2] read in one piece - by induction over
  reads the delivered sequence is a function of the bytes only."""
  T = b.bytes("T", None, 0, 4000)
  n = len(T) if b.mode == "conc" else T.length()
  c = b.int("c", 0, 4000)
  k = b.int("k", 0, 4000)
  k2 = b.int("k2", 0, 4000)
  o = b.int("o", 0, 4000)
  b.assume(b.And(c <= k, k <= k2, k2 <= n, c + o <= k2))
  def run(T, c, k, k2, o):
    S2 = T[c:k] + T[k:k2]
    whole = T[:k2]
    return (len(S2), next_cut(S2, o), next_cut(whole, c + o))
  return Case(run, [T, c, k, k2, o], ensures={
    "same_bytes": lambda res: res[0] == k2 - c,
    "same_next_boundary": lambda res: res[1] + c == res[2],
  })


# the loops that call read(): every connection / worker that select reports readable is read exactly once per report, whatever
# the others do (c10_taskloop / c10_ioloop, generators) - C02 depends on it ("delivers exactly that sequence")
import contracts.c10_taskloop as _TL
import contracts.c10_ioloop as _IL
unit(P, target=_TL.OF01 + "OpenFlow_01_Task.run", name="controller_loop_reads_what_select_reports")(_TL.a_failing_connection_is_closed_alone_and_the_loop_goes_on)
unit(P, target=_IL.IO + "RecocoIOLoop.run", name="switch_io_loop_reads_what_select_reports")(_IL.a_failing_worker_is_closed_alone_and_the_io_loop_goes_on)


# ---- the connect probe of an outbound worker (the switch's connection to its controller) must not eat stream bytes
# (added 2026-09-25 after seeded change C02_7: recv(1) instead of recv(1, MSG_PEEK) shifted the framing by one byte whenever
# the controller's first bytes had already arrived when the loop noticed the connect)
import socket as _socket
import pox.lib.ioworker as _iow


class StreamSock(object):
  """a connected socket with `stream` waiting in its receive queue: recv returns up to n bytes of it and - unless MSG_PEEK is
  given - removes them from the queue"""
  def shutdown(self, how):
    self.trace.log.append(("shutdown", how))

  def recv(self, n, flags=0):
    self.trace.log.append(("recv", n, flags))
    d = self.stream[:n]
    if not (flags & _socket.MSG_PEEK):
      self.stream = self.stream[n:]
    return d


def _connected(worker):
  worker.socket.trace.log.append(("connected",))


def _rx(worker):
  worker.socket.trace.log.append(("rx",))


def _on_close(worker):
  worker.socket.trace.log.append(("closed",))


@unit(P, target="pox.lib.ioworker:IOWorker._try_connect / _do_recv (outbound worker noticing its connect)")
def the_connect_probe_does_not_consume_stream_bytes(b):
  tr = b.raw_new(_IL.Trace, log=b.list([]))
  S = b.bytes("already_arrived", None, 1, 64)
  sock = b.raw_new(StreamSock, trace=tr, stream=S)
  w = b.raw_new(_iow.RecocoIOWorker, socket=sock, send_buf=b"", receive_buf=b"", closed=False, _custom_rx_handler=_rx,
                _custom_close_handler=_iow._dummy_handler, _custom_connect_handler=_connected, _connecting=True,
                _shutdown_send=False, on_close=_on_close, pinger=None)
  loop = b.raw_new(_iow.RecocoIOLoop, _workers=b.set_of([w]), pinger=None, _pending_commands=b.deque([]), running=None, id=1,
                   priority=1, _worker_type=_iow.RecocoIOWorker)
  def run(w, loop):
    w._do_recv(loop)
    return (w.receive_buf, w._connecting, [e[0] for e in tr.log], sock.stream)
  return Case(run, [w, loop], raises={}, ensures={
    "every_byte_that_had_arrived_reaches_the_receive_buffer_starting_with_the_first": lambda res: res[0] == S and len(res[3]) == 0,
    "the_worker_is_connected_and_said_so_once_before_the_data": lambda res: res[1] is False and res[2] == ["recv", "connected", "recv", "rx"],
  })
