"""C02 - message framing is independent of segmentation.

The framing units of c10_framing are re-discharged here (DESIGN 2.2, cross-property dependencies): they state
the delivered messages and the retained remainder as a function of the ghost stream S = buffer ++ received chunk
alone (frame boundaries cut(k) follow the declared lengths), never of how S was cut into reads.  The lemma below
closes the induction over reads.  A bounded stand-in (c10_standins.segmentation_independence) runs the real
decoders end to end over enumerated segmentations."""
from pyvc.api import unit, Case
import contracts.c10_framing as F
import contracts.c10_standins   # noqa: registers the C02 stand-in

P = "C02"
unit(P, target=F.OF01 + "Connection.read", name="controller_read_frames", timeout_s=600)(F.controller_read_arbitrary_bytes)
unit(P, target=F.SW + "OFConnection.read", name="switch_read_frames", timeout_s=600)(F.switch_read_frames)
unit(P, target="pox.lib.ioworker:IOWorker receive buffer", name="ioworker_receive_buffer")(F.ioworker_receive_buffer)

# the decoder family contract the read units call ("returns offset + declared length or raises") is discharged per message
# class in c10_unpack_total; C02 depends on it (a decoder returning another offset would merge or split neighbours), so the
# same units are obligations of C02 too
import contracts.c10_unpack_total as U   # noqa
from pyvc.api import UNITS as _UNITS
for _u in list(_UNITS.get("C10", [])):
  if _u.name.startswith("arbitrary_bytes_"):
    unit(P, target=_u.target, name="decoder_" + _u.name[len("arbitrary_bytes_"):] + "_consumes_the_declared_length")(_u.fn)


def next_cut(S, c):
  """frame boundary after c, or c itself when no complete frame starts at c"""
  if len(S) - c < 8:
    return c
  L = S[c + 2] * 256 + S[c + 3]
  if L < 8 or len(S) - c < L:
    return c
  return c + L


@unit(P, target="lemma: segmentation independence (induction step over reads)")
def lemma_boundaries_do_not_depend_on_the_split(b):
  """Let T be a stream, c a frame boundary of T that a first read has reached, i.e. the connection now buffers
  T[c:k] having received T[:k].  When the next chunk T[k:k2] arrives, the loop works on S' = T[c:k] ++ T[k:k2]
  = T[c:k2]: a frame starts at offset o of S' iff it starts at c + o of T[:k2], with the same declared length.
  Hence the boundaries reached after the second read are those of T[:k2] read in one piece - by induction over
  reads the delivered sequence is a function of the bytes only."""
  T = b.bytes("T", None, 0, 4000)
  n = len(T) if b.mode == "conc" else T.length()
  c = b.int("c", 0, 4000)
  k = b.int("k", 0, 4000)
  k2 = b.int("k2", 0, 4000)
  o = b.int("o", 0, 4000)
  b.assume(b.And(c <= k, k <= k2, k2 <= n, c + o <= k2))
  def run(T, c, k, k2, o):
    S2 = T[c:k] + T[k:k2]
    whole = T[:k2]
    return (len(S2), next_cut(S2, o), next_cut(whole, c + o))
  return Case(run, [T, c, k, k2, o], ensures={
    "same_bytes": lambda res: res[0] == k2 - c,
    "same_next_boundary": lambda res: res[1] + c == res[2],
  })


# the loops that call read(): every connection / worker that select reports readable is read exactly once per report, whatever
# the others do (c10_taskloop / c10_ioloop, generators) - C02 depends on it ("delivers exactly that sequence")
import contracts.c10_taskloop as _TL
import contracts.c10_ioloop as _IL
unit(P, target=_TL.OF01 + "OpenFlow_01_Task.run", name="controller_loop_reads_what_select_reports")(_TL.a_failing_connection_is_closed_alone_and_the_loop_goes_on)
unit(P, target=_IL.IO + "RecocoIOLoop.run", name="switch_io_loop_reads_what_select_reports")(_IL.a_failing_worker_is_closed_alone_and_the_io_loop_goes_on)
