"""C03 - field extraction: ofp_match.from_packet against the OpenFlow 1.0 extraction rules (spec section 3.4
and the flow chart of figure 4), per header-chain shape.  Packet objects are built directly (field by field, all
field values symbolic); parsing bytes into these objects is C14/C15."""
from pyvc.api import unit, Case
import pox.openflow.libopenflow_01 as of
from pox.lib.addresses import EthAddr, IPAddr
from pox.lib.packet.ethernet import ethernet
from pox.lib.packet.vlan import vlan
from pox.lib.packet.llc import llc
from pox.lib.packet.ipv4 import ipv4
from pox.lib.packet.arp import arp
from pox.lib.packet.tcp import tcp
from pox.lib.packet.udp import udp
from pox.lib.packet.icmp import icmp

P = "C03"
MOD = "pox.openflow.libopenflow_01:"
VLAN_NONE = 0xffff
NOT_ETH = 0x05ff


def pk(b, cls, **fields):
  base = dict(prev=None, next=None, parsed=True, raw=None)
  base.update(fields)
  return b.raw_new(cls, **base)


def build_frame(b, shape):
  """shape: tuple of layer names. returns (ethernet object, spec dict of expected fields)"""
  src = b.bytes("dl_src", 6)
  dst = b.bytes("dl_dst", 6)
  exp = {"dl_src": src, "dl_dst": dst, "dl_vlan": VLAN_NONE, "dl_vlan_pcp": 0,
         "nw_tos": None, "nw_proto": None, "nw_src": None, "nw_dst": None, "tp_src": None, "tp_dst": None}
  layers = list(shape)
  # innermost first
  nxt = None
  objs = {}
  inner_type = None
  for name in reversed(layers):
    if name in ("tcp", "udp"):
      sp = b.int("tp_src", 0, 65535)
      dp = b.int("tp_dst", 0, 65535)
      o = pk(b, tcp if name == "tcp" else udp, srcport=sp, dstport=dp, next=nxt)
      exp["tp_src"], exp["tp_dst"] = sp, dp
    elif name == "icmp":
      t = b.int("icmp_type", 0, 255)
      c = b.int("icmp_code", 0, 255)
      o = pk(b, icmp, type=t, code=c, next=nxt)
      exp["tp_src"], exp["tp_dst"] = t, c
    elif name in ("ipv4", "ipv4frag", "ipv4other"):
      sip = b.bytes("nw_src", 4)
      dip = b.bytes("nw_dst", 4)
      proto = b.int("nw_proto", 0, 255)
      tos = b.int("nw_tos", 0, 255)
      flags = b.int("ip_flags", 0, 7)
      frag = b.int("ip_frag", 0, 8191)
      if name == "ipv4frag":
        b.assume(b.Or(flags % 2 == 1, frag != 0))          # MF set or offset non-zero
        exp["tp_src"], exp["tp_dst"] = 0, 0                 # spec: fragments match with zero ports
      else:
        b.assume(b.And(flags % 2 == 0, frag == 0))
      o = pk(b, ipv4, srcip=b.new(IPAddr, sip), dstip=b.new(IPAddr, dip), protocol=proto, tos=tos, flags=flags,
             frag=frag, next=(nxt if name != "ipv4other" else b"payload"))
      exp.update(nw_src=sip, nw_dst=dip, nw_proto=proto, nw_tos=tos)
      inner_type = 0x0800
    elif name in ("arp", "arpbig"):
      op = b.int("arp_op", 0, 65535)
      sip = b.bytes("arp_spa", 4)
      dip = b.bytes("arp_tpa", 4)
      o = pk(b, arp, opcode=op, protosrc=b.new(IPAddr, sip), protodst=b.new(IPAddr, dip), next=nxt)
      if name == "arp":
        b.assume(op <= 255)
        exp.update(nw_proto=op, nw_src=sip, nw_dst=dip)
      else:
        b.assume(op > 255)
      inner_type = 0x0806
    elif name == "vlan":
      vid = b.int("vlan_id", 0, 4095)
      pcp = b.int("vlan_pcp", 0, 7)
      et = inner_type if inner_type is not None else b.int("vlan_ethertype", 1536, 65535)
      o = pk(b, vlan, id=vid, pcp=pcp, cfi=0, eth_type=et, next=nxt)
      exp.update(dl_vlan=vid, dl_vlan_pcp=pcp)
      exp["dl_type"] = et
      inner_type = 0x8100
    elif name == "llc":
      o = pk(b, llc, oui=None, dsap=b.int("dsap", 0, 255), ssap=b.int("ssap", 0, 255), control=3, length=3,
             eth_type=0xffff, next=nxt)
      exp["dl_type"] = NOT_ETH
      inner_type = "len"
    elif name == "snap":
      et = inner_type if inner_type not in (None, "len") else b.int("snap_ethertype", 1536, 65535)
      o = pk(b, llc, oui=b"\0\0\0", dsap=0xaa, ssap=0xaa, control=3, length=8, eth_type=et, next=nxt)
      exp["dl_type"] = et
      inner_type = "len"
    elif name == "payload":
      o = b"payload"
    else:
      raise AssertionError(name)
    objs[name] = o
    nxt = o
  if inner_type == "len":
    etype = b.int("eth_len", 0, 1535)
  elif inner_type is None:
    etype = b.int("eth_type", 1536, 65535)
    b.assume(etype != 0x8100)
    exp["dl_type"] = etype
  else:
    etype = inner_type
    if "dl_type" not in exp:
      exp["dl_type"] = etype
  e = pk(b, ethernet, src=b.new(EthAddr, src), dst=b.new(EthAddr, dst), type=etype, next=nxt)
  return e, exp


def _extract(pkt, in_port):
  m = of.ofp_match.from_packet(pkt, in_port, spec_frags=True)
  def raw(x):
    return None if x is None else x.toRaw()
  return (m.in_port, raw(m.dl_src), raw(m.dl_dst), m.dl_vlan, m.dl_vlan_pcp, m.dl_type, m.nw_tos, m.nw_proto,
          raw(m.nw_src), raw(m.nw_dst), m.tp_src, m.tp_dst)


ORDER = ["in_port", "dl_src", "dl_dst", "dl_vlan", "dl_vlan_pcp", "dl_type", "nw_tos", "nw_proto", "nw_src", "nw_dst",
         "tp_src", "tp_dst"]


def _mk(name, shape):
  def u(b):
    e, exp = build_frame(b, shape)
    in_port = b.int("in_port", 0, 65535)
    exp["in_port"] = in_port
    ens = {}
    for i, f in enumerate(ORDER):
      ens[f] = (lambda i, f: (lambda res: res[i] == exp[f]))(i, f)
    return Case(_extract, [e, in_port], ensures=ens)
  u.__name__ = "extract_" + name
  unit(P, target=MOD + "ofp_match.from_packet")(u)


_mk("other_ethertype", ("payload",))
_mk("llc_without_snap", ("llc", "payload"))
_mk("snap_other", ("snap", "payload"))
_mk("snap_ipv4_tcp", ("snap", "ipv4", "tcp"))
_mk("vlan_other", ("vlan", "payload"))
_mk("vlan_ipv4_udp", ("vlan", "ipv4", "udp"))
_mk("vlan_arp", ("vlan", "arp"))
_mk("ipv4_tcp", ("ipv4", "tcp"))
_mk("ipv4_udp", ("ipv4", "udp"))
_mk("ipv4_icmp", ("ipv4", "icmp"))
_mk("ipv4_other_protocol", ("ipv4other",))
_mk("ipv4_fragment", ("ipv4frag", "udp"))
_mk("arp", ("arp",))
_mk("arp_opcode_above_255", ("arpbig",))
