"""C17 (second half) - multipart statistics replies (pox/openflow/of_01.py).

Connection._incoming_stats_reply is proved as ONE STEP over the abstract state `_previous_stats` = the parts received so
far, for a list of parts of ANY length (symbolic list):
  representation invariant   all stored parts carry the xid and type of the first one
  a part that is not the last, of a type that cannot be aggregated   -> state emptied, nothing fires
  a part continuing the stored ones (same xid and type), or the first part -> appended, in order
  a part of another request while parts are stored -> the stored ones are dropped, the new one starts afresh (never merged)
  a last part -> exactly one handler call, for the type of the accumulated reply, with all its parts in order; state emptied
The per-type handlers (callees above) are proved to hand the concatenation of all parts' entries, in order, to exactly
one event on the nexus and - unless halted there - one on the connection."""
from pyvc.api import unit, Case, CallSpec, native, forall
import pox.openflow.libopenflow_01 as of
import pox.openflow.of_01 as of_01
from pox.openflow.of_01 import Connection

P = "C17"
CN = "pox.openflow.of_01:"
AGG = (of.OFPST_FLOW, of.OFPST_TABLE, of.OFPST_PORT, of.OFPST_QUEUE)
HANDLERS = {0: "handle_OFPST_DESC", 1: "handle_OFPST_FLOW", 2: "handle_OFPST_AGGREGATE", 3: "handle_OFPST_TABLE",
            4: "handle_OFPST_PORT", 5: "handle_OFPST_QUEUE"}
CALLS = []     # native record of handler calls: (stats type of the handler, parts)


class _G(object):
  @native
  def get(self, st, name):
    return st.ghost.get(name)


G = _G()


def calls(b):
  return list(G.get("calls") or ()) if b.mode == "sym" else list(CALLS)


class Rec(CallSpec):
  def __init__(self, code):
    CallSpec.__init__(self, "contract", envelope="per-type stats handler: contract in the handle_OFPST_* units below")
    self.code = code

  def apply(self, I, f, args, kws, st, ctx, k, node):
    st.ghost["calls"] = tuple(st.ghost.get("calls", ())) + ((self.code, args[1]),)
    return k(st, None)


def mk_part(xid, type_, more, uid):
  r = of.ofp_stats_reply()
  r.xid = xid
  r.type = type_
  r.flags = 1 if more else 0
  r.uid = uid
  return r


@unit(P, target=CN + "Connection._incoming_stats_reply", timeout_s=600)
def one_part_of_a_statistics_reply(b):
  attrs = {"xid": "int", "type": "int", "uid": "int"}
  if b.mode == "sym":
    import z3
    prev = b.slist("prev", attrs)
    n0 = b.slist_len(prev)
    X, T, U = [b.slist_attr(prev, a) for a in ("xid", "type", "uid")]
    j = z3.Int("prev!j")
    # representation invariant of the stored parts (re-established by every step: see the ensures below)
    b.assume(z3.ForAll([j], z3.Implies(z3.And(0 <= j, j < n0), z3.And(X[j] == X[0], T[j] == T[0]))))
    b.assume(z3.ForAll([j], z3.And(T[j] >= 0, T[j] <= 5, X[j] >= 0, X[j] <= 0xffffffff)))
    b.st.ghost["calls"] = ()
    cs = dict((CN + nm, Rec(code)) for code, nm in HANDLERS.items())
  else:
    def make(i, vals):
      if vals is None:
        return mk_part(77, of.OFPST_FLOW, True, 1000 + i)
      return mk_part(vals["xid"], vals["type"], True, vals["uid"])
    prev = b.slist("prev", attrs, 5, make)
    n0 = len(prev)
    X = [p.xid for p in prev] or [0]
    T = [p.type for p in prev] or [0]
    U = [p.uid for p in prev]
    del CALLS[:]
    for code, nm in HANDLERS.items():
      of_01.statsHandlerMap[code] = (lambda code: lambda con, parts: CALLS.append((code, parts)))(code)
    cs = {}
  xid = b.int("xid", 0, 0xffffffff)
  typ = b.int("type", 0, 5)
  flags = b.int("flags", 0, 0xffff)
  uid = b.int("uid", 0, 1 << 30)
  ofp = b.new(of.ofp_stats_reply)
  b.set(ofp, "_xid", xid)
  b.set(ofp, "type", typ)
  b.set(ofp, "flags", flags)
  b.set(ofp, "uid", uid)
  con = b.raw_new(Connection, _previous_stats=prev)
  def run(con, ofp):
    con._incoming_stats_reply(ofp)
    return con._previous_stats
  is_last = lambda: ofp.flags % 2 == 0
  agg = lambda: ofp.type == 1 or ofp.type == 3 or ofp.type == 4 or ofp.type == 5
  cont = lambda: n0 > 0 and ofp.xid == X[0] and ofp.type == T[0]
  def accumulated(parts):
    """parts == stored ++ [ofp] if ofp continues them, else [ofp]"""
    if cont():
      return len(parts) == n0 + 1 and parts[n0].uid == uid and forall(0, n0, lambda i: parts[i].uid == U[i])
    return len(parts) == 1 and parts[0].uid == uid
  return Case(run, [con, ofp], calls=cs, raises={}, ensures={
    "a_multipart_reply_of_a_type_that_cannot_be_aggregated_is_dropped":
      lambda res: not (not is_last() and not agg()) or (len(res) == 0 and len(calls(b)) == 0),
    "a_further_part_is_stored_after_the_parts_of_its_own_request_only":
      lambda res: not (not is_last() and agg()) or (accumulated(res) and len(calls(b)) == 0),
    "the_last_part_fires_exactly_once_with_all_parts_of_its_request_in_order":
      lambda res: not is_last() or (len(res) == 0 and len(calls(b)) == 1
                                    and calls(b)[0][0] == (T[0] if cont() else ofp.type)
                                    and accumulated(calls(b)[0][1])),
    "stored_parts_share_xid_and_type":
      lambda res: forall(0, len(res), lambda i: res[i].xid == res[0].xid and res[i].type == res[0].type),
  })


# ---------------------------------------------------------------- the per-type handlers and the two port handlers

RAISED = []    # native record of raiseEventNoErrors calls


class FakeEvent(object):
  def __init__(self, halt):
    self.halt = halt


class Raise(CallSpec):
  """raiseEventNoErrors(EventClass, *args) on nexus / connection: logs the call; the result is None (nobody listens
  or a handler failed) or an event whose halt flag a listener may have set"""
  def __init__(self, outcome):
    CallSpec.__init__(self, "contract", envelope="event delivery: property C05; listeners do not touch the connection's "
                      "port collections or stored stats parts")
    self.outcome = outcome

  def apply(self, I, f, args, kws, st, ctx, k, node):
    n = len(st.ghost.get("raised", ()))
    st.ghost["raised"] = tuple(st.ghost.get("raised", ())) + ((args[0], args[1], tuple(args[2:])),)
    return k(st, self.outcome[n] if n < len(self.outcome) else None)


class Target(object):
  """stand-in for nexus / connection in native runs"""
  def __init__(self, outcome):
    self.outcome = outcome
  def raiseEventNoErrors(self, cls, *args):
    RAISED.append((self, cls, args))
    return self.outcome


def raised(b):
  return list(G.get("raised") or ()) if b.mode == "sym" else list(RAISED)


def event_targets(b):
  """(connection, nexus, callspecs, halted): connection and nexus whose raiseEventNoErrors is the callee under contract"""
  kind = b.int("nexus_outcome", 0, 2)        # 0: None, 1: event not halted, 2: event halted
  if b.mode == "sym":
    from pyvc.values import Union
    b.st.ghost["raised"] = ()
    ev_free = b.raw_new(FakeEvent, halt=False)
    ev_halt = b.raw_new(FakeEvent, halt=True)
    out = Union([(kind == 0, None), (kind == 1, ev_free), (kind == 2, ev_halt)])
    from pox.openflow import OpenFlowNexus
    nexus = b.raw_new(OpenFlowNexus)
    con = b.raw_new(Connection, ofnexus=nexus)
    cs = {"pox.lib.revent.revent:EventMixin.raiseEventNoErrors": Raise([out, None])}
    return con, nexus, cs, kind == 2
  del RAISED[:]
  nexus = Target([None, FakeEvent(False), FakeEvent(True)][kind])
  con = object.__new__(Connection)
  con.ofnexus = nexus
  con.raiseEventNoErrors = lambda cls, *args: RAISED.append((con, cls, args))
  return con, nexus, {}, kind == 2


def delivered(b, con, nexus, halted, cls, check):
  """exactly one event of class cls on the nexus, then - unless a nexus listener halted it - one on the connection"""
  r = raised(b)
  return (len(r) == (1 if halted else 2) and r[0][0] is nexus and r[0][1] is cls and check(r[0][2])
          and (halted or (r[1][0] is con and r[1][1] is cls and check(r[1][2]))))


def _mk_handler(code, name, event_cls, n_parts, sizes):
  def u(b):
    con, nexus, cs, halted = event_targets(b)
    bodies = [[b.raw_new(of.ofp_flow_stats) for _ in range(sz)] for sz in sizes]
    parts = []
    for i in range(n_parts):
      p = b.new(of.ofp_stats_reply)
      b.set(p, "body", b.list(bodies[i]))
      parts.append(p)
    plist = b.list(parts)
    flat = [x for body in bodies for x in body]
    def same(lst, expect):
      return len(lst) == len(expect) and all([x is y for x, y in zip(lst, expect)])
    return Case(getattr(of_01, name), [con, plist], calls=cs, raises={}, ensures={
      "one_event_with_all_parts_entries_in_order":
        lambda res: delivered(b, con, nexus, halted, event_cls,
                              lambda a: a[0] is con and a[1] is plist and same(a[2], flat)),
    })
  u.__name__ = "%s_parts%d_%s" % (name, n_parts, "_".join(str(s) for s in sizes))
  u.bound = "1..3 parts of 0..2 entries each"
  unit(P, target=CN + name)(u)


for _code, _name, _cls in ((1, "handle_OFPST_FLOW", of_01.FlowStatsReceived), (3, "handle_OFPST_TABLE", of_01.TableStatsReceived),
                           (4, "handle_OFPST_PORT", of_01.PortStatsReceived), (5, "handle_OFPST_QUEUE", of_01.QueueStatsReceived)):
  for _sizes in ((0,), (2,), (1, 2), (2, 0), (1, 0, 2), (2, 1, 1)):
    _mk_handler(_code, _name, _cls, len(_sizes), _sizes)


def _mk_single(name, event_cls):
  @unit(P, target=CN + name, name=name + "_single_part")
  def u(b):
    con, nexus, cs, halted = event_targets(b)
    body = b.raw_new(of.ofp_desc_stats)
    p = b.new(of.ofp_stats_reply)
    b.set(p, "body", body)
    plist = b.list([p])
    return Case(getattr(of_01, name), [con, plist], calls=cs, raises={}, ensures={
      "one_event_with_the_body": lambda res: delivered(b, con, nexus, halted, event_cls,
                                                        lambda a: a[0] is con and a[1] is p and a[2] is body),
    })


_mk_single("handle_OFPST_DESC", of_01.SwitchDescReceived)
_mk_single("handle_OFPST_AGGREGATE", of_01.AggregateFlowStatsReceived)


# ---------------------------------------------------------------- messages that are NOT statistics replies leave stored parts alone
# (added 2026-09-25 after seeded change C17_9 emptied the stored parts in the error handler: any OFPT_ERROR - e.g. for a rejected
# flow-mod with another xid - arriving between two parts of a multipart reply made the aggregated event lose the earlier parts)

class SendSock(object):
  pass


def _mk_frame(hname, mk_msg):
  def u(b):
    con, nexus, cs, halted = event_targets(b)
    p1, p2 = b.raw_new(of.ofp_stats_reply, uid=1), b.raw_new(of.ofp_stats_reply, uid=2)
    stored = b.list([p1, p2])
    b.set(con, "_previous_stats", stored)
    b.set(con, "dpid", 5)
    b.set(con, "ID", 1)
    msg = mk_msg(b)
    if b.mode == "sym":
      cs[CN + "Connection.send"] = CallSpec("opaque", envelope="queues a message (C20)")
    else:
      con.send = lambda m: None
    def run(con, msg):
      getattr(of_01.DefaultOpenFlowHandlers, hname)(con, msg)
      return (con._previous_stats, [x for x in con._previous_stats])
    return Case(run, [con, msg], calls=cs, raises={}, ensures={
      "the_parts_stored_for_a_statistics_reply_in_progress_are_untouched":
        lambda res: res[0] is stored and len(res[1]) == 2 and res[1][0] is p1 and res[1][1] is p2,
    })
  u.__name__ = hname + "_leaves_a_statistics_reply_in_progress_alone"
  u.bound = "two parts stored"
  unit(P, target=CN + "DefaultOpenFlowHandlers." + hname)(u)


def _xid_msg(cls):
  def mk(b):
    m = b.new(cls)
    b.set(m, "_xid", b.int("msg.xid", 0, 0xffffffff))
    return m
  return mk


for _h, _c in (("handle_ERROR", of.ofp_error), ("handle_PACKET_IN", of.ofp_packet_in), ("handle_BARRIER_REPLY", of.ofp_barrier_reply),
               ("handle_FLOW_REMOVED", of.ofp_flow_removed), ("handle_ECHO_REQUEST", of.ofp_echo_request),
               ("handle_ECHO_REPLY", of.ofp_echo_reply), ("handle_GET_CONFIG_REPLY", of.ofp_get_config_reply),
               ("handle_HELLO", of.ofp_hello)):
  _mk_frame(_h, _xid_msg(_c))


# ---------------------------------------------------------------- every part reaches the reassembly, whoever listens to the raw event
# (added 2026-09-25 after seeded change C17_10 moved the call under the 'not halted' branch: a nexus-level RawStatsReply listener
# that halts its event then starved the reassembly - no aggregated event was ever raised)

@unit(P, target=CN + "DefaultOpenFlowHandlers.handle_STATS_REPLY")
def every_statistics_part_reaches_the_reassembly_even_if_the_raw_event_is_halted(b):
  con, nexus, cs, halted = event_targets(b)
  msg = b.new(of.ofp_stats_reply)
  got = []
  if b.mode == "sym":
    def ghost(I, st, f, args, kws):
      st.ghost["reassembly"] = tuple(st.ghost.get("reassembly", ())) + (args[1],)
    cs = dict(cs)
    cs[CN + "Connection._incoming_stats_reply"] = CallSpec("contract", ghost=ghost, envelope="one reassembly step (unit one_part_of_a_statistics_reply)")
  else:
    con._incoming_stats_reply = lambda m: got.append(m)
  def parts():
    return list(G.get("reassembly") or ()) if b.mode == "sym" else list(got)
  def run(con, msg):
    of_01.DefaultOpenFlowHandlers.handle_STATS_REPLY(con, msg)
    return None
  return Case(run, [con, msg], calls=cs, raises={}, ensures={
    "the_part_is_handed_to_the_reassembly_exactly_once": lambda res: len(parts()) == 1 and parts()[0] is msg,
    "the_raw_event_goes_to_the_nexus_then_unless_halted_to_the_connection":
      lambda res: delivered(b, con, nexus, halted, of_01.RawStatsReply, lambda a: a[0] is con and a[1] is msg),
  })


# ---------------------------------------------------------------- a reply's event carries ITS entries only - also the second time
# (added 2026-09-25, sixth round: a seeded change turned a handler's local accumulator into a mutable default argument, so every
# later table-stats event also carried the entries of all earlier ones - the first call is fine)

def _mk_handler_twice(name, event_cls):
  def u(b):
    con, nexus, cs, halted = event_targets(b)
    if b.mode == "sym":
      # both events of both calls are delivered the same way: a listener never halts here
      b.assume(b.Not(halted))
      cs = dict(cs)
      cs["pox.lib.revent.revent:EventMixin.raiseEventNoErrors"] = Raise([None, None, None, None])
    else:
      nexus.outcome = None
    first = [b.raw_new(of.ofp_flow_stats) for _ in range(2)]
    second = [b.raw_new(of.ofp_flow_stats) for _ in range(1)]
    p1, p2 = b.new(of.ofp_stats_reply), b.new(of.ofp_stats_reply)
    b.set(p1, "body", b.list(first))
    b.set(p2, "body", b.list(second))
    l1, l2 = b.list([p1]), b.list([p2])
    h = getattr(of_01, name)
    def run(con):
      h(con, l1)
      h(con, l2)
      return None
    def same(lst, expect):
      return len(lst) == len(expect) and all([x is y for x, y in zip(lst, expect)])
    return Case(run, [con], calls=cs, raises={}, ensures={
      "the_second_reply_s_events_carry_the_second_reply_s_entries_only":
        lambda res: len(raised(b)) == 4 and all([same(raised(b)[i][2][2], first) for i in (0, 1)])
        and all([same(raised(b)[i][2][2], second) for i in (2, 3)]),
    })
  u.__name__ = name + "_twice_in_a_row"
  u.bound = "two replies of one part each"
  unit(P, target=CN + name)(u)


for _name, _cls in (("handle_OFPST_FLOW", of_01.FlowStatsReceived), ("handle_OFPST_TABLE", of_01.TableStatsReceived),
                    ("handle_OFPST_PORT", of_01.PortStatsReceived), ("handle_OFPST_QUEUE", of_01.QueueStatsReceived)):
  _mk_handler_twice(_name, _cls)
