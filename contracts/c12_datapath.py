"""C12 - the software switch applies actions and port rules as OpenFlow 1.0 prescribes.

Header rewrites are proved on packet-object chains of every shape the rewrite code distinguishes (plain / VLAN
tagged; IPv4 with TCP or UDP or another protocol; ARP; other ethertype), all field values symbolic.  Output is
proved for physical and virtual ports over a port table of three ports whose config / state bits are symbolic
(bounded in the number of ports, exhaustive over the bit combinations).  The emission point
`_output_packet_physical` is ghost state: which port, and a snapshot of the frame's header fields at that moment
(so "applied to the frame as modified so far" is observable).  Serialising the emitted frame with valid lengths
and checksums is C14 (hdr contracts)."""
from pyvc.api import unit, Case, CallSpec, native
import pox.openflow.libopenflow_01 as of
from pox.datapaths.switch import SoftwareSwitchBase
from pox.lib.addresses import EthAddr, IPAddr
from pox.lib.packet.ethernet import ethernet
from pox.lib.packet.vlan import vlan
from pox.lib.packet.ipv4 import ipv4
from pox.lib.packet.arp import arp
from pox.lib.packet.tcp import tcp
from pox.lib.packet.udp import udp
from pox.lib.packet.icmp import icmp
from contracts.c03_extract import pk
import logging

ethernet()
P = "C12"
SW = "pox.datapaths.switch:"
EMITTED = []


class _G(object):
  @native
  def get(self, st, name):
    return st.ghost.get(name)


G = _G()


def frame(b, shape):
  """ethernet object with the given header chain; returns (eth, dict of layer objects, dict of field inputs)"""
  f = {}
  layers = {}
  nxt = b"payload"
  for name in reversed(shape):
    if name in ("tcp", "udp"):
      f["tp_src"], f["tp_dst"] = b.int("tp_src", 0, 65535), b.int("tp_dst", 0, 65535)
      o = pk(b, tcp if name == "tcp" else udp, srcport=f["tp_src"], dstport=f["tp_dst"], next=nxt)
    elif name == "icmp":
      o = pk(b, icmp, type=b.int("icmp_type", 0, 255), code=0, next=nxt)
    elif name == "ipv4":
      f["nw_src"], f["nw_dst"] = b.bytes("nw_src", 4), b.bytes("nw_dst", 4)
      f["nw_tos"] = b.int("nw_tos", 0, 255)
      o = pk(b, ipv4, srcip=b.new(IPAddr, f["nw_src"]), dstip=b.new(IPAddr, f["nw_dst"]), tos=f["nw_tos"],
             protocol=b.int("nw_proto", 0, 255), next=nxt)
    elif name == "arp":
      o = pk(b, arp, opcode=1, next=nxt)
    elif name == "vlan":
      f["vlan_id"], f["vlan_pcp"] = b.int("vlan_id", 0, 4095), b.int("vlan_pcp", 0, 7)
      f["inner_type"] = b.int("vlan_eth_type", 0, 65535)
      o = pk(b, vlan, id=f["vlan_id"], pcp=f["vlan_pcp"], cfi=0, eth_type=f["inner_type"], next=nxt)
    layers[name] = o
    nxt = o
  f["dl_src"], f["dl_dst"] = b.bytes("dl_src", 6), b.bytes("dl_dst", 6)
  f["dl_type"] = 0x8100 if shape and shape[0] == "vlan" else b.int("dl_type", 0, 65535)
  e = pk(b, ethernet, src=b.new(EthAddr, f["dl_src"]), dst=b.new(EthAddr, f["dl_dst"]), type=f["dl_type"], next=nxt)
  layers["eth"] = e
  return e, layers, f


def bare_switch(b):
  return b.raw_new(SoftwareSwitchBase, log=logging.getLogger("verif"), ports=b.dict({}), port_stats=b.dict({}))


def observe(e):
  """header fields of a frame object as the rewrite contracts talk about them"""
  p = e.next
  tagged = isinstance(p, vlan)
  v = (p.id, p.pcp, p.eth_type) if tagged else None
  if tagged:
    p = p.next
  ip4 = (p.srcip.toRaw(), p.dstip.toRaw(), p.tos) if isinstance(p, ipv4) else None
  tp = None
  if isinstance(p, ipv4) and isinstance(p.next, (tcp, udp)):
    tp = (p.next.srcport, p.next.dstport)
  return (e.src.toRaw(), e.dst.toRaw(), e.type, v, ip4, tp)


SHAPES = {"other": (), "ipv4_tcp": ("ipv4", "tcp"), "ipv4_udp": ("ipv4", "udp"), "ipv4_icmp": ("ipv4", "icmp"),
          "arp": ("arp",), "vlan_ipv4_tcp": ("vlan", "ipv4", "tcp"), "vlan_other": ("vlan",)}


def expected_after(b, f, shape, kind, val):
  """specification of one rewrite action on the observed fields"""
  tagged = bool(shape) and shape[0] == "vlan"
  has_ip = "ipv4" in shape
  has_tp = has_ip and ("tcp" in shape or "udp" in shape)
  src, dst, typ = f["dl_src"], f["dl_dst"], f["dl_type"]
  v = (f["vlan_id"], f["vlan_pcp"], f["inner_type"]) if tagged else None
  ip4 = (f["nw_src"], f["nw_dst"], f["nw_tos"]) if has_ip else None
  tp = (f["tp_src"], f["tp_dst"]) if has_tp else None
  if kind == "set_dl_src":
    src = val
  elif kind == "set_dl_dst":
    dst = val
  elif kind == "set_vlan_vid":
    v = (val, v[1], v[2]) if tagged else (val, 0, typ)
    typ = 0x8100
  elif kind == "set_vlan_pcp":
    v = (v[0], val, v[2]) if tagged else (0, val, typ)
    typ = 0x8100
  elif kind == "strip_vlan":
    if tagged:
      typ = v[2]
      v = None
  elif kind == "set_nw_src" and has_ip:
    ip4 = (val, ip4[1], ip4[2])
  elif kind == "set_nw_dst" and has_ip:
    ip4 = (ip4[0], val, ip4[2])
  elif kind == "set_nw_tos" and has_ip:
    ip4 = (ip4[0], ip4[1], val)
  elif kind == "set_tp_src" and has_tp:
    tp = (val, tp[1])
  elif kind == "set_tp_dst" and has_tp:
    tp = (tp[0], val)
  return (src, dst, typ, v, ip4, tp)


def make_action(b, kind):
  if kind in ("set_dl_src", "set_dl_dst"):
    raw = b.bytes("act.addr", 6)
    return b.new(of.ofp_action_dl_addr, 4 if kind == "set_dl_src" else 5, b.new(EthAddr, raw)), raw
  if kind in ("set_nw_src", "set_nw_dst"):
    raw = b.bytes("act.addr", 4)
    return b.new(of.ofp_action_nw_addr, 6 if kind == "set_nw_src" else 7, b.new(IPAddr, raw)), raw
  if kind == "set_nw_tos":
    v = b.int("act.tos", 0, 255)
    return b.new(of.ofp_action_nw_tos, v), v
  if kind in ("set_tp_src", "set_tp_dst"):
    v = b.int("act.port", 0, 65535)
    return b.new(of.ofp_action_tp_port, 9 if kind == "set_tp_src" else 10, v), v
  if kind == "set_vlan_vid":
    v = b.int("act.vid", 0, 4095)
    a = b.new(of.ofp_action_vlan_vid)
    b.set(a, "vlan_vid", v)
    return a, v
  if kind == "set_vlan_pcp":
    v = b.int("act.pcp", 0, 7)
    a = b.new(of.ofp_action_vlan_pcp)
    b.set(a, "vlan_pcp", v)
    return a, v
  if kind == "strip_vlan":
    return b.new(of.ofp_action_strip_vlan), None
  raise AssertionError(kind)


KINDS = ["set_dl_src", "set_dl_dst", "set_vlan_vid", "set_vlan_pcp", "strip_vlan", "set_nw_src", "set_nw_dst",
         "set_nw_tos", "set_tp_src", "set_tp_dst"]


def _mk_rewrite(kind, sname):
  shape = SHAPES[sname]
  def u(b):
    sw = bare_switch(b)
    e, layers, f = frame(b, shape)
    act, val = make_action(b, kind)
    want = expected_after(b, f, shape, kind, val)
    handler = getattr(SoftwareSwitchBase, "_action_" + kind)
    def run(sw, act, e):
      r = handler(sw, act, e, 1)
      return (r is e, observe(r))
    return Case(run, [sw, act, e], ensures={
      "returns_the_frame": lambda res: res[0],
      "exactly_the_named_field_changes": lambda res: res[1] == want,
    })
  u.__name__ = "%s_on_%s" % (kind, sname)
  unit(P, target=SW + "SoftwareSwitchBase._action_" + kind)(u)


for _k in KINDS:
  for _s in SHAPES:
    _mk_rewrite(_k, _s)


# ---------------------------------------------------------------- output

PORT_DOWN, NO_RECV, NO_RECV_STP, NO_FLOOD, NO_FWD, NO_PACKET_IN = 1, 4, 8, 16, 32, 64
LINK_DOWN = 1


def switch_with_ports(b, n=3):
  ports, stats, info = {}, {}, []
  for i in range(1, n + 1):
    cfg, cb = b.bits("port%d.config" % i, 7)
    st_, sb_ = b.bits("port%d.state" % i, 2)
    ports[i] = b.raw_new(of.ofp_phy_port, port_no=i, config=cfg, state=st_, hw_addr=None, name="p%d" % i)
    txp, txb = b.int("port%d.tx_packets" % i, 0, 1 << 40), b.int("port%d.tx_bytes" % i, 0, 1 << 40)
    rxp, rxb = b.int("port%d.rx_packets" % i, 0, 1 << 40), b.int("port%d.rx_bytes" % i, 0, 1 << 40)
    stats[i] = b.raw_new(of.ofp_port_stats, port_no=i, tx_packets=txp, tx_bytes=txb, rx_packets=rxp, rx_bytes=rxb)
    info.append(dict(no=i, cb=cb, sb=sb_, txp=txp, txb=txb, rxp=rxp, rxb=rxb, stats=stats[i]))
  sw = b.raw_new(SoftwareSwitchBase, log=logging.getLogger("verif"), ports=b.dict(ports), port_stats=b.dict(stats),
                 config_flags=0, miss_send_len=128, _lookup_count=b.int("lookups", 0, 1 << 40),
                 _matched_count=b.int("matched", 0, 1 << 40))
  return sw, info


def out_calls(b, sw, flen):
  if b.mode != "sym":
    del EMITTED[:]
    b.set(sw, "_output_packet_physical", lambda packet, port_no: EMITTED.append(port_no))
    return {}
  b.st.ghost["emitted"] = ()
  def emit(I, st, f, args, kws):
    st.ghost["emitted"] = tuple(st.ghost["emitted"]) + (args[2],)
  return {SW + "SoftwareSwitchBase._output_packet_physical": CallSpec("opaque", ghost=emit, envelope="the wire"),
          "pox.lib.packet.packet_base:packet_base.pack": CallSpec("contract", returns=lambda I, st, a, k: flen,
                                                                 envelope="serialisation of the frame (C14)")}


def emitted(b):
  return list(G.get("emitted") or ()) if b.mode == "sym" else list(EMITTED)


def can_send(p):
  return p["cb"][5] == 0 and p["cb"][0] == 0 and p["sb"][0] == 0      # not NO_FWD, not PORT_DOWN, link up


def _mk_output(vport, name):
  def u(b):
    sw, info = switch_with_ports(b)
    e, layers, f = frame(b, ())
    wire = b.bytes("wire", None, 14, 1514)
    n = len(wire) if b.mode == "conc" else wire.length()
    in_port = b.int("in_port", 1, 4)
    if b.mode == "conc":
      b.set(e, "pack", lambda: wire)
    if vport == "physical":
      out = b.int("out_port", 1, 5)
    else:
      out = vport
    def want_ports():
      if vport == "physical":
        return [p["no"] for p in info if p["no"] == out and out != in_port and can_send(p)]
      if vport == 0xfff8:       # IN_PORT
        return [p["no"] for p in info if p["no"] == in_port and can_send(p)]
      if vport == 0xfffb:       # FLOOD
        return [p["no"] for p in info if p["no"] != in_port and p["cb"][4] == 0 and can_send(p)]
      if vport == 0xfffc:       # ALL
        return [p["no"] for p in info if p["no"] != in_port and can_send(p)]
      return []
    return Case(SoftwareSwitchBase._output_packet, [sw, e, out, in_port], calls=out_calls(b, sw, wire), ensures={
      "emitted_on_exactly_the_permitted_ports_once_each": lambda res: emitted(b) == want_ports(),
      "tx_counters_count_what_was_emitted":
        lambda res: all([p["stats"].tx_packets == p["txp"] + (1 if p["no"] in want_ports() else 0)
                         and p["stats"].tx_bytes == p["txb"] + (n if p["no"] in want_ports() else 0) for p in info]),
    })
  u.__name__ = "output_" + name
  u.bound = "port table of three ports; config/state bits symbolic (exhaustive over bit combinations)"
  unit(P, target=SW + "SoftwareSwitchBase._output_packet")(u)


_mk_output("physical", "physical_port")
_mk_output(0xfff8, "in_port")
_mk_output(0xfffb, "flood")
_mk_output(0xfffc, "all")
_mk_output(0xfffa, "normal_is_unsupported_and_emits_nothing")


@unit(P, target=SW + "SoftwareSwitchBase._action_enqueue")
def enqueue_outputs_on_the_named_port(b):
  sw, info = switch_with_ports(b)
  e, layers, f = frame(b, ())
  wire = b.bytes("wire", None, 14, 1514)
  if b.mode == "conc":
    b.set(e, "pack", lambda: wire)
  port = b.int("enqueue.port", 1, 3)
  in_port = b.int("in_port", 1, 3)
  act = b.new(of.ofp_action_enqueue, port=port, queue_id=b.int("queue_id", 0, 0xffffffff))
  return Case(SoftwareSwitchBase._action_enqueue, [sw, act, e, in_port], calls=out_calls(b, sw, wire), ensures={
    "sent_on_the_action_s_port": lambda res: emitted(b) == [p["no"] for p in info if p["no"] == port and port != in_port and can_send(p)],
    # every action handler hands the frame on to the next action of the list (seeded change C18_10 returned the result of the
    # output call, None: the action behind an enqueue then failed, and a buffer used with such a list was never freed)
    "the_frame_is_handed_on_to_the_next_action": lambda res: res is e,
  })
  enqueue_outputs_on_the_named_port.bound = "three ports"


# ---------------------------------------------------------------- action lists: applied in order, to the frame so far

SNAP = []


def _mk_sequence(order, name):
  def u(b):
    sw, info = switch_with_ports(b)
    e, layers, f = frame(b, ())
    wire = b.bytes("wire", None, 14, 1514)
    if b.mode == "conc":
      b.set(e, "pack", lambda: wire)
    newdst = b.bytes("new_dst", 6)
    a_set = b.new(of.ofp_action_dl_addr, 5, b.new(EthAddr, newdst))
    a_out = b.new(of.ofp_action_output, port=2)
    handlers = {0: SoftwareSwitchBase._action_output, 5: SoftwareSwitchBase._action_set_dl_dst}
    calls = out_calls(b, sw, wire)
    if b.mode == "sym":
      from pyvc.values import BoundMethod
      b.set(sw, "action_handlers", b.dict(dict((k_, BoundMethod(v, sw)) for k_, v in handlers.items())))
      b.st.ghost["snap"] = ()
      def emit(I, st, fn, args, kws):
        pkt_ = args[1]
        dstv = st.obj(st.obj(pkt_).data["dst"]).data["_value"]
        st.ghost["snap"] = tuple(st.ghost["snap"]) + ((args[2], dstv),)
      calls[SW + "SoftwareSwitchBase._output_packet_physical"] = CallSpec("opaque", ghost=emit, envelope="the wire")
    else:
      import types
      b.set(sw, "action_handlers", dict((k_, types.MethodType(v, sw)) for k_, v in handlers.items()))
      del SNAP[:]
      b.set(sw, "_output_packet_physical", lambda packet, port_no: SNAP.append((port_no, packet.dst.toRaw())))
    acts = b.list([a_set, a_out] if order == "rewrite_then_output" else [a_out, a_set])
    def snaps():
      return list(G.get("snap") or ()) if b.mode == "sym" else list(SNAP)
    p2 = info[1]
    want_dst = newdst if order == "rewrite_then_output" else f["dl_dst"]
    return Case(SoftwareSwitchBase._process_actions_for_packet, [sw, acts, e, 1], calls=calls, ensures={
      "the_frame_is_emitted_as_modified_so_far":
        lambda res: snaps() == ([(2, want_dst)] if can_send(p2) else []),
      "later_actions_still_apply": lambda res: e.dst.toRaw() == newdst,
    })
  u.__name__ = "actions_in_order_" + name
  u.bound = "action lists of length 2; three ports"
  unit(P, target=SW + "SoftwareSwitchBase._process_actions_for_packet")(u)


_mk_sequence("rewrite_then_output", "rewrite_then_output")
_mk_sequence("output_then_rewrite", "output_then_rewrite")


# ---------------------------------------------------------------- receive side

@unit(P, target=SW + "SoftwareSwitchBase.rx_packet")
def receive_rules_and_counters(b):
  sw, info = switch_with_ports(b)
  e, layers, f = frame(b, ())
  wire = b.bytes("wire", None, 14, 1514)
  n = len(wire) if b.mode == "conc" else wire.length()
  in_port = b.int("in_port", 0, 4)
  hit = b.bool("table_hit")
  table_calls = []
  calls = out_calls(b, sw, wire)
  entry = b.raw_new(object)
  if b.mode == "sym":
    from pyvc.values import Union
    import z3
    b.st.ghost["log"] = ()
    def note(tag):
      def g(I, st, fn, args, kws):
        st.ghost["log"] = tuple(st.ghost["log"]) + (tag,)
      return g
    class T(object):
      pass
    b.set(sw, "table", b.raw_new(T))
    calls["pox.openflow.flow_table:FlowTable.entry_for_packet"] = CallSpec("contract", returns=lambda I, st, a, k: None)
    calls[SW + "SoftwareSwitchBase._buffer_packet"] = CallSpec("contract", ghost=note("buffer"), returns=lambda I, st, a, k: 7)
    def note_pin(I, st, fn, args, kws):
      st.ghost["log"] = tuple(st.ghost["log"]) + ("packet_in",)
      st.ghost["pin"] = (tuple(args[1:]), dict(kws))
    calls[SW + "SoftwareSwitchBase.send_packet_in"] = CallSpec("opaque", ghost=note_pin)
    import pox.openflow.flow_table as ftm
    b.set(sw, "table", b.raw_new(ftm.FlowTable, _table=b.list([])))
  else:
    log = []
    import pox.openflow.flow_table as ftm
    b.set(sw, "table", ftm.FlowTable())
    b.set(sw, "_buffer_packet", lambda packet, in_port=None: (log.append("buffer"), 7)[1])
    pin_native = []
    b.set(sw, "send_packet_in", lambda *a, **k: (log.append("packet_in"), pin_native.append((a, k)))[0])
    table_calls.append(log)
  def logged():
    return list(G.get("log") or ()) if b.mode == "sym" else list(table_calls[0])
  def pin_ok():
    a, kw = G.get("pin") if b.mode == "sym" else pin_native[-1]
    def arg(i, name):
      return kw[name] if name in kw else a[i]
    return arg(0, "in_port") == in_port and arg(1, "buffer_id") == 7 and arg(2, "packet") == wire \
      and arg(3, "reason") == of.OFPR_NO_MATCH and arg(4, "data_length") == sw_miss_send_len()
  def sw_miss_send_len():
    return sw.miss_send_len
  def port(i):
    return [p for p in info if p["no"] == i]
  def accepted():
    is_stp = f["dl_dst"] == b"\x01\x80\xc2\x00\x00\x00"
    ps = port(in_port)
    return len(ps) == 1 and not ((ps[0]["cb"][2] == 1 and not is_stp) or (ps[0]["cb"][3] == 1 and is_stp))
  return Case(SoftwareSwitchBase.rx_packet, [sw, e, in_port, wire], calls=calls, ensures={
    "rx_counters_count_exactly_the_accepted_frames":
      lambda res: all([p["stats"].rx_packets == p["rxp"] + (1 if (p["no"] == in_port and accepted()) else 0)
                       and p["stats"].rx_bytes == p["rxb"] + (n if (p["no"] == in_port and accepted()) else 0) for p in info]),
    "a_miss_is_buffered_and_sent_to_the_controller_unless_packet_in_is_disabled":
      lambda res: logged() == (["buffer", "packet_in"] if (accepted() and port(in_port)[0]["cb"][6] == 0) else []),
    "nothing_is_emitted_on_a_miss": lambda res: emitted(b) == [],
    # (added 2026-09-25 after seeded change C18_9 cut the frame at the call site and dropped data_length: the packet-in then
    # reported the truncated length as the frame's total length)
    "the_packet_in_of_a_miss_is_given_the_whole_frame_the_buffer_id_and_the_miss_send_len":
      lambda res: "packet_in" not in logged() or pin_ok(),
  })
receive_rules_and_counters.bound = "three ports; empty flow table (lookup is C03)"


# ---------------------------------------------------------------- port config bits "set via port-mod" (added 2026-09-25)
# The units above take the port's config / state bits as symbolic inputs; the property quantifies over bit combinations
# *set via port-mod*, so the step port-mod -> config bits (proved for C13 in c13_replies.port_mod: masked bits take the new
# value, others keep theirs, link state follows PORT_DOWN) is an obligation of C12 as well (seeded change C12_6).
import contracts.c13_replies as _R13
unit(P, target=_R13.SW + "SoftwareSwitchBase._rx_port_mod / _set_port_config_bit, ofp_phy_port.set_config",
     name="port_mod_sets_exactly_the_masked_config_bits")(_R13.port_mod)
for _u in _R13.PORT_MOD_BIT_UNITS:
  unit(P, target=_R13.SW + "SoftwareSwitchBase._rx_port_mod / _set_port_config_bit, ofp_phy_port.set_config")(_u)


# output to OFPP_CONTROLLER hands the (rewritten) frame to send_packet_in with the action's max_len as data_length: what that
# packet-in carries - exactly max_len bytes of a buffered frame, max_len = 0 included - is the C18 unit, an obligation of C12
# too (seeded change C12_8 treated a limit of 0 as 'no limit')
import contracts.c18_buffers as _B18
unit(P, target=_B18.SW + "SoftwareSwitchBase.send_packet_in", name="a_packet_in_for_the_controller_carries_exactly_the_requested_bytes")(_B18.packet_in_contents)


# ... and the same for a frame an ACTION sends to the controller: buffered with its ingress port, packet-in with the action's
# max_len (the C18 unit, shared)
unit(P, target=_B18.SW + "SoftwareSwitchBase._output_packet (OFPP_CONTROLLER)",
     name="output_to_the_controller_buffers_the_frame_with_its_ingress_port")(_B18.output_to_the_controller_buffers_the_frame_with_its_ingress_port)


# 'lengths and checksums kept valid' on the emitted bytes rests on the header builders re-run on the rewritten packet objects:
# the IPv4 builder for headers WITH options (total length counts the options, the checksum covers them) is the C14 unit, an
# obligation of C12 too (seeded change C12_9 computed the total length from the minimal header size when re-packing)
import contracts.c14_headers as _H14   # noqa
from pyvc.api import UNITS as _UNITS
for _u in list(_UNITS.get("C14", [])):
  if _u.name.startswith("ipv4_with_") and _u.name.endswith("_option_bytes_udp"):
    unit(P, target=_u.target, name="a_rewritten_" + _u.name + "_keeps_valid_lengths_and_checksum")(_u.fn)

# ... and on the checksum routine itself being the RFC 1071 sum for buffers of any length (C14 proof, shared): a rewritten frame
# is emitted with whatever that routine returns (a sixth-round seeded change dropped its second carry fold)
import contracts.c14_checksum as _K14   # noqa
for _u in list(_UNITS.get("C14", [])):
  if _u.name.startswith("checksum_rfc1071_"):
    unit(P, target=_u.target, name="rewritten_frames_are_summed_by_" + _u.name)(_u.fn)
