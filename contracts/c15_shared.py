"""C15 - the parsers under proof call packet_utils.checksum as a callee 'total, result in 16 bits' (several verify a checksum
WHILE parsing: igmp, icmpv6; every pack() computes one).  That contract is the C14 proof of checksum() for buffers of any
length; it is an obligation of C15 too (seeded change C15_10 folded the carry without masking: for about one header in 30 000
ntohs() was handed a 17-bit value and raised OverflowError - out of pack(), and out of ethernet(raw=...) for IGMP / ICMPv6)."""
from pyvc.api import unit, UNITS
import contracts.c14_checksum as _C   # noqa

P = "C15"
for _u in list(UNITS.get("C14", [])):
  if _u.name.startswith("checksum_rfc1071_"):
    unit(P, target=_u.target, name="the_checksum_routine_is_total_" + _u.name[len("checksum_rfc1071_"):])(_u.fn)
