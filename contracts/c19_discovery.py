"""C19 - the adjacency bookkeeping of pox/openflow/discovery.py under contract (added 2026-09-25; until then C19 had bounded
stand-ins only).  Bounded symbolic units: the adjacency holds three directed links between switches 1, 2, 3 (concrete keys -
the evaluator has no dictionary with symbolic tuple keys), everything the functions decide on is symbolic: last-seen times,
the clock, the timeout, the datapath id of the switch that went away, the (dpid, port) asked about.

  _expire_links                  withdraws exactly the links last seen more than the timeout ago, each announced removed once,
                                 every one of them already OUT of the adjacency when its removal is announced (listeners recompute
                                 from the adjacency), the others stay with their timestamps
  _handle_openflow_ConnectionDown  withdraws exactly the links with an end on that switch, same discipline
  _delete_links                  accepts any iterable (a generator too), announces each once after removing all
  is_edge_port                   True iff no link of the adjacency has that (dpid, port) as either end
  LinkEvent.port_for_dpid        the link's port on that switch, None for a switch that is not an end

The probe codec (text), the spanning tree and flooding (graph reachability) stay with the stand-ins of c19_standins.py."""
from pyvc.api import unit, Case, CallSpec, native
import pox.openflow.discovery as D
from pox.openflow.discovery import Discovery, LinkEvent

P = "C19"
DM = "pox.openflow.discovery:"
LINKS = [(1, 12, 2, 21), (2, 21, 1, 12), (2, 23, 3, 32)]
BOUND = "adjacency of three directed links between three switches"
RAISED = []


class _G(object):
  @native
  def get(self, st, name):
    return st.ghost.get(name)


G = _G()


class Announce(CallSpec):
  """raiseEventNoErrors(LinkEvent, added, link[, event]): records the announcement together with whether the link is in the
  adjacency at that moment"""
  def __init__(self, disc):
    CallSpec.__init__(self, "contract", envelope="LinkEvent delivery: property C05; listeners read the adjacency, they do not change it")
    self.disc = disc

  def apply(self, I, f, args, kws, st, ctx, k, node):
    adj = st.obj(self.disc).data["adjacency"]
    present = tuple(args[3]) in [tuple(x[0]) for x in st.obj(adj).data.values()]
    st.ghost["raised"] = tuple(st.ghost.get("raised", ())) + ((args[1], args[2], tuple(args[3]), present),)
    return k(st, None)


def raised(b):
  return list(G.get("raised") or ()) if b.mode == "sym" else list(RAISED)


def discovery(b, stamps):
  links = [Discovery.Link(*l) for l in LINKS]
  if b.mode == "sym":
    disc = b.raw_new(Discovery, adjacency=b.dict(dict(zip(links, stamps))), _link_timeout=None)
    b.st.ghost["raised"] = ()
    cs = {"pox.lib.revent.revent:EventMixin.raiseEventNoErrors": Announce(disc)}
  else:
    disc = object.__new__(Discovery)
    disc.adjacency = dict(zip(links, stamps))
    del RAISED[:]
    disc.raiseEventNoErrors = lambda cls, added, link, event=None: RAISED.append((cls, added, tuple(link), link in disc.adjacency))
    cs = {}
  return disc, links, cs


def withdrawn_exactly(b, disc, links, stamps, gone):
  """adjacency == the links not in `gone` with their old timestamps; one removal announcement per link in `gone`, in order, each
  made when the link was no longer in the adjacency"""
  left = [(tuple(l), t) for l, t, g in zip(links, stamps, gone) if not g]
  now = [(tuple(l), t) for l, t in disc.adjacency.items()]
  r = raised(b)
  want = [tuple(l) for l, g in zip(links, gone) if g]
  return (len(now) == len(left) and all([a == c for a, c in zip(now, left)])
          and len(r) == len(want) and all([e[0] is LinkEvent and e[1] is False and e[2] == w and e[3] is False for e, w in zip(r, want)]))


@unit(P, target=DM + "Discovery._expire_links / _delete_links")
def expiry_withdraws_exactly_the_links_not_seen_for_the_timeout(b):
  stamps = [b.real("seen%d" % i, 0, 1000) for i in range(3)]
  now = b.real("now", 0, 2000)
  timeout = b.real("timeout", 1, 100)
  disc, links, cs = discovery(b, stamps)
  b.set(disc, "_link_timeout", timeout)
  if b.mode == "sym":
    cs["time:time"] = CallSpec("assumed", returns=lambda I, st, a, k: now, envelope="clock")
  else:
    D.time.time = lambda: now
  def run(disc):
    disc._expire_links()
    return None
  gone = [stamps[i] + timeout < now for i in range(3)]
  return Case(run, [disc], calls=cs, raises={}, ensures={
    "exactly_the_stale_links_are_withdrawn_each_announced_once_after_it_left_the_adjacency":
      lambda res: withdrawn_exactly(b, disc, links, stamps, gone),
  })
expiry_withdraws_exactly_the_links_not_seen_for_the_timeout.bound = BOUND


@unit(P, target=DM + "Discovery._handle_openflow_ConnectionDown / _delete_links")
def a_disconnected_switch_loses_exactly_its_links(b):
  stamps = [b.real("seen%d" % i, 0, 1000) for i in range(3)]
  dpid = b.int("dpid", 0, 4)
  disc, links, cs = discovery(b, stamps)
  class Ev(object):
    pass
  ev = b.raw_new(Ev, dpid=dpid)
  def run(disc, ev):
    disc._handle_openflow_ConnectionDown(ev)
    return None
  gone = [b.Or(l[0] == dpid, l[2] == dpid) for l in LINKS]
  return Case(run, [disc, ev], calls=cs, raises={}, ensures={
    "exactly_the_links_with_an_end_on_that_switch_are_withdrawn_each_announced_once_after_it_left_the_adjacency":
      lambda res: withdrawn_exactly(b, disc, links, stamps, gone),
  })
a_disconnected_switch_loses_exactly_its_links.bound = BOUND


@unit(P, target=DM + "Discovery._delete_links (any iterable)")
def links_given_as_a_generator_are_withdrawn_too(b):
  stamps = [b.real("seen%d" % i, 0, 1000) for i in range(3)]
  disc, links, cs = discovery(b, stamps)
  pick = [b.bool("pick%d" % i) for i in range(3)]
  def run(disc):
    disc._delete_links(l for l, p in zip(links, pick) if p)
    return None
  return Case(run, [disc], calls=cs, raises={}, ensures={
    "every_link_produced_by_the_iterable_is_withdrawn_and_announced_once":
      lambda res: withdrawn_exactly(b, disc, links, stamps, pick),
  })
links_given_as_a_generator_are_withdrawn_too.bound = BOUND


@unit(P, target=DM + "Discovery.is_edge_port")
def a_port_is_an_edge_port_iff_no_link_ends_there(b):
  stamps = [0.0, 0.0, 0.0]
  disc, links, cs = discovery(b, stamps)
  dpid, port = b.int("dpid", 0, 4), b.int("port", 0, 40)
  on_a_link = b.Or(*[b.Or(b.And(l[0] == dpid, l[1] == port), b.And(l[2] == dpid, l[3] == port)) for l in LINKS])
  return Case(Discovery.is_edge_port, [disc, dpid, port], calls=cs, raises={}, ensures={
    "edge_iff_neither_the_sending_nor_the_receiving_end_of_a_link": lambda res: res is (not on_a_link),
  })
a_port_is_an_edge_port_iff_no_link_ends_there.bound = BOUND


@unit(P, target=DM + "LinkEvent.port_for_dpid / Link.end / Link.flipped")
def a_link_event_names_the_port_on_each_of_its_two_switches(b):
  d1, p1, d2, p2 = b.int("dpid1", 0, 2 ** 64 - 1), b.int("port1", 0, 65535), b.int("dpid2", 0, 2 ** 64 - 1), b.int("port2", 0, 65535)
  q = b.int("asked", 0, 2 ** 64 - 1)
  def run():
    link = Discovery.Link(d1, p1, d2, p2)
    ev = LinkEvent(True, link)
    f = link.flipped
    return (ev.port_for_dpid(q), ev.added, ev.removed, tuple(link.end), tuple(f), tuple(f.flipped))
  return Case(run, [], raises={}, ensures={
    "the_port_on_the_first_end_else_on_the_second_else_none":
      lambda res: res[0] == (p1 if q == d1 else (p2 if q == d2 else None)),
    "added_and_removed_are_complementary": lambda res: res[1] is True and res[2] is False,
    "ends_and_reversal": lambda res: res[3] == ((d1, p1), (d2, p2)) and res[4] == (d2, p2, d1, p1) and res[5] == (d1, p1, d2, p2),
  })


# ---------------------------------------------------------------- the probe cycle follows the configured link timeout
# (added 2026-09-25 after seeded change C19_8 created the probe sender before the configured timeout was stored: with
# --link_timeout below the default send cycle, live links were timed out and re-announced over and over)

class CoreStub(object):
  def listen_to_dependencies(self, *a, **k):
    pass


class SenderStub(object):
  pass


@unit(P, target=DM + "Discovery.__init__ / send_cycle_time")
def probes_are_sent_at_least_twice_per_link_timeout(b):
  timeout = b.real("link_timeout", 0.5, 3600)
  configured = b.bool("configured")
  made = []
  cs = {}
  if b.mode == "sym":
    b.st.ghost["sender_args"] = ()
    def ghost(I, st, f, args, kws):
      st.ghost["sender_args"] = tuple(st.ghost["sender_args"]) + (tuple(args),)
    cs = {DM + "LLDPSender": CallSpec("contract", ghost=ghost, returns=lambda I, st, a, k: st.alloc("obj", SenderStub, {}),
                                      envelope="LLDPSender(send_cycle_time): sends one probe per port per cycle"),
          "pox.lib.recoco.recoco:Timer": CallSpec("contract", returns=lambda I, st, a, k: None, envelope="starts the periodic expiry sweep"),
          "contracts.c19_discovery:CoreStub.listen_to_dependencies": CallSpec("contract", envelope="wiring (C08)")}
    b.st.ghost[("$global", "pox.openflow.discovery", "core")] = b.raw_new(CoreStub)
  else:
    D.core = CoreStub()
    D.LLDPSender = lambda cycle, *a, **k: made.append((cycle,)) or SenderStub()
    D.Timer = lambda *a, **k: None
  def run():
    d = Discovery(link_timeout=(timeout if configured else None))
    return (d._link_timeout, d.send_cycle_time)
  def sender_cycle():
    a = G.get("sender_args") if b.mode == "sym" else made
    return a[0][-1] if len(a) == 1 else None
  eff = lambda: timeout if configured else 10
  return Case(run, [], calls=cs, raises={}, ensures={
    "the_configured_timeout_is_the_one_links_expire_after": lambda res: res[0] == eff(),
    "one_probe_sender_is_created_with_half_the_effective_timeout_as_its_cycle": lambda res: sender_cycle() == eff() / 2.0 and res[1] == eff() / 2.0,
  })
