"""C06 - small task PROGRAMS run by the real Scheduler.cycle (added 2026-09-25, when the evaluator learnt to run generators).

Each task is a real generator (Prog.run below) working through a script of steps drawn from the yield vocabulary; the
harness schedules the tasks and calls Scheduler.cycle() a fixed number of times.  Everything between the harness and the
scripts is the repository's code: Scheduler.cycle / fast_schedule, BaseTask.execute, Sleep, Again / AgainTask.run_again and
the task_function decorator (sub-task calls).  Stated per task, as a function of ITS OWN script only (isolation):
its steps run in program order, each once; a sub-task's value or exception reaches exactly the caller's `yield`; a task
that raises or parks runs no further step and the others still finish."""
from pyvc.api import unit, Case, CallSpec
import pox.lib.recoco.recoco as R
from pox.lib.recoco.recoco import Scheduler, BaseTask, Sleep, task_function
from contracts.c06_scheduler import Hub, Logger, RC

P = "C06"
KINDS = ["zero", "sleep_past", "sub_value", "sub_raise", "nested", "raise", "park"]


class Box(object):
  def __init__(self):
    self.trace = []


@task_function
def sub_value(box, tid, k):
  box.trace.append((tid, "sub", k))
  yield Sleep(0, True)              # the sub-task blocks once (re-queued at once), then "returns" a value
  yield 100 + k


@task_function
def sub_raise(box, tid, k):
  box.trace.append((tid, "sub", k))
  yield Sleep(0, True)
  raise KeyError("sub-task fails")


@task_function
def inner(box, tid, k):
  yield Sleep(0, True)
  raise KeyError("inner sub-task fails")


@task_function
def outer(box, tid, k):
  box.trace.append((tid, "sub", k))
  try:
    r = yield inner(box, tid, k)
  except KeyError:
    box.trace.append((tid, "outer caught", k))
    r = 7
  yield r + k


class Prog(BaseTask):
  def __str__(self):
    return "<Prog %s>" % self.id

  def run(self):
    box = self.box
    k = 0
    while k < len(self.script):
      kind = self.script[k]
      box.trace.append((self.id, "step", k))
      if kind == "zero":
        yield 0
      elif kind == "sleep_past":
        yield Sleep(0, True)
      elif kind == "park":
        yield False
      elif kind == "sub_value":
        r = yield sub_value(box, self.id, k)
        box.trace.append((self.id, "got", r))
      elif kind == "sub_raise":
        try:
          r = yield sub_raise(box, self.id, k)
          box.trace.append((self.id, "got", r))
        except KeyError:
          box.trace.append((self.id, "caught", k))
      elif kind == "nested":
        r = yield outer(box, self.id, k)
        box.trace.append((self.id, "got", r))
      elif kind == "raise":
        raise ValueError("task fails")
      k += 1
    box.trace.append((self.id, "end", k))


def expected(tid, script):
  """the task's own log as the property prescribes it"""
  out = []
  for k, kind in enumerate(script):
    out.append((tid, "step", k))
    if kind == "sub_value":
      out += [(tid, "sub", k), (tid, "got", 100 + k)]
    elif kind == "sub_raise":
      out += [(tid, "sub", k), (tid, "caught", k)]
    elif kind == "nested":
      out += [(tid, "sub", k), (tid, "outer caught", k), (tid, "got", 7 + k)]
    elif kind in ("raise", "park"):
      return out
  out.append((tid, "end", len(script)))
  return out


def run_program(s, tasks, cycles):
  for t in tasks:
    t.gen = t.run()
    s.fast_schedule(t)
  n = 0
  while n < cycles:
    s.cycle()
    n += 1
  return ([e for e in tasks[0].box.trace], len(s._ready))


def _mk(scripts, name):
  def u(b):
    box = b.raw_new(Box, trace=b.list([]))
    hub = b.raw_new(Hub)
    tasks = [b.raw_new(Prog, id=i + 1, priority=1, rv=None, rf=None, re=None, gen=None, box=box, script=tuple(sc))
             for i, sc in enumerate(scripts)]
    s = b.raw_new(Scheduler, _ready=b.deque([]), _selectHub=hub, _hasQuit=False, _allDone=False, _thread=None)
    now = b.real("now", 1, 1000000)
    cs = {}
    if b.mode == "sym":
      b.st.ghost["log"] = ()
      cs = {"time:time": CallSpec("assumed", returns=lambda I, st, a, k: now, envelope="clock"),
            "contracts.c06_scheduler:Hub.registerTimer": Logger("timer", "timer hub registration"),
            "contracts.c06_scheduler:Hub.break_idle": Logger("break_idle", "wakes the select hub"),
            "traceback:print_exc": CallSpec("opaque", envelope="prints the traceback")}
    else:
      R.time.time = lambda: now
      R.traceback.print_exc = lambda *a, **k: None
    cycles = 8 * sum([len(sc) + 1 for sc in scripts])
    ens = {}
    for i, sc in enumerate(scripts):
      ens["task_%d_runs_its_steps_in_order_once_each_and_gets_its_sub_task_results" % (i + 1)] = \
        (lambda i, sc: lambda res: [e for e in res[0] if e[0] == i + 1] == expected(i + 1, sc))(i, sc)
    ens["nothing_is_left_runnable"] = lambda res: res[1] == 0
    return Case(run_program, [s, tasks, cycles], calls=cs, raises={}, ensures=ens)
  u.__name__ = "program_" + name
  u.bound = "concrete task programs (scripts named in the unit), %d tasks" % len(scripts)
  unit(P, target=RC + "Scheduler.cycle / BaseTask.execute / Again.execute / AgainTask.run_again / task_function / Sleep")(u)


_mk([["zero", "zero"], ["zero"]], "two_tasks_taking_turns")
_mk([["sub_value", "zero"], ["zero", "zero", "zero"]], "sub_task_value_reaches_its_caller")
_mk([["sub_raise", "zero"], ["zero", "sleep_past"]], "sub_task_exception_reaches_its_caller")
_mk([["nested", "zero"], ["zero", "zero"]], "nested_sub_task_exception_is_handled_by_the_direct_caller")
_mk([["zero", "raise", "zero"], ["zero", "zero", "zero"], ["sub_value"]], "a_raising_task_does_not_affect_the_others")
_mk([["park", "zero"], ["sleep_past", "sub_value", "nested"]], "a_parked_task_is_left_alone")
