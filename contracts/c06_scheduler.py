"""C06 - the cooperative scheduler, as far as a per-call contract reaches (pox/lib/recoco/recoco.py).

Tasks are generators; the evaluator does not run generators.  What IS a plain function - and carries the "each step
exactly once, in order, in isolation" part of the property - is proved here, with a task's generator as an opaque callee
(`gen.send` / `gen.throw`: any yield value, StopIteration or any exception):

  Scheduler.cycle        ONE scheduling step over the ready queue (2..3 tasks of normal priority): exactly the head task
                         is stepped; a yielded 0 re-queues it LAST, a number sleeps it on the timer hub, False parks it, a
                         blocking operation is executed exactly once with (task, scheduler) (and, if it answers True, the
                         task is stepped again at once); StopIteration or any exception of the task or of its blocking
                         operation de-schedules only that task; every other task keeps its place and is not touched
  BaseTask.execute       the resume protocol: the value / exception / resume-function left for the task reaches its
                         generator exactly once and is cleared
  fast_schedule/schedule queue at the end (or front); schedule() refuses a task that is already queued
  Sleep.execute / Sleep  None parks, 0 or a past time re-queues, a future time goes to the timer hub as an absolute time
  SelectHub._select      one round over timer-only waiters: waiters whose time has passed are resumed once each; if the
                         OS select times out, exactly the waiter with the earliest time is resumed, never another one
Everything that needs a generator or a thread to run (Timer, task_function sub-tasks, the run loops, the threaded hub,
recurring timers, 'every runnable task is eventually run') is listed as not decided."""
from pyvc.api import unit, Case, CallSpec, native
import pox.lib.recoco.recoco as R
from pox.lib.recoco.recoco import Scheduler, BaseTask, BlockingOperation, Sleep, SelectHub, Lock

P = "C06"
RC = "pox.lib.recoco.recoco:"
LOG = []


class _G(object):
  @native
  def get(self, st, name):
    return st.ghost.get(name)


G = _G()


def log(b):
  return list(G.get("log") or ()) if b.mode == "sym" else list(LOG)


class Hub(object):
  def registerTimer(self, task, t, absolute=False):
    LOG.append(("timer", task, t, absolute))

  def break_idle(self):
    LOG.append(("break_idle",))


class Op(BlockingOperation):
  def __init__(self):
    pass

  def execute(self, task, scheduler):
    LOG.append(("op", self, task, scheduler))
    return _PLAN["op_result"]()


class Logger(CallSpec):
  def __init__(self, what, envelope, ret=None):
    CallSpec.__init__(self, "contract", envelope=envelope)
    self.what = what
    self.ret = ret

  def apply(self, I, f, args, kws, st, ctx, k, node):
    st.ghost["log"] = tuple(st.ghost.get("log", ())) + ((self.what,) + tuple(args[1:]),)
    return k(st, self.ret)


_PLAN = {}
YIELDS = ["False", "zero", "number", "op", "op_again", "op_raises", "stop", "raise", "exit", "True"]


def new_sched(b, tasks):
  hub = b.raw_new(Hub)
  if b.mode == "sym":
    b.st.ghost["log"] = ()
  else:
    del LOG[:]
  s = b.raw_new(Scheduler, _ready=b.deque(tasks), _selectHub=hub, _hasQuit=False, _allDone=False, _thread=None)
  return s, hub


class Step(CallSpec):
  """task.execute(): the opaque step of a task.  outcome per call from the unit's script"""
  def __init__(self, script, ops, tasks):
    CallSpec.__init__(self, "opaque", envelope="one step of a task's generator: yields any value, ends, or raises")
    self.script, self.ops, self.tasks = script, ops, tasks

  def apply(self, I, f, args, kws, st, ctx, k, node):
    n = len([e for e in st.ghost.get("log", ()) if e[0] == "step"])
    st.ghost["log"] = tuple(st.ghost.get("log", ())) + (("step", args[0]),)
    if n >= len(self.script):
      from pyvc.values import Unsupported
      raise Unsupported("more task steps than the unit's script provides")
    kind, num = self.script[n]
    def go(st2, kd):
      if kd == "False":
        return k(st2, False)
      if kd == "True":
        return k(st2, True)
      if kd == "zero":
        return k(st2, 0)
      if kd == "number":
        return k(st2, num)
      if kd in ("op", "op_again", "op_raises"):
        return k(st2, self.ops[n])
      if kd == "stop":
        return I.raise_exc(st2, ctx, StopIteration, None, node)
      if kd == "exit":
        # a task calling sys.exit() / interrupted: not an Exception subclass, must still only de-schedule that task
        return I.raise_exc(st2, ctx, SystemExit, "task exits", node)
      return I.raise_exc(st2, ctx, ValueError, "task failed", node)
    return I.split(kind, st, go)


class OpExec(CallSpec):
  def __init__(self, script, ops):
    CallSpec.__init__(self, "opaque", envelope="a blocking operation's execute(task, scheduler): answers True "
                      "(task keeps running), anything else, or raises; does not touch the ready queue itself")
    self.script, self.ops = script, ops

  def apply(self, I, f, args, kws, st, ctx, k, node):
    st.ghost["log"] = tuple(st.ghost.get("log", ())) + (("op", args[0], args[1], args[2]),)
    n = [i for i, o in enumerate(self.ops) if o == args[0]][0]
    def go(st2, kd):
      if kd == "op_again":
        return k(st2, True)
      if kd == "op_raises":
        return I.raise_exc(st2, ctx, KeyError, "blocking operation failed", node)
      return k(st2, None)
    return I.split(self.script[n][0], st, go)


def _mk_cycle(n_tasks):
  def u(b):
    tasks = [b.raw_new(BaseTask, priority=1, id=i) for i in range(n_tasks)]
    s, hub = new_sched(b, tasks)
    # at most two steps of the head task (the second only after a blocking operation that answered True)
    script = [(b.choice("step%d.yields" % i, YIELDS if i == 0 else [y for y in YIELDS if y != "op_again"]),
               b.int("step%d.number" % i, 1, 1000)) for i in range(2)]
    ops = [b.raw_new(Op) for _ in range(2)]
    cs = {}
    if b.mode == "sym":
      cs = {RC + "BaseTask.execute": Step(script, ops, tasks), "contracts.c06_scheduler:Op.execute": OpExec(script, ops),
            "contracts.c06_scheduler:Hub.registerTimer": Logger("timer", "timer hub registration (SelectHub.registerTimer)"),
            "traceback:print_exc": CallSpec("opaque", envelope="prints the traceback")}
    else:
      state = {"n": 0}
      def execute(self):
        n = state["n"]
        state["n"] += 1
        LOG.append(("step", self))
        kd, num = script[n]
        if kd == "False": return False
        if kd == "True": return True
        if kd == "zero": return 0
        if kd == "number": return num
        if kd in ("op", "op_again", "op_raises"):
          _PLAN["op_result"] = (lambda kd=kd: True if kd == "op_again" else (_ for _ in ()).throw(KeyError("x")) if kd == "op_raises" else None)
          return ops[n]
        if kd == "stop": raise StopIteration()
        if kd == "exit": raise SystemExit("task exits")
        raise ValueError("task failed")
      for t in tasks:
        t.execute = execute.__get__(t)
      R.traceback.print_exc = lambda *a, **k: None
    k0 = script[0][0]
    k1 = script[1][0]
    again = lambda: k0 == "op_again"
    last = lambda: k1 if again() else k0
    def run(s):
      r = s.cycle()
      return (r, [t for t in s._ready])
    steps = lambda: [e for e in log(b) if e[0] == "step"]
    opx = lambda: [e for e in log(b) if e[0] == "op"]
    timers = lambda: [e for e in log(b) if e[0] == "timer"]
    return Case(run, [s], calls=cs, raises={}, ensures={
      "returns_true": lambda res: res[0] is True,
      "only_the_head_task_is_stepped_once_or_once_more_after_a_true_blocking_operation":
        lambda res: len(steps()) == (2 if again() else 1) and all([e[1] is tasks[0] for e in steps()]),
      "a_yielded_zero_requeues_the_task_last_everything_else_leaves_it_out":
        lambda res: len(res[1]) == (n_tasks if last() == "zero" else n_tasks - 1)
                    and all([res[1][i] is tasks[i + 1] for i in range(n_tasks - 1)])
                    and (last() != "zero" or res[1][n_tasks - 1] is tasks[0]),
      "a_yielded_number_sleeps_the_task_on_the_timer_hub":
        lambda res: len(timers()) == (1 if last() == "number" else 0)
                    and (last() != "number" or (timers()[0][1] is tasks[0] and timers()[0][2] == (script[1][1] if again() else script[0][1]))),
      "a_blocking_operation_is_executed_exactly_once_with_task_and_scheduler":
        lambda res: len(opx()) == len([1 for kd in ([k0, k1] if again() else [k0]) if kd in ("op", "op_again", "op_raises")])
                    and all([e[2] is tasks[0] and e[3] is s for e in opx()]),
    })
  u.__name__ = "cycle_with_%d_ready_tasks" % n_tasks
  u.bound = "2..3 ready tasks of normal priority (>= 1); the head task's yield is any of: False, True, 0, a number, a blocking " \
            "operation (answering True / None / raising), StopIteration, an exception; at most one immediate re-step"
  unit(P, target=RC + "Scheduler.cycle", timeout_s=900)(u)


_mk_cycle(2)
_mk_cycle(3)


@unit(P, target=RC + "Scheduler.cycle (empty queue / yield None)")
def cycle_corner_cases(b):
  t0 = b.raw_new(BaseTask, priority=1, id=0)
  empty = b.bool("empty")
  if b.mode == "sym":
    from pyvc.values import Union
    hub = b.raw_new(Hub)
    b.st.ghost["log"] = ()
    s = b.raw_new(Scheduler, _ready=Union([(empty, b.deque([])), (b.Not(empty), b.deque([t0]))]), _selectHub=hub, _hasQuit=False)
    cs = {RC + "BaseTask.execute": Logger("step", "a task step that yields None", None)}
  else:
    s, hub = new_sched(b, [] if empty else [t0])
    t0.execute = lambda: LOG.append(("step", t0))
    cs = {}
  return Case(Scheduler.cycle, [s], calls=cs, raises={RuntimeError: lambda: not empty}, must_return=False, ensures={
    "nothing_to_run_is_reported_false": lambda res: res is False and empty and len(log(b)) == 0,
  })
cycle_corner_cases.bound = "one task"


class Gen(object):
  def send(self, v):
    LOG.append(("send", v))
    return "yielded"

  def throw(self, *a):
    LOG.append(("throw",) + tuple(a))
    return "yielded"


@unit(P, target=RC + "BaseTask.execute")
def resume_protocol(b):
  gen = b.raw_new(Gen)
  mode = b.choice("pending", ["value", "exception", "function_value", "function_exception", "function_abort"])
  rv = b.int("rv", 0, 1000)
  exc = (ValueError, ValueError("x"), None)
  t = b.raw_new(BaseTask, gen=gen, rv=None, re=None, rf=None, priority=1)
  if b.mode == "sym":
    from pyvc.values import Union
    b.st.ghost["log"] = ()
    alts = mode.alts
    def pick(vals):
      return Union([(g, vals[m]) for g, m in alts])
    b.set(t, "rv", pick({"value": rv, "exception": None, "function_value": 5, "function_exception": 5, "function_abort": 5}))
    b.set(t, "re", pick({"value": None, "exception": exc, "function_value": None, "function_exception": exc, "function_abort": None}))
    b.set(t, "rf", pick({"value": None, "exception": None, "function_value": rf_value, "function_exception": rf_exception,
                         "function_abort": rf_abort}))
    cs = {"contracts.c06_scheduler:Gen.send": Logger("send", "generator.send", "yielded"),
          "contracts.c06_scheduler:Gen.throw": Logger("throw", "generator.throw", "yielded")}
  else:
    del LOG[:]
    t.rv = {"value": rv, "exception": None}.get(mode, 5)
    t.re = exc if mode in ("exception", "function_exception") else None
    t.rf = {"function_value": rf_value, "function_exception": rf_exception, "function_abort": rf_abort}.get(mode)
    cs = {}
  def run(t):
    r = t.execute()
    return (r, t.rv, t.re, t.rf)
  return Case(run, [t], calls=cs, raises={}, ensures={
    "a_pending_value_is_sent_once": lambda res: mode != "value" or (log(b) == [("send", rv)] and res[0] == "yielded"),
    "a_pending_exception_is_thrown_once": lambda res: mode != "exception" or (len(log(b)) == 1 and log(b)[0][0] == "throw"
                                                                               and log(b)[0][1] is ValueError),
    "a_resume_function_supplies_the_value": lambda res: mode != "function_value" or log(b) == [("send", 77)],
    "a_resume_function_may_ask_for_the_exception":
      lambda res: mode != "function_exception" or (len(log(b)) == 1 and log(b)[0][0] == "throw" and log(b)[0][1] is exc),
    "a_resume_function_may_abort_the_step": lambda res: mode != "function_abort" or (len(log(b)) == 0 and res[0] is False),
    "what_was_pending_is_cleared": lambda res: mode == "function_abort" or (res[1] is None and res[2] is None and res[3] is None),
  })
resume_protocol.bound = "the five pending-resume shapes"


def rf_value(task):
  return 77


def rf_exception(task):
  return R.EXCEPTION


def rf_abort(task):
  return R.ABORT


class Thread(object):
  pass


class Lg(object):
  def info(self, *a):
    pass


def _mk_schedule(fast):
  @unit(P, target=RC + ("Scheduler.fast_schedule" if fast else "Scheduler.schedule"), name="fast_schedule" if fast else "schedule")
  def u(b):
    tasks = [b.raw_new(BaseTask, priority=1, id=i) for i in range(3)]
    queued = b.bool("already_queued")
    first = b.bool("first")
    th = b.raw_new(Thread)
    if b.mode == "sym":
      from pyvc.values import Union
      hub = b.raw_new(Hub)
      b.st.ghost["log"] = ()
      s = b.raw_new(Scheduler, _ready=Union([(queued, b.deque([tasks[0], tasks[2], tasks[1]])), (b.Not(queued), b.deque([tasks[0], tasks[1]]))]),
                    _selectHub=hub, _hasQuit=False, _thread=th)
      cs = {"threading:current_thread": CallSpec("assumed", returns=lambda I, st, a, k: th, envelope="called on the scheduler's thread"),
            "contracts.c06_scheduler:Hub.break_idle": Logger("break_idle", "wakes the select hub"),
            "logging:getLogger": CallSpec("opaque", returns=lambda I, st, a, k: st.alloc("obj", Lg, {}), envelope="logging")}
    else:
      s, hub = new_sched(b, [tasks[0], tasks[2], tasks[1]] if queued else [tasks[0], tasks[1]])
      s._thread = R.threading.current_thread()
      cs = {}
    if fast:
      b.assume(b.Not(queued) if b.mode == "sym" else not queued)
    def run(s):
      r = s.fast_schedule(tasks[2], first) if fast else s.schedule(tasks[2], first)
      return (r, [t for t in s._ready])
    order = lambda: [tasks[0], tasks[2], tasks[1]] if queued else ([tasks[2], tasks[0], tasks[1]] if first else [tasks[0], tasks[1], tasks[2]])
    return Case(run, [s], calls=cs, raises={}, ensures={
      "queued_exactly_once_at_the_requested_end": lambda res: len(res[1]) == 3 and all([a is b_ for a, b_ in zip(res[1], order())]),
      "a_queued_task_is_refused": lambda res: fast or res[0] is (not queued),
      "the_hub_is_woken_when_something_was_queued": lambda res: len([e for e in log(b) if e[0] == "break_idle"]) == (0 if queued else 1),
    })
  u.bound = "three tasks"


_mk_schedule(True)
_mk_schedule(False)


@unit(P, target=RC + "Sleep.__init__ / Sleep.execute")
def sleep_never_resumes_early(b):
  now = b.real("now", 0, 1000000)
  kind = b.choice("kind", ["none", "zero", "relative", "absolute"])
  amount = b.real("amount", 0, 100000)
  t0 = b.raw_new(BaseTask, priority=1, id=0)
  s, hub = new_sched(b, [])
  cs = {}
  if b.mode == "sym":
    cs = {"time:time": CallSpec("assumed", returns=lambda I, st, a, k: now, envelope="clock (same instant for creation and execution)"),
          "contracts.c06_scheduler:Hub.registerTimer": Logger("timer", "timer hub registration"),
          "contracts.c06_scheduler:Hub.break_idle": Logger("break_idle", "wakes the select hub")}
  else:
    R.time.time = lambda: now
  def run(s, t0):
    if kind == "none":
      op = Sleep()
    elif kind == "zero":
      op = Sleep(0, True)
    elif kind == "relative":
      op = Sleep(amount)
    else:
      op = Sleep(amount, True)
    op.execute(t0, s)
    return [t for t in s._ready]
  timers = lambda: [e for e in log(b) if e[0] == "timer"]
  wake = lambda: now + amount if kind == "relative" else amount
  future = lambda: kind in ("relative", "absolute") and not (wake() == 0 or wake() < now)
  return Case(run, [s, t0], calls=cs, raises={}, ensures={
    "no_time_means_parked": lambda res: kind != "none" or (len(res) == 0 and len(timers()) == 0),
    "zero_or_a_past_time_requeues_at_once": lambda res: kind == "none" or future() or (len(res) == 1 and res[0] is t0 and len(timers()) == 0),
    "a_future_time_goes_to_the_timer_hub_as_that_absolute_time":
      lambda res: not future() or (len(res) == 0 and len(timers()) == 1 and timers()[0][1] is t0 and timers()[0][2] == wake()
                                   and timers()[0][3] is True),
  })
sleep_never_resumes_early.bound = "the four ways of constructing a Sleep"




# ---------------------------------------------------------------- SelectHub._select: one round over timer-only waiters

class SelFn(object):
  def __call__(self, r, w, x, timeout):
    LOG.append(("select", timeout))
    return _PLAN["select_result"]()


class Pinger(object):
  def pongAll(self):
    pass


class Incoming(object):
  def empty(self):
    return True


class SelectSpec(CallSpec):
  def __init__(self, woken, pinger):
    CallSpec.__init__(self, "assumed", envelope="OS select: reports nothing ready only once the timeout has elapsed; or "
                      "reports the hub's own pinger (a new registration)")
    self.woken, self.pinger = woken, pinger

  def apply(self, I, f, args, kws, st, ctx, k, node):
    st.ghost["log"] = tuple(st.ghost.get("log", ())) + (("select", args[4]),)
    def go(st2, w):
      if w:
        return k(st2, (st2.alloc("list", list, [self.pinger]), st2.alloc("list", list, []), st2.alloc("list", list, [])))
      return k(st2, (st2.alloc("list", list, []), st2.alloc("list", list, []), st2.alloc("list", list, [])))
    return I.branch(self.woken, st, lambda s_: go(s_, True), lambda s_: go(s_, False), "select")


def _mk_select(n_tasks):
  def u(b):
    now = b.real("now", 0, 1000000)
    ttos = [b.real("wake%d" % i, 0, 2000000) for i in range(n_tasks)]
    woken = b.bool("pinged")
    tasks = [b.raw_new(BaseTask, priority=1, id=i, rv=None) for i in range(n_tasks)]
    pinger = b.raw_new(Pinger)
    sel = b.raw_new(SelFn)
    d = dict((tasks[i], (tasks[i], None, None, None, ttos[i])) for i in range(n_tasks))
    sched = b.raw_new(Scheduler, _hasQuit=False)
    hub = b.raw_new(SelectHub, _pinger=pinger, _incoming=b.raw_new(Incoming), _scheduler=sched, _select_func=sel)
    tdict = b.dict(d)
    rets = b.dict({})
    cs = {}
    if b.mode == "sym":
      b.st.ghost["log"] = ()
      cs = {"time:time": CallSpec("assumed", returns=lambda I, st, a, k: now, envelope="clock"),
            "contracts.c06_scheduler:SelFn.__call__": SelectSpec(woken, pinger),
            RC + "SelectHub._return": Logger("return", "SelectHub._return: stores the value and re-queues the task (fast_schedule unit)")}
    else:
      del LOG[:]
      R.time.time = lambda: now
      _PLAN["select_result"] = lambda: ([pinger], [], []) if woken else ([], [], [])
      hub._return = lambda t, v: LOG.append(("return", t, v))
    def run(hub, tdict, rets):
      hub._select(tdict, rets)
      return [k_ for k_ in tdict]
    rets_ = lambda: [e for e in log(b) if e[0] == "return"]
    sels = lambda: [e for e in log(b) if e[0] == "select"]
    expired = lambda i: ttos[i] <= now
    def earliest(i):
      """i is a pending (not yet due) waiter with the smallest wake time; the first such wins a tie"""
      return (not expired(i)) and all([expired(j) or ttos[i] < ttos[j] or (ttos[i] == ttos[j] and i <= j) for j in range(n_tasks)])
    def due(i):
      return expired(i) or ((not woken) and earliest(i))
    return Case(run, [hub, tdict, rets], calls=cs, raises={}, ensures={
      "exactly_the_waiters_that_are_due_are_resumed_once_each":
        lambda res: all([len([e for e in rets_() if e[1] is tasks[i]]) == (1 if due(i) else 0) for i in range(n_tasks)]),
      "resumed_waiters_are_forgotten_the_others_kept":
        lambda res: all([any([k_ is tasks[i] for k_ in res]) == (not due(i)) for i in range(n_tasks)]),
      "the_os_wait_ends_at_the_earliest_pending_wake_time":
        lambda res: len(sels()) == 1 and all([(not earliest(i)) or sels()[0][1] == ttos[i] - now for i in range(n_tasks)]),
      "a_timer_wake_up_carries_empty_ready_lists":
        lambda res: all([len(e[2]) == 3 and len(e[2][0]) == 0 and len(e[2][1]) == 0 and len(e[2][2]) == 0 for e in rets_()]),
    })
  u.__name__ = "select_round_%d_timer_waiters" % n_tasks
  u.bound = "1..3 timer-only waiters; wake times and clock symbolic; one select round (idle timeout or pinger wake-up)"
  unit(P, target=RC + "SelectHub._select", timeout_s=900)(u)


for _n in (1, 2, 3):
  _mk_select(_n)


# ---------------------------------------------------------------- Timer.run: the generator itself (added 2026-09-25)
# The evaluator runs generators since 2026-09-25 (a suspended generator is the continuation of its `yield`): the harness
# below plays the scheduler for ONE Timer task - it resumes the generator after each Sleep it yields, and between two
# resumptions anybody may call cancel() - and states "timers fire once or recurrently until cancelled".
from pox.lib.recoco.recoco import Timer


class Fired(object):
  """what the timer's callback records"""
  def __init__(self):
    self.calls = 0
    self.rv = None


def timer_callback(box, *args):
  box.calls += 1
  return box.rv


def drive_timer(t, box, cancel_at, rounds):
  """resume t.run() up to `rounds` times; cancel() is called while the timer sleeps for the cancel_at-th time (0: never).
  returns (what was yielded each time, calls of the callback seen after each resumption, how the generator ended)"""
  g = t.run()
  yielded = []
  calls = []
  end = "running"
  n = 0
  while n < rounds:
    try:
      y = next(g)
    except StopIteration:
      end = "stopped"
      break
    n += 1
    calls.append(box.calls)
    if isinstance(y, Sleep):
      yielded.append(("sleep", y._t))
      if n == cancel_at:
        t.cancel()
    else:
      yielded.append(("value", y))
      if y is False:
        end = "quit"
        break
  return (yielded, calls, end, box.calls)


def _mk_timer(recurring):
  def u(b):
    now = b.real("now", 0, 1000000)
    first = b.real("first_deadline", 0, 2000000)
    interval = b.real("interval", 0, 100000) if recurring else 0
    stoppable = b.bool("self_stoppable")
    cancel_at = b.int("cancel_at", 0, 3)
    rv = b.choice("callback_returns", [None, False, True])
    box = b.raw_new(Fired, calls=0, rv=rv)
    t = b.raw_new(Timer, _self_stoppable=stoppable, _cancelled=False, _recurring=recurring, _callback=timer_callback,
                  _args=(box,), _kw=b.dict({}), _next=first, _interval=interval, _absolute_time=False, _started=True)
    cs = {}
    if b.mode == "sym":
      cs = {"time:time": CallSpec("assumed", returns=lambda I, st, a, k: now, envelope="clock")}
    else:
      R.time.time = lambda: now
    stops_itself = lambda: (stoppable is True or stoppable == True) and rv is False
    def expect_fires():
      # number of times the callback runs within 4 resumptions
      if not recurring or stops_itself():
        return 0 if cancel_at == 1 else 1
      return 3 if cancel_at == 0 else cancel_at - 1
    return Case(drive_timer, [t, box, cancel_at, 4], calls=cs, raises={}, ensures={
      "first_it_sleeps_until_its_absolute_deadline": lambda res: res[0][0] == ("sleep", first),
      "cancelled_while_pending_never_fires_again": lambda res: cancel_at == 0 or res[3] == min(cancel_at - 1, expect_fires()),
      "fires_once_per_expiry_until_cancelled_or_stopped": lambda res: res[3] == expect_fires(),
      "the_callback_runs_only_after_a_sleep_was_resumed": lambda res: res[1][0] == 0 and all([res[1][i] <= i for i in range(len(res[1]))]),
      "a_recurring_timer_sleeps_one_interval_from_the_time_it_fired":
        lambda res: all([res[0][i] == ("sleep", now + interval) or res[0][i] == ("value", False)
                         for i in range(1, len(res[0]))]),
      "it_ends_by_quitting": lambda res: res[2] == "quit" or (recurring and not stops_itself() and cancel_at == 0 and res[2] == "running"),
    })
  u.__name__ = "timer_%s_fires_until_cancelled" % ("recurring" if recurring else "one_shot")
  u.bound = "one Timer task resumed up to 4 times; cancel() during the 1st..3rd sleep or never; callback returns None / False / True"
  unit(P, target=RC + "Timer.run / Timer.cancel")(u)


_mk_timer(False)
_mk_timer(True)


# ---------------------------------------------------------------- Select: what a task asks for is what the hub is given
# (added 2026-09-25 after seeded change C06_7: normalising non-list collections dropped a positionally given timeout, so the
# task was never resumed on time)

class SelHub(object):
  def registerSelect(self, task, rlist=None, wlist=None, xlist=None, timeout=None, timer_absolute=False):
    LOG.append(("select", task, rlist, wlist, xlist, timeout, timer_absolute))


class SelectLogger(CallSpec):
  """registerSelect(task, rlist, wlist, xlist, timeout) recorded with its keyword arguments put in their positions"""
  def __init__(self):
    CallSpec.__init__(self, "contract", envelope="the hub records the request")

  def apply(self, I, f, args, kws, st, ctx, k, node):
    a = list(args[1:]) + [None] * 6
    for i, n in enumerate(("task", "rlist", "wlist", "xlist", "timeout", "timer_absolute")):
      if n in kws:
        a[i] = kws[n]
    if a[5] is None:
      a[5] = False
    st.ghost["log"] = tuple(st.ghost.get("log", ())) + (("select",) + tuple(a[:6]),)
    return k(st, None)


def _mk_select(shape, how):
  def u(b):
    hub = b.raw_new(SelHub)
    if b.mode == "sym":
      b.st.ghost["log"] = ()
    else:
      del LOG[:]
    s = b.raw_new(Scheduler, _ready=b.deque([]), _selectHub=hub, _hasQuit=False, _allDone=False, _thread=None)
    t0 = b.raw_new(BaseTask, priority=1, id=0)
    fa, fb = b.raw_new(Thread), b.raw_new(Thread)           # two waitable objects
    timeout = b.real("timeout", 0, 1000)
    mk = {"list": lambda xs: b.list(xs) if b.mode == "sym" else list(xs), "tuple": lambda xs: tuple(xs),
          "set1": lambda xs: (b.set_of(xs[:1]) if b.mode == "sym" else set(xs[:1])), "none": lambda xs: None}
    colls = [mk[k]([fa, fb]) for k in shape]
    members = [None if k == "none" else ([fa] if k == "set1" else [fa, fb]) for k in shape]
    cs = {"contracts.c06_scheduler:SelHub.registerSelect": SelectLogger()} if b.mode == "sym" else {}
    def run(s):
      if how == "positional":
        op = R.Select(colls[0], colls[1], colls[2], timeout)
      elif how == "keyword":
        op = R.Select(colls[0], colls[1], colls[2], timeout=timeout)
      else:
        op = R.Select(colls[0], colls[1], colls[2])
      return op.execute(t0, s)
    def same(got, want):
      if want is None:
        return got is None
      return type(got) is list and len(got) == len(want) and all([g is w for g, w in zip(got, want)])
    def ok():
      l = log(b)
      if len(l) != 1:
        return False
      e = l[0]
      want_t = None if how == "absent" else timeout
      return e[0] == "select" and e[1] is t0 and same(e[2], members[0]) and same(e[3], members[1]) and same(e[4], members[2]) \
        and ((e[5] is None) if want_t is None else e[5] == want_t)
    return Case(run, [s], calls=cs, raises={}, ensures={
      "the_hub_gets_the_three_collections_as_lists_with_the_same_members_and_the_same_timeout": lambda res: ok(),
    })
  u.__name__ = "select_passes_on_%s_timeout_%s" % ("_".join(shape), how)
  u.bound = "two waitable objects"
  unit(P, target=RC + "Select.__init__ / Select.execute")(u)


for _shape in (("list", "list", "list"), ("tuple", "none", "list"), ("set1", "tuple", "none"), ("list", "none", "tuple")):
  for _how in ("positional", "keyword", "absent"):
    _mk_select(_shape, _how)


# ---------------------------------------------------------------- Timer.__init__ / start: the delay counts from the START
# (added 2026-09-25 after seeded change C06_9 converted the relative delay into an absolute deadline at construction: a timer
# created with started=False and started later then fired early - at once, if the delay had already passed)

class ClockSpec(CallSpec):
  """time.time(): t_construct for the calls made while the timer is constructed, t_start from start() on (the harness flips)"""
  def __init__(self, times):
    CallSpec.__init__(self, "assumed", envelope="clock: does not go backwards between construction and start")
    self.times = times

  def apply(self, I, f, args, kws, st, ctx, k, node):
    return k(st, self.times[st.ghost.get("clock_phase", 0)])


class _Phase(object):
  @native
  def set(self, st, n):
    st.ghost["clock_phase"] = n
    return None


PHASE = _Phase()
_NATIVE_CLOCK = [0.0]


def _mk_timer_start(kind):
  def u(b):
    t0 = b.real("constructed_at", 0, 1000000)
    wait = b.real("started_after", 0, 100000)
    delay = b.real("delay", 0, 100000)
    t1 = t0 + wait
    s, hub = new_sched(b, [])
    box = b.raw_new(Fired, calls=0, rv=None)
    sym = b.mode == "sym"
    cs = {}
    if sym:
      cs = {"time:time": ClockSpec([t0, t1]),
            "contracts.c06_scheduler:Hub.break_idle": Logger("break_idle", "wakes the select hub")}
    def run():
      if sym:
        PHASE.set(0)
      else:
        R.time.time = lambda: t0
      if kind == "relative":
        t = Timer(delay, timer_callback, args=(box,), scheduler=s, started=False)
      elif kind == "recurring":
        t = Timer(delay, timer_callback, recurring=True, args=(box,), scheduler=s, started=False)
      else:
        t = Timer(delay, timer_callback, absoluteTime=True, args=(box,), scheduler=s, started=False)
      if sym:
        PHASE.set(1)
      else:
        R.time.time = lambda: t1
      t.start(s)
      y = next(t.run())
      return (y._t, t._started, [x for x in s._ready], box.calls, t)
    return Case(run, [], calls=cs, raises={}, ensures={
      "the_first_deadline_is_the_delay_after_the_START_or_the_given_absolute_time":
        lambda res: res[0] == (delay if kind == "absolute" else t1 + delay),
      "it_is_started_and_nothing_has_fired_yet": lambda res: res[1] is True and res[3] == 0,
    })
  u.__name__ = "timer_%s_started_later_counts_its_delay_from_the_start" % kind
  u.bound = "one timer constructed with started=False and started after any wait"
  unit(P, target=RC + "Timer.__init__ / Timer.start / Timer.run")(u)


for _k in ("relative", "recurring", "absolute"):
  _mk_timer_start(_k)
