"""C01 - OpenFlow 1.0 codec: contracts generated from the layout tables of spec/of10_layout.py.

For every class in CLASSES a unit builds an instance whose fields are free symbolic values in their wire
ranges and proves, on the real pack/unpack/__len__/__eq__:
  layout        pack() == layout(table, values)            (field order, widths, padding, type code, length field)
  length        len(obj) == len(pack()) (== header length field through the layout)
  consumed      decoding the bytes consumes exactly len(pack()) bytes
  round_trip    the decoded object equals the original (through the class's own __eq__)
  re_encode     re-encoding the decoded object reproduces the bytes
"""
from pyvc.api import unit, Case
from spec.of10_layout import TABLES, MESSAGE_TYPE, ACTION_TYPE, QUEUE_PROP_TYPE, SIZEOF, fixed_size, layout
import pox.openflow.libopenflow_01 as of
from pox.lib.addresses import EthAddr, IPAddr

P = "C01"
MOD = "pox.openflow.libopenflow_01:"

# attribute that stores a table field when it is not the field's own name (properties with setters are bypassed)
ATTR = {"xid": "_xid"}


# messages are decoded IN THE MIDDLE of a buffer (three bytes in front, two behind), the way both read loops hand them to the
# decoders: a decoder that measures from the start of the buffer, or takes everything up to its end, is wrong for every message
# that is not alone in the buffer (seeded changes C02_8 / C02_9, reported by the framing stand-in only until 2026-09-25)
_FRONT, _BACK = b"\xaa\xbb\xcc", b"\xdd\xee"


def _rt_message(o):
  p = o.pack()
  r, o2 = type(o).unpack_new(_FRONT + p + _BACK, 3)
  return (p, len(o), r - 3, o2 == o, o2.pack())


def _rt_struct(o):
  p = o.pack()
  o2 = type(o)()
  r = o2.unpack(p, 0)
  return (p, len(o), r, o2 == o, o2.pack())


def _rt_stats(o):
  # statistics bodies: unpack(raw, offset, avail)
  # the entry is followed by more bytes of the stats body (avail covers them): decoding must stop at the entry's own
  # length (entries of a multi-entry reply are decoded one after another from the same buffer)
  p = o.pack()
  o2 = type(o)()
  r = o2.unpack(p + b"\0\0\0\0\0\0\0\0", 0, len(p) + 8)
  return (p, len(o), r, o2 == o, o2.pack())


def _rt_stats_rest(o):
  # vendor statistics: the body IS the rest of the reply (everything up to avail)
  p = o.pack()
  o2 = type(o)()
  r = o2.unpack(p, 0, len(p))
  return (p, len(o), r, o2 == o, o2.pack())


def _rt_action2(o):
  # actions whose constructor needs no keyword and which use ofp_action_base.unpack_new
  p = o.pack()
  r, o2 = type(o).unpack_new(p)
  return (p, len(o), r, o2 == o, o2.pack())


def _encode(b, s):
  if b.mode == "sym":
    from pyvc.sbytes import SBytes
    from pyvc.values import Union
    if isinstance(s, Union):
      return Union([(g, SBytes(a.chunks, False)) for g, a in s.alts])
    return SBytes(s.chunks, False) if isinstance(s, SBytes) else s.encode("latin-1")
  return s.encode("latin-1")


def _no_nul(b, s, name):
  """precondition: a string stored in a NUL-padded field contains no NUL itself"""
  if b.mode == "sym":
    import z3
    from pyvc.sbytes import SBytes
    if isinstance(s, SBytes) and s.chunks:
      f = s.chunks[0][1]
      n = s.fixed_length()
      for i in range(n):
        b.assume(z3.And(f(i) >= 1, f(i) <= 255))
  else:
    if "\0" in s:
      s2 = s.replace("\0", "x")
      b.drawn[name] = s2.encode("latin-1").hex()
      return s2
  return s


def build_fields(b, table, prefix, obj, vals, budget, fixed_text=None):
  """declare symbolic inputs for every field of `table`, store them into obj, record them in vals.
  returns the (symbolic) number of variable bytes"""
  var = 0
  for f in table:
    k = f[0]
    if k == "u":
      name = f[2]
      v = b.int(prefix + name, 0, 256 ** f[1] - 1)
      b.set(obj, ATTR.get(name, name), v)
      vals[name] = v
    elif k == "mac":
      raw = b.bytes(prefix + f[1], 6)
      b.set(obj, f[1], b.new(EthAddr, raw))
      vals[f[1]] = raw
    elif k == "ip":
      raw = b.bytes(prefix + f[1], 4)
      b.set(obj, f[1], b.new(IPAddr, raw))
      vals[f[1]] = raw
    elif k == "zs":
      name = f[2]
      if fixed_text is None:
        s = b.short_text(prefix + name, f[1])
      else:
        s = _no_nul(b, b.str(prefix + name, fixed_text), prefix + name)
      b.set(obj, name, s)
      vals[name] = _encode(b, s)
    elif k == "tail":
      name = f[1]
      d = b.bytes(prefix + name, None, 0, budget)
      b.set(obj, name, d)
      vals[name] = d
      var = var + len(d) if b.mode == "conc" else var + d.length()
  return var


def make_unit(cname, kind, typecode=None, ctor_args=(), table=None, extra=None, rt=None):
  table = table or TABLES[cname]
  cls = getattr(of, cname)

  def u(b):
    vals = {}
    o = b.new(cls, *ctor_args)
    var = build_fields(b, table, "", o, vals, 65535 - fixed_size(table) - 64)
    total = fixed_size(table) + var
    if extra:
      extra(b, o, vals)
    harness = rt or {"message": _rt_message, "struct": _rt_struct, "action": _rt_action2, "stats": _rt_stats}[kind]
    return Case(harness, [o], ensures={
      "layout": lambda res: res[0] == layout(table, vals, typecode, total),
      "length": lambda res: res[1] == total and len(res[0]) == total,
      "consumed": lambda res: res[2] == total,
      "round_trip": lambda res: res[3] == True,
      "re_encode": lambda res: res[4] == res[0],
    })
  u.__name__ = cname
  unit(P, target=MOD + cname + ".pack/unpack/__len__/__eq__")(u)
  return u


# ---- table sanity: sizes of the fixed parts equal the OFP_ASSERT values of openflow.h
for _n, _sz in SIZEOF.items():
  assert fixed_size(TABLES[_n]) == _sz, (_n, fixed_size(TABLES[_n]), _sz)

# ---- fixed-layout messages and messages with one byte tail
for _n in ["ofp_hello", "ofp_features_request", "ofp_get_config_request", "ofp_barrier_request", "ofp_barrier_reply",
           "ofp_get_config_reply", "ofp_set_config", "ofp_port_mod", "ofp_queue_get_config_request",
           "ofp_error", "ofp_echo_request", "ofp_echo_reply", "ofp_vendor_generic"]:
  make_unit(_n, "message", MESSAGE_TYPE[_n])

# ---- actions
for _n in ["ofp_action_enqueue", "ofp_action_vlan_vid", "ofp_action_vlan_pcp", "ofp_action_nw_tos"]:
  make_unit(_n, "action", ACTION_TYPE[_n])
make_unit("ofp_action_strip_vlan", "action", ACTION_TYPE["ofp_action_strip_vlan"])
make_unit("ofp_action_dl_addr", "action")
make_unit("ofp_action_nw_addr", "action")
make_unit("ofp_action_tp_port", "action")
make_unit("ofp_action_generic", "action")

# ---- structures and statistics bodies with fixed layout
for _n in ["ofp_phy_port", "ofp_queue_prop_min_rate"]:
  make_unit(_n, "struct", QUEUE_PROP_TYPE.get(_n))
for _n in ["ofp_aggregate_stats", "ofp_port_stats_request", "ofp_port_stats", "ofp_queue_stats_request", "ofp_queue_stats",
           "ofp_table_stats"]:
  make_unit(_n, "stats")
make_unit("ofp_vendor_stats_generic", "stats", rt=_rt_stats_rest)
