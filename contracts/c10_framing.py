"""C02 / C10 - the controller's Connection.read on an ARBITRARY buffer and an ARBITRARY received chunk.

Ghost stream S = buf ++ d (everything received and not yet consumed).  cut(0) = 0, cut(k+1) = cut(k) +
declared_length(S, cut(k)) are the frame boundaries of S - a function of the bytes only, not of how they arrived.
The loop invariant ties the code's `offset` to cut(m), m = number of messages decoded so far; the variant
buf_len - offset proves termination; the postcondition says what is left in the buffer.
The message decoders are callees under contract (family contract of ofp_base.unpack_new: returns offset +
declared length or raises; proved per class in c10_unpack_total and C01); handlers are opaque and may raise.
"""
from pyvc.api import unit, Case, LoopSpec, CallSpec, native
import pox.openflow.libopenflow_01 as of
from pox.openflow.of_01 import Connection, unpackers

P = "C10"
OF01 = "pox.openflow.of_01:"


class StubSock(object):
  """socket stand-in: recv returns the chunk chosen by the unit (natively: the queued bytes)"""
  def __init__(self, data=b""):
    self.data = data

  def recv(self, n):
    d, self.data = self.data[:n], self.data[n:]
    return d


HANDLED = []


def stub_handler(con, msg):
  HANDLED.append(msg)


def declared_at(S, pos):
  return S[pos + 2] * 256 + S[pos + 3]


class Frames(object):
  """ghost model of the frame boundaries of the stream S"""
  def __init__(self, b, S):
    self.b = b
    self.S = S
    if b.mode == "sym":
      import z3
      self.cut = z3.Function("cut", z3.IntSort(), z3.IntSort())
      b.assume(self.cut(0) == 0)

  @native
  def cut_of(self, st, m):
    return self.cut(m)

  @native
  def ghost(self, st, name):
    return st.ghost[name]

  @native
  def declared(self, st, pos):
    from pyvc import sbytes as sb
    from pyvc.values import concretize
    return concretize(sb.byte_at(self.S, pos + 2, st) * 256 + sb.byte_at(self.S, pos + 3, st))


def build(b, version_ok=True):
  buf0 = b.bytes("buf", None, 0, 70000)
  d = b.bytes("d", None, 1, 2048)
  S = buf0 + d if b.mode == "conc" else None
  if b.mode == "sym":
    from pyvc import sbytes as sb
    S = sb.concat(buf0, d)
  fr = Frames(b, S)
  if b.mode == "sym":
    sock = b.raw_new(StubSock)
    handlers = [stub_handler] * 22
  else:
    del HANDLED[:]
    sock = StubSock(d)
    handlers = [stub_handler] * 22
  con = b.raw_new(Connection, buf=buf0, sock=sock, unpackers=unpackers, handlers=handlers, ID=1, dpid=None)
  return con, buf0, d, S, fr


def decoder_pre(I, st, args, kws):
  """the decoders read an 8-byte header before anything else: handing them a frame whose declared length is
  shorter would decode bytes beyond the frame (C10: never consume bytes beyond a message's declared length)"""
  from pyvc import sbytes as sb
  from pyvc.values import concretize, zint
  raw, offset = args[1], args[2]
  L = concretize(zint(sb.byte_at(raw, offset + 2, st)) * 256 + zint(sb.byte_at(raw, offset + 3, st)))
  return L >= 8


def specs(b, d, fr):
  """callee contracts used by the proof"""
  if b.mode != "sym":
    return {}
  import z3
  from pyvc import sbytes as sb
  from pyvc.values import concretize, zint

  def unpack_returns(I, st, args, kws):
    cls, raw, offset = args[0], args[1], args[2]
    L = concretize(zint(sb.byte_at(raw, offset + 2, st)) * 256 + zint(sb.byte_at(raw, offset + 3, st)))
    m = st.ghost["m"]
    # ghost: this call decodes frame number m; the next boundary is cut(m) + its declared length
    st.add(fr.cut(m + 1) == fr.cut(m) + fr.declared.__func__(fr, st, fr.cut(m)))
    st.ghost["m"] = concretize(m + 1)
    return (concretize(zint(offset) + zint(L)), st.alloc("obj", object, {}))

  def handler_ghost(I, st, f, args, kws):
    st.ghost["handled"] = concretize(st.ghost["handled"] + 1)

  return {
    "contracts.c10_framing:StubSock.recv": CallSpec("opaque", returns=lambda I, st, a, k: d,
                                                    envelope="recv returns 1..2048 arbitrary bytes"),
    "pox.openflow.libopenflow_01:ofp_base.unpack_new":
      CallSpec("contract", returns=unpack_returns, requires=decoder_pre, may_raise=[AssertionError, of.UnderrunError],
               envelope="family contract of the message decoders: returns offset + declared length or raises "
                        "(c10_unpack_total / C01 units)"),
    "contracts.c10_framing:stub_handler": CallSpec("opaque", ghost=handler_ghost, may_raise=[Exception],
                                                   envelope="handlers may raise, do not touch con.buf"),
  }


def frames_native(S):
  """(number of complete frames at the front of S, end of the last one) following declared lengths"""
  pos, m = 0, 0
  while len(S) - pos >= 8:
    L = declared_at(S, pos)
    if len(S) - pos < L or L < 8:
      break
    pos += L
    m += 1
  return m, pos


@unit(P, target=OF01 + "Connection.read", timeout_s=600)
def controller_read_arbitrary_bytes(b):
  con, buf0, d, S, fr = build(b)
  n = len(S) if b.mode == "conc" else S.length()
  if b.mode == "sym":
    b.st.ghost["m"] = 0
    b.st.ghost["handled"] = 0
  inv = LoopSpec(
    invariant=lambda v: v.buf_len == n and v.self.buf == S and 0 <= v.offset and v.offset <= v.buf_len
    and v.g_m >= 0 and v.offset == fr.cut_of(v.g_m) and v.g_handled == v.g_m,
    variant=lambda v: v.buf_len - v.offset)
  return Case(Connection.read, [con], calls=specs(b, d, fr), loops={(OF01 + "Connection.read", 1): inv},
              must_return=True, raises={AssertionError: True, of.UnderrunError: True, IndexError: True},
              ensures={
                "returns_a_bool": lambda res: res is True or res is False,
                "rest_is_kept": lambda res: res is False or kept_suffix(b, con, S, fr),
                "stops_only_at_an_incomplete_frame": lambda res: res is False or stopped_right(b, con, S, fr),
                "every_decoded_message_was_handed_to_its_handler_once_in_order":
                  lambda res: res is False or handled_all(b, fr),
              })


def kept_suffix(b, con, S, fr):
  """what remains buffered is exactly the stream from the last frame boundary reached"""
  if b.mode == "conc":
    m, pos = frames_native(S)
    return con.buf == S[pos:]
  c = fr.cut_of(fr.ghost("m"))
  return 0 <= c and c <= len(S) and con.buf == S[c:]


def stopped_right(b, con, S, fr):
  """the loop stops only when fewer than 8 bytes, or less than the next frame's declared length, remain"""
  if b.mode == "conc":
    m, pos = frames_native(S)
    rest = len(S) - pos
    return rest < 8 or rest < declared_at(S, pos)
  c = fr.cut_of(fr.ghost("m"))
  rest = len(S) - c
  return rest < 8 or rest < fr.declared(c)


def handled_all(b, fr):
  if b.mode == "conc":
    return True
  return fr.ghost("handled") == fr.ghost("m")


# ======================================================================================================
# switch side: OFConnection.read over the IOWorker receive buffer
# ======================================================================================================
from pox.datapaths.switch import OFConnection
from pox.lib.ioworker import IOWorker
import logging

SW = "pox.datapaths.switch:"
SENT = []


def stub_send(data):
  SENT.append(data)


def stub_on_message(con, msg):
  HANDLED.append(msg)


def build_switch(b):
  S = b.bytes("rx", None, 0, 70000)
  fr = Frames(b, S)
  starting = b.bool("starting")
  if b.mode == "conc":
    del HANDLED[:]
    del SENT[:]
  w = b.raw_new(IOWorker, receive_buf=S, send_buf=b"", closed=False, _shutdown_send=False, _connecting=False)
  con = b.raw_new(OFConnection, starting=starting, io_worker=w, ID=1, unpackers=unpackers,
                  on_message_received=stub_on_message, log=logging.getLogger("verif"))
  return con, w, S, fr


def switch_specs(b, fr):
  if b.mode != "sym":
    return {}
  from pyvc import sbytes as sb
  from pyvc.values import concretize, zint

  def unpack_returns(I, st, args, kws):
    cls, raw, offset = args[0], args[1], args[2]
    L = concretize(zint(sb.byte_at(raw, offset + 2, st)) * 256 + zint(sb.byte_at(raw, offset + 3, st)))
    return (concretize(zint(offset) + zint(L)), st.alloc("obj", object, {}))

  def handler_ghost(I, st, f, args, kws):
    st.ghost["handled"] = concretize(st.ghost["handled"] + 1)

  return {
    "pox.openflow.libopenflow_01:ofp_base.unpack_new":
      CallSpec("contract", returns=unpack_returns, requires=decoder_pre, may_raise=[AssertionError, of.UnderrunError],
               envelope="family contract of the message decoders (c10_unpack_total / C01)"),
    "contracts.c10_framing:stub_on_message": CallSpec("opaque", ghost=handler_ghost, may_raise=[Exception],
                                                      envelope="the datapath's message handler may raise"),
    "pox.lib.ioworker:IOWorker.send": CallSpec("opaque", envelope="queues bytes for sending (C20)"),
  }


@unit(P, target=SW + "OFConnection.read", timeout_s=600)
def switch_read_arbitrary_bytes(b):
  con, w, S, fr = build_switch(b)
  n = len(S) if b.mode == "conc" else S.length()
  if b.mode == "sym":
    b.st.ghost["handled"] = 0
  # loop 1 of OFConnection.read: what is still buffered is a suffix of the received stream, and shrinks
  inv = LoopSpec(
    invariant=lambda v: len(v.io_worker.receive_buf) <= n and v.io_worker.receive_buf == S[n - len(v.io_worker.receive_buf):],
    variant=lambda v: len(v.io_worker.receive_buf))
  return Case(OFConnection.read, [con, w], calls=switch_specs(b, fr), loops={(SW + "OFConnection.read", 1): inv},
              must_return=True, raises={},
              ensures={
                "returns_true": lambda res: res is True,
                "remainder_is_a_suffix_of_the_stream": lambda res: S.endswith(w.receive_buf) if b.mode == "conc" else
                len(w.receive_buf) <= n and w.receive_buf == S[n - len(w.receive_buf):],
              })


def consume_spec(b, fr, S):
  """contract of IOWorker.consume_receive_buf used inside the read loop (the function itself is proved in
  ioworker_consume): drops l bytes; ghost: one more frame boundary, which must be the declared one"""
  from pyvc import sbytes as sb
  from pyvc.values import concretize, zint, Ref
  from pyvc.models import norm_bytes

  def pre(I, st, args, kws):
    w, l = args[0], args[1]
    m = st.ghost["m"]
    buf = st.obj(w).data["receive_buf"]
    import z3
    return z3.And(zint(l) == fr.declared.__func__(fr, st, fr.cut(m)), zint(l) <= zint(len(buf) if isinstance(buf, bytes) else buf.length()))

  def effect(I, st, args, kws):
    w, l = args[0], args[1]
    m = st.ghost["m"]
    buf = st.obj(w).data["receive_buf"]
    from pyvc.models import as_sbytes
    sbuf = as_sbytes(buf)
    st.obj(w).data["receive_buf"] = norm_bytes(sb.slice_bytes(sbuf, l, sbuf.length(), st))
    st.add(fr.cut(m + 1) == fr.cut(m) + zint(l))
    st.ghost["m"] = concretize(m + 1)

  return CallSpec("contract", requires=pre, havoc=effect,
                  envelope="IOWorker.consume_receive_buf(l): receive_buf := receive_buf[l:] (proved: ioworker_consume)")


@unit(P, target=SW + "OFConnection.read", timeout_s=600)
def switch_read_frames(b):
  """frame boundaries on the switch side: every skip is exactly one declared frame; with a well-formed
  stream every frame is decoded and handed to the message handler once, in order"""
  con, w, S, fr = build_switch(b)
  n = len(S) if b.mode == "conc" else S.length()
  calls = switch_specs(b, fr)
  if b.mode == "sym":
    b.st.ghost["handled"] = 0
    b.st.ghost["m"] = 0
    calls["pox.lib.ioworker:IOWorker.consume_receive_buf"] = consume_spec(b, fr, S)
  inv = LoopSpec(
    invariant=lambda v: v.g_m >= 0 and 0 <= fr.cut_of(v.g_m) and fr.cut_of(v.g_m) <= n
    and v.io_worker.receive_buf == S[fr.cut_of(v.g_m):] and v.g_handled <= v.g_m,
    variant=lambda v: len(v.io_worker.receive_buf))
  return Case(OFConnection.read, [con, w], calls=calls, loops={(SW + "OFConnection.read", 1): inv},
              must_return=True, raises={},
              ensures={
                "remainder_starts_at_a_frame_boundary":
                  lambda res: frames_left(b, w, S, fr),
              })


def frames_left(b, w, S, fr):
  if b.mode == "conc":
    return S.endswith(w.receive_buf)
  c = fr.cut_of(fr.ghost("m"))
  return 0 <= c and c <= len(S) and w.receive_buf == S[c:]


@unit(P, target="pox.lib.ioworker:IOWorker.consume_receive_buf / peek / _push_receive_data")
def ioworker_receive_buffer(b):
  buf = b.bytes("buf", None, 0, 70000)
  new = b.bytes("new", None, 0, 9000)
  n = len(buf) if b.mode == "conc" else buf.length()
  k = len(new) if b.mode == "conc" else new.length()
  l = b.int("l", 0, 80000)
  b.assume(l <= n + k)
  def run(buf, new, l):
    calls = []
    w = IOWorker()
    w.receive_buf = buf
    w.rx_handler = lambda worker: calls.append(worker.peek())
    w._push_receive_data(new)
    seen = w.peek()
    w.consume_receive_buf(l)
    return (calls, seen, w.peek(), w.peek(3))
  return Case(run, [buf, new, l], ensures={
    "handler_sees_old_plus_new": lambda res: len(res[0]) == 1 and res[0][0] == buf + new and res[1] == buf + new,
    "consume_drops_exactly_l_bytes": lambda res: res[2] == (buf + new)[l:],
    "peek_is_a_prefix": lambda res: res[3] == (buf + new)[l:][:3],
  })


# ======================================================================================================
# the type -> decoder table both read loops index with the type byte (added 2026-09-25, seeded change C10_7)
# ======================================================================================================
from pox.openflow.util import make_type_to_unpacker_table
from spec.of10_layout import MESSAGE_TYPE as _MT


@unit(P, target="pox.openflow.util:make_type_to_unpacker_table")
def only_openflow_1_0_types_have_a_decoder(b):
  """`ofp_type < len(unpackers)` (switch) / the IndexError of `unpackers[ofp_type]` (controller) is what sends a frame of
  unknown type down the error path: the table has an entry for exactly the 22 message types of OpenFlow 1.0, and entry t
  decodes the class whose header_type is t"""
  t = b.int("t", 0, len(_MT) - 1)
  def run(t):
    r = make_type_to_unpacker_table()
    c = r[t].__self__
    return (len(r), c.header_type, c.__name__)
  names = sorted(_MT, key=lambda k: _MT[k])
  return Case(run, [t], raises={}, ensures={
    "one_entry_per_specified_type": lambda res: res[0] == len(_MT),
    "entry_t_decodes_type_t": lambda res: res[1] == t,
    "entry_t_is_the_specified_message": lambda res: any([t == i and res[2] == names[i] for i in range(len(names))]),
  })
