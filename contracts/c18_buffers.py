"""C18 - packet buffers of the software switch: unique ids, released exactly once, bounded pool; packet-in
truncation and total length.  The pool (`_packet_buffer`) has ANY length: abstract view
   id |-> (packet, in_port)   for the slots that are not None     (id = slot index + 1)
Slots are tracked as (is_none, packet identity, in_port) arrays; loop invariant for the free-slot search."""
from pyvc.api import unit, Case, LoopSpec, CallSpec, forall, native
import pox.openflow.libopenflow_01 as of
from pox.datapaths.switch import SoftwareSwitchBase
import logging

P = "C18"
SW = "pox.datapaths.switch:"
SLOT = {"is_none": "bool", "0": "int", "1": "int"}


class Pkt(object):
  """stands for a frame object in native runs (identity is all the buffer code looks at)"""
  def __init__(self, n):
    self.n = n

  def pack(self):
    return b"\0" * self.n


class Pool(object):
  """dual-mode access to the pool's slots from contract lambdas"""
  def __init__(self, b, sw, lst):
    self.b = b
    self.sw = sw
    if b.mode == "sym":
      self.old_none = b.slist_attr(lst, "is_none")
      self.old_pkt = b.slist_attr(lst, "0")
      self.old_port = b.slist_attr(lst, "1")
      self.n0 = b.slist_len(lst)
    else:
      self.snapshot = list(lst)
      self.n0 = len(lst)

  # --- pre-state
  def was_free(self, j):
    return self.old_none[j] if self.b.mode == "sym" else self.snapshot[j] is None

  def old_entry(self, j):
    if self.b.mode == "sym":
      return (self.old_pkt[j], self.old_port[j])
    p, i = self.snapshot[j]
    return (id(p), i)

  # --- post-state
  @native
  def _slot(self, st, lst, j):
    from pyvc.models import slist_attr
    return (slist_attr(st, lst, "is_none", j), slist_attr(st, lst, "0", j), slist_attr(st, lst, "1", j))

  def slot(self, lst, j):
    """(is_none, packet identity, in_port) of slot j now"""
    if self.b.mode == "sym":
      return self._slot(lst, j)
    v = lst[j]
    return (True, None, None) if v is None else (False, id(v[0]), v[1])

  def unchanged(self, lst, j):
    s = self.slot(lst, j)
    return (s[0] and self.was_free(j)) or ((not s[0]) and (not self.was_free(j)) and (s[1], s[2]) == self.old_entry(j))


def build(b, name="pool"):
  maxb = b.int("max_buffers", 0, 1000)
  if b.mode == "sym":
    lst = b.slist(name, SLOT)
    b.assume(b.slist_len(lst) <= maxb)
  else:
    def make(i, vals):
      if vals is None:
        free = b.rng.random() < 0.4
        return None if free else (Pkt(b.rng.randrange(200)), b.rng.randrange(1, 5))
      return None if vals["is_none"] else (Pkt(60), vals["1"])
    lst = b.slist(name, SLOT, 6, make)
    b.assume(len(lst) <= maxb)
  sw = b.raw_new(SoftwareSwitchBase, _packet_buffer=lst, max_buffers=maxb, log=logging.getLogger("verif"),
                 miss_send_len=128)
  return sw, lst, maxb, Pool(b, sw, lst)


def ident(b, obj):
  return obj.oid if b.mode == "sym" else id(obj)


@unit(P, target=SW + "SoftwareSwitchBase._buffer_packet")
def buffer_packet(b):
  sw, lst, maxb, pool = build(b)
  pkt = b.raw_new(Pkt, n=60)
  in_port = b.int("in_port", 0, 65535)
  pid = ident(b, pkt)
  n0 = pool.n0
  inv = LoopSpec(invariant=lambda v: forall(0, v._i, lambda j: not pool.was_free(j))
                 and len(sw._packet_buffer) == n0
                 and forall(0, n0, lambda j: pool.unchanged(sw._packet_buffer, j)))
  return Case(SoftwareSwitchBase._buffer_packet, [sw, pkt, in_port],
              loops={(SW + "SoftwareSwitchBase._buffer_packet", 1): inv}, ensures={
    "none_only_when_the_pool_is_full":
      lambda res: (res is None) == (forall(0, n0, lambda j: not pool.was_free(j)) and n0 >= maxb),
    "full_pool_is_left_untouched":
      lambda res: res is not None or (len(sw._packet_buffer) == n0
                                      and forall(0, n0, lambda j: pool.unchanged(sw._packet_buffer, j))),
    "id_was_free_and_now_holds_exactly_this_packet":
      lambda res: res is None or (1 <= res and res <= len(sw._packet_buffer)
                                  and (res == n0 + 1 or pool.was_free(res - 1))
                                  and pool.slot(sw._packet_buffer, res - 1) == (False, pid, in_port)),
    "other_slots_unchanged":
      lambda res: res is None or forall(0, n0, lambda j: j == res - 1 or pool.unchanged(sw._packet_buffer, j)),
    "pool_stays_within_the_advertised_size":
      lambda res: len(sw._packet_buffer) <= maxb and len(sw._packet_buffer) <= n0 + 1 and len(sw._packet_buffer) >= n0,
  })


PROCESSED = []


def stub_process(self, actions, packet, in_port, ofp=None):
  PROCESSED.append((actions, packet, in_port))


@unit(P, target=SW + "SoftwareSwitchBase._process_actions_for_packet_from_buffer")
def use_buffer(b):
  sw, lst, maxb, pool = build(b)
  bid = b.int("buffer_id", -5, 1200)
  actions = b.list([])
  n0 = pool.n0
  calls = {}
  if b.mode == "sym":
    def ghost(I, st, f, args, kws):
      st.ghost["calls"] = st.ghost.get("calls", 0) + 1
      st.ghost["arg_packet"] = args[2]
      st.ghost["arg_in_port"] = args[3]
      st.ghost["arg_actions"] = args[1]
    calls[SW + "SoftwareSwitchBase._process_actions_for_packet"] = CallSpec(
      "opaque", ghost=ghost, envelope="applying the actions (C12) does not touch the buffer pool")
    b.st.ghost["calls"] = 0
  else:
    del PROCESSED[:]
    b.set(sw, "_process_actions_for_packet", lambda actions, packet, in_port, ofp=None:
          PROCESSED.append((actions, packet, in_port)))
  valid = lambda: 1 <= bid and bid <= n0 and not pool.was_free(bid - 1)
  return Case(SoftwareSwitchBase._process_actions_for_packet_from_buffer, [sw, actions, bid, None], calls=calls,
              ensures={
    "known_id_is_emitted_once_with_its_own_packet_and_port":
      lambda res: (not valid()) or emitted(b, pool, actions, bid),
    "known_id_is_freed": lambda res: (not valid()) or pool.slot(sw._packet_buffer, bid - 1)[0],
    "unknown_or_used_id_emits_nothing": lambda res: valid() or ncalls(b) == 0,
    "nothing_else_changes":
      lambda res: len(sw._packet_buffer) == n0
      and forall(0, n0, lambda j: (valid() and j == bid - 1) or pool.unchanged(sw._packet_buffer, j)),
  })


class _G(object):
  @native
  def get(self, st, name):
    return st.ghost.get(name)


G = _G()


def ncalls(b):
  return G.get("calls") if b.mode == "sym" else len(PROCESSED)


def emitted(b, pool, actions, bid):
  if b.mode == "sym":
    return G.get("calls") == 1 and (G.get("arg_packet"), G.get("arg_in_port")) == pool.old_entry(bid - 1) \
      and G.get("arg_actions") is actions
  return len(PROCESSED) == 1 and (id(PROCESSED[0][1]), PROCESSED[0][2]) == pool.old_entry(bid - 1) \
    and PROCESSED[0][0] is actions


# ---------------------------------------------------------------- packet-in contents

SENT = []


@unit(P, target=SW + "SoftwareSwitchBase.send_packet_in")
def packet_in_contents(b):
  sw, lst, maxb, pool = build(b)
  frame = b.bytes("frame", None, 0, 1600)
  n = len(frame) if b.mode == "conc" else frame.length()
  in_port = b.int("in_port", 0, 65535)
  has_buf = b.bool("buffered")
  bid = b.int("buffer_id", 1, 1000)
  buffer_id = b.If(has_buf, bid, -1)
  miss = b.int("miss_send_len", 0, 65535)
  calls = {}
  if b.mode == "sym":
    from pyvc.values import Union
    import z3
    bidv = Union([(has_buf, bid), (z3.Not(has_buf), None)])
    def ghost(I, st, f, args, kws):
      st.ghost["sent"] = args[1]
      st.ghost["nsent"] = st.ghost.get("nsent", 0) + 1
    calls[SW + "SoftwareSwitchBase.send"] = CallSpec("opaque", ghost=ghost, envelope="hands the message to the connection")
    b.st.ghost["nsent"] = 0
  else:
    bidv = bid if has_buf else None
    del SENT[:]
    b.set(sw, "send", lambda msg, connection=None: SENT.append(msg))
  def msg():
    return G.get("sent") if b.mode == "sym" else SENT[-1]
  def count():
    return G.get("nsent") if b.mode == "sym" else len(SENT)
  return Case(SoftwareSwitchBase.send_packet_in, [sw, in_port, bidv, frame], {"data_length": miss}, calls=calls, ensures={
    "one_packet_in": lambda res: count() == 1,
    "carries_the_buffer_id_and_port": lambda res: msg().buffer_id == bidv and msg().in_port == in_port,
    "unbuffered_packet_in_carries_the_whole_frame": lambda res: has_buf or msg().data == frame,
    "buffered_packet_in_carries_at_most_miss_send_len": lambda res: (not has_buf) or msg().data == frame[:miss],
    "total_len_is_the_length_of_the_whole_frame": lambda res: msg().total_len == n,
  })


# ---------------------------------------------------------------- messages that reference a buffer

def ghost_call(name):
  def g(I, st, f, args, kws):
    st.ghost[name + ".n"] = st.ghost.get(name + ".n", 0) + 1
    st.ghost[name + ".args"] = tuple(args[1:])
    st.ghost[name + ".kw"] = dict(kws)
  return g


CALLED = {}


CALLED_KW = {}


def recorder(name):
  def f(*args, **kw):
    CALLED.setdefault(name, []).append(args)
    CALLED_KW[name] = dict(kw)
  return f


def called_arg(b, name, i, kwname):
  """argument i (or keyword kwname) of the last call of a callee under contract; None if not given"""
  n, args = called(b, name)
  kw = (G.get(name + ".kw") or {}) if b.mode == "sym" else CALLED_KW.get(name, {})
  if kwname in kw:
    return kw[kwname]
  return args[i] if args is not None and len(args) > i else None


def called(b, name):
  """(number of calls, arguments of the last call) of a callee under contract"""
  if b.mode == "sym":
    return (G.get(name + ".n") or 0, G.get(name + ".args"))
  c = CALLED.get(name, [])
  return (len(c), c[-1] if c else None)


@unit(P, target=SW + "SoftwareSwitchBase._rx_packet_out")
def packet_out_uses_data_or_buffer(b):
  sw, lst, maxb, pool = build(b)
  po = b.new(of.ofp_packet_out)
  data = b.bytes("data", None, 0, 1600)
  n = len(data) if b.mode == "conc" else data.length()
  bid = b.int("buffer_id", 0, 0xffffffff)
  b.assume(b.Or(n == 0, bid == 0xffffffff))        # ofp_packet_out._validate
  in_port = b.int("in_port", 0, 65535)
  acts = b.list([])
  b.set(po, "_data", data)
  b.set(po, "_buffer_id", bid)
  b.set(po, "in_port", in_port)
  b.set(po, "actions", acts)
  calls = {}
  if b.mode == "sym":
    calls[SW + "SoftwareSwitchBase._process_actions_for_packet"] = CallSpec("opaque", ghost=ghost_call("direct"))
    calls[SW + "SoftwareSwitchBase._process_actions_for_packet_from_buffer"] = CallSpec("opaque", ghost=ghost_call("buffer"))
  else:
    CALLED.clear()
    b.set(sw, "_process_actions_for_packet", recorder("direct"))
    b.set(sw, "_process_actions_for_packet_from_buffer", recorder("buffer"))
  return Case(SoftwareSwitchBase._rx_packet_out, [sw, po, None], calls=calls, ensures={
    "data_is_sent_directly":
      lambda res: n == 0 or (called(b, "direct")[0] == 1 and called(b, "buffer")[0] == 0
                             and called(b, "direct")[1][0] is acts and called(b, "direct")[1][1] == data
                             and called(b, "direct")[1][2] == in_port),
    "otherwise_the_named_buffer_is_used_once":
      lambda res: n != 0 or bid == 0xffffffff or (called(b, "buffer")[0] == 1 and called(b, "direct")[0] == 0
                                                  and called(b, "buffer")[1][0] is acts and called(b, "buffer")[1][1] == bid),
    "nothing_to_send_means_nothing_happens":
      lambda res: not (n == 0 and bid == 0xffffffff) or (called(b, "buffer")[0] == 0 and called(b, "direct")[0] == 0),
  })


@unit(P, target=SW + "SoftwareSwitchBase._rx_flow_mod")
def flow_mod_releases_its_buffer(b):
  sw, lst, maxb, pool = build(b)
  fm = b.new(of.ofp_flow_mod)
  bid = b.int("buffer_id", 0, 0xffffffff)
  cmd = b.int("command", 0, 4)
  acts = b.list([])
  b.set(fm, "_buffer_id", bid)
  b.set(fm, "command", cmd)
  b.set(fm, "actions", acts)
  if b.mode == "sym":
    handlers = b.dict(dict((c, recorder("handler")) for c in range(5)))
    calls = {"contracts.c18_buffers:recorder.<locals>.f": CallSpec("opaque", ghost=ghost_call("handler")),
             SW + "SoftwareSwitchBase._process_actions_for_packet_from_buffer": CallSpec("opaque", ghost=ghost_call("buffer"))}
    b.st.ghost["handler.n"] = 0
  else:
    CALLED.clear()
    CALLED_KW.clear()
    handlers = dict((c, recorder("handler")) for c in range(5))
    calls = {}
    b.set(sw, "_process_actions_for_packet_from_buffer", recorder("buffer"))
  b.set(sw, "flow_mod_handlers", handlers)
  b.set(sw, "table", None)
  return Case(SoftwareSwitchBase._rx_flow_mod, [sw, fm, None], calls=calls, ensures={
    "buffer_named_by_a_flow_mod_is_used_once_with_its_actions":
      lambda res: bid == 0xffffffff or (called(b, "buffer")[0] == 1 and called(b, "buffer")[1][0] is acts
                                        and called(b, "buffer")[1][1] == bid),
    "no_buffer_no_release": lambda res: bid != 0xffffffff or called(b, "buffer")[0] == 0,
    # the flow-mod itself goes along, so that an error raised while its actions are applied to the buffered packet can carry
    # the request's xid and bytes (C13; seeded change C13_11 dropped the argument: such errors went out with xid 0 and no data)
    "the_request_is_handed_on_for_error_replies":
      lambda res: bid == 0xffffffff or called_arg(b, "buffer", 2, "ofp") is fm,
  })


# ---------------------------------------------------------------- the configured miss length is the one that was set
# ("at most the configured miss length of data"): set-config stores every value, 0 included - the C13 unit, re-discharged
import contracts.c13_replies as _R
unit(P, target=SW + "SoftwareSwitchBase._rx_set_config / _rx_get_config_request",
     name="the_configured_miss_length_is_what_set_config_sent")(_R.get_and_set_config)


# ---------------------------------------------------------------- a frame sent to the controller by an ACTION is buffered like a miss
# (added 2026-09-25 after seeded change C18_8 stored it with the output port 0xfffd as its ingress port: the packet-in was
# right, but releasing that buffer with FLOOD / ALL / IN_PORT actions then applied them 'to another frame' - the ingress port
# was emitted on, output(IN_PORT) emitted nothing)

def _ghost_args(name):
  def g(I, st, f, args, kws):
    st.ghost[name + ".n"] = st.ghost.get(name + ".n", 0) + 1
    st.ghost[name + ".args"] = tuple(args[1:])
    st.ghost[name + ".kw"] = dict(kws)
  return g


@unit(P, target=SW + "SoftwareSwitchBase._output_packet (OFPP_CONTROLLER)")
def output_to_the_controller_buffers_the_frame_with_its_ingress_port(b):
  sw, lst, maxb, pool = build(b)
  in_port = b.int("in_port", 0, 0xff00)
  max_len = b.int("max_len", 0, 65535)
  bid = b.int("free_buffer_id", 1, 1000)
  full = b.bool("pool_is_full")
  from pox.lib.packet.ethernet import ethernet
  ethernet()                      # (fills the class-level parser registry natively, once)
  pkt = b.new(ethernet)
  calls = {}
  got = {}
  if b.mode == "sym":
    from pyvc.values import Union
    import z3
    ret = Union([(z3.Not(full), bid), (full, None)])
    calls[SW + "SoftwareSwitchBase._buffer_packet"] = CallSpec("contract", ghost=_ghost_args("buffer"), returns=lambda I, st, a, k: ret,
                                                              envelope="_buffer_packet: the units above")
    calls[SW + "SoftwareSwitchBase.send_packet_in"] = CallSpec("contract", ghost=_ghost_args("pin"), envelope="send_packet_in: packet_in_contents")
  else:
    ret = None if full else bid
    def buf(packet, in_port=None):
      got["buffer"] = (1 + got.get("buffer", (0,))[0], (packet, in_port), {})
      return ret
    def pin(*a, **kw):
      got["pin"] = (1 + got.get("pin", (0,))[0], a, kw)
    b.set(sw, "_buffer_packet", buf)
    b.set(sw, "send_packet_in", pin)
  def call(name):
    if b.mode == "sym":
      return (G.get(name + ".n") or 0, G.get(name + ".args"), G.get(name + ".kw"))
    return got.get(name, (0, None, None))
  def pin_arg(i, kwname):
    n, a, kw = call("pin")
    return kw[kwname] if kwname in kw else a[i]
  return Case(SoftwareSwitchBase._output_packet, [sw, pkt, of.OFPP_CONTROLLER, in_port, max_len], calls=calls, raises={}, ensures={
    "the_frame_is_buffered_once_together_with_the_port_it_CAME_IN_on":
      lambda res: call("buffer")[0] == 1 and call("buffer")[1][0] is pkt and call("buffer")[1][1] == in_port,
    "one_packet_in_names_that_buffer_the_ingress_port_and_the_requested_length":
      lambda res: call("pin")[0] == 1 and pin_arg(0, "in_port") == in_port and pin_arg(1, "buffer_id") == ret
      and pin_arg(2, "packet") is pkt and pin_arg(3, "reason") == of.OFPR_ACTION and pin_arg(4, "data_length") == max_len,
  })


# the miss path hands send_packet_in the WHOLE frame, the id it was buffered under and miss_send_len (so that the packet-in can
# report the true total length): the C12 unit on rx_packet, shared (seeded change C18_9)
import contracts.c12_datapath as _D12   # noqa (c12 imports this module near its end, after the unit below is defined)
unit(P, target=SW + "SoftwareSwitchBase.rx_packet (table miss)", name="a_miss_hands_the_whole_frame_to_the_packet_in")(_D12.receive_rules_and_counters)

# an enqueue action in the list a buffer is released with must hand the frame on to the next action (C12 unit; C18_10)
unit(P, target=SW + "SoftwareSwitchBase._action_enqueue", name="an_enqueue_action_hands_the_frame_on")(_D12.enqueue_outputs_on_the_named_port)

# packing a flow-mod (the switch does it to echo a refused request in its error reply) does not change it - in particular not
# the buffer id it names, which the switch reads AFTERWARDS to release the buffer: the C01 round-trip unit (the object is
# compared with its decoded copy after pack()), shared (seeded change C18_11 cleared buffer_id as a side effect of pack())
import contracts.c01_containers as _C01   # noqa
from pyvc.api import UNITS as _UNITS
for _u in list(_UNITS.get("C01", [])):
  if _u.name == "ofp_flow_mod_0":
    unit(P, target=_u.target, name="packing_a_flow_mod_leaves_its_buffer_id_alone")(_u.fn)
