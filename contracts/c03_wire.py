"""C03 - the prerequisite normalisation a match goes through on the wire (`_wire_wildcards` / `_unwire_wildcards` /
`_normalize_wildcards`): the unit of c01_match that round-trips an arbitrary match (all wildcard bits, prefix lengths,
field values; protocol prerequisites met) through its flow-mod wire form is re-discharged for C03 - what the switch
installs is the match the controller sent, so lookup semantics (c03_match) apply to the controller's match."""
from pyvc.api import unit
import contracts.c01_match as M

P = "C03"
unit(P, target=M.MOD + "ofp_match._wire_wildcards/_unwire_wildcards (flow-mod wire form)",
     name="flow_mod_match_survives_the_wire")(M.ofp_match_in_flow_mod)
