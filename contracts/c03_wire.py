"""C03 - the prerequisite normalisation a match goes through on the wire (`_wire_wildcards` / `_unwire_wildcards` /
`_normalize_wildcards`): the unit of c01_match that round-trips an arbitrary match (all wildcard bits, prefix lengths,
field values; protocol prerequisites met) through its flow-mod wire form is re-discharged for C03 - what the switch
installs is the match the controller sent, so lookup semantics (c03_match) apply to the controller's match."""
from pyvc.api import unit
import contracts.c01_match as M

P = "C03"
unit(P, target=M.MOD + "ofp_match._wire_wildcards/_unwire_wildcards (flow-mod wire form)",
     name="flow_mod_match_survives_the_wire")(M.ofp_match_in_flow_mod)

# ... and with the priority, command, timeouts and flags the controller sent (added 2026-09-25 after seeded change C03_9 decoded the
# priority as a signed number: entries of priority >= 0x8000 then ranked below everything else in the switch's table).  The C01
# unit that round-trips a flow-mod without actions - every scalar field free in its wire range - is an obligation of C03 too.
import contracts.c01_containers as _C   # noqa
from pyvc.api import UNITS as _UNITS
for _u in list(_UNITS.get("C01", [])):
  if _u.name == "ofp_flow_mod_0":
    _w = unit(P, target=_u.target, name="flow_mod_priority_and_scalars_survive_the_wire")(_u.fn)


# the frame side: the IPv4 header fields the extraction rules read (fragment offset and flags decide whether transport ports are
# taken from the payload) are the ones on the wire - the C14 unit on an IPv4 datagram with any fragment offset, shared (C03_11)
import contracts.c14_headers as _H   # noqa
for _fr in (0x0fff, 0x1000, 0x1fff):
  def _u(b, _fr=_fr):
    return _H.ipv4_datagram_with_a_raw_payload_of_any_length(b, _fr)
  unit(P, target=_H.PK + "ipv4:ipv4.parse (fragment offset and flags)", name="ipv4_fragment_offset_%#x_is_parsed_as_sent" % _fr)(_u)
