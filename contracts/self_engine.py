"""engine self-test: micro-units with KNOWN verdicts, run at the start of every ./check.  A verdict that differs from
the expected one means the verifier itself is broken (unsound or too weak): the check stops with exit 3 before it
reports anything about the property.  Every clause named `bad_*` is FALSE for some input and must be refuted, every
`ok_*` clause is valid and must be proved."""
from pyvc.api import unit, Case, LoopSpec, CallSpec, forall

P = "SELF"


def ident(x):
  return x


def first_at_least(xs, t):
  i = 0
  while i < len(xs) and xs[i] < t:
    i += 1
  return i


def cut(data, n):
  return (data[:n], data[n:])


def may_fail(x):
  if x > 10:
    raise ValueError("too big")
  return x


class Box(object):
  def __init__(self):
    self.items = set()
    self.d = {}

  def put(self, k, v):
    self.items.add(k)


@unit(P, target="contracts.self_engine:ident")
def clauses_do_not_leak_into_each_other(b):
  """2026-09-25: forks made while evaluating one clause narrowed the state used for the following clauses"""
  a, m, z = b.bool("a"), b.bool("m"), b.bool("z")
  e = b.int("e", 0, 100)
  return Case(ident, [1], ensures={
    "bad_or_1": lambda res: a or False or z,
    "bad_or_2": lambda res: a or z,
    "bad_or_3": lambda res: ((not a) and e == 5) or m or (res is None) or z,
    "ok_excluded_middle": lambda res: a or not a,
    "bad_and": lambda res: a and z,
    "ok_after_all_that": lambda res: (a and z) or not a or not z,
    "bad_last": lambda res: z,
  })


@unit(P, target="contracts.self_engine:first_at_least")
def loop_invariants_are_checked(b):
  t = b.int("t", 0, 9)
  lst = b.list([b.int("x%d" % i, 0, 9) for i in range(3)])
  return Case(first_at_least, [lst, t], ensures={
    "ok_in_range": lambda res: 0 <= res and res <= 3,
    "bad_always_found": lambda res: res < 3,
    "ok_prefix_is_smaller": lambda res: all([lst[i] < t for i in range(3) if i < res]),
  })


@unit(P, target="contracts.self_engine:cut")
def byte_strings(b):
  data = b.bytes("data", None, 0, 64)
  n = b.int("n", 0, 64)
  return Case(cut, [data, n], ensures={
    "ok_concat": lambda res: res[0] + res[1] == data,
    "bad_first_has_n_bytes": lambda res: len(res[0]) == n,
    "ok_first_at_most_n": lambda res: len(res[0]) <= n,
  })


@unit(P, target="contracts.self_engine:may_fail")
def exceptions_need_permission(b):
  x = b.int("x", 0, 20)
  return Case(may_fail, [x], raises={ValueError: lambda: x > 10}, must_return=False, ensures={
    "ok_small": lambda res: res <= 10,
    "bad_tiny": lambda res: res < 10,
  })


@unit(P, target="contracts.self_engine:may_fail")
def exceptions_are_reported(b):
  x = b.int("x", 0, 20)
  return Case(may_fail, [x], raises={}, must_return=False, ensures={"ok_small": lambda res: res <= 10})


@unit(P, target="contracts.self_engine:Box.put")
def symbolic_set_elements_and_union_keys(b):
  box = b.new(Box)
  k1 = b.int("k1", 0, 5)
  k2 = b.int("k2", 0, 5)
  kc = b.choice("kc", ["p", "q"])
  def run(box):
    box.put(k1, 1)
    box.put(k2, 2)
    box.d[kc] = 3
    return (len(box.items), k1 in box.items, 7 in box.items, len(box.d))
  return Case(run, [box], raises={}, ensures={
    "ok_one_or_two": lambda res: res[0] == (1 if k1 == k2 else 2),
    "bad_always_two": lambda res: res[0] == 2,
    "ok_member": lambda res: res[1] is True and res[2] is False,
  })


def set_algebra(xs, ys):
  a, b_ = set(xs), set(ys)
  return (a - b_, a | b_, a & b_, a ^ b_, len(a - b_))


@unit(P, target="contracts.self_engine:set_algebra")
def set_operators_are_modelled(b):
  """2026-09-25: `set - set` was not modelled and fell through to a TypeError attributed to the program"""
  k = b.int("k", 0, 5)
  return Case(set_algebra, [[1, 2, k], [2, 3]], raises={}, ensures={
    "ok_difference": lambda res: res[4] == (1 if (k == 1 or k == 2 or k == 3) else 2),
    "bad_difference_is_always_two": lambda res: res[4] == 2,
    "ok_one_stays": lambda res: 1 in res[0] and 2 not in res[0] and 2 in res[2] and 1 not in res[2],
    "ok_union_has_all": lambda res: 1 in res[1] and 2 in res[1] and 3 in res[1] and k in res[1],
    "bad_symmetric_difference_never_has_three": lambda res: 3 not in res[3],
  })


def take_first(box, ks):
  # any() stops at the first element that is true: later elements are not evaluated
  r = any(box.take(k) for k in ks)
  r2 = all(box.take(k) for k in ks)
  return (r, r2, box.taken)


class Taker(object):
  def take(self, k):
    self.taken.append(k)
    return k > 0


@unit(P, target="contracts.self_engine:take_first")
def any_and_all_stop_at_the_deciding_element(b):
  """2026-09-25: generator expressions were evaluated eagerly, so any(f(x) for x in xs) ran f on every x"""
  k0 = b.int("k0", -3, 3)
  box = b.raw_new(Taker, taken=b.list([]))
  return Case(take_first, [box, [k0, 5, 7]], raises={}, ensures={
    "ok_both_stop_at_the_deciding_element": lambda res: res[2] == ([k0, k0, 5, 7] if k0 > 0 else [k0, 5, k0]) and res[0] is True,
    "bad_any_evaluates_everything": lambda res: len(res[2]) >= 3 + 1,
    "ok_all_answers": lambda res: res[1] is (k0 > 0),
  })


def tick(x):
  return None


def tick_all(xs):
  i = 0
  while i < len(xs):
    tick(xs[i])
    i += 1
  return i


def _mk_ghost_loop(name, inv):
  @unit(P, target="contracts.self_engine:tick_all", name=name)
  def u(b):
    """2026-09-25: ghost counters advanced by callee contracts were not havocked at a loop cut, so an invariant over them was
    only checked from their INITIAL value (a seeded change in Connection.read's loop went unreported)"""
    xs = b.bytes("xs", None, 0, 50)
    n = xs.length() if b.mode == "sym" else len(xs)
    if b.mode == "sym":
      b.st.ghost["ticks"] = 0
    def count(I, st, f, args, kws):
      from pyvc.values import concretize
      st.ghost["ticks"] = concretize(st.ghost["ticks"] + 1)
    cs = {"contracts.self_engine:tick": CallSpec("contract", ghost=count, envelope="counts its calls")}
    return Case(tick_all, [xs], calls=cs, loops={("contracts.self_engine:tick_all", 1): LoopSpec(invariant=inv, name=name)},
                ensures={"ok_returns_the_length": lambda res: res == n})
  return u


_mk_ghost_loop("ok_ghost_counter_follows_the_index", lambda v: v.g_ticks == v.i and 0 <= v.i and v.i <= len(v.xs))
_mk_ghost_loop("bad_ghost_invariant_that_only_survives_the_first_iteration",
               lambda v: v.g_ticks == v.i and 0 <= v.i and v.i <= len(v.xs) and v.g_ticks <= 1)


import collections


class Pair(collections.namedtuple("PairBase", ("left", "right"))):
  @property
  def swapped(self):
    return Pair(self[1], self[0])


def pairs(a, c):
  p = Pair(a, right=c)
  return (p.left, p.right, tuple(p.swapped), p == Pair(a, c), len(p))


@unit(P, target="contracts.self_engine:pairs")
def namedtuples_with_symbolic_fields(b):
  """2026-09-25: namedtuple instances (discovery's Link) were out of reach; now real instances whose elements may be terms"""
  a, c = b.int("a", 0, 9), b.int("c", 0, 9)
  return Case(pairs, [a, c], raises={}, ensures={
    "ok_fields_and_property": lambda res: res[0] == a and res[1] == c and res[2] == (c, a) and res[3] is True and res[4] == 2,
    "bad_swapped_is_the_same": lambda res: res[2] == (a, c),
  })


class Registry(object):
  known = set()            # class-level, shared by all instances (deliberately)
  table = {}

  def learn(self, x):
    self.known.add(x)
    self.table["n"] = len(self.known)


def shared_class_state(x):
  a, c = Registry(), Registry()
  a.learn(x)
  a.learn(7)
  return (x in c.known, 7 in c.known, 8 in c.known, len(c.known), c.table["n"])


@unit(P, target="contracts.self_engine:shared_class_state")
def mutation_of_class_level_containers_is_seen_by_every_instance(b):
  """2026-09-25: mutating a concrete class-level container was out of reach (UNDECIDED); it now lives in a per-path overlay, so
  state shared through a class attribute is modelled as shared"""
  x = b.int("x", 5, 9)
  return Case(shared_class_state, [x], raises={}, ensures={
    "ok_the_other_instance_sees_it": lambda res: res[0] is True and res[1] is True and res[2] is (x == 8),
    "ok_size": lambda res: res[3] == (1 if x == 7 else 2) and res[4] == res[3],
    "bad_instances_have_their_own": lambda res: res[1] is False,
  })


class Cb(object):
  def m(self):
    return 1


def methods(o, p):
  return (o.m == o.m, o.m is o.m, o.m == p.m, [x for x in [o.m] if x != o.m])


@unit(P, target="contracts.self_engine:methods")
def bound_methods_compare_like_python(b):
  o, p = b.new(Cb), b.new(Cb)
  return Case(methods, [o, p], raises={}, ensures={
    "ok_equal_not_identical": lambda res: res[0] is True and res[1] is False and res[2] is False and res[3] == [],
    "bad_identical": lambda res: res[1] is True,
  })


class Ticker(object):
  def __init__(self):
    self.stop = False
    self.fired = 0

  def run(self):
    try:
      while not self.stop:
        got = yield ("tick", self.fired)
        if self.stop:
          break
        self.fired += 1 if got is None else got
    except KeyError:
      yield "caught"
    return "end"


def drive(t, stop_early, inc):
  """next / send / throw / return value of an interpreted generator"""
  g = t.run()
  out = [next(g)]
  if stop_early:
    t.stop = True
  try:
    out.append(g.send(inc))
    out.append(g.throw(KeyError("x")))
    out.append(next(g))
  except StopIteration as e:
    out.append(("stop", e.value))
  return (out, t.fired)


@unit(P, target="contracts.self_engine:Ticker.run (generators)")
def generators_suspend_and_resume(b):
  t = b.new(Ticker)
  stop_early = b.bool("stop_early")
  inc = b.int("inc", 1, 5)
  return Case(drive, [t, stop_early, inc], raises={}, ensures={
    "ok_first_yield": lambda res: res[0][0] == ("tick", 0),
    "ok_stopped_early_never_fires": lambda res: (not stop_early) or (res[1] == 0 and res[0][1] == ("stop", "end") and len(res[0]) == 2),
    "ok_sent_value_is_used": lambda res: stop_early or (res[1] == inc and res[0][1] == ("tick", inc) and res[0][2] == "caught"
                                                       and res[0][3] == ("stop", "end")),
    "bad_fires_when_stopped": lambda res: res[1] == inc,
    "bad_never_fires": lambda res: res[1] == 0,
  })


EXPECTED_REFUTED_EXC = {"exceptions_are_reported": "exc.ValueError"}
