"""C11 - units of other properties on which the composition argument of C11 rests (DESIGN 7/C11: the network-level statement
is the per-packet-in decision contract composed with C12 / C04 / C18 / C02), re-discharged under C11 where a seeded change
showed that a failure there is observed as a failure of the learning-switch loop:

  flow_mod_releases_its_buffer (C18)   the action-less flow-mod the learning switch sends for a destination on the ingress port
                                       names the buffered packet: the switch must release that buffer (seeded change C11_6 kept
                                       the buffer when the flow-mod had no actions - the pool leaked one slot per such frame)
  controller_read_frames (C02/C10)     every packet-in of a burst is handed to the handler exactly once (seeded change C11_7
                                       re-delivered the messages in front of an incomplete one)"""
from pyvc.api import unit
import contracts.c18_buffers as _B
import contracts.c10_framing as _F

P = "C11"
unit(P, target=_B.SW + "SoftwareSwitchBase._rx_flow_mod", name="a_flow_mod_naming_a_buffer_releases_it_even_without_actions")(_B.flow_mod_releases_its_buffer)
unit(P, target=_F.OF01 + "Connection.read", name="every_packet_in_of_a_burst_is_handled_once", timeout_s=600)(_F.controller_read_arbitrary_bytes)

# (round 5) the packet-in the learning switch decides on must carry the WHOLE frame when the switch could not buffer it
# (seeded change C11_9 truncated unbuffered packet-ins: the flood / flow-mod then resent an incomplete frame), and a buffer
# named together with an EMPTY action list ('drop') is still released (seeded change C11_8)
unit(P, target=_B.SW + "SoftwareSwitchBase.send_packet_in", name="an_unbuffered_packet_in_carries_the_whole_frame")(_B.packet_in_contents)
unit(P, target=_B.SW + "SoftwareSwitchBase._process_actions_for_packet_from_buffer", name="a_buffer_used_with_any_action_list_is_released")(_B.use_buffer)
