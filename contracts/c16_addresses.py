"""C16 - address types: contracts on the real functions of pox/lib/addresses.py (numeric kernels)."""
from pyvc.api import unit, Case, LoopSpec
from spec.addr_spec import *
import pox.lib.addresses as A
from pox.lib.addresses import IPAddr, IPAddr6, EthAddr

P = "C16"
MOD = "pox.lib.addresses:"


# ---------------------------------------------------------------- IPv4 construction / byte order

def _ip_raw(a, order):
  return IPAddr(a, networkOrder=order).raw


@unit(P, target=MOD + "IPAddr.__init__")
def ipaddr_from_int_host_order(b):
  a = b.int("a", -(1 << 40), 1 << 40)
  return Case(_ip_raw, [a, False], ensures={
    "raw_is_big_endian_of_value": lambda res: res == be_bytes(a & M32, 4),
  })


@unit(P, target=MOD + "IPAddr.__init__")
def ipaddr_from_int_network_order(b):
  a = b.int("a", -(1 << 40), 1 << 40)
  return Case(_ip_raw, [a, True], ensures={
    "raw_is_memory_image_of_value": lambda res: res == le_bytes(a & M32, 4),
  })


def _ip_from_raw_views(raw):
  ip = IPAddr(raw)
  return (ip.raw, ip.toUnsigned(), ip.toUnsigned(networkOrder=True), ip.toSigned(), ip.toSigned(networkOrder=True),
          ip.toUnsignedN(), ip.toSignedN(), ip.unsigned_h, ip.unsigned_n, ip.toRaw())


@unit(P, target=MOD + "IPAddr.toUnsigned")
def ipaddr_views_of_raw(b):
  raw = b.bytes("raw", 4)
  return Case(_ip_from_raw_views, [raw], ensures={
    "raw_round_trip": lambda res: res[0] == raw and res[9] == raw,
    "unsigned_host": lambda res: res[1] == be_value(raw, 4) and res[7] == res[1],
    "unsigned_net": lambda res: res[2] == le_value(raw, 4) and res[5] == res[2] and res[8] == res[2],
    "signed_host": lambda res: res[3] == signed32(be_value(raw, 4)),
    "signed_net": lambda res: res[4] == signed32(le_value(raw, 4)) and res[6] == res[4],
  })


def _ip_copy(raw):
  x = IPAddr(raw)
  y = IPAddr(x)
  return (x.raw, y.raw, x == y, hash(x) == hash(y), x != y)


@unit(P, target=MOD + "IPAddr.__init__")
def ipaddr_copy_equal_hash(b):
  raw = b.bytes("raw", 4)
  return Case(_ip_copy, [raw], ensures={
    "copy_same_raw": lambda res: res[0] == res[1],
    "copy_equal": lambda res: res[2] is True or res[2] == True,
    "copy_same_hash": lambda res: res[3] == True,
    "ne_is_not_eq": lambda res: res[4] == False,
  })


def _ip_cmp(r1, r2):
  x = IPAddr(r1)
  y = IPAddr(r2)
  return (x == y, x != y, x < y, x > y, x <= y, x >= y, hash(x) == hash(y))


@unit(P, target=MOD + "_compare_helper")
def ipaddr_comparisons_consistent(b):
  r1 = b.bytes("r1", 4)
  r2 = b.bytes("r2", 4)
  return Case(_ip_cmp, [r1, r2], ensures={
    "eq_iff_same_bytes": lambda res: res[0] == (r1 == r2),
    "ne_is_negation": lambda res: res[1] == (not res[0]),
    "trichotomy": lambda res: (res[0] + res[2] + res[3]) == 1,
    "le_is_lt_or_eq": lambda res: res[4] == (res[2] or res[0]),
    "ge_is_gt_or_eq": lambda res: res[5] == (res[3] or res[0]),
    "eq_implies_same_hash": lambda res: (not res[0]) or res[6],
  })


def _ip_setattr(raw, v):
  x = IPAddr(raw)
  x._value = v
  return x


@unit(P, target=MOD + "IPAddr.__setattr__")
def ipaddr_immutable(b):
  raw = b.bytes("raw", 4)
  v = b.int("v")
  return Case(_ip_setattr, [raw, v], must_return=False, raises={TypeError: True},
              ensures={"never_returns": lambda res: False})


# ---------------------------------------------------------------- membership, masks

def _in_network(a, n, bits):
  return IPAddr(a).inNetwork((IPAddr(n), bits))


@unit(P, target=MOD + "IPAddr.inNetwork")
def ipaddr_in_network_tuple(b):
  a = b.int("a", 0, M32)
  n = b.int("n", 0, M32)
  bits = b.int("bits", 0, 32)
  # the network may carry host bits (what parse_cidr(..., allow_host=True) returns): they do not take part
  return Case(_in_network, [a, n, bits], ensures={
    "membership_is_prefix_equality": lambda res: res == in_net(a, n, bits, 32),
  })


def _in_network_raw_n(a, n, bits):
  # the network part given as a plain int (converted by inNetwork itself)
  return IPAddr(a).inNetwork((n, bits))


@unit(P, target=MOD + "IPAddr.inNetwork")
def ipaddr_in_network_int_network(b):
  a = b.int("a", 0, M32)
  n = b.int("n", 0, M32)
  bits = b.int("bits", 0, 32)
  return Case(_in_network_raw_n, [a, n, bits], ensures={
    "membership_is_prefix_equality": lambda res: res == in_net(a, n, bits, 32),
  })


@unit(P, target=MOD + "cidr_to_netmask")
def cidr_to_netmask_value(b):
  bits = b.int("bits", 0, 32)
  return Case(lambda n: A.cidr_to_netmask(n).toUnsigned(), [bits], ensures={
    "mask_has_bits_leading_ones": lambda res: res == mask4(bits),
  })


@unit(P, target=MOD + "netmask_to_cidr")
def netmask_to_cidr_of_mask(b):
  bits = b.int("bits", 0, 32)
  inv = LoopSpec(
    invariant=lambda v: 0 <= v.c and v.c <= bits and v.v == mask4(bits) * (1 << v.c),
    variant=lambda v: bits - v.c)
  return Case(lambda n: A.netmask_to_cidr(IPAddr(mask4(n))), [bits],
              loops={(MOD + "netmask_to_cidr", 1): inv},
              ensures={"inverse_of_cidr_to_netmask": lambda res: res == bits})


@unit(P, target=MOD + "netmask_to_cidr")
def netmask_to_cidr_rejects_non_masks(b):
  m = b.int("m", 0, M32)
  # all 2^32 values: either it is a contiguous mask and the count is returned, or it is rejected
  inv = LoopSpec(
    invariant=lambda v: 0 <= v.c and v.c <= 32 and v.v == m * (1 << v.c) and (m // (1 << (32 - v.c))) == (1 << v.c) - 1,
    variant=lambda v: 32 - v.c)
  return Case(lambda x: A.netmask_to_cidr(IPAddr(x)), [m],
              loops={(MOD + "netmask_to_cidr", 1): inv},
              raises={RuntimeError: lambda: not is_mask4(m)},
              ensures={"count_only_for_masks": lambda res: 0 <= res and res <= 32 and m == mask4(res)})


@unit(P, target=MOD + "infer_netmask")
def infer_netmask_classful(b):
  a = b.int("a", 0, M32)
  return Case(lambda x: A.infer_netmask(IPAddr(x)), [a], ensures={
    "classful_network_bits": lambda res: res == classful_bits(a),
  })


def _multicast(a):
  return IPAddr(a).is_multicast


@unit(P, target=MOD + "IPAddr.is_multicast")
def ipaddr_is_multicast(b):
  a = b.int("a", 0, M32)
  return Case(_multicast, [a], ensures={
    "class_d_or_e_top_three_bits": lambda res: res == ((a >> 29) == 7),
  })


# ---------------------------------------------------------------- Ethernet

def _eth_views(raw):
  e = EthAddr(raw)
  return (e.toRaw(), e.raw, e.to_tuple(), e.toTuple(), e.isMulticast(), e.is_multicast, e.isLocal(), e.is_local,
          e.isGlobal(), e.isBridgeFiltered(), e.is_bridge_filtered, len(e))


@unit(P, target=MOD + "EthAddr.__init__")
def ethaddr_views_of_raw(b):
  raw = b.bytes("raw", 6)
  return Case(_eth_views, [raw], ensures={
    "raw_round_trip": lambda res: res[0] == raw and res[1] == raw,
    "tuple_of_bytes": lambda res: res[2] == (raw[0], raw[1], raw[2], raw[3], raw[4], raw[5]) and res[3] == res[2],
    "multicast_is_group_bit": lambda res: res[4] == (raw[0] % 2 == 1) and res[5] == res[4],
    "local_is_u_l_bit": lambda res: res[6] == ((raw[0] // 2) % 2 == 1) and res[7] == res[6] and res[8] == (not res[6]),
    "bridge_filtered_range": lambda res: res[9] == (raw[0] == 1 and raw[1] == 0x80 and raw[2] == 0xc2 and raw[3] == 0
                                                    and raw[4] == 0 and raw[5] <= 0x0f) and res[10] == res[9],
    "len_is_6": lambda res: res[11] == 6,
  })


def _eth_forms(raw):
  e = EthAddr(raw)
  t = EthAddr(e.to_tuple())
  l = EthAddr(list(e.to_tuple()))
  c = EthAddr(e)
  n = EthAddr(None)
  return (t.toRaw(), l.toRaw(), c.toRaw(), n.toRaw(), c == e, hash(c) == hash(e))


@unit(P, target=MOD + "EthAddr.__init__")
def ethaddr_binary_forms(b):
  raw = b.bytes("raw", 6)
  return Case(_eth_forms, [raw], ensures={
    "tuple_form": lambda res: res[0] == raw,
    "list_form": lambda res: res[1] == raw,
    "copy_form": lambda res: res[2] == raw,
    "none_is_zero": lambda res: res[3] == b"\0\0\0\0\0\0",
    "copy_equal_and_same_hash": lambda res: res[4] == True and res[5] == True,
  })


def _eth_cmp(r1, r2):
  x = EthAddr(r1)
  y = EthAddr(r2)
  return (x == y, x != y, x < y, x > y, x <= y, x >= y, hash(x) == hash(y))


@unit(P, target=MOD + "_compare_helper")
def ethaddr_comparisons_consistent(b):
  r1 = b.bytes("r1", 6)
  r2 = b.bytes("r2", 6)
  return Case(_eth_cmp, [r1, r2], ensures={
    "eq_iff_same_bytes": lambda res: res[0] == (r1 == r2),
    "ne_is_negation": lambda res: res[1] == (not res[0]),
    "trichotomy": lambda res: (res[0] + res[2] + res[3]) == 1,
    "order_is_bytewise": lambda res: res[2] == (be_value(r1, 6) < be_value(r2, 6)),
    "le_is_lt_or_eq": lambda res: res[4] == (res[2] or res[0]),
    "ge_is_gt_or_eq": lambda res: res[5] == (res[3] or res[0]),
    "eq_implies_same_hash": lambda res: (not res[0]) or res[6],
  })


def _eth_setattr(raw, v):
  x = EthAddr(raw)
  x._value = v
  return x


@unit(P, target=MOD + "EthAddr.__setattr__")
def ethaddr_immutable(b):
  raw = b.bytes("raw", 6)
  v = b.bytes("v", 6)
  return Case(_eth_setattr, [raw, v], must_return=False, raises={TypeError: True},
              ensures={"never_returns": lambda res: False})


def _eth_ctor(raw):
  return EthAddr(raw)


def _mk_badlen(n):
  def u(b):
    raw = b.bytes("raw", n)
    colons = sum([1 if x == 58 else 0 for x in raw]) if b.mode == "conc" else None
    if b.mode == "conc":
      b.assume(colons != 5)
    else:
      import z3
      from pyvc.sbytes import byte_at
      b.assume(z3.Sum([z3.If(byte_at(raw, i, b.st) == 58, 1, 0) for i in range(n)]) != 5 if n else True)
    return Case(_eth_ctor, [raw], must_return=False, raises={RuntimeError: True},
                ensures={"never_accepted": lambda res: False})
  u.__name__ = "ethaddr_rejects_binary_length_%d" % n
  return u


for _n in [0, 1, 2, 3, 4, 5, 7, 8, 9, 10, 11, 13, 14, 15, 16]:
  unit(P, target=MOD + "EthAddr.__init__")(_mk_badlen(_n))


# ---------------------------------------------------------------- IPv6 numeric kernels

def _ip6_views(raw):
  x = IPAddr6(raw, raw=True)
  y = IPAddr6.from_raw(raw)
  z = IPAddr6(x)
  return (x.raw, x.num, y.raw, z.raw, len(x), x == y, hash(x) == hash(y))


@unit(P, target=MOD + "IPAddr6.num")
def ipaddr6_views_of_raw(b):
  raw = b.bytes("raw", 16)
  return Case(_ip6_views, [raw], ensures={
    "raw_round_trip": lambda res: res[0] == raw and res[2] == raw and res[3] == raw,
    "num_is_big_endian": lambda res: res[1] == be_value(raw, 16),
    "len_16": lambda res: res[4] == 16,
    "equal_and_same_hash": lambda res: res[5] == True and res[6] == True,
  })


def _ip6_in_network(raw, nraw, bits):
  return IPAddr6(raw, raw=True).in_network((IPAddr6(nraw, raw=True), bits))


@unit(P, target=MOD + "IPAddr6.in_network")
def ipaddr6_in_network_tuple(b):
  raw = b.bytes("raw", 16)
  nraw = b.bytes("nraw", 16)
  bits = b.int("bits", 0, 128)
  return Case(_ip6_in_network, [raw, nraw, bits], ensures={
    "membership_is_prefix_equality":
      lambda res: res == in_net(be_value(raw, 16), be_value(nraw, 16), bits, 128),
  })


@unit(P, target=MOD + "IPAddr6.from_num")
def ipaddr6_from_num(b):
  n = b.int("n", 0, (1 << 128) - 1)
  return Case(IPAddr6.from_num, [n], ensures={
    "is_an_IPAddr6": lambda res: type(res) is IPAddr6,
    "value": lambda res: res.raw == be_bytes(n, 16),
  })


@unit(P, target=MOD + "IPAddr6.cidr_to_netmask")
def ipaddr6_cidr_to_netmask(b):
  return Case(lambda: [IPAddr6.cidr_to_netmask(i) for i in range(129)], [], ensures={
    "is_an_IPAddr6": lambda res: all([type(x) is IPAddr6 for x in res]),
    "mask_value": lambda res: all([res[i].num == mask6(i) for i in range(129)]),
  })


@unit(P, target=MOD + "IPAddr6.netmask_to_cidr")
def ipaddr6_netmask_to_cidr(b):
  # all 129 masks; the path forks on the prefix length (the shift in mask6), after which the
  # loop runs on concrete numbers and is unrolled exactly
  bits = b.int("bits", 0, 128)
  return Case(lambda n: IPAddr6.netmask_to_cidr(IPAddr6(be_bytes(mask6(n), 16), raw=True)), [bits],
              ensures={"inverse_of_mask": lambda res: res == bits})


def _to_ipv4(raw):
  return IPAddr6(raw, raw=True).to_ipv4(check_ipv4=False).raw


@unit(P, target=MOD + "IPAddr6.to_ipv4")
def ipaddr6_to_ipv4(b):
  raw = b.bytes("raw", 16)
  return Case(_to_ipv4, [raw], ensures={"last_four_bytes": lambda res: res == raw[12:16]})


def _set_mac(raw, mac):
  return IPAddr6(raw, raw=True).set_mac(EthAddr(mac)).raw


@unit(P, target=MOD + "IPAddr6.set_mac")
def ipaddr6_set_mac_eui64(b):
  raw = b.bytes("raw", 16)
  mac = b.bytes("mac", 6)
  return Case(_set_mac, [raw, mac], ensures={
    "prefix_kept": lambda res: res[0:8] == raw[0:8],
    "modified_eui64": lambda res: res[8:16] == bytes([mac[0] ^ 2, mac[1], mac[2], 0xff, 0xfe, mac[3], mac[4], mac[5]]),
  })
