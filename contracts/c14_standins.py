"""C14 - bounded stand-ins: the checksum routine against an independent RFC 1071 implementation (exact value, all
lengths 0..1500 and skip_word), checksums of assembled packets, and build -> bytes -> parse -> bytes for the
protocols whose parsers are loop-and-dictionary heavy TLV / text walkers (no contracts written)."""
import random
import struct
from pyvc.api import standin
import pox.lib.packet as pkt
from pox.lib.packet.packet_utils import checksum
from pox.lib.addresses import EthAddr, IPAddr, IPAddr6

P = "C14"


def rfc1071(data):
  """independent implementation: one's complement of the one's complement sum of big-endian 16 bit words"""
  if len(data) % 2:
    data = data + b"\0"
  s = 0
  for i in range(0, len(data), 2):
    s += (data[i] << 8) | data[i + 1]
  while s >> 16:
    s = (s & 0xffff) + (s >> 16)
  return (~s) & 0xffff


@standin(P, bound="every length 0..1500 x {zeros, ones, 3 random fills}; 2000 random buffers; skip_word at every word of "
                  "64-byte buffers", target="pox.lib.packet.packet_utils:checksum")
def checksum_equals_rfc1071(tier, seed):
  rng = random.Random(seed)
  for n in range(0, 1501):
    fills = [bytes(n), b"\xff" * n] + [bytes(rng.getrandbits(8) for _ in range(n)) for _ in range(3)]
    for fi, data in enumerate(fills):
      def t(data=data):
        got, want = checksum(data), rfc1071(data)
        if got != want and not (got in (0, 0xffff) and want in (0, 0xffff)):
          return "checksum %#06x, RFC 1071 gives %#06x" % (got, want)
      yield ("len=%d fill=%d" % (n, fi), t)
  for r in range(2000 if tier == "quick" else 40000):
    data = bytes(rng.getrandbits(8) for _ in range(rng.randrange(0, 300)))
    def t(data=data):
      got, want = checksum(data), rfc1071(data)
      if got != want and not (got in (0, 0xffff) and want in (0, 0xffff)):
        return "checksum %#06x, RFC 1071 gives %#06x" % (got, want)
    yield ("random %d %s" % (r, data[:8].hex()), t)
  for r in range(50):
    data = bytes(rng.getrandbits(8) for _ in range(64))
    for w in range(32):
      def t(data=data, w=w):
        zeroed = data[:2 * w] + b"\0\0" + data[2 * w + 2:]
        if checksum(data, 0, w) != checksum(zeroed):
          return "skip_word=%d differs from zeroing the word" % w
      yield ("skip %d word %d" % (r, w), t)


def eth(t, payload):
  e = pkt.ethernet(src=EthAddr("00:00:00:00:00:01"), dst=EthAddr("00:00:00:00:00:02"), type=t)
  e.payload = payload
  return e


def ip(proto, payload, src="10.0.0.1", dst="10.0.0.2"):
  i = pkt.ipv4(srcip=IPAddr(src), dstip=IPAddr(dst), protocol=proto)
  i.payload = payload
  return i


def udp(sp, dp, payload):
  u = pkt.udp(srcport=sp, dstport=dp)
  u.payload = payload
  return u


def check_roundtrip(e):
  p = e.pack()
  e2 = pkt.ethernet(raw=p)
  if not e2.parsed:
    return "frame does not parse"
  # every layer that was built parses again (an unparsed layer re-serialises its raw bytes: equal bytes alone prove nothing)
  q, q2 = e, e2
  while isinstance(q, pkt.packet_base):
    if not isinstance(q2, pkt.packet_base) or type(q2) is not type(q):
      return "layer %s was built, the frame parses to %s there" % (type(q).__name__, type(q2).__name__)
    if not q2.parsed:
      return "layer %s of the built frame does not parse" % type(q).__name__
    q, q2 = q.next, q2.next
  p2 = e2.pack()
  if p2 != p:
    return "parse + pack gives different bytes (%d vs %d)" % (len(p2), len(p))
  # IPv4 header checksum and UDP/TCP/ICMP checksums against the independent implementation
  ipp = e2.find("ipv4")
  if ipp is not None:
    hl = ipp.hl * 4
    off = len(p) - len(ipp.pack())
    hdr = p[off:off + hl]
    if rfc1071(hdr[:10] + b"\0\0" + hdr[12:]) != int.from_bytes(hdr[10:12], "big"):
      return "IPv4 header checksum is not the RFC 1071 checksum of the header"
    seg = p[off + hl:off + ipp.iplen]
    ph = hdr[12:20] + bytes([0, ipp.protocol]) + struct.pack("!H", len(seg))
    if ipp.protocol == 17 and len(seg) >= 8:
      want = rfc1071(ph + seg[:6] + b"\0\0" + seg[8:]) or 0xffff
      if int.from_bytes(seg[6:8], "big") != want:
        return "UDP checksum %#x, pseudo-header sum gives %#x" % (int.from_bytes(seg[6:8], "big"), want)
    if ipp.protocol == 6 and len(seg) >= 20:
      want = rfc1071(ph + seg[:16] + b"\0\0" + seg[18:])
      got = int.from_bytes(seg[16:18], "big")
      if got != want and not (got in (0, 0xffff) and want in (0, 0xffff)):
        return "TCP checksum %#x, pseudo-header sum gives %#x" % (got, want)
    if ipp.protocol == 1 and len(seg) >= 4:
      want = rfc1071(seg[:2] + b"\0\0" + seg[4:])
      got = int.from_bytes(seg[2:4], "big")
      if got != want and not (got in (0, 0xffff) and want in (0, 0xffff)):
        return "ICMP checksum %#x, RFC 1071 gives %#x" % (got, want)
  return None


@standin(P, bound="payload lengths 0..64, 1499, 1500 x boundary field values for UDP/TCP(with options)/ICMP "
                  "echo+unreachable over IPv4, plain and VLAN-tagged; LLC/SNAP",
         target="pox.lib.packet: ipv4/udp/tcp/icmp checksums and lengths")
def core_stack_checksums(tier, seed):
  rng = random.Random(seed)
  lens = list(range(0, 65)) + [1499, 1500]
  for n in lens:
    data = bytes(rng.getrandbits(8) for _ in range(n))
    for sp, dp in ((0, 0), (1, 65535), (1234, 80), (65535, 1)):
      yield ("udp len=%d %d>%d" % (n, sp, dp), lambda data=data, sp=sp, dp=dp: check_roundtrip(eth(0x800, ip(17, udp(sp, dp, data)))))
    def tcp_case(data=data, n=n):
      t = pkt.tcp(srcport=1000 + n, dstport=80, seq=0xffffffff, ack=n, win=65535, flags=0x12)
      if n % 3 == 0:
        t.options = [pkt.tcp_opt(pkt.tcp_opt.MSS, 1460), pkt.tcp_opt(pkt.tcp_opt.NOP, None),
                     pkt.tcp_opt(pkt.tcp_opt.WSOPT, 7)]
      t.payload = data
      return check_roundtrip(eth(0x800, ip(6, t)))
    yield ("tcp len=%d" % n, tcp_case)
    def icmp_case(data=data, n=n):
      ec = pkt.echo(id=n, seq=65535 - n)
      ec.payload = data
      ic = pkt.icmp(type=8 if n % 2 else 0)
      ic.payload = ec
      return check_roundtrip(eth(0x800, ip(1, ic)))
    yield ("icmp echo len=%d" % n, icmp_case)
    def vlan_case(data=data, n=n):
      v = pkt.vlan(id=n % 4096, pcp=n % 8, eth_type=0x800)
      v.payload = ip(17, udp(5000, 6000, data))
      return check_roundtrip(eth(0x8100, v))
    yield ("vlan udp len=%d" % n, vlan_case)
  # TCP option stacks of every packed length modulo 4 (the header is padded to a multiple of 4 and the data offset must count
  # the padding; added 2026-09-25 after seeded change C14_8 computed the offset before padding - the only stack used until
  # then, MSS + NOP + WSOPT, is 8 bytes long)
  O = pkt.tcp_opt
  stacks = {"none": [], "nop": [(O.NOP, None)], "sackperm": [(O.SACKPERM, None)], "wsopt": [(O.WSOPT, 7)], "mss": [(O.MSS, 536)],
            "mss+wsopt": [(O.MSS, 1460), (O.WSOPT, 2)], "tsopt": [(O.TSOPT, (1, 0xffffffff))],
            "mss+sackperm+tsopt+nop+wsopt": [(O.MSS, 1460), (O.SACKPERM, None), (O.TSOPT, (7, 9)), (O.NOP, None), (O.WSOPT, 14)]}
  for name, stack in sorted(stacks.items()):
    for n in (0, 1, 5, 64):
      def opt_case(stack=stack, n=n):
        data = bytes(range(1, n + 1))
        t = pkt.tcp(srcport=4000, dstport=80, seq=1, ack=2, win=3, flags=0x18)
        t.options = [O(ty, v) for ty, v in stack]
        t.payload = data
        e = eth(0x800, ip(6, t))
        r = check_roundtrip(e)
        if r:
          return r
        t2 = pkt.ethernet(raw=e.pack()).find("tcp")
        packed = sum(len(O(ty, v).pack()) for ty, v in stack)
        want_hdr = 20 + (packed + 3) // 4 * 4
        if t2.off * 4 != want_hdr:
          return "data offset %d words, header with %d option bytes occupies %d bytes" % (t2.off, packed, want_hdr)
        if t2.next != data:
          return "payload after the options is %r, built with %r" % (t2.next, data)
        got = [(o.type, o.val) for o in t2.options if o.type not in (O.EOL,) ][:len(stack)]
        if got != [(ty, v) for ty, v in stack]:
          return "options parse back as %r" % (got,)
        return None
      yield ("tcp options %s payload=%d" % (name, n), opt_case)
  def unreach_case():
    inner = ip(17, udp(1, 2, b"abcdefgh"))
    un = pkt.unreach()
    un.payload = inner
    ic = pkt.icmp(type=3, code=3)
    ic.payload = un
    return check_roundtrip(eth(0x800, ip(1, ic)))
  yield ("icmp unreachable", unreach_case)
  def snap_case():
    l = pkt.llc(dsap=0xaa, ssap=0xaa, control=3, oui=b"\0\0\0", eth_type=0x0800, length=8)
    l.payload = ip(17, udp(7, 9, b"snap"))
    return check_roundtrip(eth(60, l))
  yield ("llc snap", snap_case)


@standin(P, bound="LLDP, MPLS, GRE, VXLAN, IGMP, RIP, EAPOL/EAP, IPv6 (+hop-by-hop free) with ICMPv6/UDP/TCP: boundary "
                  "field values x payload lengths 0..40; TLV / entry lists up to 3",
         target="pox.lib.packet: lldp mpls gre vxlan igmp rip eapol eap ipv6 icmpv6", timeout_s=200)
def other_protocols_round_trip(tier, seed):
  rng = random.Random(seed)
  for n in range(0, 41):
    data = bytes(rng.getrandbits(8) for _ in range(n))
    def lldp_case(n=n):
      l = pkt.lldp()
      l.tlvs.append(pkt.chassis_id(subtype=pkt.chassis_id.SUB_LOCAL, id=b"dpid:%x" % (n * 0x1111111111,)))
      l.tlvs.append(pkt.port_id(subtype=pkt.port_id.SUB_PORT, id=str(n * 1000).encode()))
      l.tlvs.append(pkt.ttl(ttl=n * 1500))
      for j in range(n % 4):
        l.tlvs.append(pkt.system_description(payload=b"d" * (j * 50)))
      # the 9-bit TLV length: information strings of 255..511 bytes (all 9 bits used)
      big = [0, 255, 256, 257, 300, 383, 384, 510, 511][n % 9]
      if big:
        l.tlvs.append(pkt.system_name(payload=bytes((i * 7 + n) & 255 for i in range(big))))
      l.tlvs.append(pkt.end_tlv())
      return check_roundtrip(eth(0x88cc, l))
    yield ("lldp %d" % n, lldp_case)
    def mpls_case(n=n, data=data):
      m = pkt.mpls(label=(n * 26214) & 0xfffff, tc=n % 8, s=1, ttl=n * 6)
      m.payload = data
      return check_roundtrip(eth(0x8847, m))
    yield ("mpls %d" % n, mpls_case)
    def gre_case(n=n, data=data):
      g = pkt.gre()
      g.payload = data
      return check_roundtrip(eth(0x800, ip(47, g)))
    yield ("gre %d" % n, gre_case)
    def vxlan_case(n=n, data=data):
      v = pkt.vxlan(vni=(n * 409600 + 1) & 0xffffff)
      v.payload = eth(0x9000, data)
      return check_roundtrip(eth(0x800, ip(17, udp(4789, 4789, v))))
    yield ("vxlan %d" % n, vxlan_case)
    def igmp_case(n=n):
      ig = pkt.igmp(ver_and_type=[0x11, 0x12, 0x16, 0x17][n % 4], address=IPAddr(0xe0000000 + n), max_response_time=n * 6)
      return check_roundtrip(eth(0x800, ip(2, ig)))
    yield ("igmp %d" % n, igmp_case)
    def igmp_extra_case(n=n):
      # an IGMPv3 query: the v2 header followed by further fields (kept in .extra), which the checksum covers as well (added
      # 2026-09-25 after seeded change C14_11 summed the first eight bytes only)
      ig = pkt.igmp(ver_and_type=0x11, address=IPAddr(0xe0000000 + n), max_response_time=n * 6)
      ig.extra = bytes([n & 7, 125, 0, n % 3]) + bytes(range(4 * (n % 3)))
      r = check_roundtrip(eth(0x800, ip(2, ig)))
      if r:
        return r
      p = eth(0x800, ip(2, ig)).pack()
      msg = p[14 + 20:]
      if rfc1071(msg[:2] + b"\0\0" + msg[4:]) != int.from_bytes(msg[2:4], "big"):
        return "IGMP checksum %#x is not the RFC 1071 checksum of the %d byte message" % (int.from_bytes(msg[2:4], "big"), len(msg))
      return None
    yield ("igmp v3 query with %d extra bytes" % (4 + 4 * (n % 3)), igmp_extra_case)
    def rip_case(n=n):
      r = pkt.rip()
      r.command = 1 + n % 2
      r.version = 2
      for j in range(1 + n % 4):      # RFC 2453: a RIP message carries 1..25 entries (the parser refuses 0)
        en = pkt.RIPEntry()
        en.ip = IPAddr(0x0a000000 + (j << 16))
        en.netmask = IPAddr(0xffff0000)
        en.metric = 1 + (n + j) % 16
        en.route_tag = n * 1000
        r.entries.append(en)
      return check_roundtrip(eth(0x800, ip(17, udp(520, 520, r))))
    yield ("rip %d" % n, rip_case)
    def eap_case(n=n):
      ea = pkt.eap(code=1 + n % 4, id=n * 6)
      ep = pkt.eapol(type=pkt.eapol.EAP_TYPE)
      ep.payload = ea
      return check_roundtrip(eth(0x888e, ep))
    yield ("eapol %d" % n, eap_case)
    def v6_case(n=n, data=data):
      i6 = pkt.ipv6(srcip=IPAddr6("fe80::%x" % (n + 1)), dstip=IPAddr6("ff02::1"))
      kind = n % 3
      if kind == 0:
        ic = pkt.icmpv6()
        ic.type = 128 + n % 2
        i6.next_header_type = 58
        i6.payload = ic
      elif kind == 1:
        i6.next_header_type = 17
        i6.payload = udp(1000 + n, 2000, data)
      else:
        t = pkt.tcp(srcport=n, dstport=443, seq=n, ack=0, win=1)
        t.payload = data
        i6.next_header_type = 6
        i6.payload = t
      return check_roundtrip(eth(0x86dd, i6))
    yield ("ipv6 %d" % n, v6_case)
  def dhcp_case():
    d = pkt.dhcp()
    d.op = 1
    d.chaddr = EthAddr("00:00:00:00:00:01")
    d.xid = 7
    d.options[pkt.dhcp.MSG_TYPE_OPT] = pkt.DHCP.DHCPMsgTypeOption(pkt.dhcp.DISCOVER_MSG)
    return check_roundtrip(eth(0x800, ip(17, udp(68, 67, d))))
  yield ("dhcp discover", dhcp_case)
  def dns_case():
    q = pkt.dns()
    q.questions.append(pkt.dns.question("example.com", 1, 1))
    q.id = 5
    return check_roundtrip(eth(0x800, ip(17, udp(5555, 53, q))))
  yield ("dns query", dns_case)
