"""C15 - further parsers proved total on arbitrary bytes (added 2026-09-25), same contract as c15_parsers.py: construction from
ANY byte string raises nothing, `parsed` is a bool, the remainder is bytes / a packet object / None, pack() and str() of the
result raise nothing.  Sub-parsers are callees."""
from contracts.c15_parsers import _mk
from pox.lib.packet.mpls import mpls
from pox.lib.packet.eapol import eapol
from pox.lib.packet.eap import eap
from pox.lib.packet.vxlan import vxlan

for _n, _c, _o in [("mpls", mpls, "mpls:mpls"), ("eapol", eapol, "eapol:eapol"), ("eap", eap, "eap:eap"), ("vxlan", vxlan, "vxlan:vxlan")]:
  _mk(_n, _c, _o)

# tried with the same recipe and NOT within reach of the evaluator as it stands (they stay with the bounded stand-in):
#   igmp   - GroupRecord.unpack_new loops over range(<count read from the frame>): needs a loop invariant over a list being built
#   tcp    - the option walker pads with b"\0" * <symbolic count> (symbolic bytes repetition is not modelled)
#   gre, rip, ipv6, icmpv6, lldp - the evaluation does not finish within 400 s (per-TLV / per-entry loops over symbolic lengths)
