"""C16 - textual forms (string walking: split/rsplit/int(s,16)/'%02x'): bounded stand-ins.
The real functions run natively over an enumerated space; oracle = independent implementation
(Python's `ipaddress` module and direct formatting).  Labelled *bounded* in the evidence."""
import random
import ipaddress
from pyvc.api import standin
import pox.lib.addresses as A
from pox.lib.addresses import IPAddr, IPAddr6, EthAddr
from pox.lib.util import dpid_to_str, str_to_dpid

P = "C16"
BYTE_EDGES = [0, 1, 2, 9, 10, 15, 16, 0x7f, 0x80, 0xa0, 0xfe, 0xff]


def _rejects(f, *a):
  try:
    f(*a)
  except Exception:
    return True
  return False


@standin(P, bound="every byte position x 256 values (others 0x00/0xff), 12^2 edge pairs for the 16-bit "
                  "extension, 20k random 64-bit ids (quick) / 400k (thorough)", target="pox.lib.util:dpid_to_str")
def dpid_round_trip(tier, seed):
  rng = random.Random(seed)
  ds = set()
  for pos in range(8):
    for v in range(256):
      for fill in (0, 0xff):
        d = 0
        for i in range(8):
          d = (d << 8) | (v if i == pos else fill)
        ds.add(d)
  for a in BYTE_EDGES:
    for b_ in BYTE_EDGES:
      ds.add((a << 56) | (b_ << 48) | 0x0000aabbccddeeff)
  for _ in range(20000 if tier == "quick" else 400000):
    ds.add(rng.getrandbits(64))
  for d in sorted(ds):
    def t(d=d):
      s = dpid_to_str(d)
      low = "-".join("%02x" % ((d >> (8 * (5 - i))) & 0xff) for i in range(6))
      want = low + ("|%d" % (d >> 48) if (d >> 48) else "")
      if s != want:
        return "dpid_to_str(%#x) = %r, canonical form is %r" % (d, s, want)
      if str_to_dpid(s) != d:
        return "str_to_dpid(%r) = %#x != %#x" % (s, str_to_dpid(s), d)
      sl = dpid_to_str(d, alwaysLong=True)
      if str_to_dpid(sl) != d:
        return "always-long form %r does not round-trip" % sl
    yield ("dpid=%#018x" % d, t)


@standin(P, bound="6 byte positions x 256 values x 2 fills + 3k random addresses; forms: canonical ':' / '-' / 12 hex "
                  "digits / loose x:x:x:x:x:x / upper case; malformed: every single-character deletion/insertion of "
                  "a separator, wrong separators, 16/18-char strings", target="pox.lib.addresses:EthAddr.__init__")
def ethaddr_text_forms(tier, seed):
  rng = random.Random(seed)
  raws = set()
  for pos in range(6):
    for v in range(256):
      for fill in (0, 0xff):
        raws.add(bytes([v if i == pos else fill for i in range(6)]))
  for _ in range(3000 if tier == "quick" else 60000):
    raws.add(bytes(rng.getrandbits(8) for _ in range(6)))
  for raw in sorted(raws):
    def t(raw=raw):
      e = EthAddr(raw)
      canon = ":".join("%02x" % x for x in raw)
      if str(e) != canon or e.to_str() != canon or e.toStr() != canon:
        return "str(EthAddr(%r)) = %r, canonical %r" % (raw, str(e), canon)
      forms = [canon, canon.replace(":", "-"), canon.replace(":", ""), canon.upper(),
               ":".join("%x" % x for x in raw), canon.encode()]
      for f in forms:
        if f == canon.replace(":", "") and False:
          continue
        try:
          g = EthAddr(f)
        except Exception as ex:
          return "accepted form %r rejected: %s" % (f, ex)
        if g.toRaw() != raw or not (g == e) or hash(g) != hash(e):
          return "form %r parses to %r, expected %r" % (f, g.toRaw(), raw)
      if repr(e) != "EthAddr('%s')" % canon:
        return "repr %r" % repr(e)
    yield ("raw=" + raw.hex(), t)
  base = "01:23:45:67:89:ab"
  bad = [base[:i] + base[i + 1:] for i in range(len(base))] + \
        [base[:i] + ":" + base[i:] for i in range(len(base) + 1)] + \
        [base.replace(":", "."), base.replace(":", " "), "01:23:45:67:89-ab", "01-23-45-67-89:ab", "0123456789a",
         "0123456789abc", "gg:23:45:67:89:ab", "01:23:45:67:89:zz", "", "::::::", "01:23:45:67:89", "1:2:3:4:5",
         "01:23:45:67:89:ab:cd", "0x:23:45:67:89:ab", b"\x01\x02\x03\x04\x05", b"\x01\x02\x03\x04\x05\x06\x07",
         # loose form with a group that does not fit one byte
         "100:0:0:0:0:0", "1:2:3:4:5:666", "0:0:0:0:0:100"]
  for s in bad:
    if len(s) == 6:
      continue     # six characters / bytes are the raw binary form
    def t(s=s):
      try:
        e = EthAddr(s)
      except Exception:
        return None
      # accepted: must then be one of the documented forms with the right value
      txt = s.decode() if isinstance(s, bytes) else s
      parts = txt.replace("-", ":").split(":")
      try:
        want = bytes(int(p, 16) for p in parts) if len(parts) == 6 else bytes.fromhex(txt)
      except Exception:
        return "malformed %r accepted as %s" % (s, e)
      if len(want) != 6 or e.toRaw() != want:
        return "malformed %r mis-parsed as %s" % (s, e)
    yield ("malformed=%r" % (s,), t)


@standin(P, bound="4 octet positions x 256 values x 2 fills + 33 masks x 2k random addresses: text round trip, CIDR and "
                  "netmask text parsing against the ipaddress module; malformed quads and prefixes",
         target="pox.lib.addresses:parse_cidr")
def ipv4_text_and_cidr(tier, seed):
  rng = random.Random(seed)
  addrs = set()
  for pos in range(4):
    for v in range(256):
      for fill in (0, 0xff):
        addrs.add(int.from_bytes(bytes([v if i == pos else fill for i in range(4)]), "big"))
  for _ in range(2000 if tier == "quick" else 50000):
    addrs.add(rng.getrandbits(32))
  for a in sorted(addrs):
    def t(a=a):
      ip = IPAddr(a)
      want = str(ipaddress.IPv4Address(a))
      if str(ip) != want or ip.toStr() != want:
        return "str(IPAddr(%#x)) = %r, canonical %r" % (a, str(ip), want)
      back = IPAddr(want)
      if not (back == ip) or back.toUnsigned() != a or hash(back) != hash(ip):
        return "re-parse of %r gives %s" % (want, back)
      if IPAddr(want.encode()).toUnsigned() != a:
        return "bytes text form mis-parsed"
      if repr(ip) != "IPAddr('%s')" % want:
        return "repr %r" % repr(ip)
    yield ("ipv4=%#010x" % a, t)
  some = sorted(addrs)[::max(1, len(addrs) // (60 if tier == "quick" else 600))]
  for bits in range(33):
    net = ipaddress.IPv4Network((0, bits))
    maskint = int(net.netmask)
    for a in some:
      def t(a=a, bits=bits, maskint=maskint):
        base = a & maskint
        txt = "%s/%d" % (ipaddress.IPv4Address(base), bits)
        r = A.parse_cidr(txt)
        if r[0].toUnsigned() != base or r[1] != bits:
          return "parse_cidr(%r) = %r" % (txt, r)
        txtm = "%s/%s" % (ipaddress.IPv4Address(base), ipaddress.IPv4Address(maskint))
        r = A.parse_cidr(txtm)
        if r[0].toUnsigned() != base or r[1] != bits:
          return "parse_cidr(%r) = %r" % (txtm, r)
        if A.cidr_to_netmask(bits).toUnsigned() != maskint:
          return "cidr_to_netmask(%d)" % bits
        if A.netmask_to_cidr(str(ipaddress.IPv4Address(maskint))) != bits:
          return "netmask_to_cidr text"
        # host bits present: rejected unless allow_host
        if a != base:
          ht = "%s/%d" % (ipaddress.IPv4Address(a), bits)
          if not _rejects(A.parse_cidr, ht):
            return "parse_cidr(%r) accepted although host bits are set" % ht
          r = A.parse_cidr(ht, allow_host=True)
          if r[0].toUnsigned() != a or r[1] != bits:
            return "parse_cidr(%r, allow_host) = %r" % (ht, r)
        # membership, textual network forms
        ip = IPAddr(a)
        if ip.inNetwork(txt) is not True or ip.inNetwork(str(ipaddress.IPv4Address(base)), bits) is not True:
          return "%s not in its own network %s" % (ip, txt)
        other = (a ^ (1 << (32 - bits))) if bits else None
        if other is not None and IPAddr(other).inNetwork(txt):
          return "%s reported inside %s" % (IPAddr(other), txt)
        gn = ip.get_network(bits)
        if gn[0].toUnsigned() != base or gn[1] != bits:
          return "get_network(%d) = %r" % (bits, gn)
      yield ("cidr a=%#010x bits=%d" % (a, bits), t)
  bad = ["1.2.3.4/33", "1.2.3.4/-1", "1.2.3.4/255.0.255.0", "1.2.3.4/0.0.0.1", "1.2.3/8x", "1.2.3.4/", "/8",
         "1.2.3.256/8", "1.2.3.4/8/9", "a.b.c.d/8", ""]
  for s in bad:
    def t(s=s):
      try:
        r = A.parse_cidr(s, allow_host=True)
      except Exception:
        return None
      return "malformed CIDR %r accepted as %r" % (s, r)
    yield ("malformed-cidr=%r" % s, t)
  badq = ["1.2.3.256", "1.2.3.4.5", "1..2.3", "a.b.c.d", "", "1.2.3.-4", "01.2.3.4x"]
  for s in badq:
    def t(s=s):
      try:
        ip = IPAddr(s)
      except Exception:
        return None
      try:
        want = int(ipaddress.IPv4Address(s))
      except Exception:
        return "malformed address %r accepted as %s" % (s, ip)
      if ip.toUnsigned() != want:
        return "address %r mis-parsed as %s" % (s, ip)
    yield ("malformed-quad=%r" % s, t)


def _groups(num):
  return [(num >> (16 * (7 - i))) & 0xffff for i in range(8)]


@standin(P, bound="all 2^8 zero/non-zero group patterns x 4 group-value choices; 129 masks; 2k random (quick): canonical "
                  "RFC 5952 text vs the ipaddress module, re-parse, mixed notation, CIDR parsing, malformed text",
         target="pox.lib.addresses:IPAddr6.to_str")
def ipv6_text(tier, seed):
  rng = random.Random(seed)
  nums = set()
  for pat in range(256):
    for val in (1, 0xffff, 0xa0, 0x1000):
      n = 0
      for i in range(8):
        n = (n << 16) | (val if (pat >> (7 - i)) & 1 else 0)
      nums.add(n)
  for bits in range(129):
    nums.add(((1 << bits) - 1) << (128 - bits))
  for _ in range(2000 if tier == "quick" else 60000):
    nums.add(rng.getrandbits(128))
  for n in sorted(nums):
    def t(n=n):
      raw = n.to_bytes(16, "big")
      ip = IPAddr6(raw, raw=True)
      ref = ipaddress.IPv6Address(n)
      mapped = (n >> 32) == 0xffff
      s = str(ip)
      if not mapped:
        if s != ref.compressed:
          return "str = %r, RFC 5952 form is %r" % (s, ref.compressed)
      else:
        if int(ipaddress.IPv6Address(s)) != n:
          return "mixed notation %r does not denote the address" % s
      back = IPAddr6(s)
      if back.raw != raw or not (back == ip) or hash(back) != hash(ip):
        return "re-parse of %r gives %r" % (s, back.raw)
      full = ip.to_str(zero_drop=False, section_drop=False, ipv4=False)
      if full != ref.exploded:
        return "exploded form %r vs %r" % (full, ref.exploded)
      if IPAddr6(ref.exploded).raw != raw or IPAddr6(ref.compressed).raw != raw:
        return "reference text forms mis-parsed"
      if ip.num != n:
        return "num"
      # the mixed notation on request (last 32 bits as a dotted quad), for EVERY address - the zero run may end right in front
      # of the quad (::1.2.3.4, 1:2:3:4::1.2.3.4; added 2026-09-25 after seeded change C16_11 printed ':::1.2.3.4' there)
      m = ip.to_str(ipv4=True)
      try:
        if int(ipaddress.IPv6Address(m)) != n:
          return "mixed notation %r denotes another address" % m
      except ValueError:
        return "mixed notation %r is not an IPv6 address text" % m
      if IPAddr6(m).raw != raw:
        return "re-parse of the mixed notation %r gives %r" % (m, IPAddr6(m).raw)
    yield ("ipv6=%032x" % n, t)
  # construction from an IPv4 address: the IPv4-mapped address ::ffff:a.b.c.d (RFC 4291 2.5.5.2)
  v4s = set()
  for pos in range(4):
    for v in (0, 1, 127, 128, 255):
      for fill in (0, 0xff):
        v4s.add(bytes([v if i == pos else fill for i in range(4)]))
  for _ in range(50):
    v4s.add(bytes(rng.getrandbits(8) for _ in range(4)))
  for r4 in sorted(v4s):
    def t(r4=r4):
      ip = IPAddr6(IPAddr(r4))
      want = int(ipaddress.IPv6Address("::ffff:" + str(ipaddress.IPv4Address(r4))))
      if ip.num != want:
        return "IPAddr6(IPAddr(%s)) = %s, the IPv4-mapped address is %s" % (ipaddress.IPv4Address(r4), ip,
                                                                             ipaddress.IPv6Address(want))
      if not ip.is_ipv4_mapped or ip.to_ipv4().toRaw() != r4:
        return "IPAddr6(IPAddr(..)) does not convert back"
    yield ("from-ipv4=%s" % r4.hex(), t)
  some = sorted(nums)[::max(1, len(nums) // (12 if tier == "quick" else 100))]
  for bits in range(129):
    mask = ((1 << bits) - 1) << (128 - bits)
    for n in some:
      def t(n=n, bits=bits, mask=mask):
        base = n & mask
        txt = "%s/%d" % (ipaddress.IPv6Address(base), bits)
        r = IPAddr6.parse_cidr(txt)
        if r[0].num != base or r[1] != bits:
          return "parse_cidr(%r) = %r" % (txt, r)
        ip = IPAddr6(n.to_bytes(16, "big"), raw=True)
        if ip.in_network(txt) is not True:
          return "%s not in %s" % (ip, txt)
        if bits and IPAddr6((n ^ (1 << (128 - bits))).to_bytes(16, "big"), raw=True).in_network(txt):
          return "neighbour reported inside %s" % txt
        if n != base and not _rejects(IPAddr6.parse_cidr, "%s/%d" % (ipaddress.IPv6Address(n), bits)):
          return "host bits accepted"
        nm = IPAddr6.cidr_to_netmask(bits)
        if nm.num != mask or IPAddr6.netmask_to_cidr(nm) != bits:
          return "netmask conversion for %d" % bits
      yield ("cidr6 n=%032x bits=%d" % (n, bits), t)
  bad = ["1::2::3", ":::", "1:2:3:4:5:6:7:8:9", "12345::", "g::1", "1:2:3:4:5:6:7", "::1/129", "1.2.3.4", "",
         "1:2:3:4:5:6:7:8:", ":1::2", "1::2:", ":::1", "1:::2", "1:2:3", ":1:2:3:4:5:6:7", "1:2:3:4:5:6:7:", "::1/64/3", "::/64/3", "1::/16/",
         "1:2:3:4:5:6:1.2.3.4:7", "1:2:3:4:5:6:7:1.2.3.4"]
  for s in bad:
    def t(s=s):
      try:
        if "/" in s:
          r = IPAddr6.parse_cidr(s)
        else:
          r = IPAddr6(s)
      except Exception:
        return None
      try:
        ref = ipaddress.IPv6Network(s, strict=False) if "/" in s else ipaddress.IPv6Address(s)
      except Exception:
        return "malformed %r accepted as %r" % (s, r)
    yield ("malformed6=%r" % s, t)
