"""C07 - the cooperative Lock (pox/lib/recoco/recoco.py) (the sequential protocol of the thread hand-off: c07_handoff.py):
at most one task holds the lock, a release hands it to exactly one waiter if there is one and re-queues that waiter
once, a non-blocking attempt never waits, and nobody waits while the lock is free (representation invariant kept by
both operations).  The interleaving statement of C07 itself (callLater, ScheduleTask, Synchronizer, the select hub's wake-up
against every thread schedule) is not decided by contracts over single calls - see c07_handoff.py for what is."""
from pyvc.api import unit, Case, CallSpec
from pox.lib.recoco.recoco import BaseTask, Lock
from contracts.c06_scheduler import new_sched, Logger, log, RC

# ---------------------------------------------------------------- C07 (cooperative part): Lock

def _mk_lock(op):
  @unit("C07", target=RC + ("Lock._do_acquire" if op == "acquire" else "Lock._do_release"), name="lock_" + op)
  def u(b):
    tasks = [b.raw_new(BaseTask, priority=1, id=i, rv=None) for i in range(3)]
    held = b.bool("held")
    n_wait = b.choice("waiting", [0, 1])
    blocking = b.bool("blocking")
    s, hub = new_sched(b, [])
    cs = {}
    if b.mode == "sym":
      from pyvc.values import Union
      cs = {"contracts.c06_scheduler:Hub.break_idle": Logger("break_idle", "wakes the select hub")}
      lk = b.raw_new(Lock, _locked=Union([(held, tasks[0]), (b.Not(held), None)]),
                     _waiting=Union([(g, b.set_of([tasks[1]] if n == 1 else [])) for g, n in n_wait.alts]))
      # representation invariant: nobody waits while the lock is free
      b.assume(b.Or(held, n_wait.alts[0][0]))
    else:
      lk = object.__new__(Lock)
      lk._locked = tasks[0] if held else None
      lk._waiting = set([tasks[1]] if n_wait == 1 else [])
      b.assume(held or n_wait == 0)
    def run(lk, s):
      if op == "acquire":
        r = lk._do_acquire(tasks[2], s, blocking)
      else:
        r = lk._do_release(tasks[0], s)
      return (r, lk._locked, [t for t in lk._waiting], [t for t in s._ready], tasks[2].rv, tasks[1].rv)
    if op == "acquire":
      ens = {
        "a_free_lock_is_taken_at_once": lambda res: held or (res[0] is True and res[1] is tasks[2] and res[4] is True and len(res[2]) == 0),
        "a_held_lock_is_not_stolen": lambda res: not held or res[1] is tasks[0],
        "a_non_blocking_attempt_on_a_held_lock_reports_false_and_does_not_wait":
          lambda res: not (held and not blocking) or (res[0] is True and res[4] is False and all([t is not tasks[2] for t in res[2]])),
        "a_blocking_attempt_on_a_held_lock_waits": lambda res: not (held and blocking) or (res[0] is None and any([t is tasks[2] for t in res[2]])),
        "nobody_waits_while_the_lock_is_free": lambda res: res[1] is not None or len(res[2]) == 0,
      }
      rs = {}
    else:
      ens = {
        "released_to_exactly_one_waiter_if_any":
          lambda res: (res[1] is tasks[1] and len(res[2]) == 0 and len(res[3]) == 1 and res[3][0] is tasks[1] and res[5] is True)
                      if n_wait == 1 else (res[1] is None and len(res[3]) == 0),
        "nobody_waits_while_the_lock_is_free": lambda res: res[1] is not None or len(res[2]) == 0,
      }
      rs = {RuntimeError: lambda: not held}
    return Case(run, [lk, s], calls=cs, raises=rs, must_return=False, ensures=ens)
  u.bound = "one holder, 0..1 waiters, one further task"


_mk_lock("acquire")
_mk_lock("release")
