"""C15 - parsing untrusted frames never fails: bounded stand-in over all parsers.
Corpus = the valid frames of the C14 stand-ins (every protocol); every truncation length and every single-byte
corruption (x 4 values quick / 256 thorough) of each, plus random frames.  Oracle: ethernet(raw=...) returns,
`parsed` is a bool, the unparsed remainder is bytes, and pack(), str() and dump() of the result do not raise."""
import random
from pyvc.api import standin
import pox.lib.packet as pkt
from pox.lib.addresses import EthAddr, IPAddr, IPAddr6
import contracts.c14_standins as B

P = "C15"


def corpus():
  frames = {}
  rng = random.Random(7)
  data = bytes(rng.getrandbits(8) for _ in range(24))
  def add(name, f):
    try:
      frames[name] = f().pack()
    except Exception:
      pass      # protocols that cannot be serialised on this tree are C14 findings
  add("udp", lambda: B.eth(0x800, B.ip(17, B.udp(1234, 80, data))))
  def tcp():
    t = pkt.tcp(srcport=1000, dstport=80, seq=1, ack=2, win=3, flags=0x12)
    t.options = [pkt.tcp_opt(pkt.tcp_opt.MSS, 1460), pkt.tcp_opt(pkt.tcp_opt.NOP, None), pkt.tcp_opt(pkt.tcp_opt.WSOPT, 7),
                 pkt.tcp_opt(pkt.tcp_opt.SACKPERM, None), pkt.tcp_opt(pkt.tcp_opt.TSOPT, (1, 2))]
    t.payload = data
    return B.eth(0x800, B.ip(6, t))
  add("tcp", tcp)
  def icmp_echo():
    ec = pkt.echo(id=1, seq=2)
    ec.payload = data
    ic = pkt.icmp(type=8)
    ic.payload = ec
    return B.eth(0x800, B.ip(1, ic))
  add("icmp_echo", icmp_echo)
  def unreach():
    un = pkt.unreach()
    un.payload = B.ip(17, B.udp(1, 2, b"abcdefgh"))
    ic = pkt.icmp(type=3, code=3)
    ic.payload = un
    return B.eth(0x800, B.ip(1, ic))
  add("icmp_unreach", unreach)
  def texc():
    te = pkt.time_exceeded()
    te.payload = B.ip(17, B.udp(1, 2, b"abcdefgh"))
    ic = pkt.icmp(type=11, code=0)
    ic.payload = te
    return B.eth(0x800, B.ip(1, ic))
  add("icmp_time_exceeded", texc)
  add("arp", lambda: B.eth(0x806, pkt.arp(opcode=1, hwsrc=EthAddr("00:00:00:00:00:01"), protosrc=IPAddr("10.0.0.1"),
                                          protodst=IPAddr("10.0.0.2"))))
  def vlan():
    v = pkt.vlan(id=5, pcp=3, eth_type=0x800)
    v.payload = B.ip(17, B.udp(5000, 6000, data))
    return B.eth(0x8100, v)
  add("vlan", vlan)
  def snap():
    l = pkt.llc(dsap=0xaa, ssap=0xaa, control=3, oui=b"\0\0\0", eth_type=0x0800, length=8)
    l.payload = B.ip(17, B.udp(7, 9, b"snap"))
    return B.eth(60, l)
  add("snap", snap)
  def llc_plain():
    l = pkt.llc(dsap=0x42, ssap=0x42, control=3, length=3)
    l.payload = data
    return B.eth(40, l)
  add("llc", llc_plain)
  def lldp():
    l = pkt.lldp()
    l.tlvs.append(pkt.chassis_id(subtype=pkt.chassis_id.SUB_LOCAL, id=b"dpid:1"))
    l.tlvs.append(pkt.port_id(subtype=pkt.port_id.SUB_PORT, id=b"1"))
    l.tlvs.append(pkt.ttl(ttl=120))
    l.tlvs.append(pkt.system_description(payload=b"desc"))
    l.tlvs.append(pkt.end_tlv())
    return B.eth(0x88cc, l)
  add("lldp", lldp)
  def mpls():
    m = pkt.mpls(label=5, tc=1, s=1, ttl=9)
    m.payload = data
    return B.eth(0x8847, m)
  add("mpls", mpls)
  def gre():
    g = pkt.gre()
    g.payload = data
    return B.eth(0x800, B.ip(47, g))
  add("gre", gre)
  def vxlan():
    v = pkt.vxlan(vni=77)
    v.payload = B.eth(0x9000, data)
    return B.eth(0x800, B.ip(17, B.udp(4789, 4789, v)))
  add("vxlan", vxlan)
  add("igmp", lambda: B.eth(0x800, B.ip(2, pkt.igmp(ver_and_type=0x16, address=IPAddr("224.0.0.5")))))
  def rip():
    r = pkt.rip()
    r.cmd = 2
    r.version = 2
    en = pkt.RIPEntry()
    en.ip = IPAddr("10.1.0.0")
    en.netmask = IPAddr("255.255.0.0")
    en.metric = 3
    r.entries.append(en)
    return B.eth(0x800, B.ip(17, B.udp(520, 520, r)))
  add("rip", rip)
  def eapol():
    ep = pkt.eapol(type=pkt.eapol.EAP_TYPE)
    ep.payload = pkt.eap(code=3, id=1)
    return B.eth(0x888e, ep)
  add("eapol", eapol)
  def v6(kind):
    def f():
      i6 = pkt.ipv6(srcip=IPAddr6("fe80::1"), dstip=IPAddr6("ff02::1"))
      if kind == "icmp6":
        ic = pkt.icmpv6()
        ic.type = 128
        i6.next_header_type = 58
        i6.payload = ic
      else:
        i6.next_header_type = 17
        i6.payload = B.udp(1000, 2000, data)
      return B.eth(0x86dd, i6)
    return f
  add("ipv6_icmp6", v6("icmp6"))
  add("ipv6_udp", v6("udp"))
  # hand-made frames for parsers whose builders do not work on this tree (bytes per the RFCs)
  # BOOTP header: op htype hlen hops | xid | secs flags | ciaddr yiaddr siaddr giaddr | chaddr[16] | sname[64] file[128]
  # = 236 bytes, then the magic cookie and the options.  (2026-09-25: the header here was 4 bytes too long, so the
  # magic was never recognised and the option walker was never reached - corrected)
  def dhcp_frame(options, overload=False):
    hdr = bytes([1, 1, 6, 0]) + bytes([0, 0, 0, 5]) + bytes(4) + bytes(16) + bytes([0, 0, 0, 0, 0, 1]) + bytes(10)
    sname = (bytes([12, 3]) + b"abc" + bytes([255])).ljust(64, b"\0") if overload else bytes(64)
    file_ = (bytes([15, 2]) + b"xy" + bytes([255])).ljust(128, b"\0") if overload else bytes(128)
    d = hdr + sname + file_ + bytes([99, 130, 83, 99]) + options
    assert len(hdr + sname + file_) == 236
    return B.eth(0x800, B.ip(17, B.udp(68, 67, d))).pack()
  frames["dhcp_raw"] = dhcp_frame(bytes([53, 1, 1, 255]))
  frames["dhcp_raw_request"] = dhcp_frame(bytes([53, 1, 3, 50, 4, 10, 0, 0, 9, 54, 4, 10, 0, 0, 1, 55, 4, 1, 3, 6, 15,
                                                 61, 7, 1, 0, 0, 0, 0, 0, 1, 12, 4]) + b"host" + bytes([0, 0, 255]))
  frames["dhcp_raw_ack"] = dhcp_frame(bytes([53, 1, 5, 1, 4, 255, 255, 255, 0, 3, 8, 10, 0, 0, 1, 10, 0, 0, 2, 6, 4, 8, 8, 8, 8,
                                             51, 4, 0, 0, 14, 16, 58, 4, 0, 0, 7, 8, 59, 4, 0, 0, 12, 78, 15, 3]) + b"lan"
                                      + bytes([28, 4, 10, 0, 0, 255, 56, 3]) + b"msg" + bytes([57, 2, 2, 64, 60, 3]) + b"pox"
                                      + bytes([255]))
  frames["dhcp_raw_overload"] = dhcp_frame(bytes([53, 1, 2, 52, 1, 3, 255]), overload=True)
  frames["dhcp_raw_no_end"] = dhcp_frame(bytes([53, 1, 1, 0, 0]))
  # RFC 3396 long option: the same code in several instances whose data is concatenated - 256 bytes and more in all, so that
  # re-serialisation has to split it again (added 2026-09-25 after seeded change C15_8 lost the split for parsed options)
  frames["dhcp_raw_long_option"] = dhcp_frame(bytes([53, 1, 5, 43, 200]) + bytes(range(200)) + bytes([43, 56]) + bytes(range(56))
                                              + bytes([43, 3, 7, 8, 9, 255]))
  # frames for header shapes the builders above do not produce (added 2026-09-25 after a review of raising paths that the
  # corpus could not reach: extension headers, EAP bodies, GRE routing entries, IGMPv3 sources)
  mac = bytes.fromhex("0102030405060a0b0c0d0e0f")
  v6 = lambda nh, plen: bytes.fromhex("60000000") + bytes([plen >> 8, plen & 255, nh, 64]) + bytes.fromhex(
    "fe800000000000000000000000000001fe800000000000000000000000000002")
  udp8 = bytes.fromhex("04d2162e0008") + bytes(2)
  frames["ipv6_hop_by_hop_udp"] = mac + bytes.fromhex("86dd") + v6(0, 16) + bytes([17, 0, 1, 4, 0, 0, 0, 0]) + udp8
  frames["ipv6_routing_udp"] = mac + bytes.fromhex("86dd") + v6(43, 16) + bytes([17, 0, 0, 0, 0, 0, 0, 0]) + udp8
  frames["ipv6_dest_opts_frag_udp"] = mac + bytes.fromhex("86dd") + v6(60, 24) + bytes([44, 0, 1, 4, 0, 0, 0, 0]) \
    + bytes([17, 0, 0, 0, 0, 0, 0, 1]) + udp8
  frames["ipv6_ext_header_cut"] = mac + bytes.fromhex("86dd") + v6(0, 8)
  # a CHAIN of extension headers (hop-by-hop -> routing -> destination options -> udp): the bytes left for the second and
  # third header depend on how the parser accounts for the first (added 2026-09-25; every truncation is enumerated below)
  frames["ipv6_ext_chain_udp"] = mac + bytes.fromhex("86dd") + v6(0, 36) + bytes([43, 0, 1, 4, 0, 0, 0, 0]) \
    + bytes([60, 0, 0, 0, 0, 0, 0, 0]) + bytes([17, 0, 1, 4, 0, 0, 0, 0]) + udp8 + b"data"
  frames["eap_request_identity"] = mac + bytes.fromhex("888e") + bytes([1, 0, 0, 9, 1, 1, 0, 9, 1]) + b"user"
  frames["eap_request_md5"] = mac + bytes.fromhex("888e") + bytes([1, 0, 0, 6, 1, 2, 0, 6, 4, 0])
  ip4 = lambda proto, body: bytes([0x45, 0]) + bytes([(20 + len(body)) >> 8, (20 + len(body)) & 255]) + bytes.fromhex(
    "0001000040") + bytes([proto]) + bytes(2) + bytes.fromhex("0a0000010a000002") + body
  frames["gre_routing"] = mac + bytes.fromhex("0800") + ip4(47, bytes.fromhex("400008000000000000000000") + bytes(4))
  frames["gre_all_options"] = mac + bytes.fromhex("0800") + ip4(47, bytes.fromhex("b0000800") + bytes(4) + bytes.fromhex(
    "0000002a00000007") + b"data")
  frames["igmp_v3_report_sources"] = mac + bytes.fromhex("0800") + ip4(2, bytes.fromhex("2200000000000001") + bytes.fromhex(
    "01000100e0000001") + bytes.fromhex("0a000005"))
  frames["igmp_v3_report_cut_source"] = mac + bytes.fromhex("0800") + ip4(2, bytes.fromhex("2200000000000001") + bytes.fromhex(
    "01000100e0000001") + bytes([255]))
  # LLDP chassis / port ids of every subtype with id lengths around the sizes their printers expect (a MAC of 6 bytes,
  # an IPv4 address of 1+4 bytes): the TLV length is attacker-controlled
  def lldp_frame(ch_sub, ch_id, po_sub, po_id):
    tlv = lambda t, body: bytes([(t << 1) | (len(body) >> 8), len(body) & 255]) + body
    body = tlv(1, bytes([ch_sub]) + ch_id) + tlv(2, bytes([po_sub]) + po_id) + tlv(3, bytes([0, 120])) + tlv(0, b"")
    return bytes.fromhex("0180c200000e") + bytes.fromhex("0a0b0c0d0e0f") + bytes.fromhex("88cc") + body
  for sub in (1, 2, 3, 4, 5, 6, 7):
    for n in (0, 1, 4, 5, 6, 7):
      frames["lldp_chassis_sub%d_len%d" % (sub, n)] = lldp_frame(sub, bytes(range(1, n + 1)), 3, bytes(6))
      frames["lldp_port_sub%d_len%d" % (sub, n)] = lldp_frame(4, bytes(6), sub, bytes(range(1, n + 1)))
  # ICMPv6 messages of every type the module has a class for, WITH A VALID CHECKSUM (the type-specific parsers only run when
  # the checksum verifies; added 2026-09-25 after a sub-agent noticed that printing / re-serialising several of them raises)
  def icmp6_frame(body):
    s6, d6 = bytes.fromhex("fe800000000000000000000000000001"), bytes.fromhex("fe800000000000000000000000000002")
    ph = s6 + d6 + bytes([0, 0, len(body) >> 8, len(body) & 255, 0, 0, 0, 58])
    z = ph + body[:2] + bytes(2) + body[4:]
    z = z + (bytes(1) if len(z) % 2 else b"")
    tot = sum(z[i] * 256 + z[i + 1] for i in range(0, len(z), 2))
    while tot >> 16:
      tot = (tot & 0xffff) + (tot >> 16)
    c = (~tot) & 0xffff
    body = body[:2] + bytes([c >> 8, c & 255]) + body[4:]
    return mac + bytes.fromhex("86dd") + bytes.fromhex("60000000") + bytes([len(body) >> 8, len(body) & 255, 58, 255]) + s6 + d6 + body
  tgt = bytes.fromhex("fe8000000000000000000000000000aa")
  o_sll, o_tll = bytes([1, 1]) + bytes(range(6)), bytes([2, 1]) + bytes(range(6))
  o_mtu = bytes([5, 1, 0, 0, 0, 0, 5, 220])
  o_pfx = bytes([3, 4, 64, 0xc0]) + bytes([0, 0, 0, 100, 0, 0, 0, 50]) + bytes(4) + tgt
  quoted = bytes.fromhex("60000000") + bytes([0, 8, 17, 64]) + tgt + tgt + bytes(8)
  for nm, body in (("unreach", bytes([1, 0, 0, 0]) + bytes(4) + quoted), ("too_big", bytes([2, 0, 0, 0, 0, 0, 5, 0]) + quoted),
                   ("time_exceeded", bytes([3, 0, 0, 0]) + bytes(4) + quoted), ("param_problem", bytes([4, 0, 0, 0, 0, 0, 0, 6]) + quoted),
                   ("echo_request", bytes([128, 0, 0, 0, 0, 1, 0, 2]) + b"ping"), ("echo_reply", bytes([129, 0, 0, 0, 0, 1, 0, 2]) + b"ping"),
                   ("mld_query", bytes([130, 0, 0, 0, 0, 10, 0, 0]) + tgt), ("mld_report", bytes([131, 0, 0, 0, 0, 0, 0, 0]) + tgt),
                   ("router_solicitation", bytes([133, 0, 0, 0]) + bytes(4) + o_sll),
                   ("router_advertisement", bytes([134, 0, 0, 0, 64, 0x80, 7, 8]) + bytes(8) + o_sll + o_mtu + o_pfx),
                   ("neighbor_solicitation", bytes([135, 0, 0, 0]) + bytes(4) + tgt + o_sll),
                   ("neighbor_solicitation_no_option", bytes([135, 0, 0, 0]) + bytes(4) + tgt),
                   ("neighbor_advertisement", bytes([136, 0, 0, 0, 0x60, 0, 0, 0]) + tgt + o_tll),
                   ("redirect", bytes([137, 0, 0, 0]) + bytes(4) + tgt + tgt)):
    frames["icmpv6_" + nm] = icmp6_frame(body)
  # TCP headers filled to the 60-byte maximum with one long option of an unknown kind / a selective acknowledgement / MPTCP
  def tcp_frame(opts):
    opts = opts + bytes([1]) * (-len(opts) % 4)
    seg = bytes([0, 1, 0, 2, 0, 0, 0, 3, 0, 0, 0, 4, ((20 + len(opts)) // 4) << 4, 0x10, 0, 100, 0, 0, 0, 0]) + opts + b"payload"
    return mac + bytes.fromhex("0800") + ip4(6, seg)
  frames["tcp_unknown_option_38_bytes"] = tcp_frame(bytes([99, 38]) + bytes(range(36)))
  frames["tcp_unknown_option_40_bytes"] = tcp_frame(bytes([99, 40]) + bytes(range(38)))
  frames["tcp_sack_two_blocks"] = tcp_frame(bytes([5, 18]) + bytes(range(16)))
  frames["tcp_mptcp_capable"] = tcp_frame(bytes([30, 12, 0x00, 0x81]) + bytes(8))
  frames["tcp_mptcp_dss"] = tcp_frame(bytes([30, 8, 0x20, 0x01]) + bytes(4))
  dns = bytes([0, 5, 1, 0, 0, 1, 0, 0, 0, 0, 0, 0]) + b"\x07example\x03com\x00" + bytes([0, 1, 0, 1])
  frames["dns_raw"] = B.eth(0x800, B.ip(17, B.udp(5555, 53, dns))).pack()
  return frames


def _behind_header(p):
  """number of bytes the layer was given behind its own header, from what the parser itself recorded (None: not modelled)"""
  if not isinstance(getattr(p, "raw", None), bytes):
    return None
  if isinstance(p, pkt.ethernet): return len(p.raw) - 14
  if isinstance(p, pkt.vlan): return len(p.raw) - 4
  if isinstance(p, pkt.ipv4): return min(p.iplen, len(p.raw)) - p.hl * 4
  if isinstance(p, pkt.udp): return min(p.len, len(p.raw)) - 8
  if isinstance(p, pkt.tcp): return len(p.raw) - p.off * 4
  if isinstance(p, pkt.mpls): return len(p.raw) - 4
  return None


def probe(raw):
  e = pkt.ethernet(raw=raw)
  if e.parsed not in (True, False):
    return "parsed is %r" % (e.parsed,)
  # "keeps the unparsed remainder as raw bytes": a layer whose header parsed and that was given bytes behind it hands them on
  # (as the next packet object or as bytes), it does not drop them
  q = e
  while isinstance(q, pkt.packet_base):
    if q.parsed:
      g = _behind_header(q)
      if g is not None and g > 0 and (q.next is None or (isinstance(q.next, bytes) and len(q.next) == 0)):
        return "%s parsed its header, was given %d more bytes and keeps %r as the remainder" % (type(q).__name__, g, q.next)
    q = q.next
  # walk the chain: every layer is a packet object or the raw remainder
  p = e
  depth = 0
  while p is not None and not isinstance(p, bytes):
    if not isinstance(p, pkt.packet_base):
      return "layer %r is neither a packet nor bytes" % (type(p).__name__,)
    p = p.next
    depth += 1
    if depth > 50:
      return "header chain does not end"
  out = e.pack()
  if not isinstance(out, bytes):
    return "pack() returned %s" % type(out).__name__
  str(e)
  e.dump()
  return None


def probe_deep(raw):
  """like probe(), without the chain-length sanity bound (these frames ARE deep)"""
  e = pkt.ethernet(raw=raw)
  out = e.pack()
  if not isinstance(out, bytes):
    return "pack() returned %s" % type(out).__name__
  str(e)
  e.dump()
  e.effective_ethertype
  return None


@standin(P, bound="corpus of valid frames of every supported protocol: every truncation length; every byte position x "
                  "{0x00,0xff,+1,^0x80} (quick) / all 256 values (thorough); 20k random frames (quick) / 10^5 per seed",
         target="pox.lib.packet: every parser reachable from ethernet.parse", timeout_s=280)
def hostile_frames_never_raise(tier, seed):
  rng = random.Random(seed)
  frames = corpus()
  for name, good in sorted(frames.items()):
    yield ("%s intact" % name, lambda good=good: probe(good))
    for k in range(len(good)):
      yield ("%s trunc=%d" % (name, k), lambda good=good, k=k: probe(good[:k]))
    for pos in range(len(good)):
      vals = range(256) if tier != "quick" else [0, 255, (good[pos] + 1) & 255, good[pos] ^ 0x80]
      for v in vals:
        if v == good[pos]:
          continue
        yield ("%s byte%d=%d" % (name, pos, v),
               lambda good=good, pos=pos, v=v: probe(good[:pos] + bytes([v]) + good[pos + 1:]))
  # frames that nest one header type as deep as an Ethernet payload allows (1500 bytes): 802.1Q tags (4 bytes each) and MPLS
  # labels (4 bytes each, bottom-of-stack bit clear).  Parsing, printing and packing recurse per layer.
  mac = bytes.fromhex("0102030405060a0b0c0d0e0f")
  for n in (50, 200, 373):
    deep = mac + bytes.fromhex("8100") + bytes.fromhex("00018100") * (n - 1) + bytes.fromhex("00010800") + bytes(8)
    yield ("vlan tags nested %d deep (%d bytes)" % (n, len(deep)), lambda deep=deep: probe_deep(deep))
    deep = mac + bytes.fromhex("8847") + bytes.fromhex("00001040") * (n - 1) + bytes.fromhex("00001140") + bytes(8)
    yield ("mpls labels stacked %d deep (%d bytes)" % (n, len(deep)), lambda deep=deep: probe_deep(deep))
  ethertypes = [0x0800, 0x0806, 0x8100, 0x86dd, 0x88cc, 0x888e, 0x8847, 0x0020, 0x05dc, 0x9000]
  for r in range(20000 if tier == "quick" else 100000):
    n = rng.choice([0, 1, 13, 14, 15, 20, 34, 60, rng.randrange(0, 200)])
    raw = bytearray(rng.getrandbits(8) for _ in range(n))
    if n >= 14 and rng.random() < 0.8:
      t = rng.choice(ethertypes)
      raw[12:14] = bytes([t >> 8, t & 255])
      if n > 23 and t == 0x0800:
        raw[14] = 0x45 if rng.random() < 0.7 else raw[14]
        raw[23] = rng.choice([1, 2, 6, 17, 47, raw[23]])
    yield ("random %d %s" % (r, bytes(raw[:20]).hex()), lambda raw=bytes(raw): probe(raw))
