"""C05 - event delivery order, halting and unsubscription (pox/lib/revent).

Abstract view of a source, per event type: the sequence of (priority, handler, once, eid).
  addListener     view' = view with the entry inserted: descending priority, equal priorities in subscription order
                  (types that never saw a priority keep pure subscription order); undeclared types are rejected
  removeListener  view' = filter; existing list objects are never mutated (so a delivery in progress is unaffected)
  raiseEvent      handlers are opaque: each may return any of the halting / removal values AND may re-enter
                  addListener / removeListener on the source (the effect envelope).  The invocation log (ghost) must be
                  the snapshot taken when the event was raised, in order, each once, up to the first halting handler.
Handler lists have 0..3 entries per unit (bounded), priorities / flags / return values / re-entrant actions symbolic."""
from pyvc.api import unit, Case, CallSpec, native
from pox.lib.revent.revent import EventMixin, Event, ReventError
import pox.lib.revent.revent as R

P = "C05"
RV = "pox.lib.revent.revent:"
BOUND = "handler lists of 0..3 entries; priorities, once flags, return values and re-entrant actions symbolic"


class Ev(Event):
  pass


class Other(Event):
  pass


class Src(EventMixin):
  _eventMixin_events = set([Ev])


LOG = []


def h0(event, *a):
  return _native_handler(0, event)


def h1(event, *a):
  return _native_handler(1, event)


def h2(event, *a):
  return _native_handler(2, event)


def hnew(event, *a):
  LOG.append("new")


HS = [h0, h1, h2]
_PLAN = {}


def _native_handler(i, event):
  LOG.append(i)
  act = _PLAN["act"][i]
  src = _PLAN["src"]
  if act[0] == "add":
    if i not in _PLAN.setdefault("added", set()):
      _PLAN["added"].add(i)
      src.addListener(Ev, hnew, priority=act[1])
  elif act[0] == "remove":
    src.removeListener(HS[act[1]])
  return _PLAN["rv"][i]


RVALS = [None, False, True, (True,), (False, True), (), (True, True), 7]


class _G(object):
  @native
  def get(self, st, name):
    return st.ghost.get(name)


G = _G()


def log(b):
  return list(G.get("log") or ()) if b.mode == "sym" else list(LOG)


def source_with(b, k_, prioritized=True):
  """a fresh source plus the symbolic subscription parameters; the subscriptions themselves are made by sub(),
  inside the unit's function, by the real addListener (so every ordering of the priorities is a path)"""
  src = b.new(Src)
  prios, onces = [], []
  for i in range(k_):
    p = b.int("prio%d" % i, -5, 5) if prioritized else 0
    o = b.bool("once%d" % i)
    prios.append(p)
    onces.append(o)
  return src, prios, onces


def sub(s, prios, onces):
  for i in range(len(prios)):
    s.addListener(Ev, HS[i], once=onces[i], priority=prios[i])


def view(src):
  return [(e[0], e[1], e[2]) for e in src._eventMixin_handlers.get(Ev, [])]


def sorted_spec(entries):
  """descending priority, ties in the given (subscription) order: stable insertion"""
  out = []
  for e in entries:
    j = len(out)
    while j > 0 and out[j - 1][0] < e[0]:
      j -= 1
    out.insert(j, e)
  return out


# ---------------------------------------------------------------- addListener

def _mk_add(k_):
  def u(b):
    src, prios, onces = source_with(b, k_)
    p = b.int("prio_new", -5, 5)
    o = b.bool("once_new")
    before = [(prios[i], HS[i], onces[i]) for i in range(k_)]
    def run(s):
      sub(s, prios, onces)
      return (s.addListener(Ev, hnew, once=o, priority=p), view(s))
    return Case(run, [src], ensures={
      "returns_type_and_id": lambda res: res[0][0] is Ev and isinstance(res[0][1], int),
      "order_is_descending_priority_then_subscription_order": lambda res: res[1] == sorted_spec(before + [(p, hnew, o)]),
    })
  u.__name__ = "subscribe_%d" % k_
  u.bound = BOUND
  unit(P, target=RV + "EventMixin.addListener")(u)


for _k in (0, 1, 2, 3):
  _mk_add(_k)


@unit(P, target=RV + "EventMixin.addListener / raiseEvent (undeclared types)")
def undeclared_types_are_rejected(b):
  src = b.new(Src)
  def run(s):
    out = []
    for f in (lambda: s.addListener(Other, hnew), lambda: s.raiseEvent(Other()), lambda: s.addListener("Nope", hnew, byName=True)):
      try:
        f()
        out.append("accepted")
      except ReventError:
        out.append("rejected")
    r = s.addListener("Ev", hnew, byName=True)
    return (out, r[0] is Ev)
  return Case(run, [src], ensures={
    "undeclared_is_rejected": lambda res: res[0] == ["rejected", "rejected", "rejected"],
    "declared_by_name_is_found": lambda res: res[1],
  })


# ---------------------------------------------------------------- removeListener

def _mk_remove(form):
  def u(b):
    src, prios, onces = source_with(b, 3)
    which = b.int("which", 0, 2)
    def run(s, which):
      sub(s, prios, onces)
      old_list = s._eventMixin_handlers[Ev]
      old_items = list(old_list)
      eid = old_list[which][3]
      target = old_list[which][1]
      if form == "handler":
        r = s.removeListener(target)
      elif form == "eid":
        r = s.removeListener(eid)
      elif form == "pair":
        r = s.removeListener((Ev, eid))
      else:
        r = s.removeListener(eid, Ev)
      return (r, list(old_list) == old_items, view(s), [(e[0], e[1], e[2]) for i, e in enumerate(old_items) if i != which])
    return Case(run, [src, which], ensures={
      "reports_a_change": lambda res: res[0] is True,
      "the_list_being_delivered_is_never_mutated": lambda res: res[1],
      "exactly_that_subscription_is_gone_order_kept": lambda res: res[2] == res[3],
    })
  u.__name__ = "unsubscribe_by_" + form
  u.bound = BOUND
  unit(P, target=RV + "EventMixin.removeListener")(u)


for _f in ("handler", "eid", "pair", "eid_and_type"):
  _mk_remove(_f)


def _mk_remove_batch(picks, stale_first):
  """removeListeners(batch): batch = the (type, id) pairs addListener returned for the picked subscriptions, optionally
  preceded by a pair that is no longer subscribed (every listed subscription must go, wherever it stands in the batch)"""
  def u(b):
    src, prios, onces = source_with(b, 3)
    def run(s):
      sub(s, prios, onces)
      stale = s.addListener(Ev, hnew)
      s.removeListener(stale)
      old_items = list(s._eventMixin_handlers[Ev])
      batch = ([stale] if stale_first else []) + [(Ev, old_items[i][3]) for i in picks]
      r = s.removeListeners(batch)
      r2 = s.removeListeners(batch)
      return (r, r2, view(s), [(e[0], e[1], e[2]) for i, e in enumerate(old_items) if i not in picks])
    return Case(run, [src], raises={}, ensures={
      "reports_a_change_iff_something_was_subscribed": lambda res: res[0] is (len(picks) > 0) and res[1] is False,
      "every_listed_subscription_is_gone_the_rest_stays_in_order": lambda res: res[2] == res[3],
    })
  u.__name__ = "unsubscribe_batch_%s%s" % ("".join(str(i) for i in picks) or "none", "_after_a_stale_one" if stale_first else "")
  u.bound = BOUND
  unit(P, target=RV + "EventMixin.removeListeners")(u)


for _picks, _st in (((), False), ((1,), True), ((0, 2), False), ((0, 1, 2), False), ((2, 0), True)):
  _mk_remove_batch(_picks, _st)


# ---------------------------------------------------------------- raiseEvent

def halts(rv):
  return rv is True or (type(rv) == tuple and (len(rv) == 0 or bool(rv[0])))


def wants_removal(rv):
  return rv is False or (type(rv) == tuple and len(rv) >= 2 and rv[1] == True)


def _mk_raise(k_, reentrant, tier="quick"):
  def u(b):
    src, prios, onces = source_with(b, k_)
    rv = [b.choice("rv%d" % i, RVALS) for i in range(k_)]
    act = []
    for i in range(k_):
      if not reentrant:
        act.append(("none",))
      else:
        # the kind of re-entrant action is fixed per unit (one unit per combination), its parameters are symbolic
        act.append((reentrant[i], b.int("act%d.prio" % i, -5, 5), b.int("act%d.victim" % i, 0, k_ - 1)))
    env = {"src": src, "rv": rv, "act": None}
    calls = {}
    if b.mode == "sym":
      b.st.ghost["log"] = ()
      from pyvc.values import Union
      # the re-entrant action of each handler is a case split: none / add(prio) / remove(victim)
      env["act"] = [("none",)] * k_
      env["act_sym"] = act
      for i in range(k_):
        calls["contracts.c05_events:h%d" % i] = Handler2(i, env, reentrant)
      calls["contracts.c05_events:hnew"] = Handler2("new", {"rv": {"new": None}}, False)
    else:
      del LOG[:]
      cact = []
      for i in range(k_):
        a_ = act[i]
        if a_[0] == "none" or a_[0] == 0:
          cact.append(("none",))
        elif a_[0] == 1:
          cact.append(("add", a_[1]))
        else:
          cact.append(("remove", a_[2]))
      _PLAN.update(act=cact, rv=rv, src=src, added=set())
    def run(s):
      sub(s, prios, onces)
      snap = [e[1] for e in s._eventMixin_handlers.get(Ev, [])]
      ev = Ev()
      r = s.raiseEvent(ev)
      return (snap, r is ev, ev.halt)
    def expected(snap):
      out = []
      for h in snap:
        i = HS.index(h)
        out.append(i)
        if halts(rv[i]):
          break
      return out
    return Case(run, [src], calls=calls, ensures={
      # a handler subscribed during the delivery may or may not take part in it (the statement is silent): it is
      # filtered from the log; the handlers subscribed when the event was raised must still be exactly these
      "every_subscribed_handler_once_in_order_until_one_halts":
        lambda res: [i for i in log(b) if i != "new"] == expected(res[0]),
      "returns_the_event": lambda res: res[1],
      "halt_flag_tells_whether_a_handler_halted": lambda res: res[2] == any([halts(rv[i]) for i in log(b) if i != "new"]),
    })
  u.__name__ = "deliver_%d%s" % (k_, ("_reentrant_" + "_".join(["none", "subscribe", "unsubscribe"][x] for x in reentrant))
                                 if reentrant else "")
  u.bound = BOUND
  unit(P, target=RV + "EventMixin.raiseEvent", timeout_s=900, tier=tier)(u)


class Handler2(CallSpec):
  def __init__(self, i, env, reentrant):
    CallSpec.__init__(self, "opaque", envelope="a handler may re-enter addListener / removeListener of the source it "
                      "is called from and may return any value")
    self.i = i
    self.env = env
    self.reentrant = reentrant

  def apply(self, I, f, args, kws, st, ctx, k, node):
    import z3
    env = self.env
    i = self.i
    st.ghost["log"] = tuple(st.ghost.get("log", ())) + (i,)
    rv = env["rv"][i]
    if not self.reentrant:
      return k(st, rv)
    kind, prio, victim = env["act_sym"][i]
    nh = len(env["rv"])
    # case split on the handler's action
    def none(st2):
      return k(st2, rv)
    def add(st2):
      # subscribes the new handler the first time it is invoked (a handler that subscribes on every invocation
      # makes an implementation that delivers to the live list spin forever, which no check can report)
      if st2.ghost.get(("added", i)):
        return k(st2, rv)
      st2.ghost[("added", i)] = True
      return I.call_value(EventMixin.addListener, [env["src"], Ev, hnew], {"priority": prio}, st2, ctx,
                          lambda st3, r: k(st3, rv), node)
    def remove(st2):
      def with_victim(st3, v):
        return I.call_value(EventMixin.removeListener, [env["src"], HS[v]], {}, st3, ctx,
                            lambda st4, r: k(st4, rv), node)
      from pyvc.models import small_range_split
      return small_range_split(I, victim, st2, 0, nh - 1, with_victim)
    return (none, add, remove)[kind](st)


_mk_raise(0, False)
_mk_raise(1, False)
_mk_raise(2, False)
_mk_raise(3, False, "thorough")


@unit(P, target=RV + "EventMixin.raiseEvent (class form)")
def deliver_2_class_form(b):
  """raiseEvent(EventClass): the event object is only built when somebody listens"""
  src, prios, onces = source_with(b, 2)
  rv = [b.choice("rv%d" % i, RVALS) for i in range(2)]
  n = b.int("n", 0, 2)
  calls = {}
  if b.mode == "sym":
    b.st.ghost["log"] = ()
    for i in range(2):
      calls["contracts.c05_events:h%d" % i] = Handler2(i, {"rv": rv}, False)
  else:
    del LOG[:]
    _PLAN.update(act=[("none",)] * 2, rv=rv, src=src, added=set())
  def run(s):
    sub(s, [prios[i] for i in range(2) if i < n], [onces[i] for i in range(2) if i < n])
    snap = [e[1] for e in s._eventMixin_handlers.get(Ev, [])]
    r = s.raiseEvent(Ev)
    return (snap, r)
  def expected(snap):
    out = []
    for h in snap:
      i = HS.index(h)
      out.append(i)
      if halts(rv[i]):
        break
    return out
  return Case(run, [src], calls=calls, ensures={
    "every_subscribed_handler_once_in_order_until_one_halts": lambda res: log(b) == expected(res[0]),
    "no_listener_no_event": lambda res: (res[1] is None) == (len(res[0]) == 0),
    "halt_flag_tells_whether_a_handler_halted":
      lambda res: res[1] is None or res[1].halt == any([halts(rv[i]) for i in log(b)]),
  })
deliver_2_class_form.bound = BOUND
for _a in (0, 1, 2):
  for _b in (0, 1, 2):
    if _a or _b:
      _mk_raise(2, (_a, _b))


def _mk_after(k_, tier="quick"):
  """who is still subscribed after a delivery: one-shot handlers and handlers that asked for removal are gone,
  if they were invoked; everybody else stays, in order"""
  def u(b):
    src, prios, onces = source_with(b, k_)
    rv = [b.choice("rv%d" % i, RVALS) for i in range(k_)]
    env = {"src": src, "rv": rv}
    calls = {}
    if b.mode == "sym":
      b.st.ghost["log"] = ()
      for i in range(k_):
        calls["contracts.c05_events:h%d" % i] = Handler2(i, env, False)
    else:
      del LOG[:]
      _PLAN.update(act=[("none",)] * k_, rv=rv, src=src)
    def run(s):
      sub(s, prios, onces)
      before = [e[1] for e in s._eventMixin_handlers.get(Ev, [])]
      s.raiseEvent(Ev())
      return (before, [e[1] for e in s._eventMixin_handlers.get(Ev, [])])
    return Case(run, [src], calls=calls, ensures={
      "one_shot_and_self_removed_handlers_are_gone_the_rest_stay_in_order":
        lambda res: res[1] == [h for h in res[0] if not (HS.index(h) in log(b)
                                                         and (onces[HS.index(h)] or wants_removal(rv[HS.index(h)])))],
    })
  u.__name__ = "subscriptions_after_delivery_%d" % k_
  u.bound = BOUND
  unit(P, target=RV + "EventMixin.raiseEvent (removal of one-shot / self-removing handlers)", timeout_s=900, tier=tier)(u)


_mk_after(2)
_mk_after(3, "thorough")


EXCS = [None, ValueError, KeyError, ZeroDivisionError, Exception, ReventError, RuntimeError, RecursionError,
        NotImplementedError, AttributeError, TypeError, AssertionError, OSError]


def hraise(event, *a):
  if _PLAN["raise"] is not None:
    raise _PLAN["raise"]("from the handler")


class Raiser(CallSpec):
  def __init__(self, exc):
    CallSpec.__init__(self, "opaque", envelope="a handler may raise anything (ReventError included: a weak handler "
                      "whose owner is gone raises it)")
    self.exc = exc

  def apply(self, I, f, args, kws, st, ctx, k, node):
    def go(st2, e):
      if e is None:
        return k(st2, None)
      return I.raise_exc(st2, ctx, e, "from the handler", node)
    return I.split(self.exc, st, go)


@unit(P, target=RV + "EventMixin.raiseEventNoErrors")
def errors_are_not_propagated_to_the_raiser(b):
  src = b.new(Src)
  exc = b.choice("exc", EXCS)
  calls = {}
  if b.mode == "sym":
    calls["contracts.c05_events:hraise"] = Raiser(exc)
    calls[RV + "handleEventException"] = CallSpec("opaque", envelope="the exception hook logs")
  else:
    _PLAN.update(**{"raise": exc})
  def run(s):
    s.addListener(Ev, hraise)
    return s.raiseEventNoErrors(Ev)
  return Case(run, [src], calls=calls, raises={}, ensures={
    "returns": lambda res: True,
  })


# ---------------------------------------------------------------- weak subscriptions

class Owner(object):
  def m(self, event):
    return _native_handler(0, event)


class WR(object):
  """stand-in for weakref.ref in the symbolic run: calling it yields the referent"""
  def __init__(self, o):
    self.o = o

  def __call__(self):
    return self.o


class WeakRefSpec(CallSpec):
  def __init__(self):
    CallSpec.__init__(self, "assumed", envelope="weakref.ref(o, cb)() is o while o is alive; the collector calls cb "
                      "once when o dies (CPython semantics, assumed)")

  def apply(self, I, f, args, kws, st, ctx, k, node):
    # precondition of the callee: the proxy hands the collector a callback (its own _forgetMe) - without it the weak
    # subscription would never be dropped when the owner dies
    from pyvc.values import BoundMethod
    cb = args[1] if len(args) > 1 else kws.get("callback")
    ok = isinstance(cb, BoundMethod) and getattr(cb.func, "__name__", "") == "_forgetMe"
    I.check_obligation(st, bool(ok), "call.pre:weak_reference_is_created_with_the_proxys_clean_up_callback", kind="post")
    return I.call_value(WR, [args[0]], {}, st, ctx, k, node)


@unit(P, target=RV + "CallProxy._forgetMe / __call__ (weak subscriptions)")
def weak_subscription_is_dropped_when_its_owner_is_reported_dead(b):
  src = b.new(Src)
  p0 = b.int("prio0", -5, 5)
  p1 = b.int("prio1", -5, 5)
  calls = {}
  if b.mode == "sym":
    b.st.ghost["log"] = ()
    calls["weakref:ReferenceType"] = WeakRefSpec()
    calls["contracts.c05_events:h1"] = Handler2(1, {"rv": [None, None]}, False)
    calls["contracts.c05_events:Owner.m"] = Handler2(0, {"rv": [None, None]}, False)
  else:
    del LOG[:]
    _PLAN.update(act=[("none",), ("none",)], rv=[None, None], src=src, added=set())
  def run(s):
    o = Owner()
    s.addListener(Ev, h1, priority=p1)
    key = s.addListener(Ev, o.m, weak=True, priority=p0)
    proxy = [e[1] for e in s._eventMixin_handlers[Ev] if e[3] == key[1]][0]
    s.raiseEvent(Ev())
    n1 = len(log(b))
    proxy._forgetMe(None)          # what the collector does when the owner (or the source) dies
    left = [e[1] for e in s._eventMixin_handlers[Ev]]
    s.raiseEvent(Ev())
    r = proxy(Ev())                # a delivery already in progress may still hold the proxy
    return (n1, left, log(b)[n1:], r)
  return Case(run, [src], calls=calls, ensures={
    "while_the_owner_lives_the_weak_handler_is_invoked": lambda res: res[0] == 2,
    "the_weak_subscription_is_gone_the_other_stays": lambda res: res[1] == [h1],
    "the_dead_owners_handler_is_never_invoked_again": lambda res: res[2] == [1] and res[3] is None,
  })


class Owner2(object):
  def m(self, event):
    return None


@unit(P, target=RV + "EventMixin.removeListener (bound-method handlers)")
def unsubscribe_by_bound_method(b):
  """a bound method is a NEW object on every attribute access (equal, not identical): unsubscribing `o.m` must remove
  the subscription made with an earlier `o.m`"""
  src = b.new(Src)
  p0 = b.int("prio0", -5, 5)
  with_type = b.bool("event_type_given")
  def run(s):
    o = Owner2()
    s.addListener(Ev, h1, priority=p0)
    s.addListener(Ev, o.m)
    if with_type:
      r = s.removeListener(o.m, Ev)
    else:
      r = s.removeListener(o.m)
    return (r, [e[1] for e in s._eventMixin_handlers[Ev]])
  return Case(run, [src], raises={}, ensures={
    "reports_a_change_and_only_the_other_handler_stays": lambda res: res[0] is True and len(res[1]) == 1 and res[1][0] is h1,
  })
unsubscribe_by_bound_method.bound = BOUND


# ---------------------------------------------------------------- name-based wiring

class Ev2(Event):
  pass


class Src2(EventMixin):
  _eventMixin_events = set([Ev, Ev2])


class AutoSink(object):
  def _handle_Ev(self, event):
    return None

  def _handle_Ev2(self, event):
    return None

  def _handle_Unknown(self, event):
    return None

  def _handle_pre_Ev(self, event):
    return None

  def _handle_pre_x_Ev2(self, event):
    return None

  def helper(self):
    return None


@unit(P, target=RV + "autoBindEvents / EventMixin.addListeners")
def name_based_wiring_binds_exactly_the_matching_handlers(b):
  """handlers named _handle[_<prefix>]_<EventName> are subscribed for exactly the events the source declares, once each,
  with the given priority; other methods are not"""
  src = b.new(Src2)
  prio = b.int("priority", -5, 5)
  which = b.choice("prefix", ["", "pre", "_pre", "nothing"])
  # (weakref.ref is given its contract here too: a wiring that mixes up its `weak` and `priority` arguments - seeded change
  # C05_10 - takes the weak path, which must then be decidable rather than out of reach)
  cs = {"builtins:print": CallSpec("opaque", envelope="warning text"), "weakref:ReferenceType": WeakRefSpec()} if b.mode == "sym" else {}
  def run(s, which):
    sink = AutoSink()
    ids = s.addListeners(sink, which, False, prio)
    out = []
    for t in (Ev, Ev2):
      for e in s._eventMixin_handlers.get(t, []):
        out.append((t, e[0], e[1] == getattr(sink, "_handle_" + ("" if which == "" else which.lstrip("_") + "_") + t.__name__, None)))
    return (len(ids), out)
  def expected():
    if which == "":
      return [(Ev, prio, True), (Ev2, prio, True)]
    if which in ("pre", "_pre"):
      return [(Ev, prio, True)]
    return []
  return Case(run, [src, which], calls=cs, raises={}, ensures={
    "exactly_the_matching_handlers_are_subscribed": lambda res: res[0] == len(expected()) and res[1] == expected(),
  })
name_based_wiring_binds_exactly_the_matching_handlers.bound = "one sink class with six methods, four prefixes"


# ---------------------------------------------------------------- declarations made at run time stay with their source
# (added 2026-09-25 after seeded change C05_11 turned the class-level default of `_eventMixin_events` into one shared mutable
# set: once ANY source without a static declaration had declared an event type at run time, EVERY such source accepted it)

class Bare1(EventMixin):
  pass


class Bare2(EventMixin):
  pass


@unit(P, target=RV + "EventMixin._eventMixin_init / _eventMixin_addEvent(s) / addListener / raiseEvent")
def a_type_declared_at_run_time_on_one_source_is_still_undeclared_on_every_other(b):
  s1, s2, s3 = b.new(Bare1), b.new(Bare2), b.new(Bare1)
  def run(s1, s2, s3):
    s1._eventMixin_addEvents([Ev])
    out = []
    for f in (lambda: s1.addListener(Ev, hnew), lambda: s2.addListener(Ev, hnew), lambda: s3.addListener(Ev, hnew),
              lambda: s2.raiseEvent(Ev()), lambda: s3.raiseEvent(Ev())):
      try:
        f()
        out.append("accepted")
      except ReventError:
        out.append("rejected")
    return out
  return Case(run, [s1, s2, s3], raises={}, ensures={
    "only_the_source_that_declared_it_accepts_it": lambda res: res == ["accepted", "rejected", "rejected", "rejected", "rejected"],
  })


# ---------------------------------------------------------------- a handler that halts through the event object keeps its say
# (sixth round, 2026-09-25: a seeded change made Event._invoke answer EventHalt whenever the handler had set event.halt - the
# handler's own return value, e.g. 'remove me', was lost: it stayed subscribed and was invoked again on the next raise)

class HaltTrace(object):
  pass


def _mk_halting_handler(rv_kind):
  def u(b):
    src = b.new(Src)
    tr = b.raw_new(HaltTrace, log=b.list([]))
    rv = {"false": False, "remove_tuple": (False, True), "none": None}[rv_kind]
    def first(event):
      tr.log.append("first")
      event.halt = True
      return rv
    def second(event):
      tr.log.append("second")
    def run(s):
      s.addListener(Ev, first, priority=5)
      s.addListener(Ev, second, priority=1)
      e1 = s.raiseEvent(Ev())
      after1 = [x for x in tr.log]
      s.raiseEvent(Ev())
      return (after1, [x for x in tr.log], [e[1] is first for e in s._eventMixin_handlers.get(Ev, [])], e1.halt)
    removes = rv_kind in ("false", "remove_tuple")
    halts = rv_kind != "none"       # (a handler that returns None is not looked at any further: the code's documented protocol)
    return Case(run, [src], raises={}, ensures={
      "the_first_delivery_stops_behind_the_halting_handler": lambda res: res[0] == (["first"] if halts else ["first", "second"]),
      "a_handler_that_asked_to_be_removed_is_gone_for_the_next_event":
        lambda res: res[2] == ([False] if removes else [True, False])
        and res[1] == res[0] + (["second"] if removes else (["first"] if halts else ["first", "second"])),
    })
  u.__name__ = "a_handler_that_sets_halt_and_returns_%s" % rv_kind
  u.bound = "two handlers, two events"
  unit(P, target=RV + "Event._invoke / EventMixin.raiseEvent")(u)


for _k in ("false", "remove_tuple", "none"):
  _mk_halting_handler(_k)


# ---------------------------------------------------------------- add_listener (the snake_case entry point) passes its flags on
# (sixth round: a seeded change passed `weak` and `once` positionally in the wrong order)

def _mk_add_listener_flags(by):
  def u(b):
    src = b.new(Src)
    once = b.bool("once")
    prio = b.int("priority", -5, 5)
    cs = {"weakref:ReferenceType": WeakRefSpec()} if b.mode == "sym" else {}
    def run(s):
      if by == "type":
        r = s.add_listener(hnew, event_type=Ev, once=once, priority=prio)
      else:
        r = s.add_listener(hnew, event_name="Ev", once=once, priority=prio)
      return (r[0] is Ev, view(s))
    return Case(run, [src], calls=cs, raises={}, ensures={
      "subscribed_strongly_with_the_given_one_shot_flag_and_priority": lambda res: res[0] and res[1] == [(prio, hnew, once)],
    })
  u.__name__ = "add_listener_by_%s_passes_its_flags_on" % by
  u.bound = BOUND
  unit(P, target=RV + "EventMixin.add_listener")(u)


for _by in ("type", "name"):
  _mk_add_listener_flags(_by)
