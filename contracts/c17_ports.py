"""C17 (first half) - the controller's picture of a switch's ports (pox/openflow/of_01.py PortCollection).

Abstract view of the per-connection collection (`ports`, chained to `original_ports`):
    view = own ports  ++  [p in chain ports | p.port_no not masked and no own port has p.port_no]
Per-operation contracts, for an ARBITRARY state of the collection (any own ports with pairwise distinct numbers, any
originally reported ports with pairwise distinct numbers / names / addresses, any mask set) and ALL port numbers,
names and hardware addresses:
    _update(port)   view' = view[port.port_no := port]          original ports untouched
    _forget(port)   view' = view - port.port_no                 original ports untouched
    self[k]         k int / name / EthAddr: some element of view with that key, IndexError iff there is none
    keys/len/iter/contains/values/items/get/has_key agree with view
The history statement ("initial ports with the notifications applied in order") is the induction over these contracts.
Collections hold at most 2 own, 2 original ports and 2 masks (bounded symbolic units); numbers, names, addresses and
the other fields are symbolic."""
from pyvc.api import unit, Case, CallSpec, native
import pox.openflow.libopenflow_01 as of
from pox.openflow.of_01 import PortCollection, DefaultOpenFlowHandlers as OpenFlowHandlers, Connection
from pox.lib.addresses import EthAddr

P = "C17"
PC = "pox.openflow.of_01:PortCollection."
BOUND = "at most 2 own ports, 2 originally reported ports and 2 masked numbers; port numbers, names (4 chars), addresses symbolic"


def mk_port(b, tag):
  p = b.new(of.ofp_phy_port)
  b.set(p, "port_no", b.int(tag + ".port_no", 0, 0xffff))
  b.set(p, "name", b.str(tag + ".name", 4))
  b.set(p, "hw_addr", b.new(EthAddr, b.bytes(tag + ".hw", 6)))
  b.set(p, "config", b.int(tag + ".config", 0, 0xffffffff))
  b.set(p, "state", b.int(tag + ".state", 0, 0xffffffff))
  return p


def distinct(b, ports, what=("port_no",)):
  for i in range(len(ports)):
    for j in range(i):
      if "port_no" in what:
        b.assume(b.get(ports[i], "port_no") != b.get(ports[j], "port_no"))


def collection(b, n_chain, n_own, n_mask, distinct_keys=False):
  """an arbitrary collection chained to an arbitrary original collection"""
  chain_ports = [mk_port(b, "orig%d" % i) for i in range(n_chain)]
  own_ports = [mk_port(b, "own%d" % i) for i in range(n_own)]
  distinct(b, chain_ports)
  distinct(b, own_ports)
  masks = [b.int("mask%d" % i, 0, 0xffff) for i in range(n_mask)]
  if b.mode == "conc" and len(set(masks)) != len(masks):
    b.assume(False)
  chain = b.raw_new(PortCollection, _ports=b.set_of(chain_ports), _masks=b.set_of([]), _chain=None)
  pc = b.raw_new(PortCollection, _ports=b.set_of(own_ports), _masks=b.set_of(masks), _chain=chain)
  return pc, chain, chain_ports, own_ports


# ---- the abstract view (spec; runs symbolically in the proof and natively in replays)

def view(pc):
  own = [p for p in pc._ports]
  nos = [p.port_no for p in own]
  out = list(own)
  if pc._chain is not None:
    for p in pc._chain._ports:
      if p.port_no not in pc._masks and p.port_no not in nos:
        out.append(p)
  return out


def has(lst, o):
  return any([x is o for x in lst])


def same_objects(a, b_):
  return len(a) == len(b_) and all([has(b_, x) for x in a]) and all([has(a, x) for x in b_])


SHAPES = [(0, 0, 0), (1, 0, 0), (0, 1, 0), (1, 1, 0), (1, 1, 1), (2, 1, 1), (1, 2, 1), (2, 2, 2)]


def _mk_mutation(op, shape):
  n_chain, n_own, n_mask = shape
  def u(b):
    pc, chain, cps, ops = collection(b, n_chain, n_own, n_mask)
    port = mk_port(b, "new")
    universe = cps + ops + [port]
    def run(pc, port):
      before = view(pc)
      orig_before = [p for p in pc._chain._ports]
      if op == "update":
        pc._update(port)
      else:
        pc._forget(port)
      return (before, view(pc), orig_before, [p for p in pc._chain._ports], len(pc._chain._masks))
    if op == "update":
      expect = lambda res, c: (c is port) or (has(res[0], c) and c.port_no != port.port_no)
    else:
      expect = lambda res, c: has(res[0], c) and c.port_no != port.port_no
    return Case(run, [pc, port], raises={}, ensures={
      "view_is_the_old_view_with_the_notification_applied":
        lambda res: all([has(res[1], c) == expect(res, c) for c in universe]),
      "no_port_number_twice":
        lambda res: all([(x is y) or x.port_no != y.port_no for x in res[1] for y in res[1]]),
      "originally_reported_ports_are_untouched": lambda res: same_objects(res[2], res[3]) and res[4] == 0,
    })
  u.__name__ = "port_%s_chain%d_own%d_masks%d" % ((op,) + shape)
  u.bound = BOUND
  unit(P, target=PC + ("_update" if op == "update" else "_forget"), timeout_s=600)(u)


for _s in SHAPES:
  _mk_mutation("update", _s)
  _mk_mutation("forget", _s)


def _mk_lookup(kind, shape):
  n_chain, n_own, n_mask = shape
  def u(b):
    pc, chain, cps, ops = collection(b, n_chain, n_own, n_mask)
    # names and addresses of the originally reported ports are pairwise distinct (a switch does not report two
    # ports with one name); own ports may carry any names (renames)
    if kind == "number":
      key = b.int("key", 0, 0xffff)
      attr = lambda p: p.port_no
    elif kind == "name":
      key = b.str("key", 4)
      attr = lambda p: p.name
    else:
      key = b.new(EthAddr, b.bytes("key", 6))
      attr = lambda p: p.hw_addr
    def run(pc, key):
      v = view(pc)
      try:
        r = pc[key]
      except IndexError:
        r = None
      return (v, r, key in pc, pc.get(key, "dflt"), pc.has_key(key))
    def matches(v):
      return [p for p in v if attr(p) == key]
    def orig_matches():
      return [p for p in chain._ports if attr(p) == key]
    # if two originally reported ports match the key (duplicate name / address) the chain's first match may be
    # masked while the second is not: excluded by the stated assumption
    single = lambda: len(orig_matches()) <= 1
    return Case(run, [pc, key], raises={}, ensures={
      "a_hit_is_a_port_of_the_view_with_that_key":
        lambda res: res[1] is None or (has(res[0], res[1]) and attr(res[1]) == key),
      "a_miss_only_when_the_view_has_no_such_port":
        lambda res: not single() or ((res[1] is None) == (len(matches(res[0])) == 0)),
      "membership_get_and_has_key_agree":
        lambda res: res[2] == (res[1] is not None) and res[4] == res[2]
                    and ((res[3] is res[1]) if res[1] is not None else res[3] == "dflt"),
    })
  u.__name__ = "port_lookup_by_%s_chain%d_own%d_masks%d" % ((kind,) + shape)
  u.bound = BOUND
  unit(P, target=PC + "__getitem__ / __contains__ / get / has_key", timeout_s=600)(u)


for _s in [(0, 0, 0), (1, 1, 1), (2, 1, 1), (1, 2, 1), (2, 2, 2)]:
  for _k in ("number", "name", "address"):
    _mk_lookup(_k, _s)


def _mk_enumeration(shape):
  n_chain, n_own, n_mask = shape
  def u(b):
    pc, chain, cps, ops = collection(b, n_chain, n_own, n_mask)
    def run(pc):
      v = view(pc)
      return (v, pc.keys(), len(pc), [k for k in pc], pc.values(), pc.items(), [k for k in pc.iterkeys()])
    def perm_of_numbers(keys, v):
      return len(keys) == len(v) and all([any([k == p.port_no for k in keys]) for p in v])
    return Case(run, [pc], raises={}, ensures={
      "keys_are_the_port_numbers_of_the_view_each_once": lambda res: perm_of_numbers(res[1], res[0]),
      "length_is_the_size_of_the_view": lambda res: res[2] == len(res[0]),
      "iteration_yields_the_keys": lambda res: perm_of_numbers(res[3], res[0]) and perm_of_numbers(res[6], res[0]),
      "values_are_the_ports_of_the_view": lambda res: same_objects(res[4], res[0]),
      "items_pair_numbers_with_their_ports":
        lambda res: len(res[5]) == len(res[0]) and all([has(res[0], kv[1]) and kv[1].port_no == kv[0] for kv in res[5]])
                    and same_objects([kv[1] for kv in res[5]], res[0]),
    })
  u.__name__ = "port_enumeration_chain%d_own%d_masks%d" % shape
  u.bound = BOUND
  unit(P, target=PC + "keys / __len__ / __iter__ / values / items", timeout_s=600)(u)


for _s in [(0, 0, 0), (1, 1, 1), (2, 1, 1), (1, 2, 1), (2, 2, 2)]:
  _mk_enumeration(_s)


# ---------------------------------------------------------------- the two message handlers that maintain the view

from contracts.c17_stats import event_targets, delivered
import pox.openflow.of_01 as of_01


def _mk_port_status(shape):
  n_chain, n_own, n_mask = shape
  def u(b):
    pc, chain, cps, ops = collection(b, n_chain, n_own, n_mask)
    con, nexus, cs, halted = event_targets(b)
    b.set(con, "ports", pc)
    b.set(con, "original_ports", chain)
    port = mk_port(b, "new")
    reason = b.int("reason", 0, 255)
    msg = b.new(of.ofp_port_status)
    b.set(msg, "reason", reason)
    b.set(msg, "desc", port)
    universe = cps + ops + [port]
    def run(con, msg):
      before = view(con.ports)
      OpenFlowHandlers.handle_PORT_STATUS(con, msg)
      return (before, view(con.ports))
    def expect(res, c):
      if reason == of.OFPPR_DELETE:
        return has(res[0], c) and c.port_no != port.port_no
      return (c is port) or (has(res[0], c) and c.port_no != port.port_no)
    return Case(run, [con, msg], calls=cs, raises={}, ensures={
      "view_is_the_old_view_with_the_notification_applied":
        lambda res: all([has(res[1], c) == expect(res, c) for c in universe]),
      "port_status_event_raised_once_on_nexus_then_connection":
        lambda res: delivered(b, con, nexus, halted, of_01.PortStatus, lambda a: a[0] is con and a[1] is msg),
    })
  u.__name__ = "port_status_message_chain%d_own%d_masks%d" % shape
  u.bound = BOUND
  unit(P, target="pox.openflow.of_01:DefaultOpenFlowHandlers.handle_PORT_STATUS", timeout_s=600)(u)


for _s in [(0, 0, 0), (1, 1, 1), (2, 1, 1), (2, 2, 2)]:
  _mk_port_status(_s)


def _mk_features(n_ports, shape, same=False):
  """same=True: the switch reports exactly the ports it reported before (a repeated features reply) while the view holds
  deltas from port-status messages - the reply still REPLACES the view: the deltas are gone (seeded change C17_11 skipped the
  reset when the reported set was unchanged, so deleted / renamed ports stayed deleted / renamed)"""
  n_chain, n_own, n_mask = shape
  def u(b):
    pc, chain, cps, ops = collection(b, n_chain, n_own, n_mask)
    con, nexus, cs, halted = event_targets(b)
    b.set(con, "ports", pc)
    b.set(con, "original_ports", chain)
    if b.mode == "sym":
      cs = dict(cs)
      cs["pox.openflow:OpenFlowNexus._connect"] = CallSpec("contract", envelope="registry update: property C09")
    else:
      nexus._connect = lambda con: None
    if same:
      reported = list(cps)
    else:
      reported = [mk_port(b, "rep%d" % i) for i in range(n_ports)]
      distinct(b, reported)
    msg = b.new(of.ofp_features_reply)
    b.set(msg, "ports", b.list(reported))
    b.set(msg, "datapath_id", b.int("dpid", 0, (1 << 64) - 1))
    def run(con, msg):
      OpenFlowHandlers.handle_FEATURES_REPLY(con, msg)
      return (view(con.ports), [p for p in con.original_ports._ports], len(con.ports), con.ports._chain is con.original_ports)
    return Case(run, [con, msg], calls=cs, raises={}, ensures={
      "the_view_is_exactly_the_reported_ports": lambda res: same_objects(res[0], reported) and res[2] == n_ports,
      "the_original_ports_are_exactly_the_reported_ports": lambda res: same_objects(res[1], reported) and res[3],
    })
  u.__name__ = "features_reply_ports%d_chain%d_own%d_masks%d%s" % ((n_ports,) + shape + ("_same_ports_again" if same else "",))
  u.bound = BOUND + "; 0..2 reported ports with pairwise distinct numbers"
  unit(P, target="pox.openflow.of_01:DefaultOpenFlowHandlers.handle_FEATURES_REPLY", timeout_s=600)(u)


for _n in (0, 1, 2):
  for _s in [(0, 0, 0), (2, 2, 2)]:
    _mk_features(_n, _s)
_mk_features(2, (2, 2, 2), same=True)
_mk_features(2, (2, 1, 1), same=True)


# notifications that arrive DURING the handshake (after the features reply, before connection-up) belong to the port view too:
# they are deferred and replayed through the default handler once the connection is up.  The C09 units on the handshake's
# port-status handler are obligations of C17 as well (seeded change C17_8 dropped every such notification when none was
# deferred yet).
import contracts.c09_lifecycle as _L9


def _mk_early17(n_before):
  def u(b):
    return _L9._early(b, n_before)
  u.__name__ = "a_port_status_during_the_handshake_is_kept_for_replay_%d_before" % n_before
  u.bound = "0..2 port-status messages deferred before this one"
  unit(P, target=_L9.OF + "HandshakeOpenFlowHandlers.handle_PORT_STATUS")(u)


for _n in (0, 1, 2):
  _mk_early17(_n)
