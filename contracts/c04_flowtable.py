"""C04 - the flow table as the OpenFlow 1.0 FLOW_MOD / timeout state machine.

Per-operation contracts: each command / sweep / packet arrival equals the specification step on the abstract
table (the ordered list of entries with their priority, flags, timeouts, counters, actions), and produces exactly
the specified flow-removed notifications.  Entry fields, priorities, flags, clocks are symbolic; the relation
"this flow-mod's match selects that entry" is an arbitrary relation M (one free Boolean per entry) - what it is
for concrete matches is C03.  Tables have a fixed number of entries per unit (0..3): bounded in table size
(unbounded insertion / lookup are in C03), all values symbolic.
"""
from pyvc.api import unit, Case, CallSpec, native
import pox.openflow.libopenflow_01 as of
from pox.openflow.flow_table import TableEntry, FlowTable, FlowTableModification
from pox.datapaths.switch import SoftwareSwitchBase
import logging

P = "C04"
FT = "pox.openflow.flow_table:"
SW = "pox.datapaths.switch:"
SEND_FLOW_REM, CHECK_OVERLAP, EMERG = 1, 2, 4
RR_IDLE, RR_HARD, RR_DELETE = 0, 1, 2
EXACT = (1 << 16) + 1
BOUND = "table size fixed per unit (0..3 entries), every field symbolic"


# ------------------------------------------------------------------ timeouts, counters (no bound)

def mk_entry(b, tag, now_lo=None):
  created = b.real(tag + "created", 0)
  touched = b.real(tag + "touched", 0)
  b.assume(touched >= created)
  vals = dict(priority=b.int(tag + "priority", 0, 65535), cookie=b.int(tag + "cookie", 0, (1 << 64) - 1),
              idle_timeout=b.int(tag + "idle", 0, 65535), hard_timeout=b.int(tag + "hard", 0, 65535),
              flags=b.int(tag + "flags", 0, 7), created=created, last_touched=touched,
              packet_count=b.int(tag + "pkts", 0, 1 << 60), byte_count=b.int(tag + "bytes", 0, 1 << 60))
  e = b.raw_new(TableEntry, match=b.raw_new(object), actions=b.list([]), buffer_id=None, **vals)
  return e, vals


@unit(P, target=FT + "TableEntry.is_expired/is_idle_timed_out/is_hard_timed_out")
def entry_timeouts(b):
  e, v = mk_entry(b, "e.")
  now = b.real("now", 0)
  def run(e, now):
    return (e.is_idle_timed_out(now), e.is_hard_timed_out(now), e.is_expired(now))
  return Case(run, [e, now], ensures={
    "idle_no_earlier_than_its_timeout": lambda res: res[0] == (v["idle_timeout"] > 0 and now - v["last_touched"] > v["idle_timeout"]),
    "hard_no_earlier_than_its_timeout": lambda res: res[1] == (v["hard_timeout"] > 0 and now - v["created"] > v["hard_timeout"]),
    "expired_is_either": lambda res: res[2] == (res[0] or res[1]),
  })


@unit(P, target=FT + "TableEntry.touch_packet")
def traffic_refreshes_only_the_idle_clock(b):
  e, v = mk_entry(b, "e.")
  now = b.real("now", 0)
  n = b.int("frame_len", 0, 65535)
  def run(e, n, now):
    e.touch_packet(n, now)
    return (e.packet_count, e.byte_count, e.last_touched, e.created, e.hard_timeout, e.idle_timeout, e.priority, e.flags)
  return Case(run, [e, n, now], ensures={
    "counters": lambda res: res[0] == v["packet_count"] + 1 and res[1] == v["byte_count"] + n,
    "idle_clock_refreshed": lambda res: res[2] == now,
    "hard_clock_and_the_rest_untouched":
      lambda res: res[3] == v["created"] and res[4] == v["hard_timeout"] and res[5] == v["idle_timeout"]
      and res[6] == v["priority"] and res[7] == v["flags"],
  })


@unit(P, target=FT + "TableEntry.to_flow_removed")
def flow_removed_carries_reason_and_counters(b):
  e, v = mk_entry(b, "e.")
  now = b.real("now", 0)
  b.assume(now >= v["created"])
  b.assume(now - v["created"] < 4000000000)
  reason = b.int("reason", 0, 2)
  def run(e, now, reason):
    fr = e.to_flow_removed(now, reason)
    return (fr.reason, fr.priority, fr.cookie, fr.idle_timeout, fr.packet_count, fr.byte_count, fr.match is e.match,
            fr.duration_sec, fr.duration_nsec)
  return Case(run, [e, now, reason], ensures={
    "reason": lambda res: res[0] == reason,
    "identity_fields": lambda res: res[1] == v["priority"] and res[2] == v["cookie"] and res[3] == v["idle_timeout"] and res[6],
    "counters": lambda res: res[4] == v["packet_count"] and res[5] == v["byte_count"],
    "duration_is_the_age_of_the_entry":
      lambda res: 0 <= res[8] and res[8] < 1000000000 and res[7] <= now - v["created"] and now - v["created"] < res[7] + 1,
  })


# ------------------------------------------------------------------ table operations (bounded table size)

SENT = []


class Env(object):
  """a switch with a table of k entries; M[i] says whether the command's match selects entry i"""
  def __init__(self, b, k, port_filter=False):
    self.b = b
    self.k = k
    self.entries = []
    self.vals = []
    self.M = []
    self.has_port = []
    for i in range(k):
      e, v = mk_entry(b, "t%d." % i)
      self.entries.append(e)
      self.vals.append(v)
      self.M.append(b.bool("selected%d" % i))
      self.has_port.append(b.bool("outputs_to_port%d" % i) if port_filter else True)
    self.table = b.raw_new(FlowTable, _table=b.list(self.entries), _eventMixin_handlers={}, _eventMixin_initialized=True)
    self.sw = b.raw_new(SoftwareSwitchBase, table=self.table, log=logging.getLogger("verif"),
                        max_entries=b.int("max_entries", 0, 1000), _connection=None)
    self.now = b.real("now", 0)
    if b.mode == "sym":
      b.st.ghost["sent"] = ()
    for v in self.vals:
      b.assume(self.now >= v["last_touched"])
    if b.mode == "conc":
      del SENT[:]
      b.set(self.sw, "send", lambda msg, connection=None: SENT.append(msg))
      b.set(self.sw, "_time_value", self.now)
      # native runs: route the table's events to the switch's handler, and fix the selection relation
      idx = dict((id(e), i) for i, e in enumerate(self.entries))
      Mv, Pv = list(self.M), list(self.has_port)
      def is_matched_by(entry, match, priority=None, strict=False, out_port=None):
        return Mv[idx[id(entry)]] and (out_port is None or Pv[idx[id(entry)]]) if id(entry) in idx else False
      self.native_patch = is_matched_by
      self.table.raiseEvent = lambda ev: self.sw._handle_FlowTableModification(ev)

  def calls(self):
    b = self.b
    if b.mode != "sym":
      return {}
    oid = dict((e.oid, i) for i, e in enumerate(self.entries))
    import z3
    def matched(I, st, args, kws):
      i = oid.get(args[0].oid)
      if i is None:
        return False       # an entry created by this very command
      out_port = kws.get("out_port", args[4] if len(args) > 4 else None)
      if out_port is None or self.has_port[i] is True:
        return self.M[i]
      from pyvc.models import identity
      from pyvc.values import zbool
      nofilter = identity(I, out_port, None, st)
      nofilter = nofilter if not isinstance(nofilter, bool) else z3.BoolVal(nofilter)
      return z3.And(self.M[i], z3.Or(nofilter, self.has_port[i]))
    def deliver(I, st, f, args, kws):
      pass
    def sent(I, st, f, args, kws):
      log = list(st.ghost.get("sent", ()))
      log.append(args[1])
      st.ghost["sent"] = tuple(log)
    return {
      FT + "TableEntry.is_matched_by": CallSpec("contract", returns=matched,
                                               envelope="the command's match selects an arbitrary subset M of the entries (C03 says which)"),
      SW + "SoftwareSwitchBase.send": CallSpec("opaque", ghost=sent, envelope="hands the message to the connection"),
      SW + "SoftwareSwitchBase._time": CallSpec("contract", returns=lambda I, st, a, k: self.now),
      "pox.lib.revent.revent:EventMixin.raiseEvent": Redirect(self),
    }


class Redirect(CallSpec):
  """contract of FlowTable.raiseEvent(FlowTableModification) in the software switch: the one listener the switch
  installs (`table.addListeners(self)`) is invoked exactly once with the event (C05)"""
  def __init__(self, env):
    CallSpec.__init__(self, "contract", envelope="raiseEvent delivers the event once to SoftwareSwitchBase._handle_FlowTableModification (C05)")
    self.env = env

  def apply(self, I, f, args, kws, st, ctx, k, node):
    return I.call_value(SoftwareSwitchBase._handle_FlowTableModification, [self.env.sw, args[1]], {}, st, ctx,
                        lambda st2, r: k(st2, None), node)


class _G(object):
  @native
  def sent(self, st):
    return list(st.ghost.get("sent", ()))

  @native
  def get(self, st, name):
    return st.ghost.get(name)


G = _G()


def sent_list(b):
  return G.sent() if b.mode == "sym" else list(SENT)


def notifications(b):
  """[(entry-identifying cookie, priority, reason, packet_count)] of the flow-removed messages sent, in order"""
  return [(m.cookie, m.priority, m.reason, m.packet_count) for m in sent_list(b)]


def patch_native(b, env):
  if b.mode == "conc":
    # the selection relation M replaces the match computation in native runs too
    TableEntry.is_matched_by_orig = getattr(TableEntry, "is_matched_by_orig", TableEntry.is_matched_by)
    TableEntry.is_matched_by = env.native_patch
    SoftwareSwitchBase._time_orig = getattr(SoftwareSwitchBase, "_time_orig", SoftwareSwitchBase.__dict__["_time"])
    SoftwareSwitchBase._time = property(lambda self: self._time_value)


def wants_notice(v):
  return v["flags"] % 2 == 1 and (v["flags"] // 4) % 2 == 0


def _mk_delete(k, strict):
  def u(b):
    env = Env(b, k, port_filter=True)
    patch_native(b, env)
    fm = b.new(of.ofp_flow_mod)
    out_port = b.int("out_port", 0, 65535)
    b.set(fm, "out_port", out_port)
    b.set(fm, "priority", b.int("fm.priority", 0, 65535))
    sel = [b.And(env.M[i], b.Or(out_port == 0xffff, env.has_port[i])) for i in range(k)]
    f = SoftwareSwitchBase._flow_mod_delete_strict if strict else SoftwareSwitchBase._flow_mod_delete
    return Case(f, [env.sw, fm, None, env.table], calls=env.calls(), ensures={
      "exactly_the_selected_entries_are_removed_order_kept":
        lambda res: list(env.table._table) == [e for i, e in enumerate(env.entries) if not sel[i]],
      "one_flow_removed_per_removed_entry_that_asked_for_it_reason_delete":
        lambda res: notifications(b) == [(env.vals[i]["cookie"], env.vals[i]["priority"], RR_DELETE, env.vals[i]["packet_count"])
                                         for i in range(k) if sel[i] and wants_notice(env.vals[i])],
    })
  u.__name__ = "delete%s_%d" % ("_strict" if strict else "", k)
  u.bound = BOUND
  unit(P, target=SW + "SoftwareSwitchBase._flow_mod_delete / FlowTable.remove_matching_entries / _remove_specific_entries")(u)


for _k in (0, 1, 2, 3):
  _mk_delete(_k, False)
_mk_delete(2, True)


def _mk_expire(k):
  def u(b):
    env = Env(b, k)
    patch_native(b, env)
    now = env.now
    idle = [b.And(v["idle_timeout"] > 0, now - v["last_touched"] > v["idle_timeout"]) for v in env.vals]
    hard = [b.And(b.Not(idle[i]), v["hard_timeout"] > 0, now - v["created"] > v["hard_timeout"]) for i, v in enumerate(env.vals)]
    return Case(FlowTable.remove_expired_entries, [env.table, now], calls=env.calls(), ensures={
      "every_expired_entry_is_removed_at_this_sweep_and_no_other":
        lambda res: list(env.table._table) == [e for i, e in enumerate(env.entries) if not (idle[i] or hard[i])],
      "each_removal_notified_once_with_its_reason_idle_before_hard":
        lambda res: notifications(b) ==
        [(env.vals[i]["cookie"], env.vals[i]["priority"], RR_IDLE, env.vals[i]["packet_count"])
         for i in range(k) if idle[i] and wants_notice(env.vals[i])] +
        [(env.vals[i]["cookie"], env.vals[i]["priority"], RR_HARD, env.vals[i]["packet_count"])
         for i in range(k) if hard[i] and wants_notice(env.vals[i])],
    })
  u.__name__ = "expire_%d" % k
  u.bound = BOUND
  unit(P, target=FT + "FlowTable.remove_expired_entries / _remove_specific_entries; " + SW + "_handle_FlowTableModification")(u)


for _k in (0, 1, 2, 3):
  _mk_expire(_k)


def _mk_modify(k, strict):
  def u(b):
    env = Env(b, k)
    patch_native(b, env)
    fm = b.new(of.ofp_flow_mod)
    new_actions = b.list([b.raw_new(object)])
    b.set(fm, "actions", new_actions)
    b.set(fm, "priority", b.int("fm.priority", 0, 65535))
    b.assume(b.Or(*env.M) if k else False)          # at least one entry selected (otherwise it acts as ADD)
    old_actions = [b.get(e, "actions") for e in env.entries]
    f = SoftwareSwitchBase._flow_mod_modify_strict if strict else SoftwareSwitchBase._flow_mod_modify
    return Case(f, [env.sw, fm, None, env.table], calls=env.calls(), ensures={
      "selected_entries_get_the_new_actions_others_keep_theirs":
        lambda res: all([(e.actions is new_actions) if env.M[i] else (e.actions is old_actions[i])
                         for i, e in enumerate(env.entries)]),
      "entries_counters_and_order_untouched":
        lambda res: list(env.table._table) == env.entries
        and all([e.packet_count == env.vals[i]["packet_count"] and e.priority == env.vals[i]["priority"]
                 and e.idle_timeout == env.vals[i]["idle_timeout"] and e.created == env.vals[i]["created"]
                 for i, e in enumerate(env.entries)]),
      "no_notification": lambda res: notifications(b) == [],
    })
  u.__name__ = "modify%s_%d" % ("_strict" if strict else "", k)
  u.bound = BOUND
  unit(P, target=SW + "SoftwareSwitchBase._flow_mod_modify")(u)


for _k in (1, 2, 3):
  _mk_modify(_k, False)
_mk_modify(2, True)


# ------------------------------------------------------------------ ADD

class StubMatch(object):
  """a match of which the table code only asks whether it is exact"""
  def __init__(self, is_wildcarded=True):
    self.is_wildcarded = is_wildcarded


ERRORS = []
FMFC = {"ALL_TABLES_FULL": 0, "OVERLAP": 1, "EPERM": 2, "BAD_EMERG_TIMEOUT": 3}


def errors(b):
  """[(type, code)] of the errors sent"""
  if b.mode == "sym":
    return list(Gx.get("errors") or ())
  return list(ERRORS)


class _Gx(object):
  @native
  def get(self, st, name):
    return st.ghost.get(name)


Gx = _Gx()


def _mk_add(k):
  def u(b):
    env = Env(b, k)
    patch_native(b, env)
    wild = [b.bool("t%d.wildcarded" % i) for i in range(k)]
    for i, e in enumerate(env.entries):
      b.set(e, "match", b.raw_new(StubMatch, is_wildcarded=wild[i]))
    eff = [b.If(wild[i], env.vals[i]["priority"], EXACT) for i in range(k)]
    # table invariant: sorted by descending effective priority
    for i in range(k - 1):
      b.assume(eff[i] >= eff[i + 1])
    fm = b.new(of.ofp_flow_mod)
    f = dict(priority=b.int("fm.priority", 0, 65535), cookie=b.int("fm.cookie", 0, (1 << 64) - 1),
             idle_timeout=b.int("fm.idle", 0, 65535), hard_timeout=b.int("fm.hard", 0, 65535),
             command=0)
    f["flags"], fbits = b.bits("fm.flags", 3)
    for n_, v_ in f.items():
      b.set(fm, n_, v_)
    fwild = b.bool("fm.wildcarded")
    fmatch = b.raw_new(StubMatch, is_wildcarded=fwild)
    b.set(fm, "match", fmatch)
    acts = b.list([])
    b.set(fm, "actions", acts)
    overlap = b.bool("overlaps")
    new_eff = b.If(fwild, f["priority"], EXACT)
    calls = env.calls()
    maxe = b.get(env.sw, "max_entries")
    if b.mode == "sym":
      b.st.ghost["errors"] = ()
      def err(I, st, fn, args, kws):
        st.ghost["errors"] = tuple(st.ghost["errors"]) + ((kws.get("type"), kws.get("code")),)
      calls[SW + "SoftwareSwitchBase.send_error"] = CallSpec("opaque", ghost=err)
      calls[FT + "FlowTable.check_for_overlapping_entry"] = CallSpec("contract", returns=lambda I, st, a, k_: overlap,
                                                                     envelope="overlap relation is arbitrary here")
      calls["pox.lib.revent.revent:EventMixin.raiseEvent"] = Redirect(env)
    else:
      del ERRORS[:]
      b.set(env.sw, "send_error", lambda type, code, ofp=None, data=None, connection=None: ERRORS.append((type, code)))
      b.set(env.table, "check_for_overlapping_entry", lambda e: overlap)
    emerg = fbits[2] == 1
    chk = fbits[1] == 1
    notify = fbits[0] == 1
    rejected = lambda: errors(b) != []
    kept = lambda: [e for i, e in enumerate(env.entries) if not env.M[i]]
    return Case(SoftwareSwitchBase._flow_mod_add, [env.sw, fm, None, env.table], calls=calls, ensures={
      "emergency_entries_are_refused_with_the_specified_code":
        lambda res: (not emerg) or (list(env.table._table) == env.entries and errors(b) == [
          (3, FMFC["BAD_EMERG_TIMEOUT"] if (f["idle_timeout"] != 0 or f["hard_timeout"] != 0)
           else (FMFC["EPERM"] if notify else FMFC["ALL_TABLES_FULL"]))]),
      "overlap_check_refuses_and_changes_nothing":
        lambda res: emerg or not (chk and overlap) or (list(env.table._table) == env.entries and errors(b) == [(3, FMFC["OVERLAP"])]),
      "full_table_refuses":
        lambda res: emerg or (chk and overlap) or len(kept()) < maxe
        or (list(env.table._table) == kept() and errors(b) == [(3, FMFC["ALL_TABLES_FULL"])]),
      "otherwise_identical_entries_are_replaced_and_the_new_entry_is_in_priority_order":
        lambda res: emerg or (chk and overlap) or len(kept()) >= maxe or added_ok(b, env, kept(), fm, f, acts, fmatch, new_eff, eff),
      "an_add_never_notifies": lambda res: notifications(b) == [],
    })
  u.__name__ = "add_%d" % k
  u.bound = BOUND
  unit(P, target=SW + "SoftwareSwitchBase._flow_mod_add / FlowTable.add_entry / remove_matching_entries")(u)


def eff_of(e):
  return e.priority if e.match.is_wildcarded else EXACT


def added_ok(b, env, kept, fm, f, acts, fmatch, new_eff, eff):
  t = list(env.table._table)
  if len(t) != len(kept) + 1 or errors(b) != []:
    return False
  new = [e for e in t if e not in kept]
  if len(new) != 1:
    return False
  n = new[0]
  p = t.index(n)
  return ([e for e in t if e is not n] == kept
          and n.priority == f["priority"] and n.cookie == f["cookie"] and n.idle_timeout == f["idle_timeout"]
          and n.hard_timeout == f["hard_timeout"] and n.flags == f["flags"] and n.match is fmatch and n.actions is acts
          and n.packet_count == 0 and n.byte_count == 0 and n.last_touched == n.created
          and all([eff_of(t[j]) > new_eff for j in range(p)])
          and all([eff_of(t[j]) <= new_eff for j in range(p + 1, len(t))]))


for _k in (0, 1, 2):
  _mk_add(_k)


# ------------------------------------------------------------------ which entries a non-strict command selects

from contracts.c01_match import build_match, prereq_ok, FIELDS
from contracts.c03_match import field_equal, prefix_equal
import contracts.c03_match as _c03


def spec_subsumes(b, a, o):
  """entry match `o` is selected by command match `a` (OpenFlow 1.0 section 4.6, non-strict): every field that `a`
  does not wildcard is not wildcarded by `o` either and is equal; address prefixes of `a` are no longer than
  those of `o` and agree on a's prefix"""
  ok = True
  for name in FIELDS:
    if name in ("nw_src", "nw_dst"):
      aw = a.src_w if name == "nw_src" else a.dst_w
      ow = o.src_w if name == "nw_src" else o.dst_w
      ok = b.And(ok, b.Or(aw == 32, b.And(ow <= aw, prefix_equal(b, a.val[name], o.val[name], aw))))
    else:
      ok = b.And(ok, b.Or(a.wbit[name] == 1, b.And(o.wbit[name] == 0, field_equal(b, a.val[name], o.val[name]))))
  return ok


def _mk_subsumes(name, src_any, dst_any, tier="quick", rng=(0, 32)):
  """rng: the range of the command's wildcarded-bit count on the 'any' side covered by this unit (the four ranges together are
  0..32; split only so that the case analysis runs on four cores instead of one)"""
  def u(b):
    _c03._B = b
    a, ai = build_match(b, "a.")
    o, oi = build_match(b, "o.")
    b.assume(prereq_ok(b, ai))
    b.assume(prereq_ok(b, oi))
    w_any = ai.src_w if src_any else ai.dst_w
    b.assume(b.And(w_any >= rng[0], w_any <= rng[1]))
    if not src_any:
      b.assume(b.Or(ai.src_w == 0, ai.src_w == 32))
      b.assume(b.Or(oi.src_w == 0, oi.src_w == 32))
    if not dst_any:
      b.assume(b.Or(ai.dst_w == 0, ai.dst_w == 32))
      b.assume(b.Or(oi.dst_w == 0, oi.dst_w == 32))
    want = spec_subsumes(b, ai, oi)
    def run(a, o):
      # the shifts make the evaluator case-split on the command's prefix lengths first (33 x 33 concrete cases)
      (1 << a.get_nw_src()[1]) + (1 << a.get_nw_dst()[1])
      return a.matches_with_wildcards(o)
    return Case(run, [a, o], ensures={"selects_iff_subsumes": lambda res: res == want})
  u.__name__ = name
  unit(P, target="pox.openflow.libopenflow_01:ofp_match.matches_with_wildcards (consider_other_wildcards)", tier=tier,
       timeout_s=1200)(u)


for _lo, _hi in ((0, 8), (9, 16), (17, 24), (25, 32)):
  _mk_subsumes("nonstrict_selection_is_subsumption_src_prefixes_%d_to_%d_bits_wild" % (_lo, _hi), True, False, rng=(_lo, _hi))
  _mk_subsumes("nonstrict_selection_is_subsumption_dst_prefixes_%d_to_%d_bits_wild" % (_lo, _hi), False, True, rng=(_lo, _hi))


# ------------------------------------------------------------------ the selection predicate itself (callee of the units above)

def _mk_is_matched_by(n_actions):
  """TableEntry.is_matched_by == (no out_port filter or an output action to out_port) and
  (strict: same match and same priority | non-strict: the command's match subsumes the entry's match)"""
  def u(b):
    from pox.openflow.flow_table import TableEntry
    prio_e = b.int("entry.priority", 0, 65535)
    prio_c = b.int("command.priority", 0, 65535)
    strict = b.bool("strict")
    filtered = b.bool("out_port_given")
    out_port = b.int("out_port", 0, 65535)
    ports = [b.int("action%d.port" % i, 0, 65535) for i in range(n_actions)]
    is_out = [b.bool("action%d.is_output" % i) for i in range(n_actions)]
    acts = []
    for i in range(n_actions):
      o = b.new(of.ofp_action_output)
      b.set(o, "port", ports[i])
      v = b.new(of.ofp_action_vlan_vid)
      if b.mode == "sym":
        from pyvc.values import Union
        acts.append(Union([(is_out[i], o), (b.Not(is_out[i]), v)]))
      else:
        acts.append(o if is_out[i] else v)
    same = b.bool("matches_are_equal")
    subsumes = b.bool("command_match_subsumes_entry_match")
    em = b.new(of.ofp_match)
    cm = b.new(of.ofp_match)
    e = b.raw_new(TableEntry, match=em, priority=prio_e, actions=b.list(acts))
    cs = {}
    if b.mode == "sym":
      cs = {"pox.openflow.libopenflow_01:ofp_match.__eq__": CallSpec("contract", returns=lambda I, st, a, k: same,
                                                                      envelope="match equality (C01 units)"),
            "pox.openflow.libopenflow_01:ofp_match.matches_with_wildcards":
              CallSpec("contract", returns=lambda I, st, a, k: subsumes, envelope="subsumption (nonstrict_selection_* units)")}
    else:
      _NATIVE_MATCH["eq"], _NATIVE_MATCH["sub"] = same, subsumes
      object.__setattr__(em, "__class__", _StubMatch)     # ofp_match intercepts attribute assignment
      object.__setattr__(cm, "__class__", _StubMatch)
    def run(e, cm):
      if filtered:
        return e.is_matched_by(cm, priority=prio_c, strict=strict, out_port=out_port)
      return e.is_matched_by(cm, priority=prio_c, strict=strict)
    has_out = lambda: any([is_out[i] and ports[i] == out_port for i in range(n_actions)])
    return Case(run, [e, cm], calls=cs, raises={}, ensures={
      "selected_iff_port_filter_and_match_rule_hold":
        lambda res: bool(res) == ((not filtered or has_out()) and ((same and prio_e == prio_c) if strict else subsumes)),
    })
  u.__name__ = "is_matched_by_%d_actions" % n_actions
  u.bound = "entries with 0..2 actions"
  unit(P, target="pox.openflow.flow_table:TableEntry.is_matched_by")(u)


_NATIVE_MATCH = {}


class _StubMatch(of.ofp_match):
  def __eq__(self, other):
    return _NATIVE_MATCH["eq"]

  def matches_with_wildcards(self, other, consider_other_wildcards=True):
    return _NATIVE_MATCH["sub"]


for _n in (0, 1, 2):
  _mk_is_matched_by(_n)


# ------------------------------------------------------------------ a frame that hits an entry: counters and idle clock

HIT_LOG = []


@unit(P, target="pox.datapaths.switch:SoftwareSwitchBase.rx_packet (table hit)")
def a_matching_frame_refreshes_the_entry_whatever_its_actions(b):
  """every frame that hits an entry - a drop rule (no actions) included - counts in the entry's packet / byte counters
  and restarts its idle clock, and the entry's actions are applied exactly once"""
  from pox.datapaths.switch import SoftwareSwitchBase
  from pox.openflow.flow_table import TableEntry, FlowTable
  from pox.lib.packet.ethernet import ethernet
  from pox.lib.addresses import EthAddr
  import pox.openflow.libopenflow_01 as of_
  n_act = b.choice("number_of_actions", [0, 1, 2])
  pc0 = b.int("packet_count", 0, 1 << 40)
  bc0 = b.int("byte_count", 0, 1 << 50)
  created = b.real("created", 0, 1000000)
  touched = b.real("last_touched", 0, 1000000)
  now = b.real("now", 0, 2000000)
  b.assume(b.And(touched >= created, now >= touched))
  wire = b.bytes("wire", None, 14, 1514)
  n = len(wire) if b.mode == "conc" else wire.length()
  acts_all = [b.new(of_.ofp_action_output), b.new(of_.ofp_action_output)]
  port = b.new(of_.ofp_phy_port)
  b.set(port, "port_no", 1)
  b.set(port, "config", 0)
  stats = b.new(of_.ofp_port_stats)
  pkt = b.raw_new(ethernet, prev=None, next=wire, parsed=True, raw=None, src=b.new(EthAddr, b.bytes("src", 6)),
                  dst=b.new(EthAddr, b.bytes("dst", 6)), type=0x9000)
  if b.mode == "sym":
    from pyvc.values import Union
    b.st.ghost["hit"] = ()
    alist = Union([(g, b.list(acts_all[:k_])) for g, k_ in n_act.alts])
    entry = b.raw_new(TableEntry, actions=alist, packet_count=pc0, byte_count=bc0, created=created, last_touched=touched,
                      idle_timeout=10, hard_timeout=0, priority=5, flags=0, cookie=0, match=b.new(of_.ofp_match), buffer_id=None)
    table = b.raw_new(FlowTable, _table=b.list([entry]))
    def note(I, st, f, args, kws):
      st.ghost["hit"] = tuple(st.ghost["hit"]) + ((args[1], args[2], args[3]),)
    cs = {"pox.openflow.flow_table:FlowTable.entry_for_packet": CallSpec("contract", returns=lambda I, st, a, k: entry,
                                                                         envelope="lookup: property C03"),
          "pox.datapaths.switch:SoftwareSwitchBase._process_actions_for_packet": CallSpec("contract", ghost=note,
                                                                                           envelope="action application: property C12"),
          "time:time": CallSpec("assumed", returns=lambda I, st, a, k: now, envelope="clock"),
          "pox.lib.packet.packet_base:packet_base.__len__": CallSpec("contract", returns=lambda I, st, a, k: n,
                                                                     envelope="length of the frame (C14)")}
  else:
    entry = TableEntry(priority=5, actions=acts_all[:n_act], now=created)
    entry.packet_count, entry.byte_count, entry.last_touched, entry.idle_timeout = pc0, bc0, touched, 10
    table = FlowTable()
    table._table = [entry]
    table.entry_for_packet = lambda p, ip: entry
    cs = {}
    del HIT_LOG[:]
    import pox.openflow.flow_table as ftm
    ftm.time.time = lambda: now
    pkt.__class__ = type("E", (ethernet,), {"__len__": lambda self: n})
  sw = b.raw_new(SoftwareSwitchBase, ports=b.dict({1: port}), port_stats=b.dict({1: stats}), table=table, config_flags=0,
                 _lookup_count=0, _matched_count=0, miss_send_len=128, log=logging.getLogger("verif"))
  if b.mode == "conc":
    sw._process_actions_for_packet = lambda acts, p, ip, ofp=None: HIT_LOG.append((acts, p, ip))
  def run(sw, pkt, wire):
    sw.rx_packet(pkt, 1, wire)
    return (entry.packet_count, entry.byte_count, entry.last_touched, sw._matched_count)
  applied = lambda: list(G.get("hit") or ()) if b.mode == "sym" else list(HIT_LOG)
  return Case(run, [sw, pkt, wire], calls=cs, raises={}, ensures={
    "counters_count_the_frame": lambda res: res[0] == pc0 + 1 and res[1] == bc0 + n and res[3] == 1,
    "the_idle_clock_restarts": lambda res: res[2] == now,
    "the_entrys_actions_are_applied_exactly_once": lambda res: len(applied()) == 1 and applied()[0][0] is entry.actions
                                                               and applied()[0][2] == 1,
  })
a_matching_frame_refreshes_the_entry_whatever_its_actions.bound = "entries with 0..2 actions"


# ------------------------------------------------------------------ the overlap check itself (a callee of the add units)

def _mk_overlap(k):
  def u(b):
    from pox.openflow.flow_table import TableEntry, FlowTable
    effs = [b.int("entry%d.effective_priority" % i, 0, 65537) for i in range(k)]
    for i in range(1, k):
      b.assume(effs[i - 1] >= effs[i])                  # the table is kept sorted (C03)
    new_eff = b.int("new.effective_priority", 0, 65537)
    a_in_new = [b.bool("entry%d_is_matched_by_new" % i) for i in range(k)]      # e.is_matched_by(new.match)
    new_in_a = [b.bool("new_is_matched_by_entry%d" % i) for i in range(k)]      # new.is_matched_by(e.match)
    matches = [b.raw_new(object) for _ in range(k + 1)]
    entries = [b.raw_new(TableEntry, match=matches[i], priority=0, actions=b.list([])) for i in range(k)]
    new = b.raw_new(TableEntry, match=matches[k], priority=0, actions=b.list([]))
    table = b.raw_new(FlowTable, _table=b.list(entries))
    if b.mode == "sym":
      def eff_of(I, st, args, kws):
        for i, e in enumerate(entries):
          if args[0] == e:
            return effs[i]
        return new_eff
      def matched(I, st, args, kws):
        me, m = args[0], args[1]
        for i, e in enumerate(entries):
          if me == e and m == matches[k]:
            return a_in_new[i]
          if me == new and m == matches[i]:
            return new_in_a[i]
        raise AssertionError("unexpected is_matched_by call")
      cs = {FT + "TableEntry.effective_priority": CallSpec("contract", returns=eff_of, envelope="effective priority (C03 unit)"),
            FT + "TableEntry.is_matched_by": CallSpec("contract", returns=matched, envelope="subsumption (is_matched_by_* / nonstrict_selection_* units)")}
    else:
      cs = {}
      cls = type("E", (TableEntry,), {})
      def eff_get(self):
        for i, e in enumerate(entries):
          if self is e:
            return effs[i]
        return new_eff
      def imb(self, m, priority=None, strict=False, out_port=None):
        for i, e in enumerate(entries):
          if self is e and m is matches[k]:
            return a_in_new[i]
          if self is new and m is matches[i]:
            return new_in_a[i]
        raise AssertionError("unexpected is_matched_by call")
      cls.effective_priority = property(eff_get)
      cls.is_matched_by = imb
      for e in entries + [new]:
        e.__class__ = cls
    return Case(FlowTable.check_for_overlapping_entry, [table, new], calls=cs, raises={}, ensures={
      "overlap_iff_an_entry_of_the_same_priority_matches_a_common_packet":
        lambda res: bool(res) == any([effs[i] == new_eff and (a_in_new[i] or new_in_a[i]) for i in range(k)]),
    })
  u.__name__ = "overlap_check_%d_entries" % k
  u.bound = "tables of 0..3 entries"
  unit(P, target=FT + "FlowTable.check_for_overlapping_entry")(u)


for _k in (0, 1, 2, 3):
  _mk_overlap(_k)
