"""C01 - Nicira extensions (pox/openflow/nicira.py): bounded stand-in.

nx_* actions, vendor messages and NXM match entries carry bit-packed, type-directed encodings
(flow_mod_spec, ofs_nbits, dynamically created NXM classes) for which no contracts were written; the codec
contract (header length == byte count, multiple of 8 for vendor actions, decode consumes everything and
yields an equal object, re-encode reproduces the bytes) is evaluated on the real code over an enumerated space.
"""
import random
from pyvc.api import standin
import pox.openflow.libopenflow_01 as of
import pox.openflow.nicira as nx
from pox.lib.addresses import EthAddr, IPAddr, IPAddr6

P = "C01"
EDGE16 = [0, 1, 0x7fff, 0x8000, 0xfffe, 0xffff]
EDGE32 = [0, 1, 0x7fffffff, 0x80000000, 0xffffffff]
EDGE64 = [0, 1, (1 << 63) - 1, 1 << 63, (1 << 64) - 1]


def _action_rt(a):
  p = a.pack()
  if len(p) % 8:
    return "vendor action length %d is not a multiple of 8" % len(p)
  if len(p) != len(a):
    return "len(obj)=%d but %d bytes packed" % (len(a), len(p))
  if int.from_bytes(p[2:4], "big") != len(p):
    return "length field %d != %d" % (int.from_bytes(p[2:4], "big"), len(p))
  if p[0:2] != b"\xff\xff" or int.from_bytes(p[4:8], "big") != 0x2320:
    return "not an OFPAT_VENDOR/Nicira header"
  b = type(a)()
  off = b.unpack(p, 0)
  if off != len(p):
    return "decode consumed %d of %d bytes" % (off, len(p))
  if not (b == a):
    return "decoded action differs from the original"
  if b.pack() != p:
    return "re-encoding differs"
  # and through the generic action decoder (dispatch on vendor/subtype)
  o2, acts = of._unpack_actions(p, len(p), 0)
  if o2 != len(p) or len(acts) != 1 or acts[0].pack() != p:
    return "generic action decoding failed"
  return None


def _reg_classes():
  out = []
  for name in sorted(dir(nx)):
    c = getattr(nx, name)
    if isinstance(c, type) and issubclass(c, nx.nxm_entry) and getattr(c, "_nxm_type", None) is not None \
       and c is not nx.nxm_entry and not name.startswith("_"):
      out.append(c)
  return out


@standin(P, bound="every nx_* vendor action class x boundary values of each integer field (0, 1, sign bit, max) "
                  "x 200 random field vectors (quick) / 4000 (thorough); reg_move/reg_load/output_reg over 12 NXM "
                  "registers x offsets/nbits 1..size; learn actions with 0..3 specs of each kind",
         target="pox.openflow.nicira:nx_action_*", timeout_s=200)
def nicira_actions(tier, seed):
  rng = random.Random(seed)
  N = 200 if tier == "quick" else 4000
  simple = [
    (nx.nx_action_controller, {"max_len": 16, "controller_id": 16, "reason": 8}),
    (nx.nx_action_push_mpls, {"ethertype": 16}),
    (nx.nx_action_pop_mpls, {"ethertype": 16}),
    (nx.nx_action_mpls_label, {"label": 32}),
    (nx.nx_action_mpls_tc, {"tc": 8}),
    (nx.nx_action_set_tunnel, {"tun_id": 32}),
    (nx.nx_action_set_tunnel64, {"tun_id": 64}),
    (nx.nx_action_fin_timeout, {"fin_idle_timeout": 16, "fin_hard_timeout": 16}),
    (nx.nx_action_exit, {}),
    (nx.nx_action_dec_ttl, {}),
  ]
  for cls, fields in simple:
    vecs = []
    names = sorted(fields)
    for nm in names:
      w = fields[nm]
      for v in (0, 1, (1 << (w - 1)) - 1, 1 << (w - 1), (1 << w) - 1):
        vecs.append(dict((n2, (v if n2 == nm else rng.getrandbits(fields[n2]))) for n2 in names))
    for _ in range(N if names else 1):
      vecs.append(dict((n2, rng.getrandbits(fields[n2])) for n2 in names))
    if not names:
      vecs = [{}]
    for kw in vecs:
      yield ("%s(%s)" % (cls.__name__, ", ".join("%s=%#x" % kv for kv in sorted(kw.items()))),
             lambda cls=cls, kw=kw: _action_rt(cls(**kw)))
  for in_port in EDGE16:
    for table in (0, 1, 0x7f, 0xfe, 0xff):
      yield ("resubmit_table(in_port=%#x, table=%#x)" % (in_port, table),
             lambda in_port=in_port, table=table: _action_rt(nx.nx_action_resubmit.resubmit_table(table=table, in_port=in_port)))
    yield ("resubmit(in_port=%#x)" % in_port, lambda in_port=in_port: _action_rt(nx.nx_action_resubmit.resubmit(in_port=in_port)))
  regs = [c for c in _reg_classes() if getattr(c, "_nxm_length", None) in (1, 2, 4, 6, 8)][:12]
  for r in regs:
    size = r._nxm_length * 8
    for nbits in sorted(set([1, 2, size // 2, size - 1, size])):
      if nbits < 1 or nbits > 64:
        continue
      for ofs in sorted(set([0, 1, size - nbits])):
        if ofs < 0 or ofs + nbits > size:
          continue
        yield ("reg_load(dst=%s, ofs=%d, nbits=%d)" % (r.__name__, ofs, nbits),
               lambda r=r, ofs=ofs, nbits=nbits: _action_rt(nx.nx_reg_load(dst=r, value=(1 << nbits) - 1, offset=ofs, nbits=nbits)))
        yield ("output_reg(reg=%s, ofs=%d, nbits=%d)" % (r.__name__, ofs, nbits),
               lambda r=r, ofs=ofs, nbits=nbits: _action_rt(nx.nx_output_reg(reg=r, offset=ofs, nbits=nbits, max_len=ofs * 257)))
        for r2 in regs[:4]:
          if r2._nxm_length * 8 < nbits:
            continue
          yield ("reg_move(src=%s, dst=%s, nbits=%d, src_ofs=%d)" % (r.__name__, r2.__name__, nbits, ofs),
                 lambda r=r, r2=r2, ofs=ofs, nbits=nbits: _action_rt(nx.nx_reg_move(src=r, dst=r2, nbits=nbits, src_ofs=ofs, dst_ofs=0)))
  fms = nx.flow_mod_spec.new
  spec_makers = [
    lambda: fms(field=nx.NXM_OF_VLAN_TCI, n_bits=12),
    lambda: fms(field=nx.NXM_OF_ETH_SRC, match=nx.NXM_OF_ETH_DST),
    lambda: fms(field=nx.NXM_OF_IN_PORT, output=True),
    lambda: fms(field=nx.NXM_OF_ETH_SRC, load=nx.NXM_NX_REG1, n_bits=32) if hasattr(nx, "NXM_NX_REG1") else fms(field=nx.NXM_OF_IN_PORT, output=True),
    lambda: fms(immediate=b"\x12\x34", match=nx.NXM_OF_ETH_TYPE, n_bits=16),
  ]
  for n in range(0, 4):
    for combo in range(len(spec_makers) ** n if n else 1):
      idxs = []
      c = combo
      for _ in range(n):
        idxs.append(c % len(spec_makers))
        c //= len(spec_makers)
      for kw in ({"table_id": 1, "hard_timeout": 10}, {"table_id": 0xff, "idle_timeout": 0xffff, "priority": 0xffff,
                                                       "cookie": (1 << 64) - 1, "flags": 1, "fin_idle_timeout": 3,
                                                       "fin_hard_timeout": 0xffff}):
        def t(idxs=idxs, kw=kw):
          learn = nx.nx_action_learn(**kw)
          for i in idxs:
            learn.spec.append(spec_makers[i]())
          return _action_rt(learn)
        yield ("learn(%s; specs=%s)" % (sorted(kw), idxs), t)
  # immediate sources of every width: the immediate is padded to whole 16-bit words on the wire, whatever n_bits is
  for nb in range(1, 65):
    dst = (nx.NXM_OF_ETH_TYPE if nb <= 16 else nx.NXM_OF_IP_SRC if nb <= 32 else nx.NXM_OF_ETH_DST if nb <= 48
           else nx.NXM_NX_TUN_ID)
    imm = bytes([(0x11 * (i + 1)) & 0xff for i in range(((nb + 15) // 16) * 2)])
    for tail in (0, 1):
      def t(nb=nb, dst=dst, imm=imm, tail=tail):
        learn = nx.nx_action_learn(table_id=1)
        learn.spec.append(fms(immediate=imm, match=dst, n_bits=nb))
        if tail:
          learn.spec.append(fms(field=nx.NXM_OF_IN_PORT, output=True))
        return _action_rt(learn)
      yield ("learn(immediate of %d bits%s)" % (nb, " + a further spec" if tail else ""), t)


def _entry_values(cls, rng):
  n = cls._nxm_length
  if issubclass(cls, nx._nxm_ether):
    return [EthAddr(bytes([0] * 6)), EthAddr(bytes([0xff] * 6)), EthAddr(bytes(rng.getrandbits(8) for _ in range(6)))]
  if issubclass(cls, nx._nxm_ipv6):
    return [IPAddr6(bytes(16), raw=True), IPAddr6(bytes([0xff] * 16), raw=True),
            IPAddr6(bytes(rng.getrandbits(8) for _ in range(16)), raw=True)]
  if issubclass(cls, nx._nxm_ip):
    return [IPAddr(0), IPAddr(0xffffffff), IPAddr(rng.getrandbits(32))]
  if issubclass(cls, nx._nxm_numeric):
    w = 8 * n
    return [0, 1, (1 << (w - 1)) - 1, 1 << (w - 1), (1 << w) - 1, rng.getrandbits(w)]
  return [bytes(n), bytes([0xff] * n), bytes(rng.getrandbits(8) for _ in range(n))]


@standin(P, bound="every NXM entry class defined by the module x boundary and random values, unmasked and (when "
                  "maskable) with all-ones / prefix / random masks; nx_match with 0..4 entries; nx_flow_mod and "
                  "nxt_packet_in envelopes with such matches",
         target="pox.openflow.nicira:nxm_entry/nx_match", timeout_s=200)
def nicira_nxm(tier, seed):
  for c in _nxm_cases(tier, seed, allones=False):
    yield c


@standin(P, bound="every maskable NXM entry class x boundary values with an all-ones mask",
         target="pox.openflow.nicira:nxm_entry (all-ones mask)", timeout_s=200)
def nicira_nxm_allones_mask(tier, seed):
  for c in _nxm_cases(tier, seed, allones=True):
    yield c


def _nxm_cases(tier, seed, allones):
  rng = random.Random(seed)
  classes = [c for c in _reg_classes() if getattr(c, "_nxm_length", None)]
  entries = []
  for cls in classes:
    for v in _entry_values(cls, rng):
      masks = [None] if not allones else []
      if issubclass(cls, nx._nxm_maskable) and issubclass(cls, nx._nxm_numeric):
        w = 8 * cls._nxm_length
        lim = 0x0fff if issubclass(cls, nx._nxm_tcp_flags) else (1 << w) - 1
        masks += ([lim] if allones else [lim ^ ((1 << (w // 2)) - 1) & lim, 1, 0])   # 0: fully wildcarded, still an entry
      for m in masks:
        def t(cls=cls, v=v, m=m):
          if m is None:
            e = cls(v)
          else:
            vv = v & m if isinstance(v, int) else v
            e = cls(vv, m)
          p = e.pack()
          hdr = int.from_bytes(p[0:4], "big")
          if (hdr & 0xff) != len(p) - 4:
            return "NXM length field %d != payload %d" % (hdr & 0xff, len(p) - 4)
          if bool((hdr >> 8) & 1) != (m is not None and e.mask is not None):
            pass
          off, e2 = nx.nxm_entry.unpack_new(p, 0)
          if off != len(p):
            return "decode consumed %d of %d" % (off, len(p))
          if type(e2) is not type(e) and type(e2).__name__ != type(e).__name__:
            return "decoded as %s" % type(e2).__name__
          if e2.pack() != p:
            return "re-encoding differs"
          if not (e2 == e):
            return "decoded entry differs"
          return None
        yield ("%s(%r, mask=%r)" % (cls.__name__, v, m), t)
        entries.append((cls, v))
  if allones:
    return
  some = entries[:: max(1, len(entries) // 40)]
  for n in range(0, 5):
    for rep in range(6 if tier == "quick" else 60):
      pick = [some[rng.randrange(len(some))] for _ in range(n)]
      def t(pick=pick):
        m = nx.nx_match()
        seen = set()
        for cls, v in pick:
          if cls in seen:
            continue
          seen.add(cls)
          m.append(cls(v))
        p = m.pack(omittable=False)
        m2 = nx.nx_match()
        m2.unpack(p, 0, len(p))
        if m2.pack(omittable=False) != p:
          return "nx_match re-encoding differs"
        return None
      yield ("nx_match(%s)" % ", ".join("%s=%r" % (c.__name__, v) for c, v in pick), t)


# ---------------------------------------------------------------- Nicira vendor MESSAGES (added 2026-09-25)

def _msg_rt(m):
  p = m.pack()
  if int.from_bytes(p[2:4], "big") != len(p):
    return "header length field %d but %d bytes packed" % (int.from_bytes(p[2:4], "big"), len(p))
  if len(m) != len(p):
    return "len(obj)=%d but %d bytes packed" % (len(m), len(p))
  if p[1] != 4 or int.from_bytes(p[8:12], "big") != 0x2320:
    return "not an OFPT_VENDOR / Nicira message"
  m2 = type(m)()
  r = m2.unpack(p, 0)
  off = r[0] if isinstance(r, tuple) else r
  if off != len(p):
    return "decode consumed %s of %d bytes" % (off, len(p))
  if not (m2 == m):
    return "decoded message differs from the original"
  if m2.pack() != p:
    return "re-encoding differs"
  return None


@standin(P, bound="every Nicira vendor message class x a few field settings (flags, roles, formats; nx_flow_mod with 0..2 NXM "
                  "match entries and 0..2 actions; nxt_packet_in with 0..2 match entries, data of 0 / 60 bytes)",
         target="pox.openflow.nicira: nx_flow_mod_table_id, nx_packet_in_format, nx_role_request, nx_role_reply, nx_async_config, "
                "nx_flow_mod, nxt_packet_in", timeout_s=120)
def nicira_messages(tier, seed):
  for en in (True, False):
    yield ("nx_flow_mod_table_id(enable=%s)" % en, lambda en=en: _msg_rt(nx.nx_flow_mod_table_id(enable=en)))
  for fmt in (0, 1):
    yield ("nx_packet_in_format(format=%d)" % fmt, lambda fmt=fmt: _msg_rt(nx.nx_packet_in_format(format=fmt)))
  for cls in (nx.nx_role_request, nx.nx_role_reply):
    for role in ("other", "master", "slave"):
      yield ("%s(%s)" % (cls.__name__, role), lambda cls=cls, role=role: _msg_rt(cls(**{role: True})))
  if hasattr(nx, "nx_async_config"):
    yield ("nx_async_config()", lambda: _msg_rt(nx.nx_async_config()))
  def entries(n):
    es = []
    if n >= 1:
      es.append(nx.NXM_OF_IN_PORT(3))
    if n >= 2:
      es.append(nx.NXM_OF_ETH_TYPE(0x800))
    return es
  for n in (0, 1, 2):
    for na in (0, 1, 2):
      def t(n=n, na=na):
        fm = nx.nx_flow_mod()
        for e in entries(n):
          fm.match.append(e)
        for i in range(na):
          fm.actions.append(of.ofp_action_output(port=i + 1))
        fm.cookie = 0x1122334455667788
        fm.priority = 7
        return _msg_rt(fm)
      yield ("nx_flow_mod(match entries=%d, actions=%d)" % (n, na), t)
  for n in (0, 1, 2):
    for dl in (0, 60):
      def t(n=n, dl=dl):
        pi = nx.nxt_packet_in()
        for e in entries(n):
          pi.match.append(e)
        pi.data = bytes(range(dl))
        pi.total_len = dl
        pi.reason = 1
        pi.table_id = 2
        pi.cookie = 9
        pi.buffer_id = 5
        return _msg_rt(pi)
      yield ("nxt_packet_in(match entries=%d, data=%d bytes)" % (n, dl), t)
