"""C01 - ofp_match codec (hand-written: wildcard handling, prerequisites) and the match builder shared with
the container units and with C03/C04."""
from pyvc.api import unit, Case
from spec.of10_layout import MATCH, be
import pox.openflow.libopenflow_01 as of
from pox.lib.addresses import EthAddr, IPAddr

P = "C01"
MOD = "pox.openflow.libopenflow_01:"

# OpenFlow 1.0 wildcard bits (openflow.h, enum ofp_flow_wildcards) - transcribed, not imported
FW_IN_PORT, FW_DL_VLAN, FW_DL_SRC, FW_DL_DST, FW_DL_TYPE, FW_NW_PROTO, FW_TP_SRC, FW_TP_DST = 1, 2, 4, 8, 16, 32, 64, 128
FW_NW_SRC_SHIFT, FW_NW_DST_SHIFT = 8, 14
FW_DL_VLAN_PCP, FW_NW_TOS = 1 << 20, 1 << 21
FW_ALL = (1 << 22) - 1

FIELDS = ["in_port", "dl_src", "dl_dst", "dl_vlan", "dl_vlan_pcp", "dl_type", "nw_tos", "nw_proto", "nw_src", "nw_dst",
          "tp_src", "tp_dst"]
WIDTH = {"in_port": 2, "dl_vlan": 2, "dl_vlan_pcp": 1, "dl_type": 2, "nw_tos": 1, "nw_proto": 1, "tp_src": 2, "tp_dst": 2}
BIT = {"in_port": FW_IN_PORT, "dl_vlan": FW_DL_VLAN, "dl_src": FW_DL_SRC, "dl_dst": FW_DL_DST, "dl_type": FW_DL_TYPE,
       "nw_proto": FW_NW_PROTO, "tp_src": FW_TP_SRC, "tp_dst": FW_TP_DST, "dl_vlan_pcp": FW_DL_VLAN_PCP,
       "nw_tos": FW_NW_TOS}


class MatchInputs(object):
  """the symbolic inputs a match was built from (independent of the object's attributes)"""
  pass


def build_match(b, prefix="m."):
  """an ofp_match as the library keeps it: any wildcard word with normalised prefix widths (<= 32),
  any field values in their wire ranges, addresses as EthAddr / IPAddr"""
  mi = MatchInputs()
  W, bits = b.bits(prefix + "wildcards", 22)
  mi.W = W
  mi.bits = bits
  mi.wbit = {}
  for name, bit in BIT.items():
    mi.wbit[name] = bits[bit.bit_length() - 1]
  mi.src_w = sum([bits[8 + i] * (1 << i) for i in range(6)])    # wildcarded low bits of nw_src, 32 = all
  mi.dst_w = sum([bits[14 + i] * (1 << i) for i in range(6)])
  b.assume(mi.src_w <= 32)     # the class keeps the prefix widths normalised (_normalize_wildcards)
  b.assume(mi.dst_w <= 32)
  mi.val = {}
  m = b.new(of.ofp_match)
  b.set(m, "wildcards", W)
  for name in FIELDS:
    if name in WIDTH:
      v = b.int(prefix + name, 0, 256 ** WIDTH[name] - 1)
      b.set(m, "_" + name, v)
      mi.val[name] = v
    elif name.startswith("dl_"):
      raw = b.bytes(prefix + name, 6)
      b.set(m, "_" + name, b.new(EthAddr, raw))
      mi.val[name] = raw
    else:
      raw = b.bytes(prefix + name, 4)
      b.set(m, "_" + name, b.new(IPAddr, raw))
      mi.val[name] = raw
  return m, mi


def wildcarded(mi, name):
  if name == "nw_src":
    return mi.src_w == 32
  if name == "nw_dst":
    return mi.dst_w == 32
  return mi.wbit[name] == 1


def prereq_ok(b, mi):
  """fields whose protocol prerequisites are not met are wildcarded (OF 1.0: such fields are ignored)"""
  dl_ip = b.And(mi.wbit["dl_type"] == 0, mi.val["dl_type"] == 0x0800)
  dl_arp = b.And(mi.wbit["dl_type"] == 0, mi.val["dl_type"] == 0x0806)
  tp_ok = b.And(dl_ip, mi.wbit["nw_proto"] == 0,
                b.Or(mi.val["nw_proto"] == 1, mi.val["nw_proto"] == 6, mi.val["nw_proto"] == 17))
  return b.And(
    b.Or(mi.wbit["nw_tos"] == 1, dl_ip),
    b.Or(mi.wbit["nw_proto"] == 1, dl_ip, dl_arp),
    b.Or(mi.src_w == 32, dl_ip, dl_arp),
    b.Or(mi.dst_w == 32, dl_ip, dl_arp),
    b.Or(mi.wbit["tp_src"] == 1, tp_ok),
    b.Or(mi.wbit["tp_dst"] == 1, tp_ok))


def field_bytes(mi, name):
  v = mi.val[name]
  if name in WIDTH:
    return be(v, WIDTH[name])
  return v


OFFSET = {"wildcards": 0, "in_port": 4, "dl_src": 6, "dl_dst": 12, "dl_vlan": 18, "dl_vlan_pcp": 20, "dl_type": 22,
          "nw_tos": 24, "nw_proto": 25, "nw_src": 28, "nw_dst": 32, "tp_src": 36, "tp_dst": 38}
SIZE = {"dl_src": 6, "dl_dst": 6, "nw_src": 4, "nw_dst": 4}


def spec_match_bytes_ok(p, mi, W):
  """p is a 40-byte ofp_match: wildcard word W, every non-wildcarded field at its offset, zero padding"""
  ok = len(p) == 40 and p[0:4] == be(W, 4) and p[21] == 0 and p[26] == 0 and p[27] == 0
  for name in FIELDS:
    n = WIDTH.get(name) or SIZE[name]
    o = OFFSET[name]
    ok = ok and (wildcarded(mi, name) or p[o:o + n] == field_bytes(mi, name))
  return ok


def _rt_match(m):
  p = m.pack()
  m2 = of.ofp_match()
  r = m2.unpack(p, 0)
  return (p, len(m), r, m2 == m, m2.pack(), m == m)


@unit(P, target=MOD + "ofp_match.pack/unpack/__eq__")
def ofp_match_standalone(b):
  m, mi = build_match(b)
  b.assume(prereq_ok(b, mi))
  return Case(_rt_match, [m], ensures={
    "layout": lambda res: spec_match_bytes_ok(res[0], mi, mi.W),
    "length": lambda res: res[1] == 40 and len(res[0]) == 40,
    "consumed": lambda res: res[2] == 40,
    "round_trip": lambda res: res[3] == True,
    "re_encode": lambda res: res[4] == res[0],
    "eq_reflexive": lambda res: res[5] == True,
  })


@unit(P, target=MOD + "ofp_match.pack/unpack/__eq__")
def ofp_match_standalone_any_prerequisites(b):
  """the same round trip without the prerequisite precondition: what the property literally demands"""
  m, mi = build_match(b)
  return Case(_rt_match, [m], ensures={
    "length": lambda res: res[1] == 40 and len(res[0]) == 40,
    "consumed": lambda res: res[2] == 40,
    "round_trip": lambda res: res[3] == True,
    "re_encode": lambda res: res[4] == res[0],
  })


def _rt_match_flow_mod(m):
  p = m.pack(flow_mod=True)
  m2 = of.ofp_match()
  r = m2.unpack(p, 0, flow_mod=True)
  return (p, r, m2 == m, m2.pack(flow_mod=True))


def wire_wildcards(mi, W):
  """OF 1.0.1 section 3.4: on the wire the wildcard bits of fields that are ignored anyway are cleared"""
  return W


@unit(P, target=MOD + "ofp_match._wire_wildcards/_unwire_wildcards")
def ofp_match_in_flow_mod(b):
  m, mi = build_match(b)
  b.assume(prereq_ok(b, mi))
  # object-side normal form: ignored fields carry their wildcard bit
  return Case(_rt_match_flow_mod, [m], ensures={
    "length": lambda res: len(res[0]) == 40 and res[1] == 40,
    "fields": lambda res: spec_match_fields_only(res[0], mi),
    "round_trip": lambda res: res[2] == True,
    "re_encode": lambda res: res[3] == res[0],
  })


def spec_match_fields_only(p, mi):
  ok = len(p) == 40 and p[21] == 0 and p[26] == 0 and p[27] == 0
  for name in FIELDS:
    n = WIDTH.get(name) or SIZE[name]
    o = OFFSET[name]
    ok = ok and (wildcarded(mi, name) or p[o:o + n] == field_bytes(mi, name))
  return ok
