"""C20 - the send path keeps the byte stream (controller: Connection.send + DeferredSender; switch: IOWorker family).

Abstract view, per connection:   stream = wire (bytes the socket accepted so far) ++ pending (bytes queued behind it)
  controller   pending(con) = concatenation of deferredSender._dataForConnection[con]   (nothing if absent)
  switch       pending(worker) = worker.send_buf
Every operation is proved to keep  wire' ++ pending' == wire ++ pending ++ (bytes newly handed over), for arbitrary
message bytes and every socket outcome per call (accepts l of n bytes, 0 <= l <= n; EAGAIN; fatal error), and after a
fatal error: nothing further is written, the pending bytes are dropped, the connection is closed exactly once.
The direct write in Connection.send relies on the invariant  `not deferredSender.sending  ==>  nothing is pending`,
which every DeferredSender operation is proved to keep.  The history statement is the induction over these steps;
the interleaving of the DeferredSender thread with the cooperative thread is serialised by its lock (assumed)."""
from pyvc.api import unit, Case, CallSpec, native, Reject
import errno as _errno
import socket as _socket
import pox.openflow.of_01 as of_01
from pox.openflow.of_01 import Connection, DeferredSender
import pox.lib.ioworker as iow
from pox.lib.ioworker import IOWorker, RecocoIOWorker

P = "C20"
OF = "pox.openflow.of_01:"
IO = "pox.lib.ioworker:"
PIPE_BUF = of_01.PIPE_BUF
OK, AGAIN, FATAL, OTHER = 0, 1, 2, 3


class _G(object):
  @native
  def get(self, st, name):
    return st.ghost.get(name)


G = _G()


# ---------------------------------------------------------------- environment stubs (native runs) and their callee specs

class Lock(object):
  def __enter__(self):
    return self

  def __exit__(self, *a):
    return False


class Pinger(object):
  pings = 0

  def ping(self):
    self.pings += 1

  def pongAll(self):
    pass


class Sock(object):
  """scripted socket: the k-th send() has outcome script[k] = (kind, l)"""
  def __init__(self, script):
    self.script = list(script)
    self.calls = 0
    self.wire = b""
    self.dead = False
    self.wrote_after_error = False
    self.shut = 0

  def send(self, data, flags=0):
    kind, l = self.script[self.calls]
    self.calls += 1
    if self.dead:
      self.wrote_after_error = True
    if kind == OK:
      if l > len(data):
        raise Reject()
      self.wire += data[:l]
      return l
    if kind == AGAIN:
      raise _socket.error(_errno.EAGAIN, "try again")
    if kind == FATAL:
      self.dead = True
      raise _socket.error(_errno.ECONNRESET, "connection reset")
    raise ValueError("something else")

  def shutdown(self, how):
    self.shut += 1


class SockSend(CallSpec):
  def __init__(self, script, allow_other=False):
    CallSpec.__init__(self, "assumed", envelope="socket.send(data): accepts the first l bytes, 0 <= l <= len(data), or "
                      "raises socket.error(EAGAIN) or another socket.error" + (" or another exception" if allow_other else ""))
    self.script = script

  def apply(self, I, f, args, kws, st, ctx, k, node):
    from pyvc.values import ExcVal, Unsupported, zint
    from pyvc import sbytes as sb
    import z3
    n = st.ghost.get("sock_calls", 0)
    st.ghost["sock_calls"] = n + 1
    if st.ghost.get("sock_dead"):
      st.ghost["wrote_after_error"] = True
    if n >= len(self.script):
      raise Unsupported("more socket calls than the unit's script provides")
    kind, l = self.script[n]
    data = args[1]
    ln = data.length() if hasattr(data, "length") else len(data)
    def ok(st2):
      st2.add(z3.And(zint(l) >= 0, zint(l) <= zint(ln)))
      if not st2.feasible(True):
        return
      part = sb.slice_bytes(sb.as_sbytes(data) if hasattr(sb, "as_sbytes") else data, 0, l, st2)
      st2.ghost["wire"] = sb.concat(st2.ghost["wire"], part)
      return k(st2, l)
    def again(st2):
      return ctx.exc_k(st2, ExcVal(_socket.error, (_errno.EAGAIN, "try again")))
    def fatal(st2):
      st2.ghost["sock_dead"] = True
      return ctx.exc_k(st2, ExcVal(_socket.error, (_errno.ECONNRESET, "connection reset")))
    def other(st2):
      return ctx.exc_k(st2, ExcVal(ValueError, ("something else",)))
    return I.branch(kind == OK, st, ok, lambda s: I.branch(kind == AGAIN, s, again,
                    lambda s2: I.branch(kind == FATAL, s2, fatal, other, "sock"), "sock"), "sock")


def script(b, n, kinds=3):
  return [(b.int("call%d.kind" % i, 0, kinds - 1), b.int("call%d.accepts" % i, 0, 1 << 20)) for i in range(n)]


def new_sock(b, scr):
  if b.mode == "sym":
    from pyvc import sbytes as sb
    b.st.ghost["wire"] = sb.SBytes([], False)
    b.st.ghost["sock_calls"] = 0
    return b.raw_new(Sock, shut=0, calls=0, dead=False)
  return Sock(scr)


def wire(b, sock):
  return G.get("wire") if b.mode == "sym" else sock.wire


def sock_calls(b, sock):
  return G.get("sock_calls") if b.mode == "sym" else sock.calls


def wrote_after_error(b, sock):
  return bool(G.get("wrote_after_error")) if b.mode == "sym" else sock.wrote_after_error


def cat(chunks):
  r = b""
  for c in chunks:
    r = r + c
  return r


# ---------------------------------------------------------------- controller: Connection.send

QUEUED = []
DISC = []


class Queue(CallSpec):
  def __init__(self):
    CallSpec.__init__(self, "contract", envelope="DeferredSender.send: unit deferred_send_* below")

  def apply(self, I, f, args, kws, st, ctx, k, node):
    st.ghost["queued"] = tuple(st.ghost.get("queued", ())) + ((args[1], args[2]),)
    return k(st, None)


class Disc(CallSpec):
  def __init__(self):
    CallSpec.__init__(self, "contract", envelope="Connection.disconnect: marks the connection disconnected (property C09)")

  def apply(self, I, f, args, kws, st, ctx, k, node):
    st.ghost["disc"] = tuple(st.ghost.get("disc", ())) + ((args[0], kws.get("defer_event", False)),)
    st.obj(args[0]).data["disconnected"] = True
    return k(st, None)


class NativeDS(object):
  def __init__(self, sending):
    self.sending = sending

  def send(self, con, data):
    QUEUED.append((con, data))


def queued(b):
  return list(G.get("queued") or ()) if b.mode == "sym" else list(QUEUED)


def disc(b):
  return list(G.get("disc") or ()) if b.mode == "sym" else list(DISC)


@unit(P, target=OF + "Connection.send")
def controller_send_one_message(b):
  data = b.bytes("data", None, 1, 70000)
  scr = script(b, 1)
  sock = new_sock(b, scr)
  disconnected = b.bool("disconnected")
  sending = b.bool("deferred_sender_busy")
  con = b.raw_new(Connection, sock=sock, disconnected=disconnected, ID=1, dpid=None)
  cs = {}
  if b.mode == "sym":
    ds = b.raw_new(DeferredSender, sending=sending)
    b.st.ghost[("$global", "pox.openflow.of_01", "deferredSender")] = ds
    b.st.ghost["queued"] = ()
    b.st.ghost["disc"] = ()
    cs = {"contracts.c20_send:Sock.send": SockSend(scr), OF + "DeferredSender.send": Queue(), OF + "Connection.disconnect": Disc()}
  else:
    del QUEUED[:]
    del DISC[:]
    of_01.deferredSender = NativeDS(sending)
    def _disc(msg="disconnected", defer_event=False):
      DISC.append((con, defer_event))
      con.disconnected = True
    con.disconnect = _disc
  kind, l = scr[0]
  direct = lambda: not disconnected and not sending
  return Case(Connection.send, [con, data], calls=cs, raises={}, ensures={
    "a_disconnected_connection_writes_and_queues_nothing":
      lambda res: not disconnected or (sock_calls(b, sock) == 0 and len(queued(b)) == 0),
    "behind_pending_bytes_the_message_is_queued_not_written":
      lambda res: not (not disconnected and sending) or (sock_calls(b, sock) == 0 and len(queued(b)) == 1
                                                         and queued(b)[0][0] is con and queued(b)[0][1] == data),
    "written_prefix_plus_queued_remainder_is_the_message":
      lambda res: not (direct() and kind != FATAL) or (sock_calls(b, sock) == 1 and len(queued(b)) <= 1
                                                       and wire(b, sock) + cat([q[1] for q in queued(b)]) == data
                                                       and all([q[0] is con for q in queued(b)])),
    "after_a_fatal_error_nothing_is_queued_and_the_connection_is_disconnected_once":
      lambda res: not (direct() and kind == FATAL) or (len(queued(b)) == 0 and len(wire(b, sock)) == 0
                                                       and len(disc(b)) == 1 and disc(b)[0][0] is con and disc(b)[0][1] is True
                                                       and con.disconnected is True),
    "no_fatal_error_no_disconnect": lambda res: (direct() and kind == FATAL) or len(disc(b)) == 0,
  })


# ---------------------------------------------------------------- controller: DeferredSender

@unit(P, target=OF + "DeferredSender._sliceup")
def sliceup_cuts_without_loss(b):
  data = b.bytes("data", None, 0, 3 * PIPE_BUF + 17)
  ds = b.raw_new(DeferredSender)
  return Case(DeferredSender._sliceup, [ds, data], raises={}, ensures={
    "concatenation_is_the_data": lambda res: cat(res) == data,
    "no_empty_and_no_oversized_chunk": lambda res: all([0 < len(c) and len(c) <= PIPE_BUF for c in res]),
  })
sliceup_cuts_without_loss.bound = "data of 0 .. 3*PIPE_BUF+17 bytes (loop unrolled), content symbolic"


def deferred(b, n_pending, other=True, sending=None):
  """a DeferredSender with n_pending chunks queued for `con` (None: no entry) and, optionally, one for another one"""
  con = b.raw_new(Connection, ID=1, dpid=None, disconnected=False)
  con2 = b.raw_new(Connection, ID=2, dpid=None, disconnected=False)
  pend = None if n_pending is None else [b.bytes("pending%d" % i, None, 1, PIPE_BUF) for i in range(n_pending)]
  other_chunk = b.bytes("other", None, 1, PIPE_BUF)
  d = {}
  if pend is not None:
    d[con] = b.list(list(pend))
  other_list = b.list([other_chunk])
  if other:
    d[con2] = other_list
  if sending is None:
    sending = b.bool("sending")
  lock = b.raw_new(Lock)
  waker = b.raw_new(Pinger, pings=0)
  ds = b.raw_new(DeferredSender, _dataForConnection=b.dict(d), _lock=lock, _waker=waker, sending=sending)
  # the invariant Connection.send relies on
  if sending is not True and len(d) != 0:
    b.assume(sending if b.mode == "sym" else bool(sending))
  return ds, con, con2, pend, other_chunk, other_list, waker


def _mk_deferred_send(n_pending):
  def u(b):
    ds, con, con2, pend, other_chunk, other_list, waker = deferred(b, n_pending)
    data = b.bytes("data", None, 1, 2 * PIPE_BUF + 3)
    old = cat(pend or []) if b.mode == "conc" else None
    def run(ds, con, data):
      before = cat(ds._dataForConnection.get(con, []))
      ds.send(con, data)
      return (before, cat(ds._dataForConnection[con]), ds._dataForConnection[con2], ds.sending, ds._waker.pings)
    return Case(run, [ds, con, data], raises={}, ensures={
      "the_bytes_go_behind_those_already_pending": lambda res: res[1] == res[0] + data,
      "other_connections_are_untouched": lambda res: res[2] is other_list and len(res[2]) == 1 and res[2][0] == other_chunk,
      "sender_is_marked_busy_and_woken": lambda res: res[3] is True and res[4] == 1,
    })
  u.__name__ = "deferred_send_%s" % ("no_entry" if n_pending is None else "%d_pending" % n_pending)
  u.bound = "0..2 chunks already pending, new data up to 2*PIPE_BUF+3 bytes; content symbolic"
  unit(P, target=OF + "DeferredSender.send")(u)


for _n in (None, 0, 1, 2):
  _mk_deferred_send(_n)


@unit(P, target=OF + "DeferredSender.kill")
def deferred_kill_drops_only_that_connection(b):
  ds, con, con2, pend, other_chunk, other_list, waker = deferred(b, 1)
  def run(ds, con):
    ds.kill(con)
    ds.kill(con)
    return (con in ds._dataForConnection, ds._dataForConnection[con2])
  return Case(run, [ds, con], raises={}, ensures={
    "entry_gone_others_kept": lambda res: res[0] is False and res[1] is other_list,
  })


class CoreStub(object):
  running = True


class Select(CallSpec):
  """select.select: first call reports `ready` (r, w, x); the second call finds the core going down"""
  def __init__(self, core, ready):
    CallSpec.__init__(self, "assumed", envelope="select.select reports connections writable / in error")
    self.core = core
    self.ready = ready

  def apply(self, I, f, args, kws, st, ctx, k, node):
    n = st.ghost.get("selects", 0)
    st.ghost["selects"] = n + 1
    if n == 0:
      r, w, x = self.ready
      return k(st, (st.alloc("list", list, list(r)), st.alloc("list", list, list(w)), st.alloc("list", list, list(x))))
    st.obj(self.core).data["running"] = False
    return k(st, (st.alloc("list", list, []), st.alloc("list", list, []), st.alloc("list", list, [])))


def _mk_flush(n_pending, n_calls, other):
  def u(b):
    ds, con, con2, pend, other_chunk, other_list, waker = deferred(b, n_pending, other=other, sending=True)
    scr = script(b, n_calls, kinds=4)
    sock = new_sock(b, scr)
    b.set(con, "sock", sock)
    cs = {}
    if b.mode == "sym":
      core = b.raw_new(CoreStub, running=True)
      b.st.ghost[("$global", "pox.openflow.of_01", "core")] = core
      b.st.ghost["disc"] = ()
      b.st.ghost["selects"] = 0
      cs = {"contracts.c20_send:Sock.send": SockSend(scr, True), OF + "Connection.disconnect": Disc(),
            "select:select": Select(core, ([waker], [con], []))}
    else:
      del DISC[:]
      core = CoreStub()
      core.running = True
      of_01.core = core
      state = {"n": 0}
      def _select(r, w, x, t=None):
        state["n"] += 1
        if state["n"] == 1:
          return ([waker], [con], [])
        core.running = False
        return ([], [], [])
      of_01.select = type("S", (), {"select": staticmethod(_select), "PIPE_BUF": PIPE_BUF})
      def _disc(msg="disconnected", defer_event=False):
        DISC.append((con, defer_event))
        con.disconnected = True
      con.disconnect = _disc
    def run(ds, con):
      before = cat(ds._dataForConnection[con])
      ds.run()
      return (before, cat(ds._dataForConnection.get(con, [])), con in ds._dataForConnection,
              len(ds._dataForConnection), ds.sending,
              [0 < len(c) for c in ds._dataForConnection.get(con, [])])
    fatal_seen = lambda: len(disc(b)) > 0
    return Case(run, [ds, con], calls=cs, raises={}, ensures={
      "written_bytes_plus_still_pending_bytes_are_the_pending_bytes":
        lambda res: fatal_seen() or wire(b, sock) + res[1] == res[0],
      "written_bytes_are_a_prefix_even_when_the_socket_fails":
        lambda res: len(wire(b, sock)) <= len(res[0]) and wire(b, sock) == res[0][:len(wire(b, sock))],
      "a_fatal_error_drops_the_connection_once_and_nothing_is_written_afterwards":
        lambda res: not fatal_seen() or (len(disc(b)) == 1 and disc(b)[0][0] is con and res[2] is False
                                         and not wrote_after_error(b, sock)),
      "an_entry_remains_exactly_while_bytes_are_pending":
        lambda res: fatal_seen() or (res[2] == (len(res[1]) > 0) and all(res[5])),
      "idle_flag_only_when_nothing_is_pending": lambda res: res[4] is True or res[3] == 0,
    })
  u.__name__ = "deferred_flush_%d_pending_%d_socket_calls%s" % (n_pending, n_calls, "_alone" if not other else "")
  u.bound = "1..2 pending chunks, up to 3 socket calls, one select round; outcomes and content symbolic"
  unit(P, target=OF + "DeferredSender.run", timeout_s=900)(u)


_mk_flush(1, 1, True)
_mk_flush(1, 1, False)
_mk_flush(2, 2, True)
_mk_flush(2, 2, False)


# ---------------------------------------------------------------- switch side: IOWorker / RecocoIOWorker

CLOSED = []


def closing(w):
  CLOSED.append(w)


class CloseRec(CallSpec):
  def __init__(self):
    CallSpec.__init__(self, "opaque", envelope="close handler / on_close callback of the worker's owner")

  def apply(self, I, f, args, kws, st, ctx, k, node):
    st.ghost["closed_calls"] = tuple(st.ghost.get("closed_calls", ())) + (args[0],)
    return k(st, None)


def closed_calls(b):
  return list(G.get("closed_calls") or ()) if b.mode == "sym" else list(CLOSED)


class Loop(object):
  pass


def worker(b, cls, scr):
  buf = b.bytes("send_buf", None, 0, 70000)
  sock = new_sock(b, scr)
  pinger = b.raw_new(Pinger, pings=0)
  w = b.raw_new(cls, send_buf=buf, socket=sock, closed=b.bool("closed"), _connecting=False,
                _shutdown_send=False, _custom_close_handler=closing, on_close=closing, pinger=pinger)
  loop = b.raw_new(Loop, _workers=b.set_of([w]))
  if b.mode == "sym":
    b.st.ghost["closed_calls"] = ()
  else:
    del CLOSED[:]
  cs = {"contracts.c20_send:Sock.send": SockSend(scr), "contracts.c20_send:closing": CloseRec()} if b.mode == "sym" else {}
  return w, buf, sock, loop, cs


def _mk_io_send(cls, meth):
  @unit(P, target=IO + cls.__name__ + "." + meth, name="%s_%s_queues_behind_pending" % (cls.__name__, meth))
  def u(b):
    w, buf, sock, loop, cs = worker(b, cls, script(b, 0))
    data = b.bytes("data", None, 0, 70000)
    return Case(getattr(cls, meth), [w, data], calls=cs, raises={}, ensures={
      "pending_bytes_then_the_new_bytes": lambda res: w.send_buf == buf + data and sock_calls(b, sock) == 0,
    })


_mk_io_send(IOWorker, "send")
_mk_io_send(IOWorker, "send_fast")
_mk_io_send(RecocoIOWorker, "send")


@unit(P, target=IO + "IOWorker._do_send")
def worker_flush_one_socket_call(b):
  scr = script(b, 1)
  w, buf, sock, loop, cs = worker(b, RecocoIOWorker, scr)
  b.assume(b.Not(b.get(w, "closed")) if b.mode == "sym" else not w.closed)
  kind, l = scr[0]
  def run(w, loop):
    w._do_send(loop)
    return (w.send_buf, w.closed, w in loop._workers)
  return Case(run, [w, loop], calls=cs, raises={}, ensures={
    "written_bytes_plus_pending_bytes_are_unchanged":
      lambda res: (len(buf) > 0 and kind == FATAL) or wire(b, sock) + res[0] == buf,
    "nothing_to_send_no_socket_call": lambda res: len(buf) > 0 or sock_calls(b, sock) == 0,
    "a_fatal_error_closes_the_worker_once_and_retires_it":
      lambda res: not (len(buf) > 0 and kind == FATAL) or (res[1] is True and res[2] is False and len(wire(b, sock)) == 0
                                                            and len(closed_calls(b)) == 2),
    "otherwise_the_worker_stays_open":
      lambda res: (len(buf) > 0 and kind == FATAL) or (res[1] is False and res[2] is True and len(closed_calls(b)) == 0),
  })


@unit(P, target=IO + "IOWorker._consume_send_buf")
def consume_send_buf_drops_a_prefix(b):
  w, buf, sock, loop, cs = worker(b, IOWorker, script(b, 0))
  l = b.int("l", 0, 70000)
  return Case(IOWorker._consume_send_buf, [w, l], calls=cs, raises={AssertionError: lambda: l > len(buf)}, must_return=False,
              ensures={"the_rest_stays": lambda res: buf[:l] + w.send_buf == buf})


@unit(P, target=IO + "RecocoIOWorker.send_fast")
def send_fast_writes_directly_only_when_nothing_is_pending(b):
  scr = script(b, 1)
  w, buf, sock, loop, cs = worker(b, RecocoIOWorker, scr)
  b.set(w, "_connecting", b.bool("connecting"))
  data = b.bytes("data", None, 1, 70000)
  kind, l = scr[0]
  closed0 = b.get(w, "closed")
  connecting = b.get(w, "_connecting")
  direct = lambda: len(buf) == 0 and not connecting and not closed0
  return Case(RecocoIOWorker.send_fast, [w, data], calls=cs, raises={}, ensures={
    "behind_pending_bytes_the_message_is_queued_not_written":
      lambda res: direct() or (sock_calls(b, sock) == 0 and w.send_buf == buf + data),
    "written_prefix_plus_queued_remainder_is_the_message":
      lambda res: not (direct() and kind != FATAL) or (wire(b, sock) + w.send_buf == data),
    "a_fatal_error_closes_the_worker":
      lambda res: not (direct() and kind == FATAL) or (w.closed is True and len(wire(b, sock)) == 0),
  })


@unit(P, target=IO + "RecocoIOWorker.close")
def close_is_reported_exactly_once(b):
  w, buf, sock, loop, cs = worker(b, RecocoIOWorker, script(b, 0))
  closed0 = b.get(w, "closed")
  def run(w):
    w.close()
    w.close()
    return w.closed
  return Case(run, [w], calls=cs, raises={}, ensures={
    "closed_once": lambda res: res is True and len(closed_calls(b)) == (0 if closed0 else 2)
                   and all([c is w for c in closed_calls(b)]),
  })


def reentrant_close_handler(w):
  """a close handler that, like a relay's, turns back to the worker it is told about: closes it (again) and sends on it"""
  w.trace.append("close handler")
  w.close()
  w.send_fast(b"late")
  w.send(b"later")


def on_close_rec(w):
  w.trace.append("on_close")


@unit(P, target=IO + "IOWorker.close / RecocoIOWorker.close (close handler re-entering the worker)")
def a_worker_is_closed_before_its_close_handler_runs(b):
  """added 2026-09-25 after seeded change C20_9 set `closed` only after the close handler had run: a handler that sends on (or
  closes) the worker it is being told about then wrote to the socket after its fatal error, and the close was reported twice"""
  scr = script(b, 1)
  sock = new_sock(b, scr)
  pinger = b.raw_new(Pinger, pings=0)
  w = b.raw_new(RecocoIOWorker, send_buf=b"", socket=sock, closed=False, _connecting=False, _shutdown_send=False,
                _custom_close_handler=reentrant_close_handler, on_close=on_close_rec, pinger=pinger, trace=b.list([]))
  cs = {"contracts.c20_send:Sock.send": SockSend(scr)} if b.mode == "sym" else {}
  def run(w):
    w.close()
    return (w.closed, [e for e in w.trace], w.send_buf)
  return Case(run, [w], calls=cs, raises={}, ensures={
    "the_close_is_reported_once_to_the_handler_and_once_to_the_loop": lambda res: res[0] is True and res[1] == ["close handler", "on_close"],
    "nothing_is_written_to_the_socket_of_a_closed_worker":
      lambda res: sock_calls(b, sock) == 0 and len(wire(b, sock)) == 0,
  })
a_worker_is_closed_before_its_close_handler_runs.bound = "one re-entrant handler: close again, send_fast, send"


# ---------------------------------------------------------------- "reported closed exactly once" after a fatal send error
# Connection.send disconnects with the event deferred; the announcement comes from the later close().  That step is
# the C09 unit below, re-discharged here because C20 states it for the send path.
import contracts.c09_lifecycle as _L
unit(P, target=OF + "Connection.disconnect(defer_event=True) / Connection.close",
     name="a_fatal_send_error_is_reported_closed_exactly_once")(_L.deferred_down_is_raised_by_the_later_close)

import contracts.c10_taskloop   # noqa: registers the C20 unit on the controller's I/O loop
import contracts.c10_ioloop   # noqa: registers the C20 unit on the switch I/O loop's write set (pending_bytes_keep_a_worker_in_the_write_set...)


# ---------------------------------------------------------------- after a fatal send error the next read() says 'close me'
# Connection.send defers the announcement to the close() the I/O loop performs when read() returns False; the socket was shut
# down by disconnect(), so recv() reports end of stream or fails.  read() must then answer False - not True, not None (the loop
# closes only on `read() is False`; seeded change C20_11 made read() return None for a dead connection: it was never closed,
# ConnectionDown never raised, and the loop span on the dead socket)

class DeadSock(object):
  def recv(self, n):
    if self.mode == "eof":
      return b""
    raise OSError(9, "Bad file descriptor")


@unit(P, target=OF + "Connection.read (connection already disconnected by a failed send)")
def reading_a_dead_connection_asks_for_its_close(b):
  from pox.openflow.of_01 import Connection
  mode = b.choice("recv_on_the_shut_down_socket", ["eof", "error"])
  sock = b.raw_new(DeadSock, mode=mode)
  buffered = b.bytes("buffered", None, 0, 20)
  con = b.raw_new(Connection, sock=sock, buf=buffered, disconnected=True, ID=1, dpid=5, unpackers=b.list([]), handlers=b.list([]))
  return Case(Connection.read, [con], raises={}, ensures={
    "the_answer_is_False": lambda res: res is False,
  })
