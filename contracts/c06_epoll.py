"""C06 - the select emulation the scheduler's hub may run on (pox/lib/epoll_select.py): after EVERY call the kernel-side
registration (an epoll stand-in that keeps fd -> mask and behaves like the real one: register of a known fd and modify /
unregister of an unknown fd raise) is exactly  fd -> (IN|PRI if the fd is in the read list) | (OUT if it is in the write
list), fds in neither list are not registered; the three returned lists are the objects of the reported fds by event class.
A registration that misses a read interest is a lost I/O wake-up: the task blocked in Select on that fd is never resumed
(added 2026-09-25 after seeded change C06_6).

Bounded: two file descriptors, every transition of fd A between (read?, write?) memberships over two consecutive calls x
three transitions of fd B; reported event masks symbolic."""
import select
import itertools
from pyvc.api import unit, Case
from pox.lib.epoll_select import EpollSelect

P = "C06"
MOD = "pox.lib.epoll_select:"
RD = select.EPOLLIN | select.EPOLLPRI | select.EPOLLRDNORM | select.EPOLLRDBAND
WR = select.EPOLLOUT | select.EPOLLWRNORM | select.EPOLLWRBAND
EX = select.EPOLLERR | select.EPOLLHUP


class Fd(object):
  def fileno(self):
    return self.fd


class EpollStub(object):
  def register(self, fd, mask):
    if fd in self.masks:
      raise FileExistsError(17, "File exists")
    self.masks[fd] = mask

  def modify(self, fd, mask):
    if fd not in self.masks:
      raise FileNotFoundError(2, "No such file or directory")
    self.masks[fd] = mask

  def unregister(self, fd):
    if fd not in self.masks:
      raise FileNotFoundError(2, "No such file or directory")
    del self.masks[fd]

  def poll(self, timeout):
    return [e for e in self.events if e[0] in self.masks]


def want_mask(r, w):
  return (select.EPOLLIN | select.EPOLLPRI if r else 0) | (select.EPOLLOUT if w else 0)


def _mk(a0, a1, b0, b1):
  def u(b):
    A = b.raw_new(Fd, fd=3)
    B = b.raw_new(Fd, fd=4)
    ep = b.raw_new(EpollStub, masks=b.dict({}), events=None)
    es = b.raw_new(EpollSelect, epoll=ep, fd_to_obj=b.dict({}), registered=b.dict({}), lastrl=b.list([]), lastrl_set=b.set_of([]),
                   lastwl=b.list([]), lastwl_set=b.set_of([]))
    evA, evB = b.int("eventsA", 0, 0x7ff), b.int("eventsB", 0, 0x7ff)
    def lists(a, bb):
      return ([x for x, m in ((A, a[0]), (B, bb[0])) if m], [x for x, m in ((A, a[1]), (B, bb[1])) if m])
    def run(es):
      ep.events = []
      r0, w0 = lists(a0, b0)
      es.select(r0, w0, [], 0)
      first = dict(ep.masks)
      ep.events = [(3, evA), (4, evB)]
      r1, w1 = lists(a1, b1)
      res = es.select(r1, w1, [], 0)
      return (first, dict(ep.masks), res)
    def expected(a, bb):
      d = {}
      if want_mask(*a):
        d[3] = want_mask(*a)
      if want_mask(*bb):
        d[4] = want_mask(*bb)
      return d
    def reported(res, cls):
      out = []
      if want_mask(*a1) and (evA & cls) != 0:
        out.append(A)
      if want_mask(*b1) and (evB & cls) != 0:
        out.append(B)
      return len(res) == len(out) and all([x is y for x, y in zip(res, out)])
    return Case(run, [es], raises={}, ensures={
      "after_the_first_call_the_registration_is_the_interest_set": lambda res: res[0] == expected(a0, b0),
      "after_the_second_call_the_registration_is_the_new_interest_set": lambda res: res[1] == expected(a1, b1),
      "reported_fds_come_back_as_their_objects_by_event_class":
        lambda res: reported(res[2][0], RD) and reported(res[2][1], WR) and reported(res[2][2], EX),
    })
  name = lambda m: "".join("rw"[i] if x else "-" for i, x in enumerate(m))
  u.__name__ = "epoll_registration_follows_the_interest_A_%s_to_%s_B_%s_to_%s" % (name(a0), name(a1), name(b0), name(b1))
  u.bound = "two descriptors, two consecutive calls"
  unit(P, target=MOD + "EpollSelect.select")(u)


_M = [(0, 0), (1, 0), (0, 1), (1, 1)]
for _a0, _a1 in itertools.product(_M, _M):
  for _b0, _b1 in (((1, 0), (1, 0)), ((0, 1), (1, 0)), ((1, 1), (0, 0))):
    _mk(_a0, _a1, _b0, _b1)


# ---- three consecutive calls (added 2026-09-25 after seeded change C06_8 stopped updating the cached mask when an fd is
# modified: the stale cache only shows in the call AFTER the next one - read wait, write wait added, read wait ends)

def _mk3(seq):
  def u(b):
    A = b.raw_new(Fd, fd=3)
    B = b.raw_new(Fd, fd=4)
    ep = b.raw_new(EpollStub, masks=b.dict({}), events=[])
    es = b.raw_new(EpollSelect, epoll=ep, fd_to_obj=b.dict({}), registered=b.dict({}), lastrl=b.list([]), lastrl_set=b.set_of([]),
                   lastwl=b.list([]), lastwl_set=b.set_of([]))
    def run(es):
      out = []
      for a in seq:
        es.select([x for x, m in ((A, a[0]), (B, 1)) if m], [x for x, m in ((A, a[1]), (B, 0)) if m], [], 0)
        out.append(dict(ep.masks))
      return out
    def expected(a):
      d = {4: want_mask(1, 0)}
      if want_mask(*a):
        d[3] = want_mask(*a)
      return d
    return Case(run, [es], raises={}, ensures={
      "after_every_call_the_registration_is_the_interest_set_of_that_call":
        lambda res: len(res) == len(seq) and all([r == expected(a) for r, a in zip(res, seq)]),
    })
  name = lambda m: "".join("rw"[i] if x else "-" for i, x in enumerate(m))
  u.__name__ = "epoll_registration_over_three_calls_A_" + "_".join(name(a) for a in seq)
  u.bound = "two descriptors, three consecutive calls"
  unit(P, target=MOD + "EpollSelect.select")(u)


for _s in itertools.product(_M, _M, _M):
  _mk3(_s)
