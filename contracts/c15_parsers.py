"""C15 - the core parsers are total on ARBITRARY bytes: constructing the packet object from any byte string
raises nothing, leaves `parsed` a bool and the unparsed remainder as bytes, and the result can be packed and
printed.  Sub-parsers a parser hands the rest to are callees (each has its own unit here or is covered by the
bounded stand-in c15_standins)."""
from pyvc.api import unit, Case, CallSpec, LoopSpec
from pox.lib.packet.packet_base import packet_base
from pox.lib.packet.ethernet import ethernet
from pox.lib.packet.vlan import vlan
from pox.lib.packet.llc import llc
from pox.lib.packet.arp import arp
from pox.lib.packet.ipv4 import ipv4
from pox.lib.packet.udp import udp
from pox.lib.packet.tcp import tcp
from pox.lib.packet.icmp import icmp, echo, unreach, time_exceeded

ethernet()
P = "C15"
PK = "pox.lib.packet."


class Sub(packet_base):
  """what a sub-parser returns: some packet object, parsed or not"""
  def __init__(self, parsed=True, raw=b""):
    packet_base.__init__(self)
    self.parsed = parsed
    self.raw = raw

  def hdr(self, payload):
    return self.raw

  def __str__(self):
    return "[sub]"


SUBS = ["vlan:vlan", "arp:arp", "ipv4:ipv4", "ipv6:ipv6", "lldp:lldp", "eapol:eapol", "mpls:mpls", "llc:llc", "udp:udp",
        "tcp:tcp", "icmp:icmp", "igmp:igmp", "gre:gre", "dhcp:dhcp", "dns:dns", "rip:rip", "vxlan:vxlan",
        "icmp:echo", "icmp:unreach", "icmp:time_exceeded", "ethernet:ethernet"]


def sub_calls(b, except_=()):
  if b.mode != "sym":
    return {}
  def ret(I, st, args, kws):
    from pyvc.values import fresh_bool
    raw = kws.get("raw", args[0] if args else b"")
    return st.alloc("obj", Sub, {"parsed": fresh_bool("sub_parsed"), "raw": raw, "next": None, "prev": None})
  def csum(I, st, args, kws):
    from pyvc.values import fresh_int
    import z3
    c = fresh_int("csum")
    st.add(z3.And(c >= 0, c <= 65535))
    return c
  out = {PK + "packet_utils:checksum": CallSpec("contract", returns=csum, envelope="checksum is total and 16 bit (C14)")}
  for s in SUBS:
    if s in except_:
      out[PK + s] = OutermostReal(ret)
      continue
    out[PK + s] = CallSpec("contract", returns=ret, envelope="sub-parser returns a packet object (own unit / stand-in)")
  return out


class OutermostReal(CallSpec):
  """the class under proof: its outermost construction is evaluated for real; a nested construction of the same
  class (a tag inside a tag) is the callee contract again - induction over the nesting depth"""
  def __init__(self, ret):
    CallSpec.__init__(self, "contract", returns=ret, envelope="nested instance of the class under proof: same contract")

  def apply(self, I, f, args, kws, st, ctx, k, node):
    if not st.ghost.get("outermost_done"):
      st.ghost["outermost_done"] = True
      from pyvc.models import instantiate
      return instantiate(I, f, args, kws, st, ctx, k, node)
    return CallSpec.apply(self, I, f, args, kws, st, ctx, k, node)


def probe(cls):
  def run(raw):
    p = cls(raw=raw)
    return (p.parsed, p.next, p.pack(), str(p))
  return run


def well_formed_result(res):
  return (res[0] is True or res[0] is False) and (res[1] is None or isinstance(res[1], (bytes, packet_base))) \
    and isinstance(res[2], bytes) and isinstance(res[3], str)


def _mk(name, cls, own, maxlen=1600):
  def u(b):
    raw = b.bytes("raw", None, 0, maxlen)
    return Case(probe(cls), [raw], calls=sub_calls(b, except_=(own,)), raises={}, ensures={
      "parsed_flag_remainder_pack_and_str_are_well_formed": well_formed_result,
    })
  u.__name__ = "total_" + name
  unit(P, target=PK + own + ".parse", timeout_s=600)(u)


_mk("ethernet", ethernet, "ethernet:ethernet")
_mk("vlan", vlan, "vlan:vlan")
_mk("llc", llc, "llc:llc")
_mk("arp", arp, "arp:arp")
_mk("ipv4", ipv4, "ipv4:ipv4")
_mk("udp", udp, "udp:udp")
_mk("icmp", icmp, "icmp:icmp")
_mk("icmp_echo", echo, "icmp:echo")
_mk("icmp_unreach", unreach, "icmp:unreach")
_mk("icmp_time_exceeded", time_exceeded, "icmp:time_exceeded")
