"""C03 - flow match semantics: ofp_match.matches_with_wildcards against the OpenFlow 1.0 match predicate."""
from pyvc.api import unit, Case
import pox.openflow.libopenflow_01 as of
from pox.lib.addresses import EthAddr, IPAddr
from contracts.c01_match import build_match, prereq_ok, FIELDS, WIDTH

P = "C03"
MOD = "pox.openflow.libopenflow_01:"


def spec_matches(b, flow, pkt):
  """OpenFlow 1.0 section 3.4: a frame (its extracted header fields `pkt`, an exact match in which fields the
  frame does not have are absent) matches a flow entry iff every field the entry does not wildcard is present in
  the frame and equal; IP addresses are compared on the prefix the entry does not wildcard."""
  ok = True
  for name in FIELDS:
    if name in ("nw_src", "nw_dst"):
      fw = flow.src_w if name == "nw_src" else flow.dst_w      # wildcarded low bits of the entry
      pw = pkt.src_w if name == "nw_src" else pkt.dst_w
      ok = b.And(ok, b.Or(fw == 32, b.And(pw == 0, prefix_equal(b, flow.val[name], pkt.val[name], fw))))
    else:
      ok = b.And(ok, b.Or(flow.wbit[name] == 1, b.And(pkt.wbit[name] == 0, field_equal(b, flow.val[name], pkt.val[name]))))
  return ok


def field_equal(b, x, y):
  if isinstance(x, (bytes,)) or hasattr(x, "chunks"):
    n = 6
    return b.And(*[byte(b, x, i) == byte(b, y, i) for i in range(n)])
  return x == y


def byte(b, s, i):
  if isinstance(s, (bytes, bytearray)):
    return s[i]
  from pyvc import sbytes as sb
  return sb.byte_at(s, i, b.st)


def prefix_equal(b, fs, ps, w):
  """the 4-byte big-endian addresses fs and ps agree above their w low bits (0 <= w < 32): stated byte-wise
  (whole bytes above the boundary equal, the boundary byte equal after dropping its low bits)"""
  cases = []
  for k in range(32):
    q, r = k // 8, k % 8
    hi = [byte(b, fs, i) == byte(b, ps, i) for i in range(0, 3 - q)]
    fb, pb = byte(b, fs, 3 - q), byte(b, ps, 3 - q)
    if b.mode == "conc":
      edge = (fb >> r) == (pb >> r)
    else:
      edge = (fb / (1 << r)) == (pb / (1 << r)) if r else fb == pb
    cases.append(b.And(w == k, b.And(*(hi + [edge]))))
  return b.Or(*cases)


_B = None


def _mk(name, src_any, dst_any, tier="quick", src_bits=None, rng=(0, 32)):
  """rng: the range of the entry's wildcarded-bit count on the 'any' side covered by this unit (the ranges together are 0..32;
  split only so that the case analysis runs on several cores)"""
  def u(b):
    global _B
    _B = b
    flow, fi = build_match(b, "f.")
    b.assume(prereq_ok(b, fi))
    if src_bits is None and (src_any or dst_any):
      w_any = fi.src_w if src_any else fi.dst_w
      b.assume(b.And(w_any >= rng[0], w_any <= rng[1]))
    pkt, pi = build_match(b, "p.")
    # the frame side is an exact match: address fields are either present in full or absent
    b.assume(b.Or(pi.src_w == 0, pi.src_w == 32))
    b.assume(b.Or(pi.dst_w == 0, pi.dst_w == 32))
    # which fields a frame can have (the extraction rules of section 3.4 / ofp_match.from_packet): the link-layer
    # fields always; nw_proto+nw_src+nw_dst together (IPv4, ARP); nw_tos only with them (IPv4); ports only for IPv4
    for nm in ("in_port", "dl_src", "dl_dst", "dl_vlan", "dl_vlan_pcp", "dl_type"):
      b.assume(pi.wbit[nm] == 0)
    has_nw = pi.wbit["nw_proto"] == 0
    b.assume(b.And((pi.src_w == 0) == has_nw, (pi.dst_w == 0) == has_nw))
    b.assume(b.Implies(pi.wbit["nw_tos"] == 0, has_nw))
    b.assume((pi.wbit["tp_src"] == 0) == (pi.wbit["tp_dst"] == 0))
    b.assume(b.Implies(pi.wbit["tp_src"] == 0, pi.wbit["nw_tos"] == 0))
    if src_bits is not None:
      b.assume(fi.src_w == 32 - src_bits)       # a fixed proper prefix length on the source, every length on the destination
    elif not src_any:
      b.assume(b.Or(fi.src_w == 0, fi.src_w == 32))
    if not dst_any:
      b.assume(b.Or(fi.dst_w == 0, fi.dst_w == 32))
    want = spec_matches(b, fi, pi)
    def run(flow, pkt):
      # the shifts make the evaluator case-split on the entry's prefix lengths first (concrete masks per case)
      (1 << flow.get_nw_src()[1]) + (1 << flow.get_nw_dst()[1])
      return flow.matches_with_wildcards(pkt, consider_other_wildcards=False)
    return Case(run, [flow, pkt], ensures={
      "matches_iff_spec": lambda res: res == want,
    })
  u.__name__ = name
  unit(P, target=MOD + "ofp_match.matches_with_wildcards", tier=tier, timeout_s=900)(u)


for _lo, _hi in ((0, 8), (9, 16), (17, 24), (25, 32)):
  _mk("match_predicate_src_prefixes_%d_to_%d_bits_wild" % (_lo, _hi), True, False, rng=(_lo, _hi))
  _mk("match_predicate_dst_prefixes_%d_to_%d_bits_wild" % (_lo, _hi), False, True, rng=(_lo, _hi))
# both addresses under proper prefixes at once: one unit per source prefix length (2026-09-25: a single unit with both
# lengths symbolic made the evaluator's case split on the shift amounts time out under load - UNDECIDED on the
# unchanged tree; replaced by these)
for _sb in (1, 8, 17, 24, 31):
  _mk("match_predicate_src_prefix_%d_all_dst_prefixes" % _sb, False, True, tier="thorough", src_bits=_sb)
