"""C10 - units of other properties that C10 depends on, re-discharged under C10 (kept in a file of their own: c09_lifecycle
imports C10 modules, so importing it from them would be circular).

The end of the handshake (HandshakeOpenFlowHandlers._finish_connecting) replays the port-status messages that arrived early:
a VALID but unusually placed message (a port status between features reply and barrier reply) must not make the connection's
read loop spin or fail - the C09 units prove that the replay goes through the steady-state handlers, each deferred message
once, and terminates (seeded change C10_8 switched the handler table only after the replay: the handshake handler appended
to the list being replayed, for ever)."""
from pyvc.api import unit, UNITS
import contracts.c09_lifecycle as _L   # noqa

P = "C10"
for _u in list(UNITS.get("C09", [])):
  if _u.name.startswith("finish_connecting_registry_"):
    _n = unit(P, target=_u.target, name="handshake_end_" + _u.name[len("finish_connecting_registry_"):])(_u.fn)
  # containment when the offending connection is CLOSED: only its own registration goes (a sibling connection of the same
  # datapath id stays reachable), and the handshake's handlers never close the socket themselves (sixth round: C10_12, C10_13)
  if _u.name.startswith("disconnect_registry_") or _u.name == "barrier_reply_finishes_only_for_the_barriers_xid":
    _n = unit(P, target=_u.target, name="closing_the_offender_" + _u.name)(_u.fn)
