"""C14 - the Internet checksum routine (packet_utils.checksum) against RFC 1071, for buffers of ANY length
below 2^17 bytes, even and odd.

Ghost functions (defined by recursion, instances supplied per iteration as loop axioms):
   W(k) = sum of the first k 16-bit words of data read little-endian (what array('H') yields on this host)
   B(k) = sum of the first k 16-bit words read big-endian (what RFC 1071 sums)
Loop invariant:  start == W(i)  and  B(i) == 256*W(i) (mod 65535)  and  0 <= W(i) <= 65535*i
(byte-swapping a 16-bit word multiplies it by 256 modulo 65535).  Closing steps: the two-step fold of a sum
below 2^32 is congruent to it modulo 65535 and fits 16 bits; ntohs multiplies by 256 modulo 65535.
Postcondition (RFC 1071): the big-endian one's-complement sum of the data (odd length padded with a zero byte)
plus the returned checksum is 0 modulo 65535, and the checksum fits 16 bits."""
from pyvc.api import unit, Case, LoopSpec, native
import pox.lib.packet.packet_utils as pu

P = "C14"
FN = "pox.lib.packet.packet_utils:checksum"


class Sums(object):
  def __init__(self, b, data):
    self.b = b
    self.data = data
    if b.mode == "sym":
      import z3
      self.W = z3.Function("W", z3.IntSort(), z3.IntSort())
      self.B = z3.Function("B", z3.IntSort(), z3.IntSort())
      b.assume(self.W(0) == 0)
      b.assume(self.B(0) == 0)

  @native
  def _nwords(self, st):
    from pyvc.values import zint, concretize
    L = self.data.length()
    return (L // 2) if isinstance(L, int) else concretize(zint(L) / 2)

  def nwords(self):
    return self._nwords() if self.b.mode == "sym" else len(self.data) // 2

  @native
  def _w(self, st, k):
    return self.W(k)

  @native
  def _b(self, st, k):
    return self.B(k)

  def w(self, k):
    if self.b.mode == "sym":
      return self._w(k)
    return sum(self.data[2 * j] + 256 * self.data[2 * j + 1] for j in range(k))

  def bsum(self, k):
    if self.b.mode == "sym":
      return self._b(k)
    return sum(256 * self.data[2 * j] + self.data[2 * j + 1] for j in range(k))


def spec_close(S):
  """the closing steps of RFC 1071 as a specification function on the little-endian word sum S < 2^32:
  fold the carries twice, complement, and present the 16-bit result in network byte order"""
  t = (S >> 16) + (S & 0xffff)
  u = t + (t >> 16)
  c = 65535 - (u & 0xffff)
  return ((c & 0xff) << 8) + (c >> 8)


@unit(P, target="lemma: folding and byte swapping modulo 65535")
def lemma_closing_steps(b):
  S = b.int("S", 0, (1 << 32) - 1)
  return Case(spec_close, [S], ensures={
    "fits_16_bits": lambda res: 0 <= res and res <= 65535,
    "cancels_256_times_the_sum": lambda res: (256 * S + res) % 65535 == 0,
  })


@unit(P, target=FN + " (closing statements)")
def closing_statements_are_the_specified_ones(b):
  S = b.int("S", 0, (1 << 32) - 1)
  return Case(pu.checksum, [b"", S], ensures={"same_as_spec": lambda res: res == spec_close(S)})


def _mk(odd):
  def u(b):
    words = b.int("words", 0, 65000)
    if b.mode == "sym":
      data = b.bytes("data", None, 0, 131001)
      n = data.length()
      b.assume(n == 2 * words + (1 if odd else 0))
    else:
      words = min(words, 800)
      data = b.bytes("data", 2 * words + (1 if odd else 0))
      n = len(data)
    s = Sums(b, data)
    inv = LoopSpec(
      invariant=lambda v: v.start == s.w(v._i) and (s.bsum(v._i) - 256 * s.w(v._i)) % 65535 == 0
      and 0 <= s.w(v._i) and s.w(v._i) <= 65535 * v._i,
      axioms=lambda v: s.w(v._i + 1) == s.w(v._i) + data[2 * v._i] + 256 * data[2 * v._i + 1]
      and s.bsum(v._i + 1) == s.bsum(v._i) + 256 * data[2 * v._i] + data[2 * v._i + 1])
    last = lambda: data[-1:][0]      # the odd trailing byte
    total_le = lambda: s.w(s.nwords()) + (last() if odd else 0)
    total_be = lambda: s.bsum(s.nwords()) + (256 * last() if odd else 0)
    return Case(pu.checksum, [data], loops={(FN, 2): inv},
                lemma_instances={"lemma_closing_steps":
                                 lambda res: (256 * total_le() + spec_close(total_le())) % 65535 == 0},
                ensures={
      "fits_16_bits": lambda res: 0 <= res and res <= 65535,
      "rfc1071_sum_of_data_and_checksum_is_zero": lambda res: (total_be() + res) % 65535 == 0,
    })
  u.__name__ = "checksum_rfc1071_%s_length" % ("odd" if odd else "even")
  unit(P, target=FN)(u)


_mk(False)
_mk(True)
