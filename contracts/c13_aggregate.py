"""C13 - the aggregate statistics over a flow table of ANY length (added 2026-09-25; until then only the empty table was under
contract): FlowTable.aggregate_stats returns the number of selected entries and the sums of their packet and byte counters.

The selection (`matching_entries`: OpenFlow subsumption + out-port filter) is a callee - its relation is the subject of the
C04 units - returning a list of symbolic length; the summation loop is cut at an invariant over ghost prefix sums
  P(0) = 0, P(i+1) = P(i) + packet_count[i]      (B likewise for byte_count)
whose recursion instances are supplied per iteration (loop axioms, as in c14_checksum)."""
from pyvc.api import unit, Case, LoopSpec, CallSpec, native
import pox.openflow.libopenflow_01 as of
from pox.openflow.flow_table import FlowTable

P = "C13"
FT = "pox.openflow.flow_table:"


class Sums(object):
  def __init__(self, b, pc, bc):
    self.b = b
    if b.mode == "sym":
      import z3
      self.P = z3.Function("P", z3.IntSort(), z3.IntSort())
      self.B = z3.Function("B", z3.IntSort(), z3.IntSort())
      b.assume(self.P(0) == 0)
      b.assume(self.B(0) == 0)
      self.pc, self.bc = pc, bc

  @native
  def p(self, st, i):
    return self.P(i)

  @native
  def bb(self, st, i):
    return self.B(i)

  @native
  def step(self, st, i):
    import z3
    from pyvc.values import zint
    i = zint(i)
    return z3.And(self.P(i + 1) == self.P(i) + self.pc[i], self.B(i + 1) == self.B(i) + self.bc[i])

  @native
  def pc_at(self, st, i):
    return self.pc[i]

  @native
  def bc_at(self, st, i):
    return self.bc[i]


class Entry(object):
  def __init__(self, pc, bc):
    self.packet_count = pc
    self.byte_count = bc


@unit(P, target=FT + "FlowTable.aggregate_stats")
def aggregate_statistics_sum_the_counters_of_all_selected_entries(b):
  attrs = {"packet_count": "int", "byte_count": "int"}
  if b.mode == "sym":
    import z3
    sel = b.slist("selected", attrs)
    n = b.slist_len(sel)
    pc, bc = b.slist_attr(sel, "packet_count"), b.slist_attr(sel, "byte_count")
    j = z3.Int("sel!j")
    b.assume(z3.ForAll([j], z3.And(pc[j] >= 0, bc[j] >= 0)))
    s = Sums(b, pc, bc)
    cs = {FT + "FlowTable.matching_entries": CallSpec("contract", returns=lambda I, st, a, k: sel,
                                                      envelope="the entries selected by match and out_port, in table order (C04 units)")}
  else:
    def make(i, vals):
      if vals is None:
        return Entry(b.rng.randrange(0, 1 << 40), b.rng.randrange(0, 1 << 48))
      return Entry(max(0, vals["packet_count"]), max(0, vals["byte_count"]))
    sel = b.slist("selected", attrs, 6, make)
    n = len(sel)
    s = None
    cs = {}
  ft = b.raw_new(FlowTable, _table=b.list([]))
  if b.mode != "sym":
    ft.matching_entries = lambda match, priority=0, strict=False, out_port=None: list(sel)
  match = b.raw_new(of.ofp_match) if b.mode == "sym" else of.ofp_match()
  inv = LoopSpec(invariant=lambda v: v.flow_count == v._i and v.packet_count == s.p(v._i) and v.byte_count == s.bb(v._i),
                 axioms=lambda v: s.step(v._i))
  def total_p():
    return s.p(n) if b.mode == "sym" else sum(e.packet_count for e in sel)
  def total_b():
    return s.bb(n) if b.mode == "sym" else sum(e.byte_count for e in sel)
  return Case(FlowTable.aggregate_stats, [ft, match], calls=cs, loops={(FT + "FlowTable.aggregate_stats", 1): inv}, raises={}, ensures={
    "one_aggregate_body": lambda res: type(res) is of.ofp_aggregate_stats,
    "flow_count_is_the_number_of_selected_entries": lambda res: res.flow_count == n,
    "packet_and_byte_counts_are_the_sums_over_the_selected_entries": lambda res: res.packet_count == total_p() and res.byte_count == total_b(),
  })
