"""C01 - messages and statistics bodies that embed a match, a port description or lists of
actions / ports / queues / statistics entries.

Every scalar field, address, payload and embedded match is fully symbolic.  The *number* of list elements is
fixed per unit (0, 1 or 2 elements of the stated classes): these units are proofs for all field values but are
bounded in list length, and are reported as such (`bound=`), not counted as unbounded proofs.
"""
from pyvc.api import unit, Case
from spec.of10_layout import TABLES, MESSAGE_TYPE, ACTION_TYPE, QUEUE_PROP_TYPE, MATCH, PHY_PORT, fixed_size, layout, be
import pox.openflow.libopenflow_01 as of
from contracts.c01_codec import build_fields, _rt_message, _rt_stats, _rt_struct, ATTR
from contracts.c01_match import build_match, prereq_ok, spec_match_fields_only, spec_match_bytes_ok

P = "C01"
MOD = "pox.openflow.libopenflow_01:"
LISTS = "list length fixed per unit: 0, 1 or 2 elements"


def build_obj(b, cname, prefix, typecode=None, ctor_args=(), fixed_text=5):
  """symbolic instance of a simple (list-free) class + the bytes the specification prescribes for it.
  Text fields get a fixed length here (all lengths are covered by the class's own unit)."""
  table = TABLES[cname]
  o = b.new(getattr(of, cname), *ctor_args)
  vals = {}
  var = build_fields(b, table, prefix, o, vals, 200, fixed_text)
  total = fixed_size(table) + var
  return o, vals, total, table, typecode


def enc(spec):
  o, vals, total, table, typecode = spec
  return layout(table, vals, typecode, total)


def no_sub(table, name, kind="tail"):
  """table with the embedded structure `name` replaced by an opaque byte field (checked separately)"""
  return [((kind, name) if (f[0] == "sub" and f[2] == name) else f) for f in table]


def scalar_table(table):
  return [f for f in table if f[0] not in ("sub", "list")]


def set_scalars(b, o, table, prefix, vals, attr=None):
  attr = attr or {}
  for f in table:
    if f[0] == "u":
      v = b.int(prefix + f[2], 0, 256 ** f[1] - 1)
      b.set(o, attr.get(f[2], ATTR.get(f[2], f[2])), v)
      vals[f[2]] = v


# ---------------------------------------------------------------- messages with an embedded match

def _flow_removed(b):
  o = b.new(of.ofp_flow_removed)
  vals = {}
  set_scalars(b, o, TABLES["ofp_flow_removed"], "", vals)
  m, mi = build_match(b)
  b.assume(prereq_ok(b, mi))
  b.set(o, "match", m)
  t = no_sub(TABLES["ofp_flow_removed"], "match")
  return Case(_rt_message, [o], ensures={
    "layout": lambda res: res[0] == layout(t, dict(vals, match=res[0][8:48]), 11, 88),
    "match_layout": lambda res: spec_match_bytes_ok(res[0][8:48], mi, mi.W),
    "length": lambda res: res[1] == 88 and len(res[0]) == 88,
    "consumed": lambda res: res[2] == 88,
    "round_trip": lambda res: res[3] == True,
    "re_encode": lambda res: res[4] == res[0],
  })


unit(P, target=MOD + "ofp_flow_removed.pack/unpack/__len__/__eq__", name="ofp_flow_removed")(_flow_removed)


def _mk_match_body(cname, total):
  def u(b):
    o = b.new(getattr(of, cname))
    vals = {}
    set_scalars(b, o, TABLES[cname], "", vals)
    m, mi = build_match(b)
    b.assume(prereq_ok(b, mi))
    b.set(o, "match", m)
    t = no_sub(TABLES[cname], "match")
    return Case(_rt_stats, [o], ensures={
      "layout": lambda res: res[0] == layout(t, dict(vals, match=res[0][0:40]), None, total),
      "match_layout": lambda res: spec_match_bytes_ok(res[0][0:40], mi, mi.W),
      "length": lambda res: res[1] == total and len(res[0]) == total,
      "consumed": lambda res: res[2] == total,
      "round_trip": lambda res: res[3] == True,
      "re_encode": lambda res: res[4] == res[0],
    })
  unit(P, target=MOD + cname + ".pack/unpack/__len__/__eq__", name=cname)(u)


_mk_match_body("ofp_flow_stats_request", 44)
_mk_match_body("ofp_aggregate_stats_request", 44)


@unit(P, target=MOD + "ofp_port_status.pack/unpack/__len__/__eq__")
def ofp_port_status(b):
  o = b.new(of.ofp_port_status)
  vals = {}
  set_scalars(b, o, TABLES["ofp_port_status"], "", vals)
  pspec = build_obj(b, "ofp_phy_port", "desc.")
  b.set(o, "desc", pspec[0])
  t = no_sub(TABLES["ofp_port_status"], "desc")
  return Case(_rt_message, [o], ensures={
    "layout": lambda res: res[0] == layout(t, dict(vals, desc=enc(pspec)), 12, 64),
    "length": lambda res: res[1] == 64 and len(res[0]) == 64,
    "consumed": lambda res: res[2] == 64,
    "round_trip": lambda res: res[3] == True,
    "re_encode": lambda res: res[4] == res[0],
  })


# ---------------------------------------------------------------- packet-in (payload tail, derived length)

@unit(P, target=MOD + "ofp_packet_in.pack/unpack/__len__/__eq__")
def ofp_packet_in(b):
  o = b.new(of.ofp_packet_in)
  vals = {}
  set_scalars(b, o, TABLES["ofp_packet_in"], "", vals, {"buffer_id": "_buffer_id", "total_len": "_total_len"})
  data = b.bytes("data", None, 0, 65535 - 18)
  b.set(o, "_data", data)
  vals["data"] = data
  n = len(data) if b.mode == "conc" else data.length()
  b.assume(vals["total_len"] >= n)          # what _validate accepts
  total = 18 + n
  return Case(_rt_message, [o], ensures={
    "layout": lambda res: res[0] == layout(TABLES["ofp_packet_in"], vals, 10, total),
    "length": lambda res: res[1] == total and len(res[0]) == total,
    "consumed": lambda res: res[2] == total,
    "round_trip": lambda res: res[3] == True,
    "re_encode": lambda res: res[4] == res[0],
  })


# ---------------------------------------------------------------- lists (bounded length)

def mk_actions(b, shape):
  specs = []
  for i, cname in enumerate(shape):
    if cname == "ofp_action_output":
      s = build_obj(b, cname, "a%d." % i, 0)
      # pack() normalises max_len to 0 unless the port is the controller port (documented behaviour)
      b.assume(b.Or(s[1]["port"] == 0xfffd, s[1]["max_len"] == 0))
    else:
      s = build_obj(b, cname, "a%d." % i, ACTION_TYPE.get(cname))
      codes = {"ofp_action_dl_addr": (4, 5), "ofp_action_nw_addr": (6, 7), "ofp_action_tp_port": (9, 10)}.get(cname)
      if codes:
        # these classes serve two action types; the type is a field and must be one of the two codes
        b.assume(b.Or(s[1]["type"] == codes[0], s[1]["type"] == codes[1]))
    specs.append(s)
  return specs


ACTION_SHAPES = [(), ("ofp_action_output",), ("ofp_action_dl_addr", "ofp_action_output"),
                 ("ofp_action_nw_tos", "ofp_action_enqueue")]


def _rt_packet_out(o):
  p = o.pack()
  r, o2 = of.ofp_packet_out.unpack_new(b"\xaa\xbb\xcc" + p + b"\xdd\xee", 3)
  return (p, len(o), r - 3, o2 == o, o2.pack(), o2.data)


def _mk_packet_out(shape, idx):
  def u(b):
    o = b.new(of.ofp_packet_out)
    vals = {}
    set_scalars(b, o, TABLES["ofp_packet_out"], "", vals, {"buffer_id": "_buffer_id"})
    data = b.bytes("data", None, 0, 2000)
    n = len(data) if b.mode == "conc" else data.length()
    b.assume(b.Or(vals["buffer_id"] == 0xffffffff, n == 0))    # _validate: not both a buffer id and data
    b.set(o, "_data", data)
    vals["data"] = data
    acts = mk_actions(b, shape)
    b.set(o, "actions", b.list([a[0] for a in acts]))
    alen = sum([a[2] for a in acts])
    total = 16 + alen + n
    return Case(_rt_packet_out, [o], ensures={
      "layout": lambda res: res[0] == layout(TABLES["ofp_packet_out"],
                                             dict(vals, actions=[enc(a) for a in acts], **{"#len:actions": alen}), 13, total),
      "length": lambda res: res[1] == total and len(res[0]) == total,
      "consumed": lambda res: res[2] == total,
      "round_trip": lambda res: res[3] == True,
      "payload_kept": lambda res: res[5] == data,
      "re_encode": lambda res: res[4] == res[0],
    })
  unit(P, target=MOD + "ofp_packet_out.pack/unpack/__len__/__eq__", name="ofp_packet_out_%d" % idx)(u)
  u.bound = LISTS


for _i, _s in enumerate(ACTION_SHAPES):
  _mk_packet_out(_s, _i)


def _rt_flow_mod(o):
  p = o.pack()
  r, o2 = of.ofp_flow_mod.unpack_new(b"\xaa\xbb\xcc" + p + b"\xdd\xee", 3)
  return (p, len(o), r - 3, o2 == o, o2.pack())


def _mk_flow_mod(shape, idx):
  def u(b):
    o = b.new(of.ofp_flow_mod)
    vals = {}
    set_scalars(b, o, TABLES["ofp_flow_mod"], "", vals, {"buffer_id": "_buffer_id"})
    m, mi = build_match(b)
    b.assume(prereq_ok(b, mi))
    b.set(o, "match", m)
    acts = mk_actions(b, shape)
    b.set(o, "actions", b.list([a[0] for a in acts]))
    total = 72 + sum([a[2] for a in acts])
    t = no_sub(TABLES["ofp_flow_mod"], "match")
    return Case(_rt_flow_mod, [o], ensures={
      "layout": lambda res: res[0] == layout(t, dict(vals, match=res[0][8:48], actions=[enc(a) for a in acts]), 14, total),
      "match_fields": lambda res: spec_match_fields_only(res[0][8:48], mi),
      "length": lambda res: res[1] == total and len(res[0]) == total,
      "consumed": lambda res: res[2] == total,
      "round_trip": lambda res: res[3] == True,
      "re_encode": lambda res: res[4] == res[0],
    })
  unit(P, target=MOD + "ofp_flow_mod.pack/unpack/__len__/__eq__", name="ofp_flow_mod_%d" % idx)(u)
  u.bound = LISTS


for _i, _s in enumerate(ACTION_SHAPES):
  _mk_flow_mod(_s, _i)


def _mk_flow_stats(shape, idx):
  def u(b):
    o = b.new(of.ofp_flow_stats)
    vals = {}
    set_scalars(b, o, TABLES["ofp_flow_stats"], "", vals)
    m, mi = build_match(b)
    b.assume(prereq_ok(b, mi))
    b.set(o, "match", m)
    acts = mk_actions(b, shape)
    b.set(o, "actions", b.list([a[0] for a in acts]))
    total = 88 + sum([a[2] for a in acts])
    t = no_sub(TABLES["ofp_flow_stats"], "match")
    return Case(_rt_stats, [o], ensures={
      "layout": lambda res: res[0] == layout(t, dict(vals, match=res[0][4:44], actions=[enc(a) for a in acts]), None, total),
      "match_layout": lambda res: spec_match_bytes_ok(res[0][4:44], mi, mi.W),
      "length": lambda res: res[1] == total and len(res[0]) == total,
      "consumed": lambda res: res[2] == total,
      "round_trip": lambda res: res[3] == True,
      "re_encode": lambda res: res[4] == res[0],
    })
  unit(P, target=MOD + "ofp_flow_stats.pack/unpack/__len__/__eq__", name="ofp_flow_stats_%d" % idx)(u)
  u.bound = LISTS


for _i, _s in enumerate(ACTION_SHAPES[:3]):
  _mk_flow_stats(_s, _i)


def _mk_features_reply(nports):
  def u(b):
    o = b.new(of.ofp_features_reply)
    vals = {}
    set_scalars(b, o, TABLES["ofp_features_reply"], "", vals)
    ports = [build_obj(b, "ofp_phy_port", "p%d." % i) for i in range(nports)]
    b.set(o, "ports", b.list([p[0] for p in ports]))
    total = 32 + 48 * nports
    return Case(_rt_message, [o], ensures={
      "layout": lambda res: res[0] == layout(TABLES["ofp_features_reply"], dict(vals, ports=[enc(p) for p in ports]), 6, total),
      "length": lambda res: res[1] == total and len(res[0]) == total,
      "consumed": lambda res: res[2] == total,
      "round_trip": lambda res: res[3] == True,
      "re_encode": lambda res: res[4] == res[0],
    })
  unit(P, target=MOD + "ofp_features_reply.pack/unpack/__len__/__eq__", name="ofp_features_reply_%d" % nports)(u)
  u.bound = LISTS


for _n in (0, 1, 2):
  _mk_features_reply(_n)


def _queue_prop(b, kind, prefix):
  """one queue property + the bytes the specification prescribes: "min" = OFPQT_MIN_RATE (16 bytes), "none" = OFPQT_NONE
  (8 bytes: header + 4 pad bytes, which pox keeps as data), "other" = a property type pox has no class for (generic)"""
  if kind == "min":
    return build_obj(b, "ofp_queue_prop_min_rate", prefix, 1)
  table = TABLES["ofp_queue_prop_generic"]
  if kind == "none":
    o = b.new(of.ofp_queue_prop_none)
    prop = 0
    n = 4
    data = b.bytes(prefix + "data", n)
  else:
    o = b.new(of.ofp_queue_prop_generic)
    prop = b.int(prefix + "property", 2, 0xffff)
    n = 12
    data = b.bytes(prefix + "data", n)
  b.set(o, "property", prop)
  b.set(o, "data", data)
  return o, {"property": prop, "data": data}, 4 + n, table, None


def _mk_queue_reply(nqueues, nprops, kinds=None):
  def u(b):
    o = b.new(of.ofp_queue_get_config_reply)
    vals = {}
    set_scalars(b, o, TABLES["ofp_queue_get_config_reply"], "", vals)
    queues = []
    qobjs = []
    for qi in range(nqueues):
      q = b.new(of.ofp_packet_queue)
      qv = {}
      set_scalars(b, q, TABLES["ofp_packet_queue"], "q%d." % qi, qv)
      props = [_queue_prop(b, (kinds or ["min"] * nprops)[pi], "q%d.p%d." % (qi, pi)) for pi in range(nprops)]
      b.set(q, "properties", b.list([p[0] for p in props]))
      queues.append((qv, props))
      qobjs.append(q)
    b.set(o, "queues", b.list(qobjs))
    qlen = 8 + sum([{"min": 16, "none": 8, "other": 16}[x] for x in (kinds or ["min"] * nprops)])
    total = 16 + nqueues * qlen
    return Case(_rt_message, [o], ensures={
      "layout": lambda res: res[0] == layout(
        TABLES["ofp_queue_get_config_reply"],
        dict(vals, queues=[layout(TABLES["ofp_packet_queue"], dict(qv, properties=[enc(p) for p in props]), None, qlen)
                           for (qv, props) in queues]), 21, total),
      "length": lambda res: res[1] == total and len(res[0]) == total,
      "consumed": lambda res: res[2] == total,
      "round_trip": lambda res: res[3] == True,
      "re_encode": lambda res: res[4] == res[0],
    })
  unit(P, target=MOD + "ofp_queue_get_config_reply/ofp_packet_queue/_unpack_queue_props",
       name="ofp_queue_get_config_reply_%dq%dp%s" % (nqueues, nprops, "_" + "_".join(kinds) if kinds else ""))(u)
  u.bound = LISTS


for _q, _p in ((0, 0), (1, 0), (1, 2), (2, 1)):
  _mk_queue_reply(_q, _p)
# property lists ending in an 8-byte property / a property type without a class of its own
_mk_queue_reply(1, 1, ["none"])
_mk_queue_reply(2, 2, ["min", "none"])
_mk_queue_reply(1, 2, ["other", "min"])


# ---------------------------------------------------------------- vendor action, description statistics

from contracts.c01_codec import make_unit, _rt_action2   # noqa
make_unit("ofp_action_vendor_generic", "action", 0xffff)


def _mk_desc(lengths, idx):
  def u(b):
    o = b.new(of.ofp_desc_stats)
    vals = {}
    names = ["mfr_desc", "hw_desc", "sw_desc", "serial_num", "dp_desc"]
    from contracts.c01_codec import _no_nul, _encode
    for nm, ln in zip(names, lengths):
      s = _no_nul(b, b.str(nm, ln), nm)
      b.set(o, nm, s)
      vals[nm] = _encode(b, s)
    return Case(_rt_stats, [o], ensures={
      "layout": lambda res: res[0] == layout(TABLES["ofp_desc_stats"], vals, None, 1056),
      "length": lambda res: res[1] == 1056 and len(res[0]) == 1056,
      "consumed": lambda res: res[2] == 1056,
      "round_trip": lambda res: res[3] == True,
      "re_encode": lambda res: res[4] == res[0],
    })
  unit(P, target=MOD + "ofp_desc_stats.pack/unpack/__len__/__eq__", name="ofp_desc_stats_%d" % idx)(u)
  u.bound = "text lengths fixed per unit: " + str(lengths)


for _i, _l in enumerate([(0, 0, 0, 0, 0), (7, 13, 1, 32, 40), (40, 1, 2, 3, 4)]):
  _mk_desc(_l, _i)


# ---------------------------------------------------------------- statistics request / reply envelopes

STATS_TYPE = {"desc": 0, "flow": 1, "aggregate": 2, "table": 3, "port": 4, "queue": 5, "vendor": 0xffff}


def _mk_stats_request(kind, body_cls, body_len):
  def u(b):
    o = b.new(of.ofp_stats_request)
    vals = {}
    set_scalars(b, o, [f for f in TABLES["ofp_stats_request"] if f[0] == "u" and f[2] != "type"], "", vals)
    vals["type"] = STATS_TYPE[kind]
    b.set(o, "type", STATS_TYPE[kind])
    if body_cls is None:
      body_bytes = b""
      b.set(o, "_body", b.new(getattr(of, "ofp_%s_stats_request" % kind)))
    elif body_cls in ("ofp_flow_stats_request", "ofp_aggregate_stats_request"):
      bo = b.new(getattr(of, body_cls))
      bv = {}
      set_scalars(b, bo, TABLES[body_cls], "b.", bv)
      m, mi = build_match(b)
      b.assume(prereq_ok(b, mi))
      b.set(bo, "match", m)
      b.set(o, "_body", bo)
      body_bytes = None
    else:
      spec = build_obj(b, body_cls, "b.")
      b.set(o, "_body", spec[0])
      body_bytes = spec
    total = 12 + body_len
    if body_bytes is None:
      t = no_sub(TABLES[body_cls], "match")
      lay = lambda res: res[0] == layout(TABLES["ofp_stats_request"],
                                         dict(vals, body=layout(t, dict(bv, match=res[0][12:52]), None, body_len)), 16, total) \
        and spec_match_bytes_ok(res[0][12:52], mi, mi.W)
    elif body_bytes == b"":
      lay = lambda res: res[0] == layout(TABLES["ofp_stats_request"], dict(vals, body=b""), 16, total)
    else:
      lay = lambda res: res[0] == layout(TABLES["ofp_stats_request"], dict(vals, body=enc(body_bytes)), 16, total)
    return Case(_rt_message, [o], ensures={
      "layout": lay,
      "length": lambda res: res[1] == total and len(res[0]) == total,
      "consumed": lambda res: res[2] == total,
      "round_trip": lambda res: res[3] == True,
      "re_encode": lambda res: res[4] == res[0],
    })
  unit(P, target=MOD + "ofp_stats_request.pack/unpack/__len__/__eq__", name="ofp_stats_request_" + kind)(u)


_mk_stats_request("desc", None, 0)
_mk_stats_request("table", None, 0)
_mk_stats_request("flow", "ofp_flow_stats_request", 44)
_mk_stats_request("aggregate", "ofp_aggregate_stats_request", 44)
_mk_stats_request("port", "ofp_port_stats_request", 8)
_mk_stats_request("queue", "ofp_queue_stats_request", 8)


def _mk_stats_reply(kind, body_cls, count):
  """reply whose body is `count` entries of body_cls (count None: a single non-list body)"""
  def u(b):
    o = b.new(of.ofp_stats_reply)
    vals = {}
    set_scalars(b, o, [f for f in TABLES["ofp_stats_reply"] if f[0] == "u" and f[2] != "type"], "", vals)
    vals["type"] = STATS_TYPE[kind]
    b.set(o, "type", STATS_TYPE[kind])
    n = 1 if count is None else count
    specs = [build_obj(b, body_cls, "e%d." % i) for i in range(n)]
    if count is None:
      b.set(o, "body", specs[0][0])
    else:
      b.set(o, "body", b.list([s[0] for s in specs]))
    total = 12 + sum([s[2] for s in specs])
    return Case(_rt_message, [o], ensures={
      "layout": lambda res: res[0] == layout(TABLES["ofp_stats_reply"],
                                             dict(vals, body=b"".join([enc(s) for s in specs])), 17, total),
      "length": lambda res: res[1] == total and len(res[0]) == total,
      "consumed": lambda res: res[2] == total,
      "round_trip": lambda res: res[3] == True,
      "re_encode": lambda res: res[4] == res[0],
    })
  nm = "ofp_stats_reply_%s_%s" % (kind, "single" if count is None else count)
  unit(P, target=MOD + "ofp_stats_reply.pack/unpack/__len__/__eq__", name=nm)(u)
  if count is not None:
    u.bound = LISTS


_mk_stats_reply("aggregate", "ofp_aggregate_stats", None)
for _k, _c in (("port", "ofp_port_stats"), ("queue", "ofp_queue_stats"), ("table", "ofp_table_stats")):
  for _n in (0, 1, 2):
    _mk_stats_reply(_k, _c, _n)
