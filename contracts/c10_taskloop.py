"""C10 / C09 / C02 - the controller's accept/read loop OpenFlow_01_Task.run (added 2026-09-25, when the evaluator learnt to
run generators).  The harness plays the scheduler: it resumes the generator with the (rlist, wlist, elist) a select would
report.  The listening socket, accepted sockets and Connection objects are recording stand-ins (sockets and the
Connection constructor are callees); every line of the loop itself - select set maintenance, dispatch to read(), the
`except:` handler that decides between closing one connection and leaving the loop - is the repository's code.

Stated: whatever one connection's read() does (returns True, returns False, raises any of the exceptions the decoders /
handlers raise), the loop goes back to Select; a connection whose read() fails is closed once and dropped from the select set;
every other connection stays in the select set untouched and is read when select reports it; only an error on the LISTENING
socket ends the loop."""
from pyvc.api import unit, Case, CallSpec
import pox.openflow.of_01 as of_01
import pox.openflow.libopenflow_01 as of
from pox.openflow.of_01 import OpenFlow_01_Task
from pox.lib.recoco.recoco import Select

P = "C10"
OF01 = "pox.openflow.of_01:"


class Trace(object):
  def __init__(self):
    self.log = []


class CoreStub(object):
  running = True


class ListenerStub(object):
  def setsockopt(self, *a):
    pass

  def bind(self, addr):
    self.trace.log.append(("bind", addr))

  def listen(self, n):
    pass

  def setblocking(self, f):
    pass

  def accept(self):
    self.trace.log.append(("accept",))
    return (self.accepted, ("192.0.2.1", 40000))

  def close(self):
    self.trace.log.append(("close", "listener"))

  def info(self, msg):
    pass


class SockStub(object):
  def setblocking(self, f):
    pass


class ConStub(object):
  """what the loop uses of a Connection: read(), close(), idle_time, info(), str()"""
  def __str__(self):
    return "[con %s]" % self.name

  def read(self):
    self.trace.log.append(("read", self.name))
    o = self.outcome
    if o == "more":
      return True
    if o == "closed":
      return False
    if o == "assert":
      raise AssertionError("length mismatch in a message body")
    if o == "underrun":
      raise of.UnderrunError()
    if o == "index":
      raise IndexError("list index out of range")
    if o == "handler":
      raise RuntimeError("a message handler failed")
    if o == "reset":
      raise ConnectionResetError(104, "Connection reset by peer")
    if o == "unreachable":
      raise OSError(113, "No route to host")       # an errno without an OSError subclass of its own: exactly socket.error
    return None

  def close(self):
    self.trace.log.append(("close", self.name))

  def info(self, msg):
    pass


OUTCOMES = ["more", "closed", "none", "assert", "underrun", "index", "handler", "reset", "unreachable"]
_POOL = {}


class NewConnection(CallSpec):
  """Connection(sock): the constructor is a callee (C09 units); the k-th call returns the k-th stand-in"""
  def __init__(self, pool):
    CallSpec.__init__(self, "contract", envelope="Connection(sock): a new connection object (constructor: C09 units)")
    self.pool = pool

  def apply(self, I, f, args, kws, st, ctx, k, node):
    n = st.ghost.get("ncons", 0)
    st.ghost["ncons"] = n + 1
    return k(st, self.pool[n])


def select_set(y):
  """(what the loop asks select to watch, timeout) - a copy, the loop keeps mutating its own list"""
  if type(y) is not Select:
    return ("not a Select", y)
  return ([s for s in y._args[0]], [s for s in y._args[2]], y._args[3])


def drive(task, rounds):
  g = task.run()
  asked = [select_set(next(g))]
  ended = False
  for (r, e) in rounds:
    # a select reports a subset of what it was asked to watch
    watched = asked[-1][0]
    r = [x for x in r if any([x is w for w in watched])]
    e = [x for x in e if any([x is w for w in watched])]
    try:
      asked.append(select_set(g.send((r, [], e))))
    except StopIteration:
      ended = True
      break
  return (asked, ended)


def env(b):
  tr = b.raw_new(Trace, log=b.list([]))
  listener = b.raw_new(ListenerStub, trace=tr, accepted=b.raw_new(SockStub))
  outcomes = [b.choice("con%s.read" % n, OUTCOMES) for n in "AB"]
  # `disconnected`: a send on this connection may already have failed (Connection.send marks it and leaves the close - which
  # announces the loss - to this loop): what the loop does with a readable connection must not depend on it (sixth round,
  # 2026-09-25: a seeded change dropped such connections from the select set WITHOUT closing them)
  cons = [b.raw_new(ConStub, trace=tr, name=n, outcome=outcomes[i], idle_time=None, dpid=None,
                    disconnected=b.bool("con%s.already_marked_disconnected" % n)) for i, n in enumerate("AB")]
  task = b.raw_new(OpenFlow_01_Task, port=6633, address="0.0.0.0", started=True, ssl_key=None, ssl_cert=None, ssl_ca_cert=None,
                   id=1, priority=1)
  now = b.real("now", 0, 1000000)
  cs = {}
  if b.mode == "sym":
    b.st.ghost[("$global", "pox.openflow.of_01", "core")] = b.raw_new(CoreStub)
    cs = {"socket:socket": CallSpec("contract", returns=lambda I, st, a, k: listener, envelope="socket.socket(): the listening socket"),
          OF01 + "Connection": NewConnection(cons),
          "time:time": CallSpec("assumed", returns=lambda I, st, a, k: now, envelope="clock")}
  else:
    of_01.core = CoreStub()
    class _S(object):
      def __getattr__(self, name):
        import socket as _s
        return getattr(_s, name)
      def socket(self, *a):
        return listener
    of_01.socket = _S()
    it = iter(cons)
    of_01.Connection = lambda sock: next(it)
    of_01.time.time = lambda: now
  return tr, listener, cons, outcomes, task, cs


@unit(P, target=OF01 + "OpenFlow_01_Task.run")
def a_failing_connection_is_closed_alone_and_the_loop_goes_on(b):
  tr, listener, cons, outcomes, task, cs = env(b)
  A, B = cons
  rounds = [([listener], []), ([listener], []), ([A, B], []), ([B], [])]
  oa, ob = outcomes
  keeps = lambda o: o in ("more", "none")
  raises_ = lambda o: o not in ("more", "none", "closed")
  def expected_log():
    out = [("bind", ("0.0.0.0", 6633)), ("accept",), ("accept",), ("read", "A")]
    b_read = True
    if not keeps(oa):
      out += [("close", "A")]
      b_read = not raises_(oa)      # an exception ends this round; a connection that reports closed does not
    b_alive = True
    if b_read:
      out += [("read", "B")]
      if not keeps(ob):
        out += [("close", "B")]
        b_alive = False
    # last round: select reports B if it is still watched
    if b_alive:
      out += [("read", "B")]
      if not keeps(ob):
        out += [("close", "B")]
    return out
  def watched_after_round3():
    w = [listener]
    if keeps(oa):
      w += [A]
    if raises_(oa) or keeps(ob):
      w += [B]
    return w
  return Case(drive, [task, rounds], calls=cs, raises={}, ensures={
    "the_loop_never_ends_because_of_a_connection": lambda res: res[1] is False and len(res[0]) == 5,
    "it_always_goes_back_to_select_on_the_watched_sockets_with_a_timeout":
      lambda res: all([len(x) == 3 and x[0] == x[1] and x[2] == 5 for x in res[0]]),
    "accepted_connections_join_the_select_set":
      lambda res: res[0][0][0] == [listener] and res[0][1][0] == [listener, A] and res[0][2][0] == [listener, A, B],
    "a_connection_whose_read_fails_or_reports_closed_is_dropped_from_the_select_set_the_other_one_stays":
      lambda res: res[0][3][0] == watched_after_round3(),
    "reads_and_closes_happen_exactly_as_select_reported_and_each_failing_connection_is_closed_once":
      lambda res: [e for e in tr.log] == expected_log(),
  })
a_failing_connection_is_closed_alone_and_the_loop_goes_on.bound = \
  "two connections accepted, then both readable, then the second; each read() outcome any of: True, False, None, " \
  "AssertionError, UnderrunError, IndexError, a handler's RuntimeError, ConnectionResetError, OSError(EHOSTUNREACH)"


@unit(P, target=OF01 + "OpenFlow_01_Task.run (exceptional sockets)")
def sockets_reported_in_error_are_closed_and_dropped(b):
  tr, listener, cons, outcomes, task, cs = env(b)
  A, B = cons
  which = b.choice("in_error", ["A", "B", "listener"])
  bad = A if which == "A" else B if which == "B" else listener
  if b.mode == "sym":
    from pyvc.values import Union
    bad = Union([(g, {"A": A, "B": B, "listener": listener}[v]) for g, v in which.alts])
  rounds = [([listener], []), ([listener], []), ([], [bad]), ([], [])]
  return Case(drive, [task, rounds], calls=cs, raises={}, ensures={
    "an_error_on_a_connection_closes_and_drops_exactly_that_connection":
      lambda res: which == "listener" or (res[1] is False and res[0][3][0] == ([listener, B] if which == "A" else [listener, A])
                                          and [e for e in tr.log][3:] == [("close", which)]),
    "an_error_on_the_listening_socket_ends_the_loop":
      lambda res: which != "listener" or res[1] is True,
  })
sockets_reported_in_error_are_closed_and_dropped.bound = "two connections; one socket reported in error"


unit("C20", target=OF01 + "OpenFlow_01_Task.run", name="a_connection_marked_dead_by_a_failed_send_is_still_read_and_closed_by_the_loop")(
  a_failing_connection_is_closed_alone_and_the_loop_goes_on)
